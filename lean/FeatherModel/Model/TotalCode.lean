import FeatherModel.Model.TotalAnno

/-!
# C16 — `read_code` (`duke/src/class_reader.rs`) and `Labels` (`class_reader/labels.rs`) with every unchecked
operation explicit

The model is *value free*: it computes whether `read_code` returns `Ok`, returns `Err` or panics (and where), plus the
allocation account.  It is complete for the harness' wrapper class (constant pool `Total.Wrap.pool`, one method whose
only attribute is the `Code` attribute given in the request).

* The bytecode is traversed twice, as in the Rust code, by two *independent* decoders: `pass1Step` (label creation;
  operands are `skip`ped, so the cursor can run past the end) and `pass2Step` (decoding; operands are read).
  A cursor is `(pos, rest, len)`: `pos` is `Cursor::position()`, `rest` the bytes from `pos` on (empty when
  `pos >= len`), `len` the length of the bytecode.
* `Labels` keeps the set of labelled offsets as a bit set (`Nat`) and the id counter `max_id`.
* Both loops consume at least the opcode byte per iteration: fuel `len` suffices (`Lemmas/TotalCode.lean`,
  `pass1_fuel` / `pass2_fuel`: more fuel never changes the result).
-/

namespace Total.Code

open TM Wrap

/-! ## `Labels` -/

structure Labels where
  codeLength : Nat
  set : Nat
  count : Nat
  deriving Repr, Inhabited, DecidableEq

namespace Labels

/-- `Labels::new`: `HashMap::with_capacity(code_length / 3)` -/
def new (codeLength : Nat) : TM Labels := do
  request (codeLength / 3)
  pure ⟨codeLength, 0, 0⟩

def has (l : Labels) (pc : Nat) : Bool := l.set.testBit pc

/-- `get_or_add_unchecked`: a fresh label gets id `max_id as u16`, then `self.max_id += 1`; since 4853513 the counter
is a `u32` and there are at most 65536 offsets: no overflow (former site 2) -/
def addUnchecked (l : Labels) (pc : Nat) : TM Labels :=
  if l.has pc then pure l
  else pure { l with set := l.set ||| (1 <<< pc), count := l.count + 1 }

/-- `create` / `get_or_create`: `pc >= code_length` is an error -/
def getOrCreate (l : Labels) (pc : Nat) : TM Labels := do
  guard (pc < l.codeLength)
  addUnchecked l pc

/-- `get_or_create_check_exclusive`: `pc > code_length` is an error -/
def getOrCreateExcl (l : Labels) (pc : Nat) : TM Labels := do
  guard (pc ≤ l.codeLength)
  addUnchecked l pc

/-- `get_or_create_range`: `start`, then `start_pc.checked_add(length)` (e3534dd: an error, former site 1), then the
exclusive check -/
def getOrCreateRange (l : Labels) (start length : Nat) : TM Labels := do
  let l ← getOrCreate l start
  guard (start + length ≤ 65535)
  getOrCreateExcl l (start + length)

/-- `try_get` -/
def tryGet (l : Labels) (pc : Nat) : TM Unit := guard (l.has pc)

/-- labels at the offsets `0 … k-1`, one `get_or_add_unchecked` each (used by the witness of site 2) -/
def addRange (l : Labels) : Nat → TM Labels
  | 0 => pure l
  | k + 1 => do
    let l ← addRange l k
    l.addUnchecked k

end Labels

/-! ## cursor over the bytecode -/

structure Cur where
  pos : Nat
  rest : Bytes
  len : Nat
  deriving Repr, Inhabited

namespace Cur

def start (code : Bytes) : Cur := ⟨0, code, code.length⟩

/-- the first `k` bytes and the rest; `none` when fewer than `k` are left -/
def splitExact : Nat → Bytes → Option (Bytes × Bytes)
  | 0, s => some ([], s)
  | _ + 1, [] => none
  | k + 1, a :: s => (splitExact k s).map fun (x, r) => (a :: x, r)

/-- `read_exact` of `k` bytes -/
def take (k : Nat) (c : Cur) : TM (Bytes × Cur) :=
  match splitExact k c.rest with
  | some (x, r) => pure (x, { c with pos := c.pos + k, rest := r })
  | none => fail

def u8 (c : Cur) : TM (Nat × Cur) := do
  let (b, c) ← c.take 1
  match b with | [a] => pure (byte a, c) | _ => fail

def u16 (c : Cur) : TM (Nat × Cur) := do
  let (b, c) ← c.take 2
  match b with | [a, b] => pure (byte a * 256 + byte b, c) | _ => fail

def i16 (c : Cur) : TM (Int × Cur) := do
  let (n, c) ← c.u16
  pure (toI16 n, c)

def i32 (c : Cur) : TM (Int × Cur) := do
  let (b, c) ← c.take 4
  match b with | [a, b, x, d] => pure (toI32 (((byte a * 256 + byte b) * 256 + byte x) * 256 + byte d), c) | _ => fail

/-- `skip(n)` = `seek(SeekFrom::Current(n))`: no bounds check -/
def skip (k : Nat) (c : Cur) : Cur := { c with pos := c.pos + k, rest := c.rest.drop k }

/-- `align_to_4_byte_boundary`: `marker() & 0b11` selects how many padding bytes are *read* -/
def align (c : Cur) : TM Cur := do
  let m := c.pos % 4
  check Sites.alignUnreachable (m < 4)
  let (_, c) ← c.take (if m = 0 then 0 else 4 - m)
  pure c

/-- `read_i16_as_branch_target_label`: `opcode_pos.checked_add_signed(branch)` -/
def branch16 (opcodePos : Nat) (c : Cur) : TM (Nat × Cur) := do
  let (off, c) ← c.i16
  let t : Int := (opcodePos : Int) + off
  if 0 ≤ t ∧ t ≤ 65535 then pure (t.toNat, c) else fail

/-- `read_i32_as_branch_target_label`: `u32::checked_add_signed`, then `u16::try_from` -/
def branch32 (opcodePos : Nat) (c : Cur) : TM (Nat × Cur) := do
  let (off, c) ← c.i32
  let t : Int := (opcodePos : Int) + off
  if 0 ≤ t ∧ t ≤ 65535 then pure (t.toNat, c) else fail

end Cur

/-! ## shared arithmetic of both switch arms -/

/-- `high.checked_sub(low).and_then(|n| n.checked_add(1))` after `low <= high` (repaired by 52b8362) -/
def tableCount (low high : Int) : TM Nat :=
  if low > high then fail
  else if high - low > 2147483646 then fail
  else pure (high - low + 1).toNat

/-- `npairs` -/
def pairCount (n : Int) : TM Nat := if n < 0 then fail else pure n.toNat

/-! ## first pass: create the labels of all branch targets -/

/-- operand bytes skipped by the plain arms of the first pass; `none` = not a plain arm -/
def skipOf (op : Nat) : Option Nat :=
  if op ≤ 15 ∨ (26 ≤ op ∧ op ≤ 53) ∨ (59 ≤ op ∧ op ≤ 131) ∨ (133 ≤ op ∧ op ≤ 152) ∨ (172 ≤ op ∧ op ≤ 177)
      ∨ op = 190 ∨ op = 191 ∨ op = 194 ∨ op = 195 then some 0
  else if op = 16 ∨ op = 18 ∨ (21 ≤ op ∧ op ≤ 25) ∨ (54 ≤ op ∧ op ≤ 58) ∨ op = 169 ∨ op = 188 then some 1
  else if op = 17 ∨ op = 19 ∨ op = 20 ∨ op = 132 ∨ (178 ≤ op ∧ op ≤ 184) ∨ op = 187 ∨ op = 189 ∨ op = 192 ∨ op = 193 then some 2
  else if op = 197 then some 3
  else if op = 185 ∨ op = 186 then some 4
  else none

/-- operand bytes skipped after `wide <op>` -/
def wideSkipOf (op : Nat) : Option Nat :=
  if (21 ≤ op ∧ op ≤ 25) ∨ (54 ≤ op ∧ op ≤ 58) ∨ op = 169 then some 2
  else if op = 132 then some 4
  else none

def isBranch16 (op : Nat) : Bool := (153 ≤ op && op ≤ 168) || op == 198 || op == 199
def isBranch32 (op : Nat) : Bool := op == 200 || op == 201

def pass1Table (opcodePos : Nat) : Nat → Labels → Cur → TM (Labels × Cur)
  | 0, l, c => pure (l, c)
  | n + 1, l, c => do
    let (t, c) ← c.branch32 opcodePos
    let l ← l.getOrCreate t
    pass1Table opcodePos n l c

def pass1Pairs (opcodePos : Nat) : Nat → Labels → Cur → TM (Labels × Cur)
  | 0, l, c => pure (l, c)
  | n + 1, l, c => do
    let (_, c) ← c.i32
    let (t, c) ← c.branch32 opcodePos
    let l ← l.getOrCreate t
    pass1Pairs opcodePos n l c

/-- one iteration of the first `while`: the closure body -/
def pass1Step (l : Labels) (c : Cur) : TM (Labels × Cur) := do
  let opcodePos := c.pos
  let (op, c) ← c.u8
  match skipOf op with
  | some k => pure (l, c.skip k)
  | none =>
    if op = 196 then do
      let (w, c) ← c.u8
      match wideSkipOf w with
      | some k => pure (l, c.skip k)
      | none => fail
    else if isBranch16 op then do
      let (t, c) ← c.branch16 opcodePos
      let l ← l.getOrCreate t
      pure (l, c)
    else if isBranch32 op then do
      let (t, c) ← c.branch32 opcodePos
      let l ← l.getOrCreate t
      pure (l, c)
    else if op = 170 then do
      let c ← c.align
      let (t, c) ← c.branch32 opcodePos
      let l ← l.getOrCreate t
      let (low, c) ← c.i32
      let (high, c) ← c.i32
      let n ← tableCount low high
      pass1Table opcodePos n l c
    else if op = 171 then do
      let c ← c.align
      let (t, c) ← c.branch32 opcodePos
      let l ← l.getOrCreate t
      let (n, c) ← c.i32
      let n ← pairCount n
      pass1Pairs opcodePos n l c
    else fail

/-- `while position < len { … }`, then `position != len => bail!` (the repair of the truncated last instruction) -/
def pass1 : Nat → Labels → Cur → TM Labels
  | 0, l, c => if c.pos = c.len then pure l else fail
  | fuel + 1, l, c =>
    if c.pos < c.len then do
      let (l, c) ← pass1Step l c
      pass1 fuel l c
    else if c.pos = c.len then pure l else fail

/-! ## second pass: decode -/

/-- operand bytes *read* by the plain arms of the second pass, and the constant-pool test applied to them -/
inductive Operand where
  | none_ | imm (k : Nat) | ldc1 | ldc2 | field | method | anyMethod | iface | indy | cls | newarray | multi
  deriving DecidableEq, Repr

def operandOf (op : Nat) : Option Operand :=
  if op ≤ 15 then some .none_
  else if op = 16 then some (.imm 1)
  else if op = 17 then some (.imm 2)
  else if op = 18 then some .ldc1
  else if op = 19 ∨ op = 20 then some .ldc2
  else if 21 ≤ op ∧ op ≤ 25 then some (.imm 1)
  else if 46 ≤ op ∧ op ≤ 53 then some .none_
  else if 54 ≤ op ∧ op ≤ 58 then some (.imm 1)
  else if 79 ≤ op ∧ op ≤ 131 then some .none_
  else if op = 132 then some (.imm 2)
  else if 133 ≤ op ∧ op ≤ 152 then some .none_
  else if op = 169 then some (.imm 1)
  else if 172 ≤ op ∧ op ≤ 177 then some .none_
  else if 178 ≤ op ∧ op ≤ 181 then some .field
  else if op = 182 then some .method
  else if op = 183 ∨ op = 184 then some .anyMethod
  else if op = 185 then some .iface
  else if op = 186 then some .indy
  else if op = 187 ∨ op = 189 ∨ op = 192 ∨ op = 193 then some .cls
  else if op = 188 then some .newarray
  else if op = 190 ∨ op = 191 ∨ op = 194 ∨ op = 195 then some .none_
  else if op = 197 then some .multi
  else none

def Operand.size : Operand → Nat
  | .none_ => 0 | .imm k => k | .ldc1 => 1 | .ldc2 => 2 | .field => 2 | .method => 2 | .anyMethod => 2
  | .iface => 4 | .indy => 4 | .cls => 2 | .newarray => 1 | .multi => 3

def readOperand (o : Operand) (c : Cur) : TM Cur :=
  match o with
  | .none_ => pure c
  | .imm k => do let (_, c) ← c.take k; pure c
  | .ldc1 => do let (i, c) ← c.u8; guard (loadableOk i); pure c
  | .ldc2 => do let (i, c) ← c.u16; guard (loadableOk i); pure c
  | .field => do let (i, c) ← c.u16; guard (fieldRefOk i); pure c
  | .method => do let (i, c) ← c.u16; guard (methodRefOk i); pure c
  | .anyMethod => do let (i, c) ← c.u16; guard (anyMethodRefOk i); pure c
  | .iface => do let (i, c) ← c.u16; guard (ifaceMethodRefOk i); let (_, c) ← c.take 2; pure c
  | .indy => do let (_, _) ← c.u16; fail            -- the wrapper pool has no InvokeDynamic constant
  | .cls => do let (i, c) ← c.u16; guard (classOk i); pure c
  | .newarray => do let (t, c) ← c.u8; guard (4 ≤ t && t ≤ 11); pure c
  | .multi => do let (i, c) ← c.u16; guard (classOk i); let (_, c) ← c.take 1; pure c

/-- `opcode @ ILOAD_0..=ALOAD_3` / `ISTORE_0..=ASTORE_3`: `shifted = opcode - base0`, `opcode = base + (shifted >> 2)`,
then a `match` with `unreachable!()` -/
def loadStoreN (subSite addSite unreachableSite : Nat) (base0 base : Nat) (op : Nat) : TM Unit := do
  let shifted ← subU subSite op base0
  let o ← addU8 addSite base (shifted / 4)
  check unreachableSite (base ≤ o && o ≤ base + 4)

def pass2Table (l : Labels) (opcodePos : Nat) : Nat → Cur → TM Cur
  | 0, c => pure c
  | n + 1, c => do
    let (t, c) ← c.branch32 opcodePos
    l.tryGet t
    pass2Table l opcodePos n c

def pass2Pairs (l : Labels) (opcodePos : Nat) : Nat → Cur → TM Cur
  | 0, c => pure c
  | n + 1, c => do
    let (_, c) ← c.i32
    let (t, c) ← c.branch32 opcodePos
    l.tryGet t
    pass2Pairs l opcodePos n c

def pass2Step (l : Labels) (c : Cur) : TM Cur := do
  let opcodePos := c.pos
  let (op, c) ← c.u8
  match operandOf op with
  | some o => readOperand o c
  | none =>
    if 26 ≤ op ∧ op ≤ 45 then do
      loadStoreN Sites.iloadSub Sites.iloadAdd Sites.iloadUnreachable 26 21 op
      pure c
    else if 59 ≤ op ∧ op ≤ 78 then do
      loadStoreN Sites.istoreSub Sites.istoreAdd Sites.istoreUnreachable 59 54 op
      pure c
    else if isBranch16 op then do
      let (t, c) ← c.branch16 opcodePos
      l.tryGet t
      pure c
    else if isBranch32 op then do
      let (t, c) ← c.branch32 opcodePos
      l.tryGet t
      pure c
    else if op = 170 then do
      let c ← c.align
      let (t, c) ← c.branch32 opcodePos
      l.tryGet t
      let (low, c) ← c.i32
      let (high, c) ← c.i32
      let n ← tableCount low high
      request n                                    -- site 33: `Vec::with_capacity(n as usize)`
      pass2Table l opcodePos n c
    else if op = 171 then do
      let c ← c.align
      let (t, c) ← c.branch32 opcodePos
      l.tryGet t
      let (n, c) ← c.i32
      let n ← pairCount n
      request n                                    -- site 34
      pass2Pairs l opcodePos n c
    else if op = 196 then do
      let (w, c) ← c.u8
      if (21 ≤ w ∧ w ≤ 25) ∨ (54 ≤ w ∧ w ≤ 58) ∨ w = 169 then do let (_, c) ← c.take 2; pure c
      else if w = 132 then do let (_, c) ← c.take 4; pure c
      else fail
    else fail

/-- `while !r.get_ref()[(r.position() as usize)..].is_empty() { … }` -/
def pass2 (l : Labels) : Nat → Cur → TM Unit
  | 0, c => do
    check Sites.sliceCode (c.pos ≤ c.len)
    if c.pos < c.len then fail else pure ()       -- fuel exhausted: unreachable (`pass2_fuel`)
  | fuel + 1, c => do
    check Sites.sliceCode (c.pos ≤ c.len)
    if c.pos < c.len then do
      let c ← pass2Step l c
      pass2 l fuel c
    else pure ()

/-! ## exception table and attributes -/

def readException (l : Labels) (s : Bytes) : TM (Labels × Bytes) := do
  let (a, s) ← u16 s
  let l ← l.getOrCreate a
  let (b, s) ← u16 s
  let l ← l.getOrCreateExcl b
  let (h, s) ← u16 s
  let l ← l.getOrCreate h
  let (c, s) ← u16 s
  guard (c = 0 || classOk c)
  pure (l, s)

/-- a loop over `n` table entries threading the label table -/
def loopL (body : Labels → Bytes → TM (Labels × Bytes)) : Nat → Labels → Bytes → TM (Labels × Bytes)
  | 0, l, s => pure (l, s)
  | n + 1, l, s => do
    let (l, s) ← body l s
    loopL body n l s

/-- `read_vec(size, elem)`: `Vec::with_capacity(size)` first -/
def vecL (body : Labels → Bytes → TM (Labels × Bytes)) (n : Nat) (l : Labels) (s : Bytes) : TM (Labels × Bytes) := do
  request n
  loopL body n l s

def vec16L (body : Labels → Bytes → TM (Labels × Bytes)) (l : Labels) (s : Bytes) : TM (Labels × Bytes) := do
  let (n, s) ← u16 s
  vecL body n l s

/-- `read_verification_type_info` -/
def readVType (l : Labels) (s : Bytes) : TM (Labels × Bytes) := do
  let (tag, s) ← u8 s
  if tag ≤ 6 then pure (l, s)
  else if tag = 7 then do
    let (i, s) ← u16 s
    guard (classOk i)
    pure (l, s)
  else if tag = 8 then do
    let (pc, s) ← u16 s
    let l ← l.getOrCreate pc
    pure (l, s)
  else fail

/-- `read_stack_map_frame`: the offset delta -/
def readFrame (l : Labels) (s : Bytes) : TM (Nat × Labels × Bytes) := do
  let (t, s) ← u8 s
  if t ≤ 63 then pure (t, l, s)
  else if t ≤ 127 then do
    let d ← subU Sites.frameSub64 t 64
    let (l, s) ← readVType l s
    pure (d, l, s)
  else if t ≤ 246 then fail
  else if t = 247 then do
    let (d, s) ← u16 s
    let (l, s) ← readVType l s
    pure (d, l, s)
  else if t ≤ 250 then do
    let (d, s) ← u16 s
    let _ ← subU Sites.frameChop 251 t
    pure (d, l, s)
  else if t = 251 then do
    let (d, s) ← u16 s
    pure (d, l, s)
  else if t ≤ 254 then do
    let (d, s) ← u16 s
    let k ← subU Sites.frameAppend t 251
    let (l, s) ← vecL readVType k l s
    pure (d, l, s)
  else do
    let (d, s) ← u16 s
    let (l, s) ← vec16L readVType l s
    let (l, s) ← vec16L readVType l s
    pure (d, l, s)

/-- the `for i in 0..number_of_entries` loop of the StackMapTable arm; `first` is `i == 0` -/
def readFrames : Nat → Bool → Nat → Labels → Bytes → TM (Labels × Bytes)
  | 0, _, _, l, s => pure (l, s)
  | n + 1, first, offset, l, s => do
    let (delta, l, s) ← readFrame l s
    -- 6b80d4b: `offset.checked_add(offset_delta).and_then(|o| o.checked_add(if i == 0 { 0 } else { 1 }))` (former site 3)
    guard (offset + delta ≤ 65535)
    guard (offset + delta + (if first then 0 else 1) ≤ 65535)
    let offset := offset + delta + (if first then 0 else 1)
    let l ← l.getOrCreate offset
    readFrames n false offset l s

/-- one entry of the CLDC `StackMap` attribute: the offset is only collected (69346bc: the labels of the frames are
created after all entries have been read, in the order of the offsets) -/
def readCldcFrame (l : Labels) (s : Bytes) : TM (Nat × Labels × Bytes) := do
  let (offset, s) ← u16 s
  let (l, s) ← vec16L readVType l s
  let (l, s) ← vec16L readVType l s
  pure (offset, l, s)

def readCldcFrames : Nat → Labels → List Nat → Bytes → TM (Labels × List Nat × Bytes)
  | 0, l, acc, s => pure (l, acc, s)
  | n + 1, l, acc, s => do
    let (o, l, s) ← readCldcFrame l s
    readCldcFrames n l (o :: acc) s

/-- `labels.get_or_create(offset)?` for every frame, in this order -/
def createAll : List Nat → Labels → TM Labels
  | [], l => pure l
  | o :: os, l => do
    let l ← l.getOrCreate o
    createAll os l

def readLine (l : Labels) (s : Bytes) : TM (Labels × Bytes) := do
  let (pc, s) ← u16 s
  let l ← l.getOrCreate pc
  let (_, s) ← u16 s
  pure (l, s)

/-- LocalVariableTable / LocalVariableTypeTable entry: the name is a `LocalVariableName`, descriptor and signature are unchecked -/
def readLv (l : Labels) (s : Bytes) : TM (Labels × Bytes) := do
  let (start, s) ← u16 s
  let (len, s) ← u16 s
  let l ← l.getOrCreateRange start len
  let (n, s) ← u16 s
  guard (match getUtf8 n with | some x => validUnqualified x | none => false)
  let (d, s) ← u16 s
  guard (getUtf8 d).isSome
  let (_, s) ← u16 s
  pure (l, s)

def readLvTarget (l : Labels) (s : Bytes) : TM (Labels × Bytes) := do
  let (start, s) ← u16 s
  let (len, s) ← u16 s
  let l ← l.getOrCreateRange start len
  let (_, s) ← u16 s
  pure (l, s)

/-- `read_type_reference_code` -/
def readTargetCode (l : Labels) (s : Bytes) : TM (Labels × Bytes) := do
  let (t, s) ← u8 s
  if t = 64 ∨ t = 65 then do
    let (n, s) ← u16 s
    loopL readLvTarget n l s
  else if t = 66 then do
    let (_, s) ← u16 s
    pure (l, s)
  else if 67 ≤ t ∧ t ≤ 70 then do
    let (pc, s) ← u16 s
    let l ← l.getOrCreate pc
    pure (l, s)
  else if 71 ≤ t ∧ t ≤ 75 then do
    let (pc, s) ← u16 s
    let l ← l.getOrCreate pc
    let (_, s) ← u8 s
    pure (l, s)
  else fail

/-- one `type_path` entry: kinds 0..=2 need a zero argument index; the inner `match` ends in `unreachable!()` -/
def readTypePathEntry : Rd Unit := fun s => do
  let (kind, s) ← u8 s
  let (arg, s) ← u8 s
  if kind ≤ 2 then do
    check Sites.typePathUnreachable (kind = 0 || kind = 1 || kind = 2)
    guard (arg = 0)
    pure ((), s)
  else if kind = 3 then pure ((), s)
  else fail

def readTypePath : Rd Unit := fun s => do
  let (n, s) ← u8 s
  loopN readTypePathEntry n s

def readTypeAnno (l : Labels) (s : Bytes) : TM (Labels × Bytes) := do
  let (l, s) ← readTargetCode l s
  let (_, s) ← readTypePath s
  let (d, s) ← u16 s
  guard (getUtf8 d).isSome
  let (_, s) ← Anno.readPairs s
  pure (l, s)

structure AttrState where
  labels : Labels
  haveFrames : Bool
  deriving Repr, Inhabited

/-- one iteration of the attribute loop of `read_code` (all interests set) -/
def readCodeAttr (st : AttrState) (s : Bytes) : TM (AttrState × Bytes) := do
  let (ni, s) ← u16 s
  let name ← ofOption (getUtf8 ni)
  let (length, s) ← u32 s
  if name = jstr "StackMapTable" then do
    let (n, s) ← u16 s
    request n
    let (l, s) ← readFrames n true 0 st.labels s
    guard (!st.haveFrames)
    pure ({ labels := l, haveFrames := true }, s)
  else if name = jstr "StackMap" then do
    let (n, s) ← u16 s
    request n
    let (l, offsets, s) ← readCldcFrames n st.labels [] s
    let l ← createAll (offsets.mergeSort (fun a b => decide (a ≤ b))) l    -- `sort_by_key(offset)`, equal keys are equal
    guard (!st.haveFrames)
    pure ({ labels := l, haveFrames := true }, s)
  else if name = jstr "LineNumberTable" then do
    let (n, s) ← u16 s
    let (l, s) ← loopL readLine n st.labels s
    pure ({ st with labels := l }, s)
  else if name = jstr "LocalVariableTable" ∨ name = jstr "LocalVariableTypeTable" then do
    let (n, s) ← u16 s
    let (l, s) ← loopL readLv n st.labels s
    pure ({ st with labels := l }, s)
  else if name = jstr "RuntimeVisibleTypeAnnotations" ∨ name = jstr "RuntimeInvisibleTypeAnnotations" then do
    let (n, s) ← u16 s
    let (l, s) ← loopL readTypeAnno n st.labels s
    pure ({ st with labels := l }, s)
  else do
    let (_, s) ← takeVec length s                   -- former site 6: `read_u8_vec(length as usize)`, length is a u32
    pure (st, s)

def readCodeAttrs : Nat → AttrState → Bytes → TM (AttrState × Bytes)
  | 0, st, s => pure (st, s)
  | n + 1, st, s => do
    let (st, s) ← readCodeAttr st s
    readCodeAttrs n st s

/-- `read_code` -/
def readCode (s : Bytes) : TM Unit := do
  let (_, s) ← u16 s
  let (_, s) ← u16 s
  let (codeLength, s) ← u32 s
  guard (codeLength != 0 && codeLength ≤ 65535)
  let l ← Labels.new codeLength
  let (code, s) ← takeVec codeLength s
  let l ← pass1 code.length l (Cur.start code)
  let (l, s) ← vec16L readException l s
  let (n, s) ← u16 s
  let (st, _) ← readCodeAttrs n { labels := l, haveFrames := false } s
  pass2 st.labels code.length (Cur.start code)

/-- the `code` op: the Code attribute body is followed by the `attributes_count = 0` of the wrapper class -/
def codeOp (body : Bytes) : TM Unit := readCode (body ++ [0, 0])

end Total.Code
