import FeatherModel.Model.Dummy

/-!
# Executable top-down specification of the dummy filters (C10)
Independent of the children-first organisation of the code: whether an entry survives is decided by a rule evaluated on
the *input* entry alone (`survives…`), the output is "filter by the rule, then prune the survivors' children by the same
rule". `Thm/C10.lean` proves that the model (`Dummy.removeDummy`, `Dummy.insertDummy`) computes exactly this and that the
Boolean rules below are the documented ones. The drivers' `oracle-*-spec` ops evaluate these functions; the harness has an
independent Rust transcription which it runs against the implementation's output.
-/

namespace DummySpec
open Dummy DummyDiff

/-! ## remove_dummy -/

def survivesParam (ns : Nat) (p : Param) : Bool :=
  p.doc.isSome || !nameIs p.names ns dummyParamName

def survivesField (ns : Nat) (f : Field) : Bool :=
  f.doc.isSome || !nameIs f.names ns dummyFieldName

def survivesMethod (ns : Nat) (m : Method) : Bool :=
  m.doc.isSome || m.params.any (fun e => survivesParam ns e.2) || !nameIs m.names ns dummyMethodName

def survivesClass (ns : Nat) (c : Class) : Bool :=
  c.doc.isSome || c.fields.any (fun e => survivesField ns e.2) || c.methods.any (fun e => survivesMethod ns e.2) ||
    !nameIs c.names ns dummyClassName

/-- a surviving method: unchanged except that only its surviving parameters remain -/
def pruneMethod (ns : Nat) (m : Method) : Method :=
  { m with params := m.params.filter (fun e => survivesParam ns e.2) }

/-- a surviving class: unchanged except that only its surviving members remain (methods pruned) -/
def pruneClass (ns : Nat) (c : Class) : Class :=
  { c with
    fields := c.fields.filter (fun e => survivesField ns e.2)
    methods := (c.methods.filter (fun e => survivesMethod ns e.2)).map (fun e => (e.1, pruneMethod ns e.2)) }

def removeSpecAt (m : Mappings) (ns : Nat) : Mappings :=
  { m with classes := (m.classes.filter (fun e => survivesClass ns e.2)).map (fun e => (e.1, pruneClass ns e.2)) }

def removeSpec (m : Mappings) (nsName : JStr) : Option Mappings :=
  (m.getNamespace nsName).map (removeSpecAt m)

/-! ## insert_dummy: truth tables per input node shape -/

/-- leaf (field / parameter) with placeholder `ph`: resulting `info` if the node is kept -/
def leafRule (ph : JStr) (info doc : Action JStr) : Option (Action JStr) :=
  match info with
  | .none => if doc.isDiff then some .none else none
  | .add _ => none
  | .remove a => if a ≠ ph ∨ doc.isDiff = true then some (.edit a ph) else none
  | .edit a b => if a ≠ b ∨ doc.isDiff = true then some (.edit a b) else none

/-- method / class: `children` = whether any child remains after filtering -/
def parentRule (ph : JStr) (info doc : Action JStr) (children : Bool) : Option (Action JStr) :=
  match info with
  | .none => if doc.isDiff = true ∨ children = true then some .none else none
  | .add b => if children then some (.add b) else none
  | .remove a => if a ≠ ph ∨ doc.isDiff = true ∨ children = true then some (.edit a ph) else none
  | .edit a b => if a ≠ b ∨ doc.isDiff = true ∨ children = true then some (.edit a b) else none

def specParam (k : Nat) (p : PDiff) : Option PDiff :=
  (leafRule (paramPlaceholder k) p.info p.doc).map (fun i => { info := i, doc := p.doc })

def specField (k : MKey) (f : FDiff) : Option FDiff :=
  (leafRule k.1 f.info f.doc).map (fun i => { info := i, doc := f.doc })

def specMethod (k : MKey) (m : MDiff) : Option MDiff :=
  let ps := retainK specParam m.params
  (parentRule k.1 m.info m.doc (!ps.isEmpty)).map (fun i => { info := i, doc := m.doc, params := ps })

def specClass (k : JStr) (c : CDiff) : Option CDiff :=
  let fs := retainK specField c.fields
  let ms := retainK specMethod c.methods
  (parentRule (classPlaceholder k) c.info c.doc (!fs.isEmpty || !ms.isEmpty)).map
    (fun i => { info := i, doc := c.doc, fields := fs, methods := ms })

def insertSpec (d : Diff) : Diff :=
  { info := d.info, doc := d.doc, classes := retainK specClass d.classes }

end DummySpec
