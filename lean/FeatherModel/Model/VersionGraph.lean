import FeatherModel.Base.Sexp
import FeatherModel.Base.AList

/-!
# Version graph (C05) — `src/version_graph.rs`
The graph logic is modelled generically over the *content pipeline* (`Content`): reading the root `.tiny`
(followed by `contract_inner_class_names("named")`), reading a `.tinydiff`, applying a diff in namespace `named`,
and the final `extend_inner_class_names("named")`. The driver instantiates it with the Tiny / TinyDiff / Diff /
InnerNames models; the theorems hold for every instance.

Nodes are identified by their name: a node is created exactly when the first key of its version string is new, and is
named after that version string, so two nodes never share a name (a split name contains `~`, a plain one does not).
-/

namespace VG

def TILDE : Nat := 126
def HASH : Nat := 35

structure Content (M D : Type) where
  readRoot : Bytes → Option M
  readDiff : Bytes → Option D
  apply : D → M → Option M
  extend : M → Option M

inductive Split where
  | none | first | second
  deriving Repr, DecidableEq, BEq

/-- `str::split_once(c)`: split at the first occurrence -/
def splitOnce (c : Nat) : List Nat → Option (List Nat × List Nat)
  | [] => none
  | x :: xs =>
    if x = c then some ([], xs)
    else match splitOnce c xs with
      | some (a, b) => some (x :: a, b)
      | none => none

/-- `str::strip_suffix` -/
def stripSuffix (suffix s : List Nat) : Option (List Nat) :=
  if suffix.length ≤ s.length ∧ s.drop (s.length - suffix.length) = suffix
  then some (s.take (s.length - suffix.length)) else none

structure Edge where
  parent : JStr      -- node name
  child : JStr       -- node name
  content : Bytes    -- the `.tinydiff` file behind `EdgeData.path`
  deriving Repr, DecidableEq, BEq

structure Graph where
  /-- `versions: IndexMap<String, (Split, NodeIndex)>` with the node given by its name -/
  versions : AList JStr (Split × JStr)
  /-- node names in creation order -/
  nodes : List JStr
  /-- edges in `add_edge` order -/
  edges : List Edge
  root : Option (JStr × Bytes)
  deriving Repr, DecidableEq, BEq

def Graph.empty : Graph := { versions := [], nodes := [], edges := [], root := none }

/-- the local fn `add_node` without its ambiguity check: the node (name) the version string resolves to. A version string
`a~b` registers the keys `a` (first) and `b` (second) for ONE node named `a~b`, a plain string `v` registers the key `v` for
its own node; each with `entry(..).or_insert(..)`: a key that is registered already keeps its meaning -/
def addNodeRaw (g : Graph) (vs : JStr) : Graph × JStr :=
  match splitOnce TILDE vs with
  | some (client, server) =>
    let (g1, node) :=
      match AList.lookup client g.versions with
      | some (_, n) => (g, n)
      | none => ({ g with versions := g.versions ++ [(client, (Split.first, vs))], nodes := g.nodes ++ [vs] }, vs)
    let g2 :=
      match AList.lookup server g1.versions with
      | some _ => g1
      | none => { g1 with versions := g1.versions ++ [(server, (Split.second, node))] }
    (g2, node)
  | none =>
    match AList.lookup vs g.versions with
    | some (_, n) => (g, n)
    | none => ({ g with versions := g.versions ++ [(vs, (Split.none, vs))], nodes := g.nodes ++ [vs] }, vs)

/-- the node a key stands for -/
def keyNode (g : Graph) (k : JStr) : Option JStr := (AList.lookup k g.versions).map (·.2)

/-- the local fn `add_node`: for `client~server` both halves must (now) stand for the node of this very version string,
otherwise `bail!("ambiguous version …")` = `none` -/
def addNode (g : Graph) (vs : JStr) : Option (Graph × JStr) :=
  let r := addNodeRaw g vs
  match splitOnce TILDE vs with
  | some (_, server) => if r.2 = vs ∧ keyNode r.1 server = some vs then some r else none
  | none => some r

def EXT_TINY : JStr := jstr ".tiny"
def EXT_DIFF : JStr := jstr ".tinydiff"

/-- what a file name says: the version it is for and, for a diff, the parent version (`entries` of `resolve`) -/
structure Entry where
  parent : Option JStr
  version : JStr
  content : Bytes
  deriving Repr, DecidableEq, BEq

/-- `none` = `bail!` (a `.tinydiff` stem without `#`), `some none` = the file is ignored -/
def parseFile (file : JStr × Bytes) : Option (Option Entry) :=
  match stripSuffix EXT_TINY file.1 with
  | some vs => some (some { parent := none, version := vs, content := file.2 })
  | none =>
    match stripSuffix EXT_DIFF file.1 with
    | some raw =>
      match splitOnce HASH raw with
      | none => none
      | some (parent, version) => some (some { parent := some parent, version := version, content := file.2 })
    | none => some none

def parseFiles : List (JStr × Bytes) → Option (List Entry)
  | [] => some []
  | f :: fs =>
    match parseFile f with
    | none => none
    | some oe =>
      match parseFiles fs with
      | none => none
      | some es => some (oe.toList ++ es)

/-- the version strings of an entry in the order `resolve` hands them to `add_node` -/
def Entry.versions (e : Entry) : List JStr := e.version :: e.parent.toList

def isSplit (vs : JStr) : Bool := vs.contains TILDE

/-- the first pass: every `client~server` version string of every file name -/
def addNodes : Graph → List JStr → Option Graph
  | g, [] => some g
  | g, vs :: rest =>
    match addNode g vs with
    | none => none
    | some (g', _) => addNodes g' rest

/-- one iteration of the second pass; `none` = `bail!` (ambiguous version, second diff for an edge, second root) -/
def addEntry (g : Graph) (e : Entry) : Option Graph :=
  match addNode g e.version with
  | none => none
  | some (g1, v) =>
    match e.parent with
    | some parent =>
      match addNode g1 parent with
      | none => none
      | some (g2, p) =>
        if g2.edges.any (fun x => x.parent == p && x.child == v) then none
        else some { g2 with edges := g2.edges ++ [{ parent := p, child := v, content := e.content }] }
    | none =>
      match g1.root with
      | some _ => none
      | none => some { g1 with root := some (v, e.content) }

def addEntries : Graph → List Entry → Option Graph
  | g, [] => some g
  | g, e :: es =>
    match addEntry g e with
    | none => none
    | some g' => addEntries g' es

/-- the scan of `resolve` on the files in processing order -/
def scanListed (files : List (JStr × Bytes)) : Option Graph :=
  match parseFiles files with
  | none => none
  | some es =>
    match addNodes Graph.empty ((es.flatMap Entry.versions).filter isSplit) with
    | none => none
    | some g => addEntries g es

/-- insertion into a list sorted by file name, before the first entry that is not smaller -/
def insertFile (x : JStr × Bytes) : List (JStr × Bytes) → List (JStr × Bytes)
  | [] => [x]
  | y :: ys => if x.1 ≤ y.1 then x :: y :: ys else y :: insertFile x ys

/-- `files.sort_by(|a, b| a.0.cmp(&b.0))`: `String` order = order of the UTF-8 bytes = order of the code points (the
lexicographic order of `List Nat`); a stable sort, here written as an insertion sort -/
def sortFiles (dir : List (JStr × Bytes)) : List (JStr × Bytes) := dir.foldr insertFile []

/-- the directory scan of `resolve`: `dir` = the files in `read_dir` order -/
def scan (dir : List (JStr × Bytes)) : Option Graph := scanListed (sortFiles dir)

def children (g : Graph) (n : JStr) : List JStr :=
  (g.edges.filter (fun e => e.parent == n)).map (·.child)

/-- the walker loop of `resolve`, depth first instead of breadth first (the set of explored paths is the same):
`false` = "found a loop". `path` = the nodes after the root on the current path (the root itself is NOT on it, exactly as
in the Rust code, so a cycle through the root is noticed one step later). Fuel bounds the path length; `edges.length + 1`
always suffices (`Thm.C05.walk_fuel_sufficient`): the nodes on `path` are pairwise different children of edges. -/
def walkOk (g : Graph) : Nat → List JStr → JStr → Bool
  | 0, _, _ => false
  | fuel + 1, path, head =>
    (children g head).all fun v => !path.contains v && walkOk g fuel (path ++ [v]) v

structure Resolved (M : Type) where
  graph : Graph
  rootName : JStr
  rootMapping : M

def resolve {M D : Type} (c : Content M D) (dir : List (JStr × Bytes)) : Option (Resolved M) :=
  match scan dir with
  | none => none
  | some g =>
    match g.root with
    | none => none
    | some (rootName, rootBytes) =>
      match c.readRoot rootBytes with
      | none => none
      | some m =>
        if walkOk g (g.edges.length + 1) [] rootName then some { graph := g, rootName := rootName, rootMapping := m }
        else none

/-- `VersionGraph::get` -/
def get {M : Type} (r : Resolved M) (name : JStr) : Option (Split × JStr) :=
  AList.lookup name r.graph.versions

/-- `Graph::find_edge(a, b)`: petgraph walks the outgoing edges of `a` newest first, so among parallel edges the one
added last would be found (`resolve` refuses a second diff for an edge, so a resolved graph has none:
`Thm.C05.resolved_noParallel`) -/
def findEdge (g : Graph) (a b : JStr) : Option Edge :=
  (g.edges.filter (fun e => e.parent == a && e.child == b)).getLast?

/-- the edges `apply_diffs` can use: `astar` yields a node path, each step is then looked up with `find_edge` -/
def liveEdges (g : Graph) : List Edge :=
  g.edges.filter (fun e => decide (findEdge g e.parent e.child = some e))

/-- all paths (as lists of live edges) from `src` to `dst` with exactly `len` edges -/
def pathsOfLen (g : Graph) : Nat → JStr → JStr → List (List Edge)
  | 0, src, dst => if src == dst then [[]] else []
  | len + 1, src, dst =>
    ((liveEdges g).filter (fun e => e.parent == src)).flatMap fun e =>
      (pathsOfLen g len e.child dst).map (e :: ·)

/-- the shortest paths root → target (`astar` with unit weights returns one of them) -/
def shortestPaths (g : Graph) (src dst : JStr) : List (List Edge) :=
  let rec go (fuel len : Nat) : List (List Edge) :=
    match fuel with
    | 0 => []
    | fuel + 1 =>
      match pathsOfLen g len src dst with
      | [] => go fuel (len + 1)
      | ps => ps
  go (g.edges.length + 1) 0

/-- the `try_fold` of `apply_diffs` along one path -/
def foldPath {M D : Type} (c : Content M D) : M → List Edge → Option M
  | m, [] => some m
  | m, e :: es =>
    match c.readDiff e.content with
    | none => none
    | some d =>
      match c.apply d m with
      | none => none
      | some m' => foldPath c m' es

/-- `apply_diffs` along a given path -/
def applyAlong {M D : Type} (c : Content M D) (r : Resolved M) (path : List Edge) : Option M :=
  match foldPath c r.rootMapping path with
  | none => none
  | some m => c.extend m

/-- the admissible answers of `apply_diffs`: one per shortest path; `[]` = "there is no path" -/
def applyDiffs {M D : Type} (c : Content M D) (r : Resolved M) (target : JStr) : List (Option M) :=
  (shortestPaths r.graph r.rootName target).map (applyAlong c r)

/-- `NodeData.depth`: 0 for the root and unreachable nodes, else the length of a shortest path from the root -/
def depth {M : Type} (r : Resolved M) (n : JStr) : Nat :=
  if n == r.rootName then 0 else
  match shortestPaths r.graph r.rootName n with
  | p :: _ => p.length
  | [] => 0

/-! ## Specification side: what a directory *says* (a function of the set of files, not of the listing order)
Used by the theorems (`Thm/C05.lean`) and, as decidable domain predicates, by the driver's oracles. -/

/-- the keys a version string registers: both halves of `a~b`, or the plain name -/
def keysOf (vs : JStr) : List JStr :=
  match splitOnce TILDE vs with
  | some (c, s) => [c, s]
  | none => [vs]

/-- how key `k` refers to version string `vs` -/
def keyKind (k vs : JStr) : Option Split :=
  match splitOnce TILDE vs with
  | some (c, s) => if k = c then some Split.first else if k = s then some Split.second else none
  | none => if k = vs then some Split.none else none

/-- no two different version strings share a key -/
def KeysDisjoint (vss : List JStr) : Prop :=
  ∀ v1, v1 ∈ vss → ∀ v2, v2 ∈ vss → v1 ≠ v2 → ∀ k, k ∈ keysOf v1 → k ∉ keysOf v2

/-- the `client~server` ones among the version strings -/
def splitsOf (vss : List JStr) : List JStr := vss.filter isSplit

/-- **ambiguous directory**: two different `client~server` version strings share a half (`a~b` with `c~b`, `a~c`, `b~c`,
`b~a`, …) — a key would have to name two nodes -/
def Ambiguous (vss : List JStr) : Prop := ¬ KeysDisjoint (splitsOf vss)

/-- the `client~server` version string that has `k` as a half, and which half `k` is -/
def ownerOf (vss : List JStr) (k : JStr) : Option (Split × JStr) :=
  (splitsOf vss).findSome? fun n => (keyKind k n).map fun sp => (sp, n)

/-- the node a version string in a file name stands for: `client~server` is its own node, a plain string is the
`client~server` node it is a half of if there is one, else its own node -/
def nodeOf (vss : List JStr) (vs : JStr) : JStr :=
  if isSplit vs then vs else
  match ownerOf vss vs with
  | some (_, n) => n
  | none => vs

/-- the version strings that are the name of a node -/
def nodeStrings (vss : List JStr) : List JStr := vss.filter fun v => isSplit v || (ownerOf vss v).isNone

/-- the version strings a directory entry registers, in processing order -/
def fileVersions (f : JStr × Bytes) : List JStr :=
  match stripSuffix EXT_TINY f.1 with
  | some vs => [vs]
  | none =>
    match stripSuffix EXT_DIFF f.1 with
    | some raw =>
      match splitOnce HASH raw with
      | some (parent, version) => [version, parent]
      | none => []
    | none => []

def dirVersions (dir : List (JStr × Bytes)) : List JStr := dir.flatMap fileVersions

/-- the edge a directory entry stands for -/
def fileEdge (f : JStr × Bytes) : Option Edge :=
  match stripSuffix EXT_TINY f.1 with
  | some _ => none
  | none =>
    match stripSuffix EXT_DIFF f.1 with
    | some raw =>
      match splitOnce HASH raw with
      | some (parent, version) => some { parent := parent, child := version, content := f.2 }
      | none => none
    | none => none

def dirEdges (dir : List (JStr × Bytes)) : List Edge := dir.filterMap fileEdge

/-- the edges between nodes that the diff files of a directory stand for -/
def nodeEdges (dir : List (JStr × Bytes)) : List Edge :=
  (dirEdges dir).map fun e =>
    { e with parent := nodeOf (dirVersions dir) e.parent, child := nodeOf (dirVersions dir) e.child }

/-- **two diffs for one edge**: two diff files join the same ordered pair of nodes -/
def DupEdges (dir : List (JStr × Bytes)) : Prop := ¬ ((nodeEdges dir).map fun e => (e.parent, e.child)).Nodup

/-- the root a directory entry stands for -/
def fileRoot (f : JStr × Bytes) : Option (JStr × Bytes) :=
  match stripSuffix EXT_TINY f.1 with
  | some vs => some (vs, f.2)
  | none => none

def dirRoots (dir : List (JStr × Bytes)) : List (JStr × Bytes) := dir.filterMap fileRoot

/-- `p` is a chain of edges of `g` from `src` to `dst` -/
inductive IsPath (g : Graph) : JStr → JStr → List Edge → Prop where
  | nil (n : JStr) : IsPath g n n []
  | cons {e : Edge} {dst : JStr} {p : List Edge} :
      e ∈ g.edges → IsPath g e.child dst p → IsPath g e.parent dst (e :: p)

/-- the graph `apply_diffs` sees through `find_edge`: one edge per ordered node pair -/
def live (g : Graph) : Graph := { g with edges := liveEdges g }

/-- a cycle that can be reached from `root` -/
def ReachableCycle (g : Graph) (root : JStr) : Prop :=
  ∃ v p q, IsPath g root v p ∧ IsPath g v v q ∧ q ≠ []

/-- no two different edges join the same ordered pair of nodes -/
def NoParallel (g : Graph) : Prop :=
  ∀ e1, e1 ∈ g.edges → ∀ e2, e2 ∈ g.edges → e1.parent = e2.parent → e1.child = e2.child → e1 = e2

/-- `KeysDisjoint`, decidable -/
def keysDisjointB (vss : List JStr) : Bool :=
  vss.all fun v1 => vss.all fun v2 => v1 == v2 || (keysOf v1).all fun k => !(keysOf v2).contains k

def ambiguousB (vss : List JStr) : Bool := !keysDisjointB (splitsOf vss)

def distinctB {α : Type} [BEq α] : List α → Bool
  | [] => true
  | x :: rest => !rest.contains x && distinctB rest

def dupEdgesB (dir : List (JStr × Bytes)) : Bool := !distinctB ((nodeEdges dir).map fun e => (e.parent, e.child))

/-- a `.tinydiff` whose stem has no `#` (`resolve` bails on it) -/
def badDiffName (f : JStr × Bytes) : Bool :=
  match stripSuffix EXT_TINY f.1 with
  | some _ => false
  | none =>
    match stripSuffix EXT_DIFF f.1 with
    | some raw => (splitOnce HASH raw).isNone
    | none => false

end VG
