import FeatherModel.Model.Mappings
import FeatherModel.Model.MapDesc

/-!
# Remappers (C06) — `quill/src/remapper.rs`

* `ARemapperImpl` / `Mappings::remapper_a(from, to)`: an `IndexMap` from the `from`-name to the `to`-name of every class
  row that has both names; `IndexMap::insert` overwrites the value of an existing key (`upsert`), so the *last* row wins.
* `ARemapper::map_class`, `map_class_any`, `map_{field,method,return}_desc` (all three are `map_desc`).
* `BRemapperImpl` / `Mappings::remapper_b(from, to, inheritance)`: per class row with both names a table of fields and a
  table of methods, keyed `(name_from, desc_from)` with value `(name_to, desc_to)` where `desc_from`/`desc_to` are the
  stored descriptor (first namespace) pushed through `remapper_a(0, from)` / `remapper_a(0, to)`. Members without both
  names are skipped; a descriptor `map_desc` rejects in a *used* row makes the whole construction fail.
* `map_field_fail` / `map_method_fail` (as of `c873813`): the owner's own table if it has one, then — whether or not the
  owner has a mapping — the super types of the `SuperClassProvider` in declaration order, recursively.
  The Rust recursion is unbounded (a cyclic provider overflows the stack, see C16); the model takes fuel and returns
  `none` (outer option) when it runs out.
* `map_field`, `map_method` (fallback: same name, descriptor through `map_desc`), `map_field_ref`, `map_method_ref`
  (array owners: only the class is rewritten, through `map_class_any`).

The mapping-set keys are never looked at by the Rust code (`classes.values()`, `fields.values()`), only the name rows and
the stored descriptors.
-/

namespace Remapper

def LBRACK : Nat := 91

/-- `names[ns]` as an option (`None` also when the row is too short; rows fed by the harness have length `N`) -/
def nameAt (names : Names) (i : Nat) : Option JStr :=
  match names[i]? with
  | some (some n) => some n
  | _ => none

/-- `IndexMap::insert`: replace the value of an existing key in place, append otherwise -/
def upsert {K V : Type} [BEq K] (k : K) (v : V) : AList K V → AList K V
  | [] => [(k, v)]
  | (k', v') :: rest => if k' == k then (k', v) :: rest else (k', v') :: upsert k v rest

/-- a table built by a loop of `insert`s -/
def tableOf {K V : Type} [BEq K] (rows : List (K × V)) : AList K V :=
  rows.foldl (fun acc p => upsert p.1 p.2 acc) []

/-! ## A remapper -/

/-- the `(from, to)` names of the rows the loop of `remapper_a` inserts, in order -/
def pairsOf {α : Type} (names : α → Names) (src dst : Nat) (rows : List α) : List (JStr × JStr) :=
  rows.filterMap fun e =>
    match nameAt (names e) src, nameAt (names e) dst with
    | some f, some t => some (f, t)
    | _, _ => none

def classPairs (m : Mappings) (src dst : Nat) : List (JStr × JStr) :=
  pairsOf (fun e : JStr × Class => e.2.names) src dst m.classes

abbrev ATable := AList JStr JStr

def aTable (m : Mappings) (src dst : Nat) : ATable := tableOf (classPairs m src dst)

/-- `Mappings::remapper_a`; `none` = a `Namespace` that cannot exist (`Namespace::new` fails) -/
def remapperA (m : Mappings) (src dst : Nat) : Option ATable :=
  if src < m.ns.length ∧ dst < m.ns.length then some (aTable m src dst) else none

def mapClassFail (t : ATable) (c : JStr) : Option JStr := AList.lookup c t

/-- `ARemapper::map_class` -/
def mapClass (t : ATable) (c : JStr) : JStr :=
  match mapClassFail t c with
  | some n => n
  | none => c

/-- `map_field_desc` = `map_method_desc` = `map_return_desc` = `map_desc` -/
def mapDescWith (t : ATable) (d : JStr) : Option JStr := MapDesc.mapDesc (mapClass t) d

/-- `ARemapper::map_class_any`: array class names are descriptors -/
def mapClassAny (t : ATable) (c : JStr) : Option JStr :=
  if c.head? = some LBRACK then mapDescWith t c else some (mapClass t c)

/-! ## B remapper -/

structure BClass where
  name : JStr
  fields : AList MemberKey MemberKey
  methods : AList MemberKey MemberKey
  deriving Repr, BEq, DecidableEq

abbrev BTable := AList JStr BClass

/-- the rows inserted into a member table, in order: members `(stored desc, names)` with both names present -/
def memberRows (ts td : ATable) (src dst : Nat) : List (JStr × Names) → Option (List (MemberKey × MemberKey))
  | [] => some []
  | (desc, names) :: rest =>
    match nameAt names src, nameAt names dst with
    | some nf, some nt =>
      match mapDescWith ts desc with
      | none => none
      | some df =>
        match mapDescWith td desc with
        | none => none
        | some dt =>
          match memberRows ts td src dst rest with
          | none => none
          | some rows => some (((nf, df), (nt, dt)) :: rows)
    | _, _ => memberRows ts td src dst rest

def fieldMembers (c : Class) : List (JStr × Names) := c.fields.map fun e => (e.2.desc, e.2.names)
def methodMembers (c : Class) : List (JStr × Names) := c.methods.map fun e => (e.2.desc, e.2.names)

def classRows (ts td : ATable) (src dst : Nat) : List (JStr × Class) → Option (List (JStr × BClass))
  | [] => some []
  | (_, c) :: rest =>
    match nameAt c.names src, nameAt c.names dst with
    | some nf, some nt =>
      match memberRows ts td src dst (fieldMembers c) with
      | none => none
      | some frows =>
        match memberRows ts td src dst (methodMembers c) with
        | none => none
        | some mrows =>
          match classRows ts td src dst rest with
          | none => none
          | some rows => some ((nf, { name := nt, fields := tableOf frows, methods := tableOf mrows }) :: rows)
    | _, _ => classRows ts td src dst rest

/-- `Mappings::remapper_b` (without the provider, which is passed to the queries) -/
def remapperB (m : Mappings) (src dst : Nat) : Option BTable :=
  if src < m.ns.length ∧ dst < m.ns.length then
    match classRows (aTable m 0 src) (aTable m 0 dst) src dst m.classes with
    | none => none
    | some rows => some (tableOf rows)
  else none

/-- the `ARemapper` half of `BRemapperImpl` -/
def classTable (r : BTable) : ATable := r.map fun e => (e.1, e.2.name)

/-- the provider: an explicit table `class ↦ super types in declaration order`, first matching row -/
abbrev Supers := AList JStr (List JStr)

/-- first definite hit of a list of fuel-limited searches; outer `none` = out of fuel -/
def firstSomeM {α β : Type} (f : α → Option (Option β)) : List α → Option (Option β)
  | [] => some none
  | a :: rest =>
    match f a with
    | none => none
    | some (some b) => some (some b)
    | some none => firstSomeM f rest

/-- what class `c` declares for `key`: the entry of its own table; nothing when it has no table -/
def declares (sel : BClass → AList MemberKey MemberKey) (r : BTable) (key : MemberKey) (c : JStr) : Option MemberKey :=
  match AList.lookup c r with
  | none => none
  | some cls => AList.lookup key (sel cls)

/-- `map_field_fail` (`sel = BClass.fields`) / `map_method_fail` (`sel = BClass.methods`): own table (if any), then
the super types, also for an owner without a mapping.
Outer `none` = fuel exhausted (the Rust code would still be recursing). -/
def mapMemberFail (sel : BClass → AList MemberKey MemberKey) (r : BTable) (sup : Supers) :
    Nat → JStr → MemberKey → Option (Option MemberKey)
  | 0, _, _ => none
  | fuel + 1, owner, key =>
    match declares sel r key owner with
    | some v => some (some v)
    | none =>
      match AList.lookup owner sup with
      | none => some none
      | some ss => firstSomeM (fun s => mapMemberFail sel r sup fuel s key) ss

/-- the `unwrap_or_else` of `map_field` / `map_method`; `none` = `map_desc` failed -/
def fallback (r : BTable) (res : Option MemberKey) (key : MemberKey) : Option MemberKey :=
  match res with
  | some v => some v
  | none =>
    match mapDescWith (classTable r) key.2 with
    | some d => some (key.1, d)
    | none => none

/-- `map_field` / `map_method`: outer option = fuel, inner = error -/
def mapMember (sel : BClass → AList MemberKey MemberKey) (r : BTable) (sup : Supers)
    (fuel : Nat) (owner : JStr) (key : MemberKey) : Option (Option MemberKey) :=
  match mapMemberFail sel r sup fuel owner key with
  | none => none
  | some res => some (fallback r res key)

/-- `map_field_ref` / `map_method_ref_obj`: member first, then the class -/
def mapRefObj (sel : BClass → AList MemberKey MemberKey) (r : BTable) (sup : Supers)
    (fuel : Nat) (cls : JStr) (key : MemberKey) : Option (Option (JStr × MemberKey)) :=
  match mapMember sel r sup fuel cls key with
  | none => none
  | some none => some none
  | some (some k) => some (some (mapClass (classTable r) cls, k))

/-- `map_method_ref`: array owners keep name and descriptor -/
def mapMethodRef (r : BTable) (sup : Supers) (fuel : Nat) (cls : JStr) (key : MemberKey) :
    Option (Option (JStr × MemberKey)) :=
  if cls.head? = some LBRACK then
    match mapDescWith (classTable r) cls with
    | some c => some (some (c, key))
    | none => some none
  else mapRefObj BClass.methods r sup fuel cls key

/-- fuel that always suffices when the provider is acyclic (`Thm.C06.acyclic_fuel`): every class on a path of the
search except the last one is a row of the provider -/
def defaultFuel (sup : Supers) : Nat := sup.length + 1

/-! ## Sequences of questions to one remapper instance

`ARemapperImpl` and `BRemapperImpl` hold only the tables built by `remapper_a` / `remapper_b` plus a shared reference to
the provider, every method takes `&self`, and there is no interior mutability: a remapper is a pure question-answering
object. The model of "ask the same instance a list of questions" therefore threads **no** state from one question to
the next (`mapSeq`); the correspondence run (op `map-seq`) is what ties that to the code — an implementation that
remembers earlier questions (a cache) answers differently from `mapSeq` as soon as the cache is wrong. -/

/-- one question. `viaA`: ask the `remapper_a` instance, otherwise the `ARemapper` half of the `remapper_b` instance -/
inductive Query where
  /-- `map_class_fail`, `map_class`, `map_class_any` -/
  | cls (viaA : Bool) (c : JStr)
  /-- `map_field_desc` / `map_method_desc` / `map_return_desc` (all `map_desc`) -/
  | desc (viaA : Bool) (d : JStr)
  /-- `map_field_fail`, `map_field`, `map_field_ref` (`field = true`) / `map_method_fail`, `map_method`, `map_method_ref_obj` -/
  | member (field : Bool) (owner : JStr) (key : MemberKey)
  /-- `map_method_ref` (owner may be an array class) -/
  | mref (cls : JStr) (key : MemberKey)
  deriving Repr, BEq, DecidableEq

/-- the answer to one question; inner `none`s are errors (`map_desc` rejected), `fuel` = the model ran out of fuel -/
inductive Answer where
  | cls (fail : Option JStr) (mapped : JStr) (any : Option JStr)
  | desc (d : Option JStr)
  | member (fail : Option MemberKey) (mapped : Option MemberKey) (ref : Option (JStr × MemberKey))
  | mref (r : Option (JStr × MemberKey))
  | fuel
  deriving Repr, BEq, DecidableEq

/-- what was built once from a mapping set: the result of `remapper_a(src, dst)`, of `remapper_b(src, dst, &provider)`,
and the provider -/
structure Instance where
  a : ATable
  b : BTable
  sup : Supers

def Instance.classes (i : Instance) (viaA : Bool) : ATable := if viaA then i.a else classTable i.b

def memberSel (field : Bool) : BClass → AList MemberKey MemberKey := if field then BClass.fields else BClass.methods

/-- the answer of the instance to one question -/
def mapOne (i : Instance) : Query → Answer
  | .cls viaA c => let t := i.classes viaA; .cls (mapClassFail t c) (mapClass t c) (mapClassAny t c)
  | .desc viaA d => .desc (mapDescWith (i.classes viaA) d)
  | .member field owner key =>
    let sel := memberSel field
    let fuel := defaultFuel i.sup
    match mapMemberFail sel i.b i.sup fuel owner key, mapMember sel i.b i.sup fuel owner key,
          mapRefObj sel i.b i.sup fuel owner key with
    | some f, some g, some h => .member f g h
    | _, _, _ => .fuel
  | .mref cls key =>
    match mapMethodRef i.b i.sup (defaultFuel i.sup) cls key with
    | some h => .mref h
    | none => .fuel

/-- the answers of ONE instance to a list of questions asked in this order: nothing is carried from one question to the
next -/
def mapSeq (i : Instance) : List Query → List Answer
  | [] => []
  | q :: qs => mapOne i q :: mapSeq i qs

/-- `remapper_a` and `remapper_b` of one mapping set with one provider; `none` = one of the two constructions fails -/
def instanceOf (m : Mappings) (src dst : Nat) (sup : Supers) : Option Instance :=
  match remapperA m src dst, remapperB m src dst with
  | some a, some b => some { a := a, b := b, sup := sup }
  | _, _ => none

/-! ## Specification helpers used by theorems and oracles -/

/-- concatenation of fuel-limited traversals -/
def concatM {α β : Type} (f : α → Option (List β)) : List α → Option (List β)
  | [] => some []
  | a :: rest =>
    match f a with
    | none => none
    | some x =>
      match concatM f rest with
      | none => none
      | some y => some (x ++ y)

/-- pre-order of the provider's graph from the owner — the classes `map_*_fail` looks at, in that order: the owner, then
its super types in declaration order, recursively, whether or not the classes have a mapping; a class reachable along
two paths is listed twice. Outer `none` = out of fuel. -/
def dfs (sup : Supers) : Nat → JStr → Option (List JStr)
  | 0, _ => none
  | fuel + 1, owner =>
    match AList.lookup owner sup with
    | none => some [owner]
    | some ss =>
      match concatM (fun s => dfs sup fuel s) ss with
      | none => none
      | some l => some (owner :: l)

/-- "`c` is the only source of its image": every row whose `to`-name is the image of `c` has `from`-name `c`.
For an unmapped `c` this says that `c` is not a target name. -/
def injOn {K : Type} [BEq K] (pairs : List (K × K)) (img : K) (c : K) : Bool :=
  pairs.all fun p => !(p.2 == img) || p.1 == c

/-- the last element satisfying `p` -/
def lastMatch {α : Type} (p : α → Bool) : List α → Option α
  | [] => none
  | a :: rest =>
    match lastMatch p rest with
    | some b => some b
    | none => if p a then some a else none

/-- the rows `remapper_b(src, dst)` can use for the `src`-name `o`: that name and a `dst`-name -/
def rowFor (src dst : Nat) (o : JStr) (e : JStr × Class) : Bool :=
  nameAt e.2.names src == some o && (nameAt e.2.names dst).isSome

/-- the class row `remapper_b(src, dst)` uses for the `src`-name `o`: the last one -/
def selectedRow (m : Mappings) (src dst : Nat) (o : JStr) : Option Class :=
  match lastMatch (rowFor src dst o) m.classes with
  | some e => some e.2
  | none => none

/-- second component of the last pair with first component `c` -/
def lastPair {K V : Type} [BEq K] (pairs : List (K × V)) (c : K) : Option V :=
  match lastMatch (fun p => p.1 == c) pairs with
  | some p => some p.2
  | none => none

end Remapper
