import FeatherModel.Model.ClassReadResolve
import FeatherModel.Model.CodeWrite
import FeatherModel.Model.PoolWrite
import FeatherModel.Model.BootstrapWrite
import FeatherModel.Model.FrameWrite

/-!
# C02 — model of the whole class writer: `write`, `write_field`, `write_method`, `write_code`,
`write_record_component`, `write_module`, the annotation / type-annotation writers and `PoolWrite::write`
(`duke/src/simple_class_writer.rs`, `simple_class_writer/pool.rs`)

Input: the class description the reader delivers (`ClassRead.ClassFacts` — the model of duke's `ClassFile` tree that
`ClassRead.read` produces, labels as opaque ids).  Output: the bytes of the class file, or the explicit error.

Mirrors the Rust function by function, *in the Rust's order of constant-pool puts* (the order decides every index):

* `write_attribute(name, f)`: the body closure `f` runs **first** (its puts come first), then the name is put, then
  `attribute_length` through `write_usize_as_u32` (`attrBuf`);
  `write_attribute_fix_length(name, n)` puts the name **first** and states the constant `n`, the body is written
  afterwards (`attrFix`); unknown attributes and `SourceDebugExtension` put the name first and measure the bytes;
* every count goes through `write_usize_as_u8/u16/u32`: a count that does not fit is an error (`cnt8/16/32`), never a
  truncation;
* which attributes are written: `Deprecated` / `Synthetic` when the flag is set, `Option` fields when `Some` (an empty
  `Some(vec)` *is* written), annotation lists and record components when non-empty, `LocalVariableTable` /
  `LocalVariableTypeTable` when at least one entry has a descriptor / signature, `StackMapTable` when at least one
  instruction carries a frame, `BootstrapMethods` when a bootstrap method was put;
  the unknown attributes (`attributes`) come last at every level — class, field, method, record component and (since the
  repair `fix: class writer writes the unknown attributes of a method body`) `Code`;
* attribute order: as in the Rust source (see `classAttrs`, `writeField`, `writeMethod`, `writeCode`,
  `writeRecordComponent`);
* the constant pool is completed last and written in front (`PoolWrite::write`: `constant_pool_count`, the entries in
  creation order; a `Utf8` entry longer than 65535 bytes is an error only now).

The code array with its retry loop is `CodeWrite.writeCode`, the `StackMapTable` is `FrameWrite.attr`, the pool is
`PoolWrite`, bootstrap methods are `BootstrapWrite`.  Those models name instructions by index (instruction `k` carries
label `k`, the last label is `n`); `relabel` translates the label ids of the tree: the id carried by instruction `k`
becomes `k`, `last_label` becomes `n`, an id no instruction carries becomes `n + 1` (a label without bytecode offset).
Domain restriction (stated, not hidden): a label id is carried by at most one instruction (and `last_label` differs
from all of them) — what the reader guarantees (`Thm.C01.labels_injective`); the `HashMap::insert` overwrite semantics
for a label attached to two instructions is not modelled.  `max_stack` / `max_locals` are always present in a tree
that was read (`None` is an error in the Rust code and not representable here).
-/

namespace ClassWriteFull

open ClassRead (be16 be32 be64 ofI32 ofI64 ElemVal Annotation Target TypeAnno Attr Loadable MemberRef ConstantValue
  FieldFacts MethodFacts RecordComponent Module ModuleRequires ModuleExports ModuleProvides InnerClass ClassFacts
  MethodParam Code InsnEntry ExceptionEntry Lv)

abbrev Pool := PoolWrite.Pool
abbrev Bsm := BootstrapWrite.Bsm
abbrev Fail := CodeWrite.Fail
/-- result of a writer step: the bytes appended to the current buffer and the pool afterwards -/
abbrev W := Except Fail (Bytes × Pool)

/-- a `None` of the pool model is "pool count overflowed": an error -/
def opt {α : Type} : Option α → Except Fail α
  | some a => .ok a
  | none => .error .err

/-! ## `write_usize_as_u8 / u16 / u32` -/

def cnt8 (n : Nat) : Except Fail Bytes := if n ≤ 255 then .ok [n] else .error .err
def cnt16 (n : Nat) : Except Fail Bytes := if n ≤ 65535 then .ok (be16 n) else .error .err
def cnt32 (n : Nat) : Except Fail Bytes := if n ≤ 4294967295 then .ok (be32 n) else .error .err

/-! ## pool puts (`PoolWrite::put_*`) -/

def putUtf8 (p : Pool) (s : JStr) : Except Fail (Nat × Pool) := opt (PoolWrite.putUtf8 p s)
def putClass (p : Pool) (c : JStr) : Except Fail (Nat × Pool) := opt (PoolWrite.putClass p c)
def putString (p : Pool) (s : JStr) : Except Fail (Nat × Pool) := opt (PoolWrite.putString p s)
def putNameAndType (p : Pool) (n d : JStr) : Except Fail (Nat × Pool) := opt (PoolWrite.putNameAndType p n d)
def put (p : Pool) (e : PoolWrite.Entry) : Except Fail (Nat × Pool) := opt (PoolWrite.put p e)

def putPackage (p : Pool) (s : JStr) : Except Fail (Nat × Pool) := do
  let (i, p) ← putUtf8 p s
  put p (.package i)

def putModule (p : Pool) (s : JStr) : Except Fail (Nat × Pool) := do
  let (i, p) ← putUtf8 p s
  put p (.module i)

def putMethodType (p : Pool) (d : JStr) : Except Fail (Nat × Pool) := do
  let (i, p) ← putUtf8 p d
  put p (.methodType i)

/-- `put_optional`: index 0 for `None` -/
def putOptional {α : Type} (f : Pool → α → Except Fail (Nat × Pool)) (p : Pool) : Option α → Except Fail (Nat × Pool)
  | none => .ok (0, p)
  | some a => f p a

/-- `put_field_ref` (9) / `put_method_ref` (10) / `put_interface_method_ref` (11) -/
def putRef (p : Pool) (kind : Nat) (r : MemberRef) : Except Fail (Nat × Pool) :=
  opt (PoolWrite.putRef p kind r.cls r.name r.desc)

/-- the `Handle` enum of the tree as the writer's bootstrap model sees it: reference kind and the kind of pool reference
it needs (`GetField`…`PutStatic`: Fieldref; `InvokeVirtual`, `NewInvokeSpecial`: Methodref; `InvokeStatic` /
`InvokeSpecial`: by their `bool`; `InvokeInterface`: InterfaceMethodref) -/
def handleOf (h : ClassRead.Handle) : BootstrapWrite.Handle :=
  ⟨h.kind,
   if h.kind ≤ 4 then 9 else if h.kind = 9 then 11 else if (h.kind = 6 ∨ h.kind = 7) ∧ h.itf = true then 11 else 10,
   h.ref.cls, h.ref.name, h.ref.desc⟩

def putHandle (p : Pool) (h : ClassRead.Handle) : Except Fail (Nat × Pool) := opt (BootstrapWrite.putHandle p (handleOf h))

/-- `put_constant_value` -/
def putConstantValue (p : Pool) : ConstantValue → Except Fail (Nat × Pool)
  | .int v => put p (.int v)
  | .float b => put p (.float b)
  | .long v => put p (.long v)
  | .double b => put p (.double b)
  | .str s => putString p s

mutual
/-- `put_loadable`; a `Dynamic` constant: name-and-type first, then the bootstrap arguments (recursively), then the
bootstrap method (`put_bootstrap_method`, de-duplicated on handle + argument indices; its handle is **not** put yet),
then the `Dynamic` entry -/
def putLoadable (p : Pool) (bs : List Bsm) : Loadable → Except Fail (Nat × Pool × List Bsm)
  | .int v => match put p (.int v) with | .ok (i, p) => .ok (i, p, bs) | .error e => .error e
  | .float b => match put p (.float b) with | .ok (i, p) => .ok (i, p, bs) | .error e => .error e
  | .long v => match put p (.long v) with | .ok (i, p) => .ok (i, p, bs) | .error e => .error e
  | .double b => match put p (.double b) with | .ok (i, p) => .ok (i, p, bs) | .error e => .error e
  | .cls c => match putClass p c with | .ok (i, p) => .ok (i, p, bs) | .error e => .error e
  | .str s => match putString p s with | .ok (i, p) => .ok (i, p, bs) | .error e => .error e
  | .handle h => match putHandle p h with | .ok (i, p) => .ok (i, p, bs) | .error e => .error e
  | .mtype d => match putMethodType p d with | .ok (i, p) => .ok (i, p, bs) | .error e => .error e
  | .dyn name desc h args =>
    match putNameAndType p name desc with
    | .error e => .error e
    | .ok (nt, p) =>
      match putLoadables p bs args with
      | .error e => .error e
      | .ok (as, p, bs) =>
        match BootstrapWrite.put bs ⟨handleOf h, as⟩ with
        | none => .error .err
        | some (b, bs) =>
          match put p (.dynamic b nt) with
          | .error e => .error e
          | .ok (i, p) => .ok (i, p, bs)
def putLoadables (p : Pool) (bs : List Bsm) : List Loadable → Except Fail (List Nat × Pool × List Bsm)
  | [] => .ok ([], p, bs)
  | a :: as =>
    match putLoadable p bs a with
    | .error e => .error e
    | .ok (i, p, bs) =>
      match putLoadables p bs as with
      | .error e => .error e
      | .ok (is, p, bs) => .ok (i :: is, p, bs)
end

/-- `put_invoke_dynamic` -/
def putInvokeDynamic (p : Pool) (bs : List Bsm) (d : ClassRead.InvokeDynamic) : Except Fail (Nat × Pool × List Bsm) := do
  let (nt, p) ← putNameAndType p d.name d.desc
  let (as, p, bs) ← putLoadables p bs d.args
  let (b, bs) ← opt (BootstrapWrite.put bs ⟨handleOf d.handle, as⟩)
  let (i, p) ← put p (.invokeDynamic b nt)
  pure (i, p, bs)

/-! ## `write_slice` and friends -/

/-- `for x in xs { f(x)? }` -/
def writeList {α : Type} (f : Pool → α → W) : Pool → List α → W
  | p, [] => .ok ([], p)
  | p, a :: as => do
    let (b, p) ← f p a
    let (bs, p) ← writeList f p as
    pure (b ++ bs, p)

/-- `write_slice(xs, write_usize_as_u16, f)` -/
def writeSlice16 {α : Type} (f : Pool → α → W) (p : Pool) (xs : List α) : W := do
  let c ← cnt16 xs.length
  let (b, p) ← writeList f p xs
  pure (c ++ b, p)

/-- a `u16` index obtained from a put -/
def idx16 (r : Except Fail (Nat × Pool)) : W := do
  let (i, p) ← r
  pure (be16 i, p)

/-! ## attributes -/

/-- `write_attribute(name, body)`: body first, then the name, then the measured length -/
def attrBuf (name : JStr) (body : Pool → W) (p : Pool) : W := do
  let (b, p) ← body p
  let (i, p) ← putUtf8 p name
  let l ← cnt32 b.length
  pure (be16 i ++ l ++ b, p)

/-- `write_attribute_fix_length(name, len)` followed by the writes of the body: name first, the stated length is the
constant `len` -/
def attrFix (name : JStr) (len : Nat) (body : Pool → W) (p : Pool) : W := do
  let (i, p) ← putUtf8 p name
  let (b, p) ← body p
  pure (be16 i ++ be32 len ++ b, p)

/-- the loop over `attributes` (unknown attributes): name, measured length, bytes -/
def unknownAttr (p : Pool) (a : Attr) : W := do
  let (i, p) ← putUtf8 p a.name
  let l ← cnt32 a.bytes.length
  pure (be16 i ++ l ++ a.bytes, p)

/-- one `if … { attribute_count += 1; … }` block: `none` when the attribute is not written -/
abbrev AttrW := Pool → Except Fail (Option Bytes × Pool)

def always (w : Pool → W) : AttrW := fun p => do
  let (b, p) ← w p
  pure (some b, p)

def onlyIf (c : Bool) (w : Pool → W) : AttrW := fun p => if c then always w p else .ok (none, p)

def ifSome {α : Type} (o : Option α) (w : α → Pool → W) : AttrW := fun p =>
  match o with
  | none => .ok (none, p)
  | some a => always (w a) p

/-- the blocks in source order; result: the attributes that were written, in order -/
def runAttrs : List AttrW → Pool → Except Fail (List Bytes × Pool)
  | [], p => .ok ([], p)
  | w :: ws, p => do
    let (o, p) ← w p
    let (bs, p) ← runAttrs ws p
    pure (o.toList ++ bs, p)

/-- `attributes_count` (through `write_usize_as_u16`) and the buffered attributes -/
def attrsBytes (as : List Bytes) : Except Fail Bytes := do
  let c ← cnt16 as.length
  pure (c ++ as.flatten)

def flagAttr (flag : Bool) (name : JStr) : AttrW := onlyIf flag (attrFix name 0 (fun p => .ok ([], p)))

def sigAttr (sig : Option JStr) : AttrW :=
  ifSome sig (fun s => attrFix ClassRead.sSignature 2 (fun p => idx16 (putUtf8 p s)))

def unknownAttrs (as : List Attr) : List AttrW := as.map (fun a => always (fun p => unknownAttr p a))

/-! ## annotations (`write_annotations_attribute`, `write_element_values_named`, `write_element_values_unnamed`,
`write_element_value_unnamed`) -/

/-- the pool entry of a constant element value: `B C I S Z` are stored as `Integer` (`value as i32`, `i32::from(bool)`),
`D` / `F` by their bit pattern, `J` as `Long`; any other tag is not an `Object` of the tree -/
def constEntry (tag : Nat) (v : Int) : Option PoolWrite.Entry :=
  if tag = 66 ∨ tag = 67 ∨ tag = 73 ∨ tag = 83 ∨ tag = 90 then some (.int v)
  else if tag = 68 then some (.double v.toNat)
  else if tag = 70 then some (.float v.toNat)
  else if tag = 74 then some (.long v)
  else none

mutual
def writeElemVal (p : Pool) : ElemVal → W
  | .const tag v =>
    match constEntry tag v with
    | none => .error .err
    | some e =>
      match put p e with
      | .error e => .error e
      | .ok (i, p) => .ok (tag :: be16 i, p)
  | .str s =>
    match putUtf8 p s with
    | .error e => .error e
    | .ok (i, p) => .ok (115 :: be16 i, p)
  | .enum ty name =>
    match putUtf8 p ty with
    | .error e => .error e
    | .ok (t, p) =>
      match putUtf8 p name with
      | .error e => .error e
      | .ok (n, p) => .ok (101 :: (be16 t ++ be16 n), p)
  | .cls d =>
    match putUtf8 p d with
    | .error e => .error e
    | .ok (i, p) => .ok (99 :: be16 i, p)
  | .anno a =>
    match writeAnnotation p a with
    | .error e => .error e
    | .ok (b, p) => .ok (64 :: b, p)
  | .arr vs =>
    match cnt16 vs.length with
    | .error e => .error e
    | .ok c =>
      match writeElemVals p vs with
      | .error e => .error e
      | .ok (b, p) => .ok (91 :: (c ++ b), p)
/-- `type_index` and `write_element_values_named` -/
def writeAnnotation (p : Pool) : Annotation → W
  | .mk ty pairs =>
    match putUtf8 p ty with
    | .error e => .error e
    | .ok (t, p) =>
      match cnt16 pairs.length with
      | .error e => .error e
      | .ok c =>
        match writePairs p pairs with
        | .error e => .error e
        | .ok (b, p) => .ok (be16 t ++ (c ++ b), p)
def writePairs (p : Pool) : List (JStr × ElemVal) → W
  | [] => .ok ([], p)
  | (name, v) :: rest =>
    match putUtf8 p name with
    | .error e => .error e
    | .ok (n, p) =>
      match writeElemVal p v with
      | .error e => .error e
      | .ok (b, p) =>
        match writePairs p rest with
        | .error e => .error e
        | .ok (bs, p) => .ok (be16 n ++ b ++ bs, p)
def writeElemVals (p : Pool) : List ElemVal → W
  | [] => .ok ([], p)
  | v :: rest =>
    match writeElemVal p v with
    | .error e => .error e
    | .ok (b, p) =>
      match writeElemVals p rest with
      | .error e => .error e
      | .ok (bs, p) => .ok (b ++ bs, p)
end

/-- `write_annotations_attribute` -/
def writeAnnotations (as : List Annotation) (p : Pool) : W := writeSlice16 writeAnnotation p as

def annosAttr (name : JStr) (as : List Annotation) : AttrW := onlyIf (!as.isEmpty) (attrBuf name (writeAnnotations as))

/-! ## type annotations -/

/-- `write_type_path` -/
def writeTypePath (path : List (Nat × Nat)) : Except Fail Bytes := do
  let c ← cnt8 path.length
  pure (c ++ path.flatMap (fun q => [q.1, q.2]))

/-- `TargetInfoClass::write_type_reference`; a target of another owner is not a value of the tree type -/
def writeTargetClass : Target → Except Fail Bytes
  | .typeParam tag i => if tag = 0x00 then .ok [0x00, i] else .error .err
  | .extends_ => .ok (0x10 :: be16 65535)
  | .implements i => .ok (0x10 :: be16 i)
  | .typeParamBound tag a b => if tag = 0x11 then .ok [0x11, a, b] else .error .err
  | _ => .error .err

/-- `TargetInfoField::write_type_reference` -/
def writeTargetField : Target → Except Fail Bytes
  | .field => .ok [0x13]
  | _ => .error .err

/-- `TargetInfoMethod::write_type_reference` -/
def writeTargetMethod : Target → Except Fail Bytes
  | .typeParam tag i => if tag = 0x01 then .ok [0x01, i] else .error .err
  | .typeParamBound tag a b => if tag = 0x12 then .ok [0x12, a, b] else .error .err
  | .ret => .ok [0x14]
  | .receiver => .ok [0x15]
  | .formalParam i => .ok [0x16, i]
  | .throws i => .ok (0x17 :: be16 i)
  | _ => .error .err

/-- `write_type_annotations_attribute` (`wt` = the owner's `write_type_reference`) -/
def writeTypeAnnos (wt : Target → Except Fail Bytes) (as : List TypeAnno) (p : Pool) : W :=
  writeSlice16 (fun p a => do
    let t ← wt a.target
    let tp ← writeTypePath a.path
    let (b, p) ← writeAnnotation p a.anno
    pure (t ++ tp ++ b, p)) p as

def typeAnnosAttr (wt : Target → Except Fail Bytes) (name : JStr) (as : List TypeAnno) : AttrW :=
  onlyIf (!as.isEmpty) (attrBuf name (writeTypeAnnos wt as))

/-- the four annotation blocks every owner has, in source order -/
def annoBlocks (wt : Target → Except Fail Bytes) (rva ria : List Annotation) (rvta rita : List TypeAnno) : List AttrW :=
  [annosAttr ClassRead.sRVA rva, annosAttr ClassRead.sRIA ria,
   typeAnnosAttr wt ClassRead.sRVTA rvta, typeAnnosAttr wt ClassRead.sRITA rita]

/-! ## `write_field` -/

def writeField (p : Pool) (f : FieldFacts) : W := do
  let (ni, p) ← putUtf8 p f.name
  let (di, p) ← putUtf8 p f.desc
  let (as, p) ← runAttrs
    ([flagAttr f.deprecated ClassRead.sDeprecated, flagAttr f.synthetic ClassRead.sSynthetic,
      ifSome f.constant (fun v => attrFix ClassRead.sConstantValue 2 (fun p => idx16 (putConstantValue p v))),
      sigAttr f.signature]
      ++ annoBlocks writeTargetField f.rva f.ria f.rvta f.rita ++ unknownAttrs f.attrs) p
  let ab ← attrsBytes as
  pure (be16 f.access ++ be16 ni ++ be16 di ++ ab, p)

/-! ## `write_code` -/

/-- the label ids of the tree as instruction indices: carried by instruction `k` ↦ `k`, `last_label` ↦ `n`, carried
by nothing ↦ `n + 1` -/
def labOf (m : List (Nat × Nat)) (n : Nat) (id : Nat) : Nat := (ClassRead.lookupLabel m id).getD (n + 1)

def condOfOp (op : Nat) : Option CodeWrite.Cond :=
  if op = 0x99 then some .eq else if op = 0x9a then some .ne else if op = 0x9b then some .lt
  else if op = 0x9c then some .ge else if op = 0x9d then some .gt else if op = 0x9e then some .le
  else if op = 0x9f then some .icmpeq else if op = 0xa0 then some .icmpne else if op = 0xa1 then some .icmplt
  else if op = 0xa2 then some .icmpge else if op = 0xa3 then some .icmpgt else if op = 0xa4 then some .icmple
  else if op = 0xa5 then some .acmpeq else if op = 0xa6 then some .acmpne else if op = 0xc6 then some .null
  else if op = 0xc7 then some .nonnull else none

/-- `is_long_or_double` of the `Ldc` arm -/
def isTwoSlot : Loadable → Bool
  | .long _ => true
  | .double _ => true
  | .dyn _ desc _ _ => match desc with | 68 :: _ => true | 74 :: _ => true | _ => false
  | _ => false

/-- the pool puts of one instruction (what an attempt of `write_code` does for it; later attempts repeat the same puts
and get the same indices) and the instruction as `CodeWrite` sees it: pool indices in place of constants, instruction
indices in place of labels -/
def putInsn (lab : Nat → Nat) (p : Pool) (bs : List Bsm) : ClassRead.Insn → Except Fail (CodeWrite.Insn × Pool × List Bsm)
  | .simple op => .ok (.simple op, p, bs)
  | .bipush v => .ok (.bipush v, p, bs)
  | .sipush v => .ok (.sipush v, p, bs)
  | .ldc c => do
    let (i, p, bs) ← putLoadable p bs c
    pure (.ldc i (isTwoSlot c), p, bs)
  | .load k i => .ok (.load k i, p, bs)
  | .store k i => .ok (.store k i, p, bs)
  | .iinc i v => .ok (.iinc i v, p, bs)
  | .branch op t =>
    match condOfOp op with
    | none => .error .err
    | some c => .ok (.ifc c (lab t), p, bs)
  | .goto t => .ok (.goto (lab t), p, bs)
  | .jsr t => .ok (.jsr (lab t), p, bs)
  | .ret i => .ok (.ret i, p, bs)
  | .tableswitch d lo hi tbl => .ok (.tableswitch (lab d) lo hi (tbl.map lab), p, bs)
  | .lookupswitch d pairs => .ok (.lookupswitch (lab d) (pairs.map fun kt => (kt.1, lab kt.2)), p, bs)
  | .field op r => do let (i, p) ← putRef p 9 r; pure (.cp op i, p, bs)
  | .invokevirtual m => do let (i, p) ← putRef p 10 m; pure (.cp 0xb6 i, p, bs)
  | .invokespecial m itf => do let (i, p) ← putRef p (if itf then 11 else 10) m; pure (.cp 0xb7 i, p, bs)
  | .invokestatic m itf => do let (i, p) ← putRef p (if itf then 11 else 10) m; pure (.cp 0xb8 i, p, bs)
  | .invokeinterface m => do let (i, p) ← putRef p 11 m; pure (.invokeinterface i m.desc, p, bs)
  | .invokedynamic d => do let (i, p, bs) ← putInvokeDynamic p bs d; pure (.invokedynamic i, p, bs)
  | .new c => do let (i, p) ← putClass p c; pure (.cp 0xbb i, p, bs)
  | .newarray a => .ok (.newarray a, p, bs)
  | .anewarray c => do let (i, p) ← putClass p c; pure (.cp 0xbd i, p, bs)
  | .checkcast c => do let (i, p) ← putClass p c; pure (.cp 0xc0 i, p, bs)
  | .instanceof c => do let (i, p) ← putClass p c; pure (.cp 0xc1 i, p, bs)
  | .multianewarray c d => do let (i, p) ← putClass p c; pure (.multianewarray i d, p, bs)

def putInsns (lab : Nat → Nat) : Pool → List Bsm → List InsnEntry → Except Fail (List CodeWrite.Insn × Pool × List Bsm)
  | p, bs, [] => .ok ([], p, bs)
  | p, bs, e :: es => do
    let (i, p, bs) ← putInsn lab p bs e.insn
    let (is, p, bs) ← putInsns lab p bs es
    pure (i :: is, p, bs)

def vtypeOf (lab : Nat → Nat) : ClassRead.VType → FrameWrite.VType
  | .top => .top | .int => .int | .float => .float | .double => .double | .long => .long | .null => .null
  | .uninitThis => .uninitThis
  | .object c => .object c
  | .uninit l => .uninit (lab l)

def frameOf (lab : Nat → Nat) : ClassRead.Frame → FrameWrite.Frame
  | .same => .same
  | .same1 v => .same1 (vtypeOf lab v)
  | .chop k => .chop k
  | .append vs => .append (vs.map (vtypeOf lab))
  | .full ls ss => .full (ls.map (vtypeOf lab)) (ss.map (vtypeOf lab))

/-- `labels.try_get(label)` -/
def tryGet (lp : Nat → Option Nat) (l : Nat) : Except Fail Nat := opt (lp l)

/-- one `exception_table` row: the three labels, then the catch type -/
def writeException (lp : Nat → Option Nat) (p : Pool) (e : ExceptionEntry) : W := do
  let a ← tryGet lp e.start
  let b ← tryGet lp e.end_
  let h ← tryGet lp e.handler
  let (c, p) ← putOptional putClass p e.catch_
  pure (be16 a ++ be16 b ++ be16 h ++ be16 c, p)

def writeLine (lp : Nat → Option Nat) (p : Pool) (e : Nat × Nat) : W := do
  let a ← tryGet lp e.1
  pure (be16 a ++ be16 e.2, p)

/-- one `LocalVariableTable` (`sig = false`) / `LocalVariableTypeTable` row; entries without the descriptor /
signature are skipped -/
def writeLv (lp : Nat → Option Nat) (sig : Bool) (p : Pool) (v : Lv) : W :=
  match (if sig then v.sig else v.desc) with
  | none => .ok ([], p)
  | some d => do
    let (s, l) ← CodeWrite.range lp v.start v.end_
    let (ni, p) ← putUtf8 p v.name
    let (di, p) ← putUtf8 p d
    pure (be16 s ++ be16 l ++ be16 ni ++ be16 di ++ be16 v.index, p)

def lvCount (sig : Bool) (vs : List Lv) : Nat := (vs.filter fun v => (if sig then v.sig else v.desc).isSome).length

/-- the table body: the counted number of rows (`write_usize_as_u16(desc)`), then the rows -/
def writeLvTable (lp : Nat → Option Nat) (sig : Bool) (vs : List Lv) (p : Pool) : W := do
  let c ← cnt16 (lvCount sig vs)
  let (b, p) ← writeList (writeLv lp sig) p vs
  pure (c ++ b, p)

def writeRange (lp : Nat → Option Nat) (e : Nat × Nat × Nat) : Except Fail Bytes := do
  let (s, l) ← CodeWrite.range lp e.1 e.2.1
  pure (be16 s ++ be16 l ++ be16 e.2.2)

/-- `for x in xs { f(x)? }` for writes that do not touch the pool -/
def concatE {α : Type} (f : α → Except Fail Bytes) : List α → Except Fail Bytes
  | [] => .ok []
  | a :: as => do
    let b ← f a
    let bs ← concatE f as
    pure (b ++ bs)

/-- `write_type_reference_code`; labels through `try_get` / `try_get_range` -/
def writeTargetCode (lp : Nat → Option Nat) : Target → Except Fail Bytes
  | .localVar tag tbl =>
    if tag = 0x40 ∨ tag = 0x41 then do
      let c ← cnt16 tbl.length
      let b ← concatE (writeRange lp) tbl
      pure (tag :: (c ++ b))
    else .error .err
  | .exceptionParam i => .ok (0x42 :: be16 i)
  | .offset tag l =>
    if 0x43 ≤ tag ∧ tag ≤ 0x46 then do let o ← tryGet lp l; pure (tag :: be16 o) else .error .err
  | .offsetArg tag l i =>
    if 0x47 ≤ tag ∧ tag ≤ 0x4b then do let o ← tryGet lp l; pure (tag :: (be16 o ++ [i])) else .error .err
  | _ => .error .err

/-- `if desc > 0 { write_attribute(LOCAL_VARIABLE_TABLE, …) }` inside `if let Some(local_variables)` -/
def lvAttr (lp : Nat → Option Nat) (sig : Bool) (name : JStr) (locals : Option (List Lv)) : AttrW :=
  match locals with
  | none => fun p => .ok (none, p)
  | some vs => onlyIf (decide (lvCount sig vs > 0)) (attrBuf name (writeLvTable lp sig vs))

/-- `write_code`: the body of the `Code` attribute -/
def writeCode (c : Code) (p : Pool) (bs : List Bsm) : Except Fail (Bytes × Pool × List Bsm) := do
  let n := c.insns.length
  let lab := labOf (ClassRead.labelIndex c.insns c.lastLabel) n
  -- the attempts: pool puts in instruction order, then the code array with the retry loop
  let (is, p, bs) ← putInsns lab p bs c.insns
  match CodeWrite.writeCode is with
  | .outOfFuel => .error .err   -- unreachable (`Thm.C02.write_terminates`)
  | .err => .error .err
  | .panic => .error .panic
  | .ok res =>
    -- `labels.get` on the ids of the tree
    let lp : Nat → Option Nat := fun id => res.label (lab id)
    let (eb, p) ← writeSlice16 (writeException lp) p c.exceptions
    -- attributes of `Code`: StackMapTable, LineNumberTable, LocalVariableTable, LocalVariableTypeTable, type annotations,
    -- then the loop over `code.attributes` (the unknown attributes)
    let frames := FrameWrite.framesOf res (c.insns.map fun e => e.frame.map (frameOf lab))
    let (smt, p) ← FrameWrite.attr res.label p frames
    let smtB : List Bytes := match smt with | none => [] | some (i, b) => [be16 i ++ be32 b.length ++ b]
    let (as, p) ← runAttrs
      ([ifSome c.lines (fun ls => attrBuf ClassRead.sLineNumberTable (fun p => writeSlice16 (writeLine lp) p ls)),
       lvAttr lp false ClassRead.sLocalVariableTable c.locals,
       lvAttr lp true ClassRead.sLocalVariableTypeTable c.locals,
       typeAnnosAttr (writeTargetCode lp) ClassRead.sRVTA c.rvta,
       typeAnnosAttr (writeTargetCode lp) ClassRead.sRITA c.ritva] ++ unknownAttrs c.attrs) p
    let ab ← attrsBytes (smtB ++ as)
    pure (be16 c.maxStack ++ be16 c.maxLocals ++ be32 res.code.length ++ res.code ++ eb ++ ab, p, bs)

/-! ## `write_method` -/

def writeMethodParam (p : Pool) (q : MethodParam) : W := do
  let (i, p) ← putOptional putUtf8 p q.name
  pure (be16 i ++ be16 q.flags, p)

/-- `if let Some(code) = &method.code { write_attribute(CODE, |w, pool| write_code(w, code, pool)) }` -/
def codeAttr (code : Option Code) (p : Pool) (bs : List Bsm) : Except Fail (List Bytes × Pool × List Bsm) :=
  match code with
  | none => .ok ([], p, bs)
  | some c => do
    let (b, p, bs) ← writeCode c p bs
    let (i, p) ← putUtf8 p ClassRead.sCode
    let l ← cnt32 b.length
    pure ([be16 i ++ l ++ b], p, bs)

def writeMethod (p : Pool) (bs : List Bsm) (m : MethodFacts) : Except Fail (Bytes × Pool × List Bsm) := do
  let (ni, p) ← putUtf8 p m.name
  let (di, p) ← putUtf8 p m.desc
  let (a1, p) ← runAttrs [flagAttr m.deprecated ClassRead.sDeprecated, flagAttr m.synthetic ClassRead.sSynthetic] p
  let (a2, p, bs) ← codeAttr m.code p bs
  let (a3, p) ← runAttrs
    ([ifSome m.exceptions (fun es => attrBuf ClassRead.sExceptions (fun p => writeSlice16 (fun p e => idx16 (putClass p e)) p es)),
      sigAttr m.signature]
      ++ annoBlocks writeTargetMethod m.rva m.ria m.rvta m.rita
      ++ [ifSome m.annotationDefault (fun v => attrBuf ClassRead.sAnnotationDefault (fun p => writeElemVal p v)),
          ifSome m.params (fun ps => attrBuf ClassRead.sMethodParameters (fun p => do
            let c ← cnt8 ps.length
            let (b, p) ← writeList writeMethodParam p ps
            pure (c ++ b, p)))]
      ++ unknownAttrs m.attrs) p
  let ab ← attrsBytes (a1 ++ a2 ++ a3)
  pure (be16 m.access ++ be16 ni ++ be16 di ++ ab, p, bs)

def writeMethods : Pool → List Bsm → List MethodFacts → Except Fail (Bytes × Pool × List Bsm)
  | p, bs, [] => .ok ([], p, bs)
  | p, bs, m :: ms => do
    let (b, p, bs) ← writeMethod p bs m
    let (rest, p, bs) ← writeMethods p bs ms
    pure (b ++ rest, p, bs)

/-! ## `write_record_component`, `write_module` -/

def writeRecordComponent (p : Pool) (r : RecordComponent) : W := do
  let (ni, p) ← putUtf8 p r.name
  let (di, p) ← putUtf8 p r.desc
  let (as, p) ← runAttrs
    ([sigAttr r.signature] ++ annoBlocks writeTargetField r.rva r.ria r.rvta r.rita ++ unknownAttrs r.attrs) p
  let ab ← attrsBytes as
  pure (be16 ni ++ be16 di ++ ab, p)

def writeRequires (p : Pool) (r : ModuleRequires) : W := do
  let (n, p) ← putModule p r.name
  let (v, p) ← putOptional putUtf8 p r.version
  pure (be16 n ++ be16 r.flags ++ be16 v, p)

/-- `exports` / `opens` -/
def writeExports (p : Pool) (e : ModuleExports) : W := do
  let (n, p) ← putPackage p e.name
  let (b, p) ← writeSlice16 (fun p m => idx16 (putModule p m)) p e.to
  pure (be16 n ++ be16 e.flags ++ b, p)

def writeProvides (p : Pool) (e : ModuleProvides) : W := do
  let (n, p) ← putClass p e.name
  let (b, p) ← writeSlice16 (fun p c => idx16 (putClass p c)) p e.with_
  pure (be16 n ++ b, p)

def writeModule (m : Module) (p : Pool) : W := do
  let (n, p) ← putModule p m.name
  let (v, p) ← putOptional putUtf8 p m.version
  let (rq, p) ← writeSlice16 writeRequires p m.requires
  let (ex, p) ← writeSlice16 writeExports p m.exports
  let (op, p) ← writeSlice16 writeExports p m.opens
  let (us, p) ← writeSlice16 (fun p c => idx16 (putClass p c)) p m.uses
  let (pr, p) ← writeSlice16 writeProvides p m.provides
  pure (be16 n ++ be16 m.flags ++ be16 v ++ rq ++ ex ++ op ++ us ++ pr, p)

/-! ## class attributes -/

def writeInnerClass (p : Pool) (e : InnerClass) : W := do
  let (i, p) ← putClass p e.inner
  let (o, p) ← putOptional putClass p e.outer
  let (n, p) ← putOptional putUtf8 p e.name
  pure (be16 i ++ be16 o ++ be16 n ++ be16 e.flags, p)

def writeClassList (cs : List JStr) (p : Pool) : W := writeSlice16 (fun p c => idx16 (putClass p c)) p cs

/-- one row of `BootstrapMethods`: the handle enters the pool now -/
def writeBsmRow (p : Pool) (b : Bsm) : W := do
  let (h, p) ← opt (BootstrapWrite.putHandle p b.handle)
  let c ← cnt16 b.args.length
  pure (be16 h ++ c ++ b.args.flatMap be16, p)

/-- the attribute blocks of `write` after the members, in source order; `bs` = the bootstrap methods collected while
the members were written -/
def classAttrs (t : ClassFacts) (bs : List Bsm) : List AttrW :=
  [flagAttr t.deprecated ClassRead.sDeprecated, flagAttr t.synthetic ClassRead.sSynthetic,
   ifSome t.innerClasses (fun es => attrBuf ClassRead.sInnerClasses (fun p => writeSlice16 writeInnerClass p es)),
   ifSome t.enclosingMethod (fun em => attrFix ClassRead.sEnclosingMethod 4 (fun p => do
     let (c, p) ← putClass p em.1
     let (m, p) ← putOptional (fun p (x : JStr × JStr) => putNameAndType p x.1 x.2) p em.2
     pure (be16 c ++ be16 m, p))),
   sigAttr t.signature,
   ifSome t.sourceFile (fun s => attrFix ClassRead.sSourceFile 2 (fun p => idx16 (putUtf8 p s))),
   ifSome t.sourceDebugExtension (fun s => fun p => do
     let (i, p) ← putUtf8 p ClassRead.sSourceDebugExtension
     let l ← cnt32 (Mutf8.encode s).length
     pure (be16 i ++ l ++ Mutf8.encode s, p))]
  ++ annoBlocks writeTargetClass t.rva t.ria t.rvta t.rita ++
  [ifSome t.module (fun m => attrBuf ClassRead.sModule (writeModule m)),
   ifSome t.modulePackages (fun ps => attrBuf ClassRead.sModulePackages (fun p => writeSlice16 (fun p x => idx16 (putPackage p x)) p ps)),
   ifSome t.moduleMainClass (fun c => attrFix ClassRead.sModuleMainClass 2 (fun p => idx16 (putClass p c))),
   ifSome t.nestHost (fun c => attrFix ClassRead.sNestHost 2 (fun p => idx16 (putClass p c))),
   ifSome t.nestMembers (fun cs => attrBuf ClassRead.sNestMembers (writeClassList cs)),
   ifSome t.permittedSubclasses (fun cs => attrBuf ClassRead.sPermittedSubclasses (writeClassList cs)),
   onlyIf (!t.recordComponents.isEmpty)
     (attrBuf ClassRead.sRecord (fun p => writeSlice16 writeRecordComponent p t.recordComponents)),
   onlyIf (!bs.isEmpty) (attrBuf ClassRead.sBootstrapMethods (fun p => writeSlice16 writeBsmRow p bs))]
  ++ unknownAttrs t.attrs

/-! ## `PoolWrite::write` -/

def entryBytes : PoolWrite.Entry → Except Fail Bytes
  | .utf8 s => do
    let c ← cnt16 (Mutf8.encode s).length
    pure (1 :: (c ++ Mutf8.encode s))
  | .int v => .ok (3 :: be32 (ofI32 v))
  | .float b => .ok (4 :: be32 b)
  | .long v => .ok (5 :: be64 (ofI64 v))
  | .double b => .ok (6 :: be64 b)
  | .cls n => .ok (7 :: be16 n)
  | .str s => .ok (8 :: be16 s)
  | .fieldRef c nt => .ok (9 :: (be16 c ++ be16 nt))
  | .methodRef c nt => .ok (10 :: (be16 c ++ be16 nt))
  | .ifaceMethodRef c nt => .ok (11 :: (be16 c ++ be16 nt))
  | .nameAndType n d => .ok (12 :: (be16 n ++ be16 d))
  | .methodHandle k i => .ok (15 :: k :: be16 i)
  | .methodType d => .ok (16 :: be16 d)
  | .dynamic b nt => .ok (17 :: (be16 b ++ be16 nt))
  | .invokeDynamic b nt => .ok (18 :: (be16 b ++ be16 nt))
  | .module n => .ok (19 :: be16 n)
  | .package n => .ok (20 :: be16 n)

def entriesBytes : List PoolWrite.Entry → Except Fail Bytes
  | [] => .ok []
  | e :: es => do
    let b ← entryBytes e
    let bs ← entriesBytes es
    pure (b ++ bs)

/-- `constant_pool_count`, then the entries in creation order -/
def poolBytes (p : Pool) : Except Fail Bytes := do
  let b ← entriesBytes (PoolWrite.inner p)
  pure (be16 p.count ++ b)

/-! ## `write` -/

/-- everything `write` buffers while the pool grows (from `access_flags` to the last class attribute), the final pool -/
def writeBody (t : ClassFacts) : W := do
  let p := PoolWrite.empty
  let (ti, p) ← putClass p t.name
  let (si, p) ← putOptional putClass p t.super
  let (ib, p) ← writeSlice16 (fun p i => idx16 (putClass p i)) p t.interfaces
  let fc ← cnt16 t.fields.length
  let (fb, p) ← writeList writeField p t.fields
  let mc ← cnt16 t.methods.length
  let (mb, p, bs) ← writeMethods p [] t.methods
  let (as, p) ← runAttrs (classAttrs t bs) p
  let ab ← attrsBytes as
  pure (be16 t.access ++ be16 ti ++ be16 si ++ ib ++ fc ++ fb ++ mc ++ mb ++ ab, p)

/-- `duke::write_class` -/
def writeClass (t : ClassFacts) : Except Fail Bytes := do
  let (body, p) ← writeBody t
  let pb ← poolBytes p
  pure (be32 0xCAFEBABE ++ be16 t.minor ++ be16 t.major ++ pb ++ body)

end ClassWriteFull
