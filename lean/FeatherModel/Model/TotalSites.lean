import FeatherModel.Model.TotalBase

/-!
# C16 — the audit as data: every operation of the parsers that can panic, overflow the stack or allocate from a size
taken from the input

Audited files (tree as of the `fix:` commits, see `known_findings.json`): `duke/src/lib.rs` (`ClassRead`),
`duke/src/class_reader.rs`, `class_reader/{pool,labels}.rs`, `duke/src/jstring.rs`, `duke/src/tree/descriptor.rs`,
`duke/src/tree/mod.rs` (`names`), `duke/src/simple_class_writer.rs`, `simple_class_writer/{pool,labels}.rs`,
`quill/src/{lines,tiny_v2,tiny_v2_diff,enigma_file}.rs`, `quill/src/tree/mod.rs`, `dukenest/src/io.rs`.

`status`:
* `open_`    — reachable from input on the unchanged tree (a `_witness` theorem in `Thm/C16.lean` + a request line
               replayed on the real code); the `no_panic_*_partial` theorems exclude exactly these ids;
* `guarded`  — an unchecked operation that a preceding test makes safe; the model keeps it as a checked operation and
               the theorems prove it never fires;
* `bounded`  — an allocation whose size comes from the input but is bounded by a 16-bit count or by the bytes
               actually present;
* `fixed`    — was open, repaired by a `fix:` commit (40, 41: `52b8362`; 1–8: the commits named in the entry); a
               regression theorem in `Thm/C16.lean` and a request line in `corpus/regress/C16.txt`, replayed on every run.

`needle` is a piece of the source line: the harness maps a panic location to a site by reading that line, so the ids
survive line drift; `line` is informational.
-/

namespace Total.Sites

inductive Status where
  | open_ | guarded | bounded | fixed
  deriving DecidableEq, Repr, Inhabited

structure Info where
  id : Nat
  file : String
  line : Nat
  needle : String
  what : String
  guard : String
  status : Status
  deriving Repr, Inhabited

/-! ids used by the models -/
def labelsRange : Nat := 1
def labelsMaxId : Nat := 2
def frameOffset : Nat := 3
def stackDynamic : Nat := 4
def stackElementValue : Nat := 5
def allocU32 : Nat := 6
def argSizeWide : Nat := 7
def argSizeOne : Nat := 8
def writerIfWide : Nat := 9
def stackEnigmaClass : Nat := 10
def sliceCode : Nat := 20
def iloadSub : Nat := 21
def iloadAdd : Nat := 22
def iloadUnreachable : Nat := 23
def istoreSub : Nat := 24
def istoreAdd : Nat := 25
def istoreUnreachable : Nat := 26
def frameSub64 : Nat := 27
def frameChop : Nat := 28
def frameAppend : Nat := 29
def alignUnreachable : Nat := 30
def popFrontUnreachable : Nat := 31
def typePathUnreachable : Nat := 32
def capTableSwitch : Nat := 33
def capLookupSwitch : Nat := 34
def sliceTinyLine : Nat := 35
def sliceEnigmaLine : Nat := 36
def arrayDimension : Nat := 37
def descriptorWriteAssert : Nat := 38
def writerRangeSub : Nat := 39
def truncatedInsn : Nat := 40
def tableSwitchRange : Nat := 41
def writerTableSwitchCount : Nat := 42

def table : List Info := [
  -- ------------------------------------------------------------------ found open by this audit: 1–9, all since repaired
  ⟨1, "duke/src/class_reader/labels.rs", 59, "start_pc + length",
    "`start_pc + length` in u16 (LocalVariableTable, LocalVariableTypeTable, localvar/resource type-annotation targets)",
    "was open (no guard); fixed by e3534dd: `start_pc.checked_add(length)` is an error now", .fixed⟩,
  ⟨2, "duke/src/class_reader/labels.rs", 24, "self.max_id += 1",
    "label id counter in u16: the 65536th distinct label (code_length = 65535, every pc 0..=65535 labelled)",
    "was open (no guard); fixed by 4853513: the counter is a `u32`, ids `0..=65535` fit the label", .fixed⟩,
  ⟨3, "duke/src/class_reader.rs", 728, "offset += offset_delta",
    "StackMapTable: `offset_delta + 1` and `offset += …` in u16",
    "was open (no guard); fixed by 6b80d4b: `checked_add` twice, an error now", .fixed⟩,
  ⟨4, "duke/src/class_reader/pool.rs", 221, "pool.get_loadable(argument, bootstrap_methods)",
    "unbounded recursion: a Dynamic constant reachable from its own bootstrap arguments (also pool.rs:248 for InvokeDynamic); " ++
    "acyclic argument DAGs are expanded into trees of exponential size",
    "was open (no guard); fixed by cb2ce34: `get_loadable_at_depth` bails at depth > 16 (the expansion of acyclic DAGs into trees remains, bounded by fanout^16)", .fixed⟩,
  ⟨5, "duke/src/class_reader.rs", 1417, "let inner = read_element_values",
    "recursion depth = element_value nesting depth = |input| / 3 (`[` arrays) or / 7 (`@` annotations); lines 1329, 1334, 1411, 1416; " ++
    "the stack of the main thread ends between 5 000 and 20 000 levels",
    "was open (no guard); fixed by 835fdd2: `read_element_values_*` bail at depth > 255", .fixed⟩,
  ⟨6, "duke/src/lib.rs", 141, "std::vec::from_elem(0, size)",
    "`read_u8_vec(length as usize)` with the u32 `attribute_length` of SourceDebugExtension and of every unknown attribute " ++
    "(class_reader.rs:160, 250, 342, 459, 839, 1237): up to 4 GiB requested before a single byte is read",
    "was open (no guard); fixed by 8349742: `take(size).read_to_end`, the buffer grows only with bytes present", .fixed⟩,
  ⟨7, "duke/src/tree/descriptor.rs", 354, "size += 2",
    "`get_arguments_size` counts in u8; reached from the writer (simple_class_writer.rs:998, invokeinterface) on any descriptor the reader accepted",
    "was open (no guard); fixed by cf30e8c: `checked_add`, an error now", .fixed⟩,
  ⟨8, "duke/src/tree/descriptor.rs", 367, "size += 1",
    "same counter, one-slot arguments", "was open (no guard); fixed by cf30e8c: `checked_add`, an error now", .fixed⟩,
  ⟨9, "duke/src/simple_class_writer.rs", 470, "compute_signed_offset(opcode_pos + 1 + 2, target)",
    "`opcode_pos + 1 + 2` in u16 when a far backward `if` sits at opcode_pos >= 65533 (a 65535-byte method grows when `ldc` becomes `ldc_w`)",
    "was open (`opcode_pos <= 65535` only); fixed by 136eeb3: `opcode_pos.checked_add(1 + 2)` is an error now", .fixed⟩,
  ⟨10, "quill/src/enigma_file.rs", 120, "CLASS => parse_class(mappings, iter, line, Some",
    "recursion depth = indentation depth of nested CLASS lines (needs d lines with 0..d-1 tabs: |input| >= d*(d+11)/2, so depth <= sqrt(2|input|))",
    "none; sub-linear in the input, not exhibited (would need tens of MiB)", .bounded⟩,
  -- ------------------------------------------------------------------ guarded: modelled as checked operations, proved silent
  ⟨20, "duke/src/class_reader.rs", 853, "r.get_ref()[(r.position() as usize)..]",
    "slice from the cursor position in the second pass", "the second pass only `read_exact`s: position <= len", .guarded⟩,
  ⟨21, "duke/src/class_reader.rs", 886, "opcode - opcode::ILOAD_0", "u8 subtraction", "match arm 0x1a..=0x2d", .guarded⟩,
  ⟨22, "duke/src/class_reader.rs", 888, "opcode::ILOAD + (shifted >> 2)", "u8 addition", "shifted <= 19", .guarded⟩,
  ⟨23, "duke/src/class_reader.rs", 898, "_ => unreachable!()", "iload_n family", "21 + shifted/4 in 21..=25", .guarded⟩,
  ⟨24, "duke/src/class_reader.rs", 915, "opcode - opcode::ISTORE_0", "u8 subtraction", "match arm 0x3b..=0x4e", .guarded⟩,
  ⟨25, "duke/src/class_reader.rs", 917, "opcode::ISTORE + (shifted >> 2)", "u8 addition", "shifted <= 19", .guarded⟩,
  ⟨26, "duke/src/class_reader.rs", 927, "_ => unreachable!()", "istore_n family", "54 + shifted/4 in 54..=58", .guarded⟩,
  ⟨27, "duke/src/class_reader.rs", 690, "(frame_type - 64) as u16", "u8 subtraction", "match arm 64..=127", .guarded⟩,
  ⟨28, "duke/src/class_reader.rs", 698, "251 - frame_type", "u8 subtraction", "match arm 248..=250", .guarded⟩,
  ⟨29, "duke/src/class_reader.rs", 703, "frame_type - 251", "u8 subtraction", "match arm 252..=254", .guarded⟩,
  ⟨30, "duke/src/class_reader.rs", 510, "_ => unreachable!()", "align_to_4_byte_boundary", "`x & 0b11 < 4`", .guarded⟩,
  ⟨31, "duke/src/class_reader.rs", 1146, "checked that it's Some above", "pop_front after front().is_some_and(..)",
    "same deque, no mutation in between (not modelled: frames do not influence the outcome)", .guarded⟩,
  ⟨32, "duke/src/class_reader.rs", 1596, "_ => unreachable!()", "type_path kind", "outer arm 0..=2", .guarded⟩,
  ⟨33, "duke/src/class_reader.rs", 1037, "let mut table = Vec::with_capacity(n as usize)",
    "allocation of `high - low + 1` (< 2^31) labels in the second pass",
    "the first pass read all n offsets from the same bytes: 4n <= code_length", .guarded⟩,
  ⟨34, "duke/src/class_reader.rs", 1054, "let mut pairs = Vec::with_capacity(n as usize)",
    "allocation of `npairs` (< 2^31) pairs in the second pass", "the first pass read all n pairs: 8n <= code_length", .guarded⟩,
  ⟨35, "quill/src/lines.rs", 86, "let line = &line[idents..]",
    "byte-offset slice of a `str` at the number of leading TAB *characters*", "TAB is one byte: the offset is a char boundary <= len", .guarded⟩,
  ⟨36, "quill/src/enigma_file.rs", 245, "let line = &line[idents..]", "same in EnigmaLine::new", "same", .guarded⟩,
  ⟨37, "duke/src/tree/descriptor.rs", 101, "array_dimension += 1", "u8 counter of `[`", "`if array_dimension == 255 { bail! }` before", .guarded⟩,
  ⟨38, "duke/src/tree/descriptor.rs", 180, "assert!(!class_name.as_inner().starts_with('['))",
    "descriptor printer (also line 199)", "since d22331d `ObjClassName::try_from` rejects a leading `[` (C18)", .guarded⟩,
  ⟨39, "duke/src/simple_class_writer/labels.rs", 41, "Ok((start, end - start))",
    "u16 subtraction of label positions in the writer", "on reader output `end = start + length` and the writer keeps instruction order (not modelled here: C02)", .guarded⟩,
  ⟨42, "duke/src/simple_class_writer.rs", 928, "(high - low + 1) as usize",
    "i32 arithmetic in the writer", "on reader output `high - low + 1 = table.len() <= 16383` (not modelled here: C02)", .guarded⟩,
  -- ------------------------------------------------------------------ bounded allocations
  ⟨50, "duke/src/lib.rs", 115, "Vec::with_capacity(size)",
    "`read_vec`: the size is a u16 (u8 for MethodParameters, <= 3 for append frames) everywhere it is called",
    "<= 65535 elements per request; a request is outstanding only while its elements are being read", .bounded⟩,
  ⟨51, "duke/src/class_reader.rs", 539, "read_u8_vec(code_length as usize)", "bytecode buffer", "1 <= code_length <= 65535 tested before", .bounded⟩,
  ⟨52, "duke/src/class_reader/labels.rs", 16, "HashMap::with_capacity(code_length as usize / 3)", "label table", "<= 21845", .bounded⟩,
  ⟨53, "duke/src/class_reader.rs", 685, "VecDeque::with_capacity(number_of_entries)", "StackMapTable (742: StackMap)", "u16", .bounded⟩,
  ⟨54, "duke/src/class_reader/pool.rs", 300, "reader.read_u8_vec(length)", "Utf8 constant", "u16 length", .bounded⟩,
  -- ------------------------------------------------------------------ fixed by 52b8362
  ⟨40, "duke/src/class_reader.rs", 655, "the last instruction extends past",
    "was: `&bytecode[pos..]` with pos > len after `Cursor::seek` past the end (truncated last instruction)",
    "now: first pass ends with `position != len => bail!`", .fixed⟩,
  ⟨41, "duke/src/class_reader.rs", 623, "checked_sub(low)",
    "was: `high - low + 1` overflowing i32 (tableswitch low = i32::MIN, high = i32::MAX); also line 1033",
    "now: `checked_sub` / `checked_add`", .fixed⟩
]

def openIds : List Nat := (table.filter (·.status == .open_)).map (·.id)

/-- how the harness reports a site: the two stack sites are indistinguishable from outside (`panic stack`) -/
def report (s : Nat) : String :=
  if s == stackDynamic || s == stackElementValue || s == stackEnigmaClass then "stack"
  else if s == allocU32 then "alloc"
  else "S" ++ toString s

end Total.Sites
