import FeatherModel.Model.Remapper

/-!
# C06 — specification helpers evaluated by the driver (oracle domains) and used by `Thm/C06.lean`

* `dfsAll`: pre-order of the *provider's* graph from a class (super types in declaration order, recursively), whether or
  not the classes have a mapping. This is the order the property text speaks about ("nearest declaring super type in
  declaration order"); `Remapper.dfs` is the order the code really follows (it stops at classes without a mapping).
* `accepts`: the three-state automaton of the strings `map_desc` does not reject:
  `( non-L | L non-; non-;* ; )*`.
-/

namespace Remapper

/-- pre-order of the provider's graph from `o`; a class reachable along two paths is listed twice. `none` = out of fuel
(only with a cyclic provider when `fuel > number of provider rows`). -/
def dfsAll (sup : Supers) : Nat → JStr → Option (List JStr)
  | 0, _ => none
  | fuel + 1, o =>
    match AList.lookup o sup with
    | none => some [o]
    | some ss =>
      match concatM (fun s => dfsAll sup fuel s) ss with
      | none => none
      | some l => some (o :: l)

/-- fuel that suffices for `dfsAll` on an acyclic provider: every class on a path except the last one is a row -/
def allFuel (sup : Supers) : Nat := sup.length + 1

/-- every class of the list has a table in the B remapper (= has both names in some row) -/
def allMapped (r : BTable) (l : List JStr) : Bool := l.all fun c => (AList.lookup c r).isSome

end Remapper

namespace MapDesc

inductive St where
  | copy | first | name
  deriving Repr, DecidableEq

/-- run the automaton; accepting state: `copy` -/
def run : List Nat → St → Bool
  | [], .copy => true
  | [], _ => false
  | c :: rest, .copy => if c = CH_L then run rest .first else run rest .copy
  | c :: rest, .first => if c = SEMI then false else run rest .name
  | c :: rest, .name => if c = SEMI then run rest .copy else run rest .name

/-- the strings `map_desc` accepts -/
def accepts (s : List Nat) : Bool := run s .copy

end MapDesc
