import FeatherModel.Model.Remapper

/-!
# C06 — specification helpers evaluated by the driver (oracle domains) and used by `Thm/C06.lean`

* `accepts`: the three-state automaton of the strings `map_desc` does not reject:
  `( non-L | L non-; non-;* ; )*`.
-/

namespace MapDesc

inductive St where
  | copy | first | name
  deriving Repr, DecidableEq

/-- run the automaton; accepting state: `copy` -/
def run : List Nat → St → Bool
  | [], .copy => true
  | [], _ => false
  | c :: rest, .copy => if c = CH_L then run rest .first else run rest .copy
  | c :: rest, .first => if c = SEMI then false else run rest .name
  | c :: rest, .name => if c = SEMI then run rest .copy else run rest .name

/-- the strings `map_desc` accepts -/
def accepts (s : List Nat) : Bool := run s .copy

end MapDesc
