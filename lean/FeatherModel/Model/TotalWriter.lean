import FeatherModel.Model.TotalSites

/-!
# C16 — one scenario of the class writer on reader output: `if_helper` with a known (backward) target
(`duke/src/simple_class_writer.rs:462-478`)

The writer itself is modelled by C02.  For C16 only the no-panic oracle on the implementation is required, plus a
model of every witness found.  Witness of site 9: the harness op `writer-grow <nops> <nitf>` builds

    class A implements I0 … I{nitf-1} { void m() { nop × nops; L: … ; ldc <Integer>; ifeq L } }

where `L` is the nop at `nops - 32766`, so that the input branch offset is exactly `-32768`.  `duke::read_class`
accepts it; `duke::write_class` assigns pool indices in order of use (this, super, 2 per interface, method name and
descriptor), so the Integer gets index `2·nitf + 7`; from 256 on `ldc` becomes `ldc_w`, the `ifeq` moves one byte up,
its offset `-32769` no longer fits an `i16`, and `if_helper` computes `opcode_pos + 1 + 2` in `u16` — checked since
136eeb3 (an error), unchecked before (site 9).
-/

namespace Total.Writer

open TM

/-- `if_helper`, arm `labels.get(label) = Some(target)`: number of bytes written -/
def ifHelperKnown (opcodePos target : Nat) : TM Nat :=
  let branch : Int := (target : Int) - (opcodePos : Int)
  if -32768 ≤ branch ∧ branch ≤ 32767 then pure 3
  else do
    guard (opcodePos + 3 ≤ 65535)                       -- `opcode_pos.checked_add(1 + 2).with_context(..)?` (136eeb3)
    pure 8

/-- the `writer-grow` op: read, then write -/
def growOp (nops nitf : Nat) : TM Unit := do
  -- the reader: `code_length <= 65535`, the branch target exists
  guard (32766 ≤ nops && nops + 5 ≤ 65535 && nitf ≤ 1000)
  let idx := 2 * nitf + 7
  let ldcSize := if idx ≤ 255 then 2 else 3
  let p := nops + ldcSize
  let n ← ifHelperKnown p (nops - 32766)
  -- `code_length == 0 || code_length > u16::MAX => bail!`
  guard (p + n ≤ 65535)

end Total.Writer
