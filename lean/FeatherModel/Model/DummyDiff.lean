import FeatherModel.Base.Sexp
import FeatherModel.Base.AList

/-!
# Minimal `MappingsDiff` tree for C10 (`quill/src/tree/mappings_diff.rs`, `mappings_diff/action.rs`)
Own small copy (namespace `DummyDiff`) so that C10 does not depend on the diff model of C04.
Maps are `AList`s in `IndexMap` order with explicit keys.
-/

namespace DummyDiff

/-- `Action<T>` -/
inductive Action (α : Type) where
  | none
  | add (b : α)
  | remove (a : α)
  | edit (a b : α)
  deriving Repr, BEq, DecidableEq

/-- `Action::is_diff` -/
def Action.isDiff {α : Type} [DecidableEq α] : Action α → Bool
  | .none => false
  | .add _ => true
  | .remove _ => true
  | .edit a b => decide (a ≠ b)

/-- `ParameterNowodeDiff` -/
structure PDiff where
  info : Action JStr
  doc : Action JStr
  deriving Repr, BEq, DecidableEq

/-- `FieldNowodeDiff` -/
structure FDiff where
  info : Action JStr
  doc : Action JStr
  deriving Repr, BEq, DecidableEq

/-- `MethodNowodeDiff` -/
structure MDiff where
  info : Action JStr
  doc : Action JStr
  params : AList Nat PDiff
  deriving Repr, BEq, DecidableEq

/-- keys of member maps: `(name, desc)` -/
abbrev MKey := JStr × JStr

/-- `ClassNowodeDiff` -/
structure CDiff where
  info : Action JStr
  doc : Action JStr
  fields : AList MKey FDiff
  methods : AList MKey MDiff
  deriving Repr, BEq, DecidableEq

/-- `MappingsDiff` -/
structure Diff where
  info : Action JStr
  doc : Action JStr
  classes : AList JStr CDiff
  deriving Repr, BEq, DecidableEq

/-! ## S-expression codec (mirror of `harness/src/dummydiffcodec.rs`)
  action := (n) | (a x) | (r x) | (e x y)
  pdiff  := (kindex info doc)
  fdiff  := (kname kdesc info doc)
  mdiff  := (kname kdesc info doc (pdiff…))
  cdiff  := (key info doc (fdiff…) (mdiff…))
  diff   := (info doc (cdiff…))
-/
namespace Codec
open Sexp

def actionTo : Action JStr → Sexp
  | .none => list [tag "n"]
  | .add b => list [tag "a", ofJStr b]
  | .remove a => list [tag "r", ofJStr a]
  | .edit a b => list [tag "e", ofJStr a, ofJStr b]

def pdiffTo (e : Nat × PDiff) : Sexp := list [ofNat e.1, actionTo e.2.info, actionTo e.2.doc]
def fdiffTo (e : MKey × FDiff) : Sexp := list [ofJStr e.1.1, ofJStr e.1.2, actionTo e.2.info, actionTo e.2.doc]
def mdiffTo (e : MKey × MDiff) : Sexp :=
  list [ofJStr e.1.1, ofJStr e.1.2, actionTo e.2.info, actionTo e.2.doc, ofList pdiffTo e.2.params]
def cdiffTo (e : JStr × CDiff) : Sexp :=
  list [ofJStr e.1, actionTo e.2.info, actionTo e.2.doc, ofList fdiffTo e.2.fields, ofList mdiffTo e.2.methods]
def diffTo (d : Diff) : Sexp := list [actionTo d.info, actionTo d.doc, ofList cdiffTo d.classes]

def actionFrom : Sexp → Option (Action JStr)
  | list [atom "n"] => some .none
  | list [atom "a", b] => do let b ← toJStr? b; pure (.add b)
  | list [atom "r", a] => do let a ← toJStr? a; pure (.remove a)
  | list [atom "e", a, b] => do let a ← toJStr? a; let b ← toJStr? b; pure (.edit a b)
  | _ => none

def pdiffFrom : Sexp → Option (Nat × PDiff)
  | list [k, i, d] => do
    let k ← toNat? k; let i ← actionFrom i; let d ← actionFrom d
    pure (k, { info := i, doc := d })
  | _ => none
def fdiffFrom : Sexp → Option (MKey × FDiff)
  | list [kn, kd, i, d] => do
    let kn ← toJStr? kn; let kd ← toJStr? kd; let i ← actionFrom i; let d ← actionFrom d
    pure ((kn, kd), { info := i, doc := d })
  | _ => none
def mdiffFrom : Sexp → Option (MKey × MDiff)
  | list [kn, kd, i, d, ps] => do
    let kn ← toJStr? kn; let kd ← toJStr? kd; let i ← actionFrom i; let d ← actionFrom d
    let ps ← toListOf? pdiffFrom ps
    pure ((kn, kd), { info := i, doc := d, params := ps })
  | _ => none
def cdiffFrom : Sexp → Option (JStr × CDiff)
  | list [k, i, d, fs, ms] => do
    let k ← toJStr? k; let i ← actionFrom i; let d ← actionFrom d
    let fs ← toListOf? fdiffFrom fs; let ms ← toListOf? mdiffFrom ms
    pure (k, { info := i, doc := d, fields := fs, methods := ms })
  | _ => none
def diffFrom : Sexp → Option Diff
  | list [i, d, cs] => do
    let i ← actionFrom i; let d ← actionFrom d; let cs ← toListOf? cdiffFrom cs
    pure { info := i, doc := d, classes := cs }
  | _ => none

end Codec
end DummyDiff
