import FeatherModel.Model.ClassReadCode

/-!
# C01 — `class_reader::read`, `read_field`, `read_method`, `read_record_component`, `read_module`
(`duke/src/class_reader.rs`) into the tree of `duke/src/visitor/implementations/tree.rs`

`duke::read_class` runs the reader with the tree-building visitor (`ClassFile`, all interests): the model's
`ClassFacts` is that tree.  What the visitor does with repeated items is part of the model:
`insert_if_empty` (second `Signature`, `SourceFile`, `Code`, … is an error), annotations of several attributes of
the same kind are concatenated, `AnnotationDefault` is overwritten, `Deprecated`/`Synthetic` set a flag (their
body is **not** skipped, exactly as in the Rust code).

Flags: the tree stores one `bool` per known bit, so unknown bits are dropped; the model keeps `flags &&& mask`.

Order of reading: header, pool, this/super/interfaces, *skip* fields and methods, class attributes
(`BootstrapMethods` must be known before members are resolved), then fields and methods from the remembered
position; the reader ends after the class attributes.

Seam for C17: every function here is the `Interests::all()` / `ControlFlow::Continue` instance; `skipAttributes`
is what the `Break` arms and a cleared interest bit use.
-/

namespace ClassRead

open Outcome

structure InnerClass where
  inner : JStr
  outer : Option JStr
  name : Option JStr
  flags : Nat
  deriving DecidableEq, Repr, Inhabited

structure FieldFacts where
  access : Nat
  name : JStr
  desc : JStr
  deprecated : Bool
  synthetic : Bool
  constant : Option ConstantValue
  signature : Option JStr
  rva : List Annotation
  ria : List Annotation
  rvta : List TypeAnno
  rita : List TypeAnno
  attrs : List Attr
  deriving Inhabited

structure MethodParam where
  name : Option JStr
  flags : Nat
  deriving DecidableEq, Repr, Inhabited

structure MethodFacts where
  access : Nat
  name : JStr
  desc : JStr
  deprecated : Bool
  synthetic : Bool
  code : Option Code
  exceptions : Option (List JStr)
  signature : Option JStr
  rva : List Annotation
  ria : List Annotation
  rvta : List TypeAnno
  rita : List TypeAnno
  annotationDefault : Option ElemVal
  params : Option (List MethodParam)
  attrs : List Attr
  deriving Inhabited

structure RecordComponent where
  name : JStr
  desc : JStr
  signature : Option JStr
  rva : List Annotation
  ria : List Annotation
  rvta : List TypeAnno
  rita : List TypeAnno
  attrs : List Attr
  deriving Inhabited

structure ModuleRequires where
  name : JStr
  flags : Nat
  version : Option JStr
  deriving DecidableEq, Repr, Inhabited

/-- `ModuleExports` / `ModuleOpens` -/
structure ModuleExports where
  name : JStr
  flags : Nat
  to : List JStr
  deriving DecidableEq, Repr, Inhabited

structure ModuleProvides where
  name : JStr
  with_ : List JStr
  deriving DecidableEq, Repr, Inhabited

structure Module where
  name : JStr
  flags : Nat
  version : Option JStr
  requires : List ModuleRequires
  exports : List ModuleExports
  opens : List ModuleExports
  uses : List JStr
  provides : List ModuleProvides
  deriving DecidableEq, Repr, Inhabited

structure ClassFacts where
  minor : Nat
  major : Nat
  access : Nat
  name : JStr
  super : Option JStr
  interfaces : List JStr
  fields : List FieldFacts
  methods : List MethodFacts
  deprecated : Bool
  synthetic : Bool
  innerClasses : Option (List InnerClass)
  enclosingMethod : Option (JStr × Option (JStr × JStr))
  signature : Option JStr
  sourceFile : Option JStr
  sourceDebugExtension : Option JStr
  rva : List Annotation
  ria : List Annotation
  rvta : List TypeAnno
  rita : List TypeAnno
  module : Option Module
  modulePackages : Option (List JStr)
  moduleMainClass : Option JStr
  nestHost : Option JStr
  nestMembers : Option (List JStr)
  permittedSubclasses : Option (List JStr)
  recordComponents : List RecordComponent
  attrs : List Attr
  deriving Inhabited

/-! ## attribute names and flag masks -/

/-- `"AnnotationDefault"` -/
def sAnnotationDefault : JStr := [65, 110, 110, 111, 116, 97, 116, 105, 111, 110, 68, 101, 102, 97, 117, 108, 116]
/-- `"BootstrapMethods"` -/
def sBootstrapMethods : JStr := [66, 111, 111, 116, 115, 116, 114, 97, 112, 77, 101, 116, 104, 111, 100, 115]
/-- `"ConstantValue"` -/
def sConstantValue : JStr := [67, 111, 110, 115, 116, 97, 110, 116, 86, 97, 108, 117, 101]
/-- `"Deprecated"` -/
def sDeprecated : JStr := [68, 101, 112, 114, 101, 99, 97, 116, 101, 100]
/-- `"EnclosingMethod"` -/
def sEnclosingMethod : JStr := [69, 110, 99, 108, 111, 115, 105, 110, 103, 77, 101, 116, 104, 111, 100]
/-- `"Exceptions"` -/
def sExceptions : JStr := [69, 120, 99, 101, 112, 116, 105, 111, 110, 115]
/-- `"InnerClasses"` -/
def sInnerClasses : JStr := [73, 110, 110, 101, 114, 67, 108, 97, 115, 115, 101, 115]
/-- `"MethodParameters"` -/
def sMethodParameters : JStr := [77, 101, 116, 104, 111, 100, 80, 97, 114, 97, 109, 101, 116, 101, 114, 115]
/-- `"Module"` -/
def sModule : JStr := [77, 111, 100, 117, 108, 101]
/-- `"ModuleMainClass"` -/
def sModuleMainClass : JStr := [77, 111, 100, 117, 108, 101, 77, 97, 105, 110, 67, 108, 97, 115, 115]
/-- `"ModulePackages"` -/
def sModulePackages : JStr := [77, 111, 100, 117, 108, 101, 80, 97, 99, 107, 97, 103, 101, 115]
/-- `"NestHost"` -/
def sNestHost : JStr := [78, 101, 115, 116, 72, 111, 115, 116]
/-- `"NestMembers"` -/
def sNestMembers : JStr := [78, 101, 115, 116, 77, 101, 109, 98, 101, 114, 115]
/-- `"PermittedSubclasses"` -/
def sPermittedSubclasses : JStr := [80, 101, 114, 109, 105, 116, 116, 101, 100, 83, 117, 98, 99, 108, 97, 115, 115, 101, 115]
/-- `"Record"` -/
def sRecord : JStr := [82, 101, 99, 111, 114, 100]
/-- `"RuntimeVisibleAnnotations"` -/
def sRVA : JStr := [82, 117, 110, 116, 105, 109, 101, 86, 105, 115, 105, 98, 108, 101, 65, 110, 110, 111, 116, 97, 116, 105, 111, 110, 115]
/-- `"RuntimeInvisibleAnnotations"` -/
def sRIA : JStr := [82, 117, 110, 116, 105, 109, 101, 73, 110, 118, 105, 115, 105, 98, 108, 101, 65, 110, 110, 111, 116, 97, 116, 105, 111, 110, 115]
/-- `"RuntimeVisibleParameterAnnotations"` -/
def sRVPA : JStr := [82, 117, 110, 116, 105, 109, 101, 86, 105, 115, 105, 98, 108, 101, 80, 97, 114, 97, 109, 101, 116, 101, 114, 65, 110, 110, 111, 116, 97, 116, 105, 111, 110, 115]
/-- `"RuntimeInvisibleParameterAnnotations"` -/
def sRIPA : JStr := [82, 117, 110, 116, 105, 109, 101, 73, 110, 118, 105, 115, 105, 98, 108, 101, 80, 97, 114, 97, 109, 101, 116, 101, 114, 65, 110, 110, 111, 116, 97, 116, 105, 111, 110, 115]
/-- `"Signature"` -/
def sSignature : JStr := [83, 105, 103, 110, 97, 116, 117, 114, 101]
/-- `"SourceDebugExtension"` -/
def sSourceDebugExtension : JStr := [83, 111, 117, 114, 99, 101, 68, 101, 98, 117, 103, 69, 120, 116, 101, 110, 115, 105, 111, 110]
/-- `"SourceFile"` -/
def sSourceFile : JStr := [83, 111, 117, 114, 99, 101, 70, 105, 108, 101]
/-- `"Synthetic"` -/
def sSynthetic : JStr := [83, 121, 110, 116, 104, 101, 116, 105, 99]

def maskClass : Nat := 0xF631
def maskInner : Nat := 0x761F
def maskField : Nat := 0x50DF
def maskMethod : Nat := 0x1DFF
def maskParam : Nat := 0x9010
def maskModule : Nat := 0x9020
def maskRequires : Nat := 0x9060
def maskExports : Nat := 0x9000

/-! ## helpers -/

/-- `skip_attributes` -/
def skipAttributesLoop : Nat → Rd Unit
  | 0, s => ok ((), s)
  | n + 1, s => do
    let (_, s) ← u16 s
    let (len, s) ← u32 s
    let (_, s) ← skipN len s
    skipAttributesLoop n s

def skipAttributes : Rd Unit := fun s => do
  let (n, s) ← u16 s
  skipAttributesLoop n s

/-- the skipping pre-scan over `fields` (or `methods`) -/
def skipMembersLoop : Nat → Rd Unit
  | 0, s => ok ((), s)
  | n + 1, s => do
    let (_, s) ← skipN 6 s
    let (_, s) ← skipAttributes s
    skipMembersLoop n s

def skipMembers : Rd Unit := fun s => do
  let (n, s) ← u16 s
  skipMembersLoop n s

def readClassRef (p : Pool) : Rd JStr := fun s => do
  let (i, s) ← u16 s
  let c ← p.getClass i
  pure (c, s)

def readUtf8Ref (p : Pool) : Rd JStr := fun s => do
  let (i, s) ← u16 s
  let c ← p.getUtf8 i
  pure (c, s)

def readUnknown (name : JStr) (length : Nat) : Rd Attr := fun s => do
  let (bytes, s) ← takeN length s
  pure (⟨name, bytes⟩, s)

/-! ## fields -/

def readFieldAttr (p : Pool) (f : FieldFacts) (s : Bytes) : Outcome (FieldFacts × Bytes) := do
  let (ni, s) ← u16 s
  let name ← p.getUtf8 ni
  let (length, s) ← u32 s
  if name = sDeprecated then pure ({ f with deprecated := true }, s)
  else if name = sSynthetic then pure ({ f with synthetic := true }, s)
  else if name = sConstantValue then do
    let (i, s) ← u16 s
    let v ← p.getConstantValue i
    let c ← insertIfEmpty f.constant v
    pure ({ f with constant := c }, s)
  else if name = sSignature then do
    let (sig, s) ← readUtf8Ref p s
    let x ← insertIfEmpty f.signature sig
    pure ({ f with signature := x }, s)
  else if name = sRVA then do
    let (a, s) ← readAnnotations p s
    pure ({ f with rva := f.rva ++ a }, s)
  else if name = sRIA then do
    let (a, s) ← readAnnotations p s
    pure ({ f with ria := f.ria ++ a }, s)
  else if name = sRVTA then do
    let (a, s) ← readTypeAnnos p readTargetField s
    pure ({ f with rvta := f.rvta ++ a }, s)
  else if name = sRITA then do
    let (a, s) ← readTypeAnnos p readTargetField s
    pure ({ f with rita := f.rita ++ a }, s)
  else do
    let (a, s) ← readUnknown name length s
    pure ({ f with attrs := f.attrs ++ [a] }, s)

def readFieldAttrs (p : Pool) : Nat → FieldFacts → Bytes → Outcome (FieldFacts × Bytes)
  | 0, f, s => ok (f, s)
  | n + 1, f, s => do
    let (f, s) ← readFieldAttr p f s
    readFieldAttrs p n f s

/-- `read_field` -/
def readField (p : Pool) : Rd FieldFacts := fun s => do
  let (access, s) ← u16 s
  let (ni, s) ← u16 s
  let name0 ← p.getUtf8 ni
  let name ← checked validUnqualified name0
  let (desc, s) ← readUtf8Ref p s
  let (n, s) ← u16 s
  readFieldAttrs p n ⟨access &&& maskField, name, desc, false, false, none, none, [], [], [], [], []⟩ s

/-! ## methods -/

def readMethodParam (p : Pool) : Rd MethodParam := fun s => do
  let (ni, s) ← u16 s
  let name ← p.getOptional ni (fun p i => do let n ← p.getUtf8 i; checked validUnqualified n)
  let (fl, s) ← u16 s
  pure (⟨name, fl &&& maskParam⟩, s)

def readMethodAttr (p : Pool) (bsms : Option (List Bsm)) (m : MethodFacts) (s : Bytes) : Outcome (MethodFacts × Bytes) := do
  let (ni, s) ← u16 s
  let name ← p.getUtf8 ni
  let (length, s) ← u32 s
  if name = sDeprecated then pure ({ m with deprecated := true }, s)
  else if name = sSynthetic then pure ({ m with synthetic := true }, s)
  else if name = sCode then do
    let (c, s) ← readCode p bsms s
    let x ← insertIfEmpty m.code c
    pure ({ m with code := x }, s)
  else if name = sExceptions then do
    let (e, s) ← readVec16 (readClassRef p) s
    let x ← insertIfEmpty m.exceptions e
    pure ({ m with exceptions := x }, s)
  else if name = sSignature then do
    let (sig, s) ← readUtf8Ref p s
    let x ← insertIfEmpty m.signature sig
    pure ({ m with signature := x }, s)
  else if name = sRVA then do
    let (a, s) ← readAnnotations p s
    pure ({ m with rva := m.rva ++ a }, s)
  else if name = sRIA then do
    let (a, s) ← readAnnotations p s
    pure ({ m with ria := m.ria ++ a }, s)
  else if name = sRVTA then do
    let (a, s) ← readTypeAnnos p readTargetMethod s
    pure ({ m with rvta := m.rvta ++ a }, s)
  else if name = sRITA then do
    let (a, s) ← readTypeAnnos p readTargetMethod s
    pure ({ m with rita := m.rita ++ a }, s)
  else if name = sRVPA || name = sRIPA then do
    -- `// TODO: RuntimeVisibleParameterAnnotations`: skipped, not delivered
    let (_, s) ← skipN length s
    pure (m, s)
  else if name = sAnnotationDefault then do
    let (v, s) ← readAnnotationDefault p s
    pure ({ m with annotationDefault := some v }, s)
  else if name = sMethodParameters then do
    let (n, s) ← u8 s
    let (ps, s) ← readVec (readMethodParam p) n s
    let x ← insertIfEmpty m.params ps
    pure ({ m with params := x }, s)
  else do
    let (a, s) ← readUnknown name length s
    pure ({ m with attrs := m.attrs ++ [a] }, s)

def readMethodAttrs (p : Pool) (bsms : Option (List Bsm)) : Nat → MethodFacts → Bytes → Outcome (MethodFacts × Bytes)
  | 0, m, s => ok (m, s)
  | n + 1, m, s => do
    let (m, s) ← readMethodAttr p bsms m s
    readMethodAttrs p bsms n m s

/-- `read_method` -/
def readMethod (p : Pool) (bsms : Option (List Bsm)) : Rd MethodFacts := fun s => do
  let (access, s) ← u16 s
  let (ni, s) ← u16 s
  let name0 ← p.getUtf8 ni
  let name ← checked validMethodName name0
  let (desc, s) ← readUtf8Ref p s
  let (n, s) ← u16 s
  readMethodAttrs p bsms n
    ⟨access &&& maskMethod, name, desc, false, false, none, none, none, [], [], [], [], none, none, []⟩ s

/-! ## record components, module -/

def readRecordAttr (p : Pool) (r : RecordComponent) (s : Bytes) : Outcome (RecordComponent × Bytes) := do
  let (ni, s) ← u16 s
  let name ← p.getUtf8 ni
  let (length, s) ← u32 s
  if name = sSignature then do
    let (sig, s) ← readUtf8Ref p s
    let x ← insertIfEmpty r.signature sig
    pure ({ r with signature := x }, s)
  else if name = sRVA then do
    let (a, s) ← readAnnotations p s
    pure ({ r with rva := r.rva ++ a }, s)
  else if name = sRIA then do
    let (a, s) ← readAnnotations p s
    pure ({ r with ria := r.ria ++ a }, s)
  else if name = sRVTA then do
    let (a, s) ← readTypeAnnos p readTargetField s
    pure ({ r with rvta := r.rvta ++ a }, s)
  else if name = sRITA then do
    let (a, s) ← readTypeAnnos p readTargetField s
    pure ({ r with rita := r.rita ++ a }, s)
  else do
    let (a, s) ← readUnknown name length s
    pure ({ r with attrs := r.attrs ++ [a] }, s)

def readRecordAttrs (p : Pool) : Nat → RecordComponent → Bytes → Outcome (RecordComponent × Bytes)
  | 0, r, s => ok (r, s)
  | n + 1, r, s => do
    let (r, s) ← readRecordAttr p r s
    readRecordAttrs p n r s

/-- `read_record_component` -/
def readRecordComponent (p : Pool) : Rd RecordComponent := fun s => do
  let (name, s) ← readUtf8Ref p s
  let (desc, s) ← readUtf8Ref p s
  let (n, s) ← u16 s
  readRecordAttrs p n ⟨name, desc, none, [], [], [], [], []⟩ s

def readModuleRef (p : Pool) : Rd JStr := fun s => do
  let (i, s) ← u16 s
  let c ← p.getModule i
  pure (c, s)

def readPackageRef (p : Pool) : Rd JStr := fun s => do
  let (i, s) ← u16 s
  let c ← p.getPackage i
  pure (c, s)

def readOptUtf8 (p : Pool) : Rd (Option JStr) := fun s => do
  let (i, s) ← u16 s
  let c ← p.getOptional i Pool.getUtf8
  pure (c, s)

/-- `read_module` -/
def readModule (p : Pool) : Rd Module := fun s => do
  let (name, s) ← readModuleRef p s
  let (flags, s) ← u16 s
  let (version, s) ← readOptUtf8 p s
  let (requires, s) ← readVec16 (fun s => do
    let (n, s) ← readModuleRef p s
    let (f, s) ← u16 s
    let (v, s) ← readOptUtf8 p s
    pure (⟨n, f &&& maskRequires, v⟩, s)) s
  let (exports, s) ← readVec16 (fun s => do
    let (n, s) ← readPackageRef p s
    let (f, s) ← u16 s
    let (to, s) ← readVec16 (readModuleRef p) s
    pure (⟨n, f &&& maskExports, to⟩, s)) s
  let (opens, s) ← readVec16 (fun s => do
    let (n, s) ← readPackageRef p s
    let (f, s) ← u16 s
    let (to, s) ← readVec16 (readModuleRef p) s
    pure (⟨n, f &&& maskExports, to⟩, s)) s
  let (uses, s) ← readVec16 (readClassRef p) s
  let (provides, s) ← readVec16 (fun s => do
    let (n, s) ← readClassRef p s
    let (w, s) ← readVec16 (readClassRef p) s
    pure (⟨n, w⟩, s)) s
  pure (⟨name, flags &&& maskModule, version, requires, exports, opens, uses, provides⟩, s)

/-! ## class attributes -/

def readInnerClass (p : Pool) : Rd InnerClass := fun s => do
  let (inner, s) ← readClassRef p s
  let (oi, s) ← u16 s
  let outer ← p.getOptional oi Pool.getClass
  let (name, s) ← readOptUtf8 p s
  let (fl, s) ← u16 s
  pure (⟨inner, outer, name, fl &&& maskInner⟩, s)

def readBsm (p : Pool) : Rd Bsm := fun s => do
  let (hi, s) ← u16 s
  let h ← p.getMethodHandle hi
  let (args, s) ← readVec16 u16 s
  pure (⟨h, args⟩, s)

/-- mutable state of the class attribute loop -/
structure ClassAttrState where
  facts : ClassFacts
  bsms : Option (List Bsm)
  hadRecord : Bool
  deriving Inhabited

def readClassAttr (p : Pool) (st : ClassAttrState) (s : Bytes) : Outcome (ClassAttrState × Bytes) := do
  let c := st.facts
  let (ni, s) ← u16 s
  let name ← p.getUtf8 ni
  let (length, s) ← u32 s
  if name = sDeprecated then pure ({ st with facts := { c with deprecated := true } }, s)
  else if name = sSynthetic then pure ({ st with facts := { c with synthetic := true } }, s)
  else if name = sInnerClasses then do
    let (v, s) ← readVec16 (readInnerClass p) s
    let x ← insertIfEmpty c.innerClasses v
    pure ({ st with facts := { c with innerClasses := x } }, s)
  else if name = sEnclosingMethod then do
    let (cls, s) ← readClassRef p s
    let (mi, s) ← u16 s
    let m ← p.getOptional mi Pool.getMethodNameAndType
    let x ← insertIfEmpty c.enclosingMethod (cls, m)
    pure ({ st with facts := { c with enclosingMethod := x } }, s)
  else if name = sSignature then do
    let (sig, s) ← readUtf8Ref p s
    let x ← insertIfEmpty c.signature sig
    pure ({ st with facts := { c with signature := x } }, s)
  else if name = sSourceFile then do
    let (v, s) ← readUtf8Ref p s
    let x ← insertIfEmpty c.sourceFile v
    pure ({ st with facts := { c with sourceFile := x } }, s)
  else if name = sSourceDebugExtension then do
    let (b, s) ← takeN length s
    let v ← ofOption (Mutf8.decode b)
    let x ← insertIfEmpty c.sourceDebugExtension v
    pure ({ st with facts := { c with sourceDebugExtension := x } }, s)
  else if name = sRVA then do
    let (a, s) ← readAnnotations p s
    pure ({ st with facts := { c with rva := c.rva ++ a } }, s)
  else if name = sRIA then do
    let (a, s) ← readAnnotations p s
    pure ({ st with facts := { c with ria := c.ria ++ a } }, s)
  else if name = sRVTA then do
    let (a, s) ← readTypeAnnos p readTargetClass s
    pure ({ st with facts := { c with rvta := c.rvta ++ a } }, s)
  else if name = sRITA then do
    let (a, s) ← readTypeAnnos p readTargetClass s
    pure ({ st with facts := { c with rita := c.rita ++ a } }, s)
  else if name = sModule then do
    let (m, s) ← readModule p s
    let x ← insertIfEmpty c.module m
    pure ({ st with facts := { c with module := x } }, s)
  else if name = sModulePackages then do
    let (v, s) ← readVec16 (readPackageRef p) s
    let x ← insertIfEmpty c.modulePackages v
    pure ({ st with facts := { c with modulePackages := x } }, s)
  else if name = sModuleMainClass then do
    let (v, s) ← readClassRef p s
    let x ← insertIfEmpty c.moduleMainClass v
    pure ({ st with facts := { c with moduleMainClass := x } }, s)
  else if name = sNestHost then do
    let (v, s) ← readClassRef p s
    let x ← insertIfEmpty c.nestHost v
    pure ({ st with facts := { c with nestHost := x } }, s)
  else if name = sNestMembers then do
    let (v, s) ← readVec16 (readClassRef p) s
    let x ← insertIfEmpty c.nestMembers v
    pure ({ st with facts := { c with nestMembers := x } }, s)
  else if name = sPermittedSubclasses then do
    let (v, s) ← readVec16 (readClassRef p) s
    let x ← insertIfEmpty c.permittedSubclasses v
    pure ({ st with facts := { c with permittedSubclasses := x } }, s)
  else if name = sRecord then do
    if st.hadRecord then err
    else do
      let (v, s) ← readVec16 (readRecordComponent p) s
      pure ({ st with facts := { c with recordComponents := c.recordComponents ++ v }, hadRecord := true }, s)
  else if name = sBootstrapMethods then do
    let (v, s) ← readVec16 (readBsm p) s
    let x ← insertIfEmpty st.bsms v
    pure ({ st with bsms := x }, s)
  else do
    let (a, s) ← readUnknown name length s
    pure ({ st with facts := { c with attrs := c.attrs ++ [a] } }, s)

def readClassAttrs (p : Pool) : Nat → ClassAttrState → Bytes → Outcome (ClassAttrState × Bytes)
  | 0, st, s => ok (st, s)
  | n + 1, st, s => do
    let (st, s) ← readClassAttr p st s
    readClassAttrs p n st s

/-! ## the class file -/

/-- `class_reader::read` with the tree visitor: the class and the unread rest of the input -/
def read : Rd ClassFacts := fun s => do
  let (magic, s) ← u32 s
  if magic != 0xCAFEBABE then err
  else do
    let (minor, s) ← u16 s
    let (major, s) ← u16 s
    if major > 67 || (major = 67 && minor > 0) then err
    else do
      let (p, s) ← readPool s
      let (access, s) ← u16 s
      let (ti, s) ← u16 s
      let name ← p.getObjClass ti
      let (si, s) ← u16 s
      let super ← p.getOptional si Pool.getObjClass
      let (interfaces, s) ← readVec16 (fun s => do
        let (i, s) ← u16 s
        let c ← p.getObjClass i
        pure (c, s)) s
      let fieldsStart := s
      let (_, s) ← skipMembers s
      let (_, s) ← skipMembers s
      let c0 : ClassFacts :=
        { minor := minor, major := major, access := access &&& maskClass, name := name, super := super,
          interfaces := interfaces, fields := [], methods := [], deprecated := false, synthetic := false,
          innerClasses := none, enclosingMethod := none, signature := none, sourceFile := none,
          sourceDebugExtension := none, rva := [], ria := [], rvta := [], rita := [], module := none,
          modulePackages := none, moduleMainClass := none, nestHost := none, nestMembers := none,
          permittedSubclasses := none, recordComponents := [], attrs := [] }
      let (ac, s) ← u16 s
      let (st, sEnd) ← readClassAttrs p ac ⟨c0, none, false⟩ s
      -- `reader.with_pos(fields_start, …)`
      let (fields, s) ← readVec16 (readField p) fieldsStart
      let (methods, _) ← readVec16 (readMethod p st.bsms) s
      pure ({ st.facts with fields := fields, methods := methods }, sEnd)

end ClassRead
