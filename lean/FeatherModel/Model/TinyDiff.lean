import FeatherModel.Model.Diff

/-!
# `.tinydiff` reader (C04) and specification writer
`quill/src/tiny_v2_diff.rs` (`read`), `quill/src/lines.rs` (`TinyLine::new/next/action/action_string`,
`WithMoreIdentIter`), `quill/src/tiny_v2.rs` (`unescape`; `escape` for the specification writer), `duke/src/tree/mod.rs` (name predicates used by the
`TryFrom<JavaString>` conversions of keys and names).

The nested `on_every_line` loops of the reader are modelled as ONE structural pass over the lines with a zipper of the
currently open nodes (class ▸ field | method ▸ parameter). The number of open nodes is the depth of the innermost running
loop: a line indented deeper than that is the `expected an indentation of …` error, a line indented less closes
(`cancel an inner loop`) the nodes below its depth. `add_class/add_field/…` insert the node when its line is read and
fill the javadoc in place later; the zipper appends the node when it is closed, which gives the same map and order
because siblings are closed before the next one opens (the duplicate-key test is made when the line is read).

Text is a list of code points (the harness writes it as UTF-8 to a file for `tiny_v2_diff::read_file`).
The repo has no `.tinydiff` writer: `writeSpec` is specification text, mirrored verbatim by `harness/src/diffcodec.rs`.
-/

namespace TinyDiff
open DiffModel

def TAB : Nat := 9
def LF : Nat := 10
def CR : Nat := 13

/-- `str::split(sep)`: always at least one piece -/
def splitOn (sep : Nat) : List Nat → List (List Nat)
  | [] => [[]]
  | c :: rest =>
    if c = sep then [] :: splitOn sep rest
    else
      match splitOn sep rest with
      | [] => [[c]]
      | p :: ps => (c :: p) :: ps

def stripCR (l : List Nat) : List Nat :=
  if l.getLast? = some CR then l.dropLast else l

/-- `BufRead::lines`: LF-terminated lines lose one trailing CR; a non-empty unterminated last line is kept as it is -/
def textLines (text : List Nat) : List (List Nat) :=
  let ps := splitOn LF text
  ps.dropLast.map stripCR ++ (match ps.getLast? with
    | some [] => []
    | some l => [l]
    | none => [])

/-- `TinyLine` -/
structure Line where
  idents : Nat
  first : JStr
  fields : List JStr
  deriving Repr, DecidableEq

/-- `TinyLine::new` -/
def mkLine (l : List Nat) : Line :=
  let idents := (l.takeWhile (· = TAB)).length
  match splitOn TAB (l.drop idents) with
  | [] => { idents := idents, first := [], fields := [] }
  | f :: fs => { idents := idents, first := f, fields := fs }

/-! ### name predicates (`duke::tree::names`) -/

def DOT : Nat := 46
def SEMI : Nat := 59
def LBRACK : Nat := 91
def SLASH : Nat := 47
def LT : Nat := 60
def GT : Nat := 62

/-- `is_valid_unqualified_name` (field names, parameter names) -/
def validUnqualified (x : JStr) : Bool :=
  x != [] && x.all fun c => !(c == DOT || c == SEMI || c == LBRACK || c == SLASH)

/-- `is_valid_method_name` -/
def validMethodName (x : JStr) : Bool :=
  x == [60, 105, 110, 105, 116, 62] || x == [60, 99, 108, 105, 110, 105, 116, 62] ||
    (x != [] && x.all fun c => !(c == DOT || c == SEMI || c == LBRACK || c == SLASH || c == LT || c == GT))

/-- `is_valid_obj_class_name` -/
def validObjClass (x : JStr) : Bool :=
  x.head? != some LBRACK && (splitOn SLASH x).all validUnqualified

/-! ### cells -/

/-- one action cell: `fields.next().filter(|x| !x.is_empty()).map(T::try_from).transpose()?`; outer `none` = invalid name -/
def cell (valid : JStr → Bool) : Option JStr → Option (Option JStr)
  | none => some none
  | some s => if s = [] then some none else if valid s then some (some s) else none

/-- `TinyLine::action` / `action_string` on the remaining fields -/
def parseAction (valid : JStr → Bool) (fields : List JStr) : Option (Action JStr) :=
  if fields.length > 2 then none
  else
    match cell valid fields[0]?, cell valid fields[1]? with
    | some a, some b =>
      some (match a, b with
        | none, none => .none
        | none, some b => .add b
        | some a, none => .remove a
        | some a, some b => if a = b then .none else .edit a b)
    | _, _ => none

/-- `unescape` (quill/src/tiny_v2.rs, shared with the tiny v2 reader): scanning left to right, the two-character
sequences backslash-backslash, backslash-`n`, backslash-`r`, backslash-`t` are decoded; a backslash that starts none of
them is kept -/
def unescape : List Nat → List Nat
  | 92 :: 92 :: rest => 92 :: unescape rest
  | 92 :: 110 :: rest => 10 :: unescape rest
  | 92 :: 114 :: rest => 13 :: unescape rest
  | 92 :: 116 :: rest => 9 :: unescape rest
  | c :: rest => c :: unescape rest
  | [] => []

/-- `escape`: backslash, LF, CR and TAB become backslash-backslash, backslash-`n`, backslash-`r`, backslash-`t`
(four `str::replace`s, the backslash first, so it is a character-by-character map) -/
def escape : List Nat → List Nat
  | [] => []
  | c :: rest =>
    if c = 92 then 92 :: 92 :: escape rest
    else if c = 10 then 92 :: 110 :: escape rest
    else if c = 13 then 92 :: 114 :: escape rest
    else if c = 9 then 92 :: 116 :: escape rest
    else c :: escape rest

def Action.mapA {α β : Type} (f : α → β) : Action α → Action β
  | .none => .none
  | .add b => .add (f b)
  | .remove a => .remove (f a)
  | .edit a b => .edit (f a) (f b)

/-- `add_comment`: the raw cells are compared before unescaping; a second comment line is an error even when the first
one carried no action. Returns the new `had_comment` flag and action. -/
def addComment (had : Bool) (fields : List JStr) : Option (Action JStr) :=
  match parseAction (fun _ => true) fields with
  | none => none
  | some a => if had then none else some (Action.mapA unescape a)

def isDigit (c : Nat) : Bool := 48 ≤ c && c ≤ 57

/-- `str::parse::<usize>` (64 bit): optional `+`, at least one ASCII digit, no overflow -/
def parseUsize (s : JStr) : Option Nat :=
  let ds := match s with
    | 43 :: rest => rest
    | _ => s
  if ds = [] then none
  else if ds.all isDigit then
    let v := ds.foldl (fun acc c => acc * 10 + (c - 48)) 0
    if v < 18446744073709551616 then some v else none
  else none

/-! ### the zipper of open nodes -/

structure OpenParam where
  key : Nat
  d : PDiff
  had : Bool

inductive OpenMem where
  | field (key : MemberKey) (d : FDiff) (had : Bool)
  | method (key : MemberKey) (d : MDiff) (had : Bool) (par : Option OpenParam)

structure OpenClass where
  key : JStr
  d : CDiff
  had : Bool
  mem : Option OpenMem

structure St where
  done : AList JStr CDiff
  cls : Option OpenClass

def closeParam (d : MDiff) : Option OpenParam → MDiff
  | none => d
  | some p => { d with params := d.params ++ [(p.key, p.d)] }

def closeMem (d : CDiff) : Option OpenMem → CDiff
  | none => d
  | some (.field k f _) => { d with fields := d.fields ++ [(k, f)] }
  | some (.method k m _ par) => { d with methods := d.methods ++ [(k, closeParam m par)] }

def closeClass (done : AList JStr CDiff) : Option OpenClass → AList JStr CDiff
  | none => done
  | some c => done ++ [(c.key, closeMem c.d c.mem)]

def C_ : JStr := [99]
def F_ : JStr := [102]
def M_ : JStr := [109]
def P_ : JStr := [112]

/-- a line of the top-level loop -/
def step0 (st : St) (l : Line) : Option St :=
  let done := closeClass st.done st.cls
  if l.first = C_ then
    match l.fields with
    | [] => none
    | key :: rest =>
      if !validObjClass key then none else
      match parseAction validObjClass rest with
      | none => none
      | some a =>
        if AList.contains key done then none
        else some { done := done, cls := some { key := key, d := { info := a, doc := .none, fields := [], methods := [] }, had := false, mem := none } }
  else some { done := done, cls := none }

/-- a line of a class sub-section loop -/
def step1 (c : OpenClass) (l : Line) : Option OpenClass :=
  let d := closeMem c.d c.mem
  if l.first = F_ then
    match l.fields with
    | desc :: name :: rest =>
      if !validUnqualified name then none else
      match parseAction validUnqualified rest with
      | none => none
      | some a =>
        if AList.contains (name, desc) d.fields then none
        else some { c with d := d, mem := some (.field (name, desc) { info := a, doc := .none } false) }
    | _ => none
  else if l.first = M_ then
    match l.fields with
    | desc :: name :: rest =>
      if !validMethodName name then none else
      match parseAction validMethodName rest with
      | none => none
      | some a =>
        if AList.contains (name, desc) d.methods then none
        else some { c with d := d, mem := some (.method (name, desc) { info := a, doc := .none, params := [] } false none) }
    | _ => none
  else if l.first = C_ then
    match addComment c.had l.fields with
    | none => none
    | some a => some { c with d := { d with doc := a }, had := true, mem := none }
  else some { c with d := d, mem := none }

/-- a line of a field / method sub-section loop -/
def step2 (m : OpenMem) (l : Line) : Option OpenMem :=
  match m with
  | .field k f had =>
    if l.first = C_ then
      match addComment had l.fields with
      | none => none
      | some a => some (.field k { f with doc := a } true)
    else some m
  | .method k md had par =>
    let md := closeParam md par
    if l.first = P_ then
      match l.fields with
      | idx :: src :: rest =>
        match parseUsize idx with
        | none => none
        | some index =>
          if src ≠ [] then none else
          match parseAction validUnqualified rest with
          | none => none
          | some a =>
            if AList.contains index md.params then none
            else some (.method k md had (some { key := index, d := { info := a, doc := .none }, had := false }))
      | _ => none
    else if l.first = C_ then
      match addComment had l.fields with
      | none => none
      | some a => some (.method k { md with doc := a } true none)
    else some (.method k md had none)

/-- a line of a parameter sub-section loop -/
def step3 (p : OpenParam) (l : Line) : Option OpenParam :=
  if l.first = C_ then
    match addComment p.had l.fields with
    | none => none
    | some a => some { p with d := { p.d with doc := a }, had := true }
  else some p

/-- one line; `none` = any of the reader's errors (including `expected an indentation of …`) -/
def step (st : St) (l : Line) : Option St :=
  match l.idents with
  | 0 => step0 st l
  | 1 =>
    match st.cls with
    | none => none
    | some c => (step1 c l).map fun c' => { st with cls := some c' }
  | 2 =>
    match st.cls with
    | some c =>
      match c.mem with
      | some m => (step2 m l).map fun m' => { st with cls := some { c with mem := some m' } }
      | none => none
    | none => none
  | 3 =>
    match st.cls with
    | some c =>
      match c.mem with
      | some (.method k md had (some p)) =>
        (step3 p l).map fun p' => { st with cls := some { c with mem := some (.method k md had (some p')) } }
      | _ => none
    | none => none
  | _ => none

def steps : St → List Line → Option St
  | st, [] => some st
  | st, l :: rest =>
    match step st l with
    | none => none
    | some st' => steps st' rest

def TINY : JStr := [116, 105, 110, 121]

/-- the header test: first field `tiny`, then exactly `2` and `0` (the indentation of the header line is not looked at) -/
def headerOk (l : Line) : Bool :=
  l.first = TINY && l.fields = [[50], [48]]

/-- `tiny_v2_diff::read` -/
def read (text : List Nat) : Option Diff :=
  match (textLines text).map mkLine with
  | [] => none
  | h :: body =>
    if !headerOk h then none
    else
      match steps { done := [], cls := none } body with
      | none => none
      | some st => some { info := .none, doc := .none, classes := closeClass st.done st.cls }

/-! ### specification writer -/

def cellOf : Option JStr → JStr
  | none => []
  | some s => s

def actionCells (a : Action JStr) : List JStr := [cellOf a.toTuple.1, cellOf a.toTuple.2]

def joinTab : List JStr → List Nat
  | [] => []
  | [c] => c
  | c :: rest => c ++ TAB :: joinTab rest

def row (idents : Nat) (cells : List JStr) : List Nat :=
  List.replicate idents TAB ++ joinTab cells ++ [LF]

/-- a comment line, only when there is an action -/
def docRow (idents : Nat) : Action JStr → List Nat
  | .none => []
  | a => row idents (C_ :: (actionCells a).map escape)

def decimal (n : Nat) : JStr := (Nat.toDigits 10 n).map Char.toNat

def writeParam (e : Nat × PDiff) : List Nat :=
  row 2 (P_ :: decimal e.1 :: [] :: actionCells e.2.info) ++ docRow 3 e.2.doc

def writeField (e : MemberKey × FDiff) : List Nat :=
  row 1 (F_ :: e.1.2 :: e.1.1 :: actionCells e.2.info) ++ docRow 2 e.2.doc

def writeMethod (e : MemberKey × MDiff) : List Nat :=
  row 1 (M_ :: e.1.2 :: e.1.1 :: actionCells e.2.info) ++ docRow 2 e.2.doc ++ (e.2.params.map writeParam).flatten

def writeClass (e : JStr × CDiff) : List Nat :=
  row 0 (C_ :: e.1 :: actionCells e.2.info) ++ docRow 1 e.2.doc ++
    (e.2.fields.map writeField).flatten ++ (e.2.methods.map writeMethod).flatten

/-- specification text of a diff (its `info` and top-level `doc` have no textual form) -/
def writeSpec (d : Diff) : List Nat :=
  row 0 [TINY, [50], [48]] ++ (d.classes.map writeClass).flatten

end TinyDiff
