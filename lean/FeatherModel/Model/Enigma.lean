import FeatherModel.Model.Mappings
import FeatherModel.Model.InnerNames

/-!
# Enigma files and directories (C12)
`quill/src/enigma_file.rs` (`read_into`/`parse_class`, `EnigmaLine::new`, `is_modifier`, `insert_comment`, `write_class`,
`figure_out_files`, `write_all`, `write_one`, `write_one_tree_starting_at`), `quill/src/enigma_dir.rs` (`read`, `write`),
`quill/src/lines.rs` (`WithMoreIdentIter`).

Text is a list of code points. The model mirrors the code as it is at HEAD (after the commit "enigma writer keeps the full
names of a class written at the top level of a file").

The recursive-descent reader (closures nested in `parse_class`, driven by `WithMoreIdentIter`) is modelled by an explicit
stack machine that consumes one `EnigmaLine` at a time: the call stack of `parse_class` is `St.stack`, the `FIELD`/`METHOD`
(/`ARG`) loops that are active below the innermost class are `St.mem`. A line whose indentation is larger than the depth of the
innermost active loop is the `Ordering::Greater` error of `WithMoreIdentIter::next`; a smaller one ends the inner loops
(`Ordering::Less`), which is where `mappings.add_class(class)` runs. All error messages are collapsed to `none`.
-/

namespace Enigma

abbrev Text := List Nat

def TAB : Nat := 9
def LF : Nat := 10
def CR : Nat := 13
def SP : Nat := 32
def HASH : Nat := 35
def DOLLAR : Nat := 36

/-- "CLASS" -/
def kwCLASS : JStr := [67, 76, 65, 83, 83]
/-- "FIELD" -/
def kwFIELD : JStr := [70, 73, 69, 76, 68]
/-- "METHOD" -/
def kwMETHOD : JStr := [77, 69, 84, 72, 79, 68]
/-- "ARG" -/
def kwARG : JStr := [65, 82, 71]
/-- "COMMENT" -/
def kwCOMMENT : JStr := [67, 79, 77, 77, 69, 78, 84]
/-- "ACC:" -/
def kwACC : JStr := [65, 67, 67, 58]
/-- "<init>" -/
def kwINIT : JStr := [60, 105, 110, 105, 116, 62]
/-- ".mapping" -/
def extMAPPING : JStr := [46, 109, 97, 112, 112, 105, 110, 103]

/-! ## Lines -/

/-- end of a line that was terminated by LF: one trailing CR is stripped (`cur` is the reversed line) -/
def endLine : Text → Text
  | x :: cur' => if x = CR then cur'.reverse else (x :: cur').reverse
  | [] => []

/-- `BufRead::lines`: split on LF; a line that was terminated by LF loses one trailing CR; an unterminated last line is
yielded only when it is not empty (and keeps a trailing CR). `cur` is the reversed current line. -/
def splitLines : Text → Text → List Text
  | [], cur => if cur = [] then [] else [cur.reverse]
  | c :: rest, cur =>
    if c = LF then endLine cur :: splitLines rest []
    else splitLines rest (c :: cur)

/-- `char::is_whitespace` (Unicode `White_Space`), used by `str::trim` -/
def isWhite (c : Nat) : Bool :=
  (9 ≤ c && c ≤ 13) || c == 32 || c == 0x85 || c == 0xA0 || c == 0x1680 || (0x2000 ≤ c && c ≤ 0x200A) ||
  c == 0x2028 || c == 0x2029 || c == 0x202F || c == 0x205F || c == 0x3000

/-- `JAVA_WHITESPACE` of `EnigmaLine::new` -/
def isJavaWs (c : Nat) : Bool :=
  c == 32 || c == 9 || c == 10 || c == 11 || c == 12 || c == 13

def trim (l : Text) : Text :=
  ((l.dropWhile isWhite).reverse.dropWhile isWhite).reverse

/-- `str::split(pattern)`: always at least one piece, empty pieces are kept -/
def splitOn (p : Nat → Bool) : Text → List Text
  | [] => [[]]
  | c :: rest =>
    if p c then [] :: splitOn p rest
    else
      match splitOn p rest with
      | h :: t => (c :: h) :: t
      | [] => [[c]]

structure ELine where
  idents : Nat
  first : JStr
  fields : List JStr
  deriving Repr, BEq, DecidableEq

/-- `EnigmaLine::new` after the leading tabs have been counted and cut off (`None` = the line is dropped by the
`filter_map`) -/
def lexBody (idents : Nat) (l : Text) : Option ELine :=
  let l := if kwCOMMENT.isPrefixOf l then l else trim (l.takeWhile (· != HASH))
  if l = [] then none
  else
    match splitOn isJavaWs l with
    | f :: fs => some { idents := idents, first := f, fields := fs }
    | [] => none

/-- `EnigmaLine::new` -/
def lexLine (line : Text) : Option ELine :=
  let idents := (line.takeWhile (· == TAB)).length
  lexBody idents (line.drop idents)

def lexText (t : Text) : List ELine := (splitLines t []).filterMap lexLine

/-! ## Name checks of the `duke` name types (`TryFrom<JavaString>`) -/

/-- JVMS 4.2.2 unqualified name: non-empty, none of `.` `;` `[` `/` -/
def validUnq (s : JStr) : Bool :=
  s != [] && s.all (fun c => c != 46 && c != 59 && c != 91 && c != 47)

def validMethodName (s : JStr) : Bool :=
  s == kwINIT || s == [60, 99, 108, 105, 110, 105, 116, 62] ||
  (s != [] && s.all (fun c => c != 46 && c != 59 && c != 91 && c != 47 && c != 60 && c != 62))

/-- `is_valid_obj_class_name` -/
def validObjClass (s : JStr) : Bool :=
  s.head? != some 91 && (splitOn (· == 47) s).all validUnq

def isModifier (s : JStr) : Bool := kwACC.isPrefixOf s

/-- `str::parse::<usize>()` on a 64-bit target: optional `+`, at least one ASCII digit, no overflow -/
def parseDigits : List Nat → Nat → Option Nat
  | [], acc => some acc
  | c :: rest, acc => if 48 ≤ c ∧ c ≤ 57 then parseDigits rest (acc * 10 + (c - 48)) else none

def parseUsize (s : JStr) : Option Nat :=
  let digits := match s with
    | 43 :: rest => rest
    | _ => s
  if digits = [] then none
  else
    match parseDigits digits 0 with
    | some n => if n < 18446744073709551616 then some n else none
    | none => none

/-- `[String]::join(" ")` -/
def joinSp : List JStr → JStr
  | [] => []
  | [x] => x
  | x :: y :: rest => x ++ SP :: joinSp (y :: rest)

/-- `insert_comment` -/
def insertComment (doc : Option JStr) (l : ELine) : Option JStr :=
  match doc with
  | some d => some (d ++ LF :: joinSp l.fields)
  | none => some (joinSp l.fields)

/-! ## Reader -/

/-- an activation of `parse_class` whose `CLASS` sub-section loop is running -/
structure Frame where
  /-- full source name, `parent_src` of the nested classes -/
  key : JStr
  /-- `parent_dst` of the nested classes: full target name, or the source name when there is none -/
  pdst : JStr
  cls : Class
  deriving Repr, BEq, DecidableEq

/-- the member loops active below the innermost class -/
inductive Mem where
  | idle
  | field (k : MemberKey) (f : Field)
  | method (k : MemberKey) (m : Method) (p : Option (Nat × Param))
  deriving Repr, BEq, DecidableEq

structure St where
  classes : AList JStr Class
  stack : List Frame
  mem : Mem
  deriving Repr, BEq, DecidableEq

def Mem.depth : Mem → Nat
  | .idle => 0
  | .field _ _ => 1
  | .method _ _ none => 1
  | .method _ _ (some _) => 2

/-- depth of the innermost active `on_every_line` loop -/
def St.depth (s : St) : Nat := s.stack.length + s.mem.depth

/-- the `ARG` loop of the current parameter ends: nothing to do, the parameter already sits in the method; in the model
the open parameter is appended now (`add_parameter` checked the key when the line was read) -/
def closeParam : Mem → Mem
  | .method k m (some p) => .method k { m with params := m.params ++ [p] } none
  | x => x

/-- the member loop ends; the member is appended to the innermost class -/
def closeMem (s : St) : St :=
  match s.stack, closeParam s.mem with
  | fr :: rest, .field k f =>
    { s with stack := { fr with cls := { fr.cls with fields := fr.cls.fields ++ [(k, f)] } } :: rest, mem := .idle }
  | fr :: rest, .method k m _ =>
    { s with stack := { fr with cls := { fr.cls with methods := fr.cls.methods ++ [(k, m)] } } :: rest, mem := .idle }
  | _, _ => { s with mem := .idle }

/-- `CLASS` loops end until only `target` activations are left; each one runs `mappings.add_class(class)` -/
def popFrames (target : Nat) : List Frame → AList JStr Class → Option (List Frame × AList JStr Class)
  | [], cs => some ([], cs)
  | fr :: rest, cs =>
    if target < rest.length + 1 then
      match AList.insertNew fr.key fr.cls cs with
      | none => none
      | some cs' => popFrames target rest cs'
    else some (fr :: rest, cs)

/-- end inner loops until the innermost active loop has depth `d` (`d ≤ s.depth`) -/
def unwindTo (d : Nat) (s : St) : Option St :=
  if s.depth ≤ d then some s
  else if s.stack.length + 1 ≤ d then
    -- only the parameter loop ends
    some { s with mem := closeParam s.mem }
  else
    let s1 := closeMem s
    match popFrames d s1.stack s1.classes with
    | none => none
    | some (st, cs) => some { classes := cs, stack := st, mem := .idle }

/-- the argument forms of `CLASS` lines -/
def classArgs : List JStr → Option (JStr × Option JStr)
  | [src] => some (src, none)
  | [src, x] => if isModifier x then some (src, none) else some (src, some x)
  | [src, dst, _] => some (src, some dst)
  | _ => none

/-- the argument forms of `FIELD` and `METHOD` lines: (src, dst, desc) -/
def memberArgs : List JStr → Option (JStr × Option JStr × JStr)
  | [src, desc] => some (src, none, desc)
  | [src, x, y] => if isModifier y then some (src, none, x) else some (src, some x, y)
  | [src, dst, desc, _] => some (src, some dst, desc)
  | _ => none

def optAll (p : JStr → Bool) : Option JStr → Bool
  | none => true
  | some x => p x

/-- `parse_class` up to the start of its sub-section loop -/
def openClass (parent : Option (JStr × JStr)) (l : ELine) : Option Frame :=
  match classArgs l.fields with
  | none => none
  | some (src, dst) =>
    let (src, dst) := match parent with
      | some (ps, pd) => (ps ++ DOLLAR :: src, dst.map (fun d => pd ++ DOLLAR :: d))
      | none => (src, dst)
    if validObjClass src && optAll validObjClass dst then
      some { key := src, pdst := dst.getD src,
             cls := { names := [some src, dst], doc := none, fields := [], methods := [] } }
    else none

/-- a line at the depth of the innermost active loop (`s.depth = l.idents`) -/
def handle (s : St) (l : ELine) : Option St :=
  match s.mem with
  | .idle =>
    match s.stack with
    | [] =>
      if l.first = kwCLASS then
        match openClass none l with
        | some fr => some { s with stack := [fr] }
        | none => none
      else none
    | fr :: rest =>
      if l.first = kwCLASS then
        match openClass (some (fr.key, fr.pdst)) l with
        | some fr' => some { s with stack := fr' :: fr :: rest }
        | none => none
      else if l.first = kwFIELD then
        match memberArgs l.fields with
        | some (src, dst, desc) =>
          if validUnq src && optAll validUnq dst && !AList.contains (src, desc) fr.cls.fields then
            some { s with mem := .field (src, desc) { desc := desc, names := [some src, dst], doc := none } }
          else none
        | none => none
      else if l.first = kwMETHOD then
        match memberArgs l.fields with
        | some (src, dst, desc) =>
          if validMethodName src && optAll validMethodName dst && !AList.contains (src, desc) fr.cls.methods then
            some { s with mem := .method (src, desc) { desc := desc, names := [some src, dst], doc := none, params := [] } none }
          else none
        | none => none
      else if l.first = kwCOMMENT then
        some { s with stack := { fr with cls := { fr.cls with doc := insertComment fr.cls.doc l } } :: rest }
      else none
  | .field k f =>
    if l.first = kwCOMMENT then some { s with mem := .field k { f with doc := insertComment f.doc l } }
    else none
  | .method k m none =>
    if l.first = kwARG then
      match l.fields with
      | [raw, dst] =>
        match parseUsize raw with
        | some idx =>
          if validUnq dst && !AList.contains idx m.params then
            some { s with mem := .method k m (some (idx, { index := idx, names := [none, some dst], doc := none })) }
          else none
        | none => none
      | _ => none
    else if l.first = kwCOMMENT then some { s with mem := .method k { m with doc := insertComment m.doc l } none }
    else none
  | .method k m (some (i, p)) =>
    if l.first = kwCOMMENT then some { s with mem := .method k m (some (i, { p with doc := insertComment p.doc l })) }
    else none

/-- one `EnigmaLine` -/
def step (s : St) (l : ELine) : Option St :=
  if s.depth < l.idents then none
  else
    match unwindTo l.idents s with
    | none => none
    | some s' => handle s' l

def run : List ELine → St → Option St
  | [], s => some s
  | l :: rest, s =>
    match step s l with
    | none => none
    | some s' => run rest s'

/-- the classes after all loops have ended at the end of the input -/
def finish (s : St) : Option (AList JStr Class) :=
  match unwindTo 0 s with
  | none => none
  | some s' => some s'.classes

def readClasses (t : Text) (cs : AList JStr Class) : Option (AList JStr Class) :=
  match run (lexText t) { classes := cs, stack := [], mem := .idle } with
  | none => none
  | some s => finish s

/-- `read_into` -/
def readInto (t : Text) (m : Mappings) : Option Mappings :=
  match readClasses t m.classes with
  | none => none
  | some cs => some { m with classes := cs }

/-! ## Orders (`Ord` of `JavaString`, `Option`, arrays, derived structs) -/

def jcmp : JStr → JStr → Ordering
  | [], [] => .eq
  | [], _ :: _ => .lt
  | _ :: _, [] => .gt
  | a :: as, b :: bs => if a < b then .lt else if b < a then .gt else jcmp as bs

def ocmp : Option JStr → Option JStr → Ordering
  | none, none => .eq
  | none, some _ => .lt
  | some _, none => .gt
  | some a, some b => jcmp a b

def ncmp : Names → Names → Ordering
  | [], [] => .eq
  | [], _ :: _ => .lt
  | _ :: _, [] => .gt
  | a :: as, b :: bs =>
    match ocmp a b with
    | .eq => ncmp as bs
    | o => o

/-- stable insertion sort (`sort_by`, `sort_by_key` are stable; the unstable sorts of the code are only applied to
sequences without equal keys) -/
def insertBy {α : Type} (le : α → α → Bool) (x : α) : List α → List α
  | [] => [x]
  | y :: ys => if le x y then x :: y :: ys else y :: insertBy le x ys

def isort {α : Type} (le : α → α → Bool) : List α → List α
  | [] => []
  | x :: xs => insertBy le x (isort le xs)

/-- `a.names.cmp(b.names).then_with(|| a.desc.cmp(b.desc))` is not `Greater` -/
def memberLe (an : Names) (ad : JStr) (bn : Names) (bd : JStr) : Bool :=
  match ncmp an bn with
  | .lt => true
  | .gt => false
  | .eq => jcmp ad bd != .gt

def fieldLe (a b : MemberKey × Field) : Bool := memberLe a.2.names a.2.desc b.2.names b.2.desc
def methodLe (a b : MemberKey × Method) : Bool := memberLe a.2.names a.2.desc b.2.names b.2.desc
/-- derived `Ord` of `ParameterMapping { index, names }` -/
def paramLe (a b : Nat × Param) : Bool :=
  if a.2.index < b.2.index then true
  else if b.2.index < a.2.index then false
  else ncmp a.2.names b.2.names != .gt
def keyLe {α : Type} (a b : JStr × α) : Bool := jcmp a.1 b.1 != .gt

/-! ## Writer -/

def isSurrogate (c : Nat) : Bool := 0xD800 ≤ c && c ≤ 0xDFFF

/-- `Display` of the name types fails on unmatched surrogates -/
def disp (s : JStr) : Option JStr := if s.any isSurrogate then none else some s

/-- decimal digits of a `usize` (`Display`) -/
def decDigits : Nat → Nat → List Nat → List Nat
  | 0, _, acc => acc
  | fuel + 1, n, acc => if n < 10 then (48 + n) :: acc else decDigits fuel (n / 10) ((48 + n % 10) :: acc)

def natToDec (n : Nat) : JStr := decDigits (n + 1) n []

def tabs (n : Nat) : Text := List.replicate n TAB

/-- the second name of a two-namespace row -/
def dstOf (n : Names) : Option JStr := (n[1]?).getD none

/-- `for line in javadoc.0.split('\n') { writeln!(w, "{indent}COMMENT {line}") }` (the javadoc is a Rust `String`) -/
def commentLines (indent : Nat) : Option JStr → List Text
  | none => []
  | some d => (splitOn (· == LF) d).map (fun l => tabs indent ++ kwCOMMENT ++ SP :: l)

def optTok : Option JStr → Option Text
  | none => some []
  | some d => (disp d).map (fun d => SP :: d)

def paramLines (indent : Nat) : List (Nat × Param) → Option (List Text)
  | [] => some []
  | (_, p) :: rest =>
    match dstOf p.names with
    | none => none
    | some dst =>
      match disp dst, paramLines indent rest with
      | some dst, some more =>
        some ((tabs indent ++ kwARG ++ SP :: natToDec p.index ++ SP :: dst) :: commentLines (indent + 1) p.doc ++ more)
      | _, _ => none

def fieldLines (indent : Nat) : List (MemberKey × Field) → Option (List Text)
  | [] => some []
  | ((name, desc), f) :: rest =>
    match disp name, optTok (dstOf f.names), disp desc, fieldLines indent rest with
    | some name, some dst, some desc, some more =>
      some ((tabs indent ++ kwFIELD ++ SP :: name ++ dst ++ SP :: desc) :: commentLines (indent + 1) f.doc ++ more)
    | _, _, _, _ => none

def methodLines (indent : Nat) : List (MemberKey × Method) → Option (List Text)
  | [] => some []
  | ((name, desc), m) :: rest =>
    let dst := match dstOf m.names with
      | some d => if d = kwINIT then none else some d
      | none => none
    match disp name, optTok dst, disp desc, paramLines (indent + 1) (isort paramLe m.params), methodLines indent rest with
    | some name, some dst, some desc, some ps, some more =>
      some ((tabs indent ++ kwMETHOD ++ SP :: name ++ dst ++ SP :: desc) :: commentLines (indent + 1) m.doc ++ ps ++ more)
    | _, _, _, _, _ => none

/-- `get_inner_class_name().filter(|_| is_nested).unwrap_or(name)` -/
def shortName (nested : Bool) (name : JStr) : JStr :=
  if nested then
    match InnerNames.split name with
    | some (_, inner) => inner
    | none => name
  else name

/-- `write_class` -/
def classLines (key : JStr) (c : Class) (indent : Nat) : Option (List Text) :=
  let nested := indent != 0
  match disp (shortName nested key), optTok ((dstOf c.names).map (shortName nested)),
        fieldLines (indent + 1) (isort fieldLe c.fields), methodLines (indent + 1) (isort methodLe c.methods) with
  | some src, some dst, some fs, some ms =>
    some ((tabs indent ++ kwCLASS ++ SP :: src ++ dst) :: commentLines (indent + 1) c.doc ++ fs ++ ms)
  | _, _, _, _ => none

/-- `src.get_inner_class_parent()` is a key of the set -/
def parentInSet (classes : AList JStr Class) (key : JStr) : Option JStr :=
  match InnerNames.split key with
  | some (p, _) => if AList.contains p classes then some p else none
  | none => none

/-- `IndexMap::insert` -/
def mapInsert {V : Type} (k : JStr) (v : V) : AList JStr V → AList JStr V
  | [] => [(k, v)]
  | (k', v') :: rest => if k' == k then (k', v) :: rest else (k', v') :: mapInsert k v rest

def fileNameOf (key : JStr) (c : Class) : JStr := (dstOf c.names).getD key

/-- left-to-right `for (src, class) in &mappings.classes` with `file_map.insert`; `none` = unmatched surrogates in a
file name (`as_str()` fails) -/
def fileMapFold (classes : AList JStr Class) : AList JStr Class → AList JStr (JStr × Class) → Option (AList JStr (JStr × Class))
  | [], acc => some acc
  | (key, c) :: rest, acc =>
    match parentInSet classes key with
    | some _ => fileMapFold classes rest acc
    | none =>
      match disp (fileNameOf key c) with
      | none => none
      | some fname => fileMapFold classes rest (mapInsert fname (key, c) acc)

/-- sorted `file_map` -/
def fileMap (m : Mappings) : Option (AList JStr (JStr × Class)) :=
  (fileMapFold m.classes m.classes []).map (isort keyLe)

/-- `child_map.get(parent)`: the classes placed under `parent`, sorted by source name -/
def childrenOf (classes : AList JStr Class) (parent : JStr) : List (JStr × Class) :=
  isort keyLe (classes.filter (fun e => parentInSet classes e.1 == some parent))

/-- all parts succeed: their concatenation -/
def concatOpts {α : Type} : List (Option (List α)) → Option (List α)
  | [] => some []
  | none :: _ => none
  | some a :: rest =>
    match concatOpts rest with
    | some b => some (a ++ b)
    | none => none

/-- `write_one_tree_starting_at`: the queue with `push_front` of the reversed children is a pre-order walk.
A child's source name is strictly longer than its parent's, so `fuel` = longest key length + 1 is never used up
(`Thm.C12.treeLines_fuel`). -/
def treeLines (classes : AList JStr Class) : Nat → JStr → Class → Nat → Option (List Text)
  | 0, _, _, _ => none
  | fuel + 1, key, c, depth =>
    match classLines key c depth with
    | none => none
    | some own =>
      match concatOpts ((childrenOf classes key).map (fun e => treeLines classes fuel e.1 e.2 (depth + 1))) with
      | some below => some (own ++ below)
      | none => none

def maxKeyLen (classes : AList JStr Class) : Nat := classes.foldl (fun a e => max a e.1.length) 0

def treeFuel (classes : AList JStr Class) : Nat := maxKeyLen classes + 1

/-- `writeln!` of every line -/
def render (lines : List Text) : Text := lines.flatMap (fun l => l ++ [LF])

def fileTree (m : Mappings) (node : JStr × Class) : Option (List Text) :=
  treeLines m.classes (treeFuel m.classes) node.1 node.2 0

/-- `write_all`: per file the header `#`, `# <file name>` and the tree -/
def writeAllLines (m : Mappings) : Option (List Text) :=
  match fileMap m with
  | none => none
  | some fm =>
    let rec go : List (JStr × (JStr × Class)) → Option (List Text)
      | [] => some []
      | (fname, node) :: rest =>
        match fileTree m node, go rest with
        | some a, some b => some ([HASH] :: (HASH :: SP :: fname) :: a ++ b)
        | _, _ => none
    go fm

def writeAll (m : Mappings) : Option Text := (writeAllLines m).map render

/-- `write_one` -/
def writeOne (m : Mappings) (dstName : JStr) : Option Text :=
  match fileMap m with
  | none => none
  | some fm =>
    match AList.lookup dstName fm with
    | none => none
    | some node => (fileTree m node).map render

/-! ## Directories -/

/-- `enigma_dir::write`: relative path (under the target directory) and content of every file -/
def files (m : Mappings) : Option (List (JStr × Text)) :=
  match fileMap m with
  | none => none
  | some fm =>
    let rec go : List (JStr × (JStr × Class)) → Option (List (JStr × Text))
      | [] => some []
      | (fname, node) :: rest =>
        if fname.contains 46 || fname.head? == some 47 then none
        else
          match fileTree m node, go rest with
          | some a, some b => some ((fname ++ extMAPPING, render a) :: b)
          | _, _ => none
    go fm

/-- order of two relative paths in `WalkDir::sort_by_file_name`: component-wise, components by code points -/
def pathLe (a b : JStr × Text) : Bool :=
  let rec cmp : List JStr → List JStr → Ordering
    | [], [] => .eq
    | [], _ :: _ => .lt
    | _ :: _, [] => .gt
    | x :: xs, y :: ys =>
      match jcmp x y with
      | .eq => cmp xs ys
      | o => o
  cmp (splitOn (· == 47) a.1) (splitOn (· == 47) b.1) != .gt

/-- `enigma_dir::read`: fold `read_file_into` over the files in walk order -/
def readFiles : List (JStr × Text) → AList JStr Class → Option (AList JStr Class)
  | [], cs => some cs
  | (_, t) :: rest, cs =>
    match readClasses t cs with
    | none => none
    | some cs' => readFiles rest cs'

def emptyLike (m : Mappings) : Mappings := { ns := m.ns, doc := none, classes := [] }

/-- write a directory, read it back into fresh mappings with the same namespaces -/
def dirRoundTrip (m : Mappings) : Option Mappings :=
  match files m with
  | none => none
  | some fs =>
    match readFiles (isort pathLe fs) [] with
    | none => none
    | some cs => some { emptyLike m with classes := cs }

/-! ## The Enigma-expressible domain (decidable; mirrored by the harness oracle) and the canonical form -/

/-- a token survives `EnigmaLine::new` and `Display`: not empty, no `White_Space`, no `#`, no surrogate -/
def tokOk (s : JStr) : Bool :=
  s != [] && s.all (fun c => !isWhite c && c != HASH && !isSurrogate c)

/-- a javadoc whose lines survive: only space and LF as Java whitespace -/
def docOk : Option JStr → Bool
  | none => true
  | some d => d.all (fun c => c != 9 && c != 11 && c != 12 && c != 13)

def nodupB {α : Type} [BEq α] : List α → Bool
  | [] => true
  | x :: xs => !xs.contains x && nodupB xs

def paramOk (e : Nat × Param) : Bool :=
  e.1 == e.2.index && e.2.index < 18446744073709551616 && docOk e.2.doc &&
  (match e.2.names with
   | [none, some d] => tokOk d && validUnq d
   | _ => false)

def fieldOk (e : MemberKey × Field) : Bool :=
  e.1.2 == e.2.desc && tokOk e.2.desc && docOk e.2.doc &&
  (match e.2.names with
   | [some n, dst] => e.1.1 == n && tokOk n && validUnq n && optAll (fun d => tokOk d && validUnq d && !isModifier e.2.desc) dst
   | _ => false)

def methodOk (e : MemberKey × Method) : Bool :=
  e.1.2 == e.2.desc && tokOk e.2.desc && docOk e.2.doc &&
  (match e.2.names with
   | [some n, dst] => e.1.1 == n && tokOk n && validMethodName n &&
       optAll (fun d => d == kwINIT || (tokOk d && validMethodName d && !isModifier e.2.desc)) dst
   | _ => false) &&
  e.2.params.all paramOk && nodupB (e.2.params.map Prod.fst)

/-- the target-name condition of a class: at the top level of a file any name that is not a modifier token; below a
parent `p` exactly `parent_dst ++ "$" ++ simple` where `parent_dst` is the parent's target name, or its source name -/
def classDstOk (classes : AList JStr Class) (key : JStr) (dst : Option JStr) : Bool :=
  match dst with
  | none => true
  | some d =>
    tokOk d && validObjClass d &&
    (match parentInSet classes key with
     | none => !isModifier d
     | some p =>
       match AList.lookup p classes, InnerNames.split d with
       | some pc, some (dp, di) => dp == fileNameOf p pc && !isModifier di
       | _, _ => false)

def classOk (classes : AList JStr Class) (e : JStr × Class) : Bool :=
  docOk e.2.doc &&
  (match e.2.names with
   | [some n, dst] => e.1 == n && tokOk n && validObjClass n && classDstOk classes e.1 dst
   | _ => false) &&
  e.2.fields.all fieldOk && nodupB (e.2.fields.map Prod.fst) &&
  e.2.methods.all methodOk && nodupB (e.2.methods.map Prod.fst)

/-- file names of the classes that get their own file -/
def rootFileNames (classes : AList JStr Class) : List JStr :=
  (classes.filter (fun e => (parentInSet classes e.1).isNone)).map (fun e => fileNameOf e.1 e.2)

/-- `EnigmaWritable` -/
def writableB (m : Mappings) : Bool :=
  m.classes.all (classOk m.classes) && nodupB (m.classes.map Prod.fst) && nodupB (rootFileNames m.classes)

def canonMethod (m : Method) : Method :=
  { m with
    names := (match m.names with
      | [n, some d] => if d = kwINIT then [n, none] else [n, some d]
      | ns => ns),
    params := isort paramLe m.params }

def canonClass (c : Class) : Class :=
  { c with fields := isort fieldLe c.fields,
           methods := (isort methodLe c.methods).map (fun e => (e.1, canonMethod e.2)) }

def canonClasses (cs : AList JStr Class) : AList JStr Class := cs.map (fun e => (e.1, canonClass e.2))

end Enigma
