import FeatherModel.Model.PoolWrite

/-!
# Model of `PoolWrite::put_bootstrap_method` and of the `BootstrapMethods` attribute written by `write`

Bootstrap methods are collected while the members are written: `(handle, pool indices of the arguments)` pairs,
de-duplicated (the `HashMap<BootstrapMethodWrite, u16>` is used for lookup only), the index into the attribute is the
position in the vector. The handles get their pool entries only when the attribute is written, after all members.
-/

namespace BootstrapWrite

/-- `Handle`: reference kind 1..9 (JVMS table 5.4.3.5-A), the kind of pool reference it needs (9 Fieldref, 10 Methodref,
11 InterfaceMethodref), owner, name, descriptor -/
structure Handle where
  kind : Nat
  refKind : Nat
  cls : JStr
  name : JStr
  desc : JStr
  deriving DecidableEq, Repr

/-- `BootstrapMethodWrite` -/
structure Bsm where
  handle : Handle
  args : List Nat
  deriving DecidableEq, Repr

def indexOf (b : Bsm) : List Bsm → Option Nat
  | [] => none
  | x :: xs => if x = b then some 0 else (indexOf b xs).map (· + 1)

/-- `put_bootstrap_method` once the arguments are in the pool; `none` = "bootstrap methods attribute count overflowed" -/
def put (bs : List Bsm) (b : Bsm) : Option (Nat × List Bsm) :=
  match indexOf b bs with
  | some i => some (i, bs)
  | none => if bs.length > 65535 then none else some (bs.length, bs ++ [b])

/-- `put_method_handle`: the reference, then the `MethodHandle` entry -/
def putHandle (p : PoolWrite.Pool) (h : Handle) : Option (Nat × PoolWrite.Pool) :=
  match PoolWrite.putRef p h.refKind h.cls h.name h.desc with
  | none => none
  | some (r, p) => PoolWrite.put p (.methodHandle h.kind r)

/-- the rows of the attribute: handle index, argument indices; the handles enter the pool in table order -/
def rows (p : PoolWrite.Pool) : List Bsm → Option (List (Nat × List Nat) × PoolWrite.Pool)
  | [] => some ([], p)
  | b :: bs =>
    match putHandle p b.handle with
    | none => none
    | some (h, p) =>
      if b.args.length > 65535 then none else
      match rows p bs with
      | none => none
      | some (rs, p) => some ((h, b.args) :: rs, p)

/-- body of the attribute: `num_bootstrap_methods`, then `bootstrap_method_ref, num_bootstrap_arguments, arguments` -/
def body (rs : List (Nat × List Nat)) : Bytes :=
  PoolWrite.be16 rs.length ++ rs.flatMap (fun r => PoolWrite.be16 r.1 ++ PoolWrite.be16 r.2.length ++ r.2.flatMap PoolWrite.be16)

end BootstrapWrite
