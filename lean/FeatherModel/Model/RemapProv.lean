import FeatherModel.Model.Remapper

/-!
# `JarSuperProv` and `JarSuperProv::remap` (C06) — `quill/src/remapper.rs`

```rust
pub struct JarSuperProv { pub super_classes: IndexMap<ObjClassName, IndexSet<ObjClassName>> }
pub fn remap(re: &impl ARemapper, prov: &Vec<JarSuperProv>) -> Result<Vec<JarSuperProv>> {
    for i in prov {
        let mut super_classes = IndexMap::new();
        for (a, b) in &i.super_classes {
            let mut set = IndexSet::new();
            for j in b { set.insert(re.map_class(j)?); }
            super_classes.insert(re.map_class(a)?, set);
        }
        r.push(JarSuperProv { super_classes });
    }
}
```

(kept in a file of its own so that the modules of other properties that import `Model/Remapper.lean` are not rebuilt)

* one provider = an association list in insertion order with unique keys (`IndexMap`), its values duplicate-free lists in
  insertion order (`IndexSet`); `provOf` builds one from rows the way a loop of `insert`s does;
* `remapSupers` = the body of the outer loop for one provider: every row `(a, b)` becomes `(map_class a, {map_class j | j ∈ b})`,
  rows inserted in order — two keys with one image collapse into one row at the position of the first, carrying the super
  types of the **last** (`IndexMap::insert` replaces the value); names the remapper does not know are kept (`map_class`);
* `remapProvs` = the whole function (`map_class` of the A/B remapper implementations never fails, so neither does `remap`);
* `flattenProvs` = `impl SuperClassProvider for Vec<S>`: the first provider that knows the class answers.
-/

namespace Remapper

/-- `IndexSet::insert` -/
def setInsert (acc : List JStr) (x : JStr) : List JStr := if acc.contains x then acc else acc ++ [x]

/-- an `IndexSet` filled by a loop of `insert`s: first occurrences, in order -/
def setOf (xs : List JStr) : List JStr := xs.foldl setInsert []

/-- one `JarSuperProv` from rows inserted in order (`IndexMap::insert`: a key met again keeps its position and takes the
later value) -/
def provOf (rows : List (JStr × List JStr)) : Supers := tableOf (rows.map fun e => (e.1, setOf e.2))

/-- the image of one row under `JarSuperProv::remap` -/
def remapRow (t : ATable) (e : JStr × List JStr) : JStr × List JStr := (mapClass t e.1, setOf (e.2.map (mapClass t)))

/-- `JarSuperProv::remap` on one provider -/
def remapSupers (t : ATable) (s : Supers) : Supers := tableOf (s.map (remapRow t))

/-- `JarSuperProv::remap(re, &Vec<JarSuperProv>)` with `t` the class table of `re` -/
def remapProvs (t : ATable) (ps : List Supers) : List Supers := ps.map (remapSupers t)

/-- `impl SuperClassProvider for Vec<S>`: one first-match table -/
def flattenProvs (ps : List Supers) : Supers := ps.flatten

/-! ## specification vocabulary (theorems and oracles) -/

/-- every class name occurring in the providers (keys and super types) -/
def nodesOf (ps : List Supers) : List JStr := ps.flatMap fun s => s.flatMap fun e => e.1 :: e.2

/-- `f` is injective on the list `N` -/
def injOnList (f : JStr → JStr) (N : List JStr) : Bool := N.all fun a => N.all fun b => !(f a == f b) || a == b

/-- the invariants of a `Vec<JarSuperProv>`: unique keys per provider (`IndexMap`), duplicate-free super types (`IndexSet`) -/
def wfProvs (ps : List Supers) : Bool :=
  ps.all fun s => decide (s.map Prod.fst).Nodup && s.all fun e => decide e.2.Nodup

/-- the key `c` is the last row of `s` among the keys with the same image (the row that survives `insert`) -/
def survives (t : ATable) (s : Supers) (c : JStr) : Bool :=
  match lastMatch (fun e => mapClass t e.1 == mapClass t c) s with
  | some e => e.1 == c
  | none => false

end Remapper
