import FeatherModel.Base.AListOps
import FeatherModel.Model.Mappings
import FeatherModel.Model.MapDesc

/-!
# dukenest (C14): nests tables, nesting a jar, nesting / un-nesting mappings, translating a nests table
Mirrors `dukenest/src/{io,nest,nester_jar,nester_run,nests_mapper_run}.rs` *as written*, including:
* `nest_jar`: the filter closure has side effects (a missing enclosing class is synthesised and counted as present
  before the per-kind rule is evaluated; the outcome depends on table order);
* `undo_nests_to_mappings`: the second-namespace name is looked up in the *first*-namespace table and `$` is replaced
  by `__` (the helper is called `replace_double_underscore_with_dollar` but does the opposite);
* `map_nests`: the kind used for the inner name is recomputed from the text of the inner name (`NestTypeA`), the stored
  `nest_type` is copied.
The recursions `remap` / `build_translation` carry a depth counter and `bail!` when it exceeds the number of nests (a cyclic
table); the model counts the remaining depth down (`fuel = number of nests + 1 - depth`) and answers `none` for that error
(`Thm.C14.build_fuel_enough`: never on an acyclic table; `Thm.C14.cyclic_err`: always on a cyclic one).
The rewriting of references inside class bodies is `dukebox::remap` (C07); only name, super class, interfaces, method
descriptors, InnerClasses and EnclosingMethod are modelled here.
-/

namespace Nest

def DOLLAR : Nat := 36
def SLASH : Nat := 47
def USCORE : Nat := 95
def TAB : Nat := 9
def LF : Nat := 10
def CR : Nat := 13
def LBRACK : Nat := 91

inductive Kind where
  | anonymous | inner | local
  deriving Repr, DecidableEq, BEq

structure Nest where
  kind : Kind
  className : JStr
  enclClass : JStr
  enclMethod : Option (JStr × JStr)
  innerName : JStr
  access : Nat
  deriving Repr, DecidableEq, BEq

/-- `Nests.all : IndexMap<ObjClassName, Nest>`, keyed by `className` (the only constructor is `add`) -/
abbrev Nests := List Nest

def get (ns : Nests) (c : JStr) : Option Nest := ns.find? (fun n => n.className == c)

def containsKey (ns : Nests) (c : JStr) : Bool := (get ns c).isSome

/-- `Nests::add` = `IndexMap::insert`: replace in place or append -/
def add : Nests → Nest → Nests
  | [], n => [n]
  | m :: rest, n => if m.className == n.className then n :: rest else m :: add rest n

/-! ## small string helpers (`str` methods on code points) -/

def isDigit (c : Nat) : Bool := 48 ≤ c && c ≤ 57

/-- `str::split(sep)` -/
def splitOn (sep : Nat) : List Nat → List (List Nat)
  | [] => [[]]
  | c :: rest =>
    if c = sep then [] :: splitOn sep rest
    else
      match splitOn sep rest with
      | [] => [[c]]
      | seg :: segs => (c :: seg) :: segs

def stripCR (l : List Nat) : List Nat :=
  if l.getLast? = some CR then l.dropLast else l

/-- `BufRead::lines`: segments ended by LF lose the LF and then one CR; a final unterminated non-empty segment is kept
verbatim -/
def linesGo : List (List Nat) → List (List Nat)
  | [] => []
  | [last] => if last.isEmpty then [] else [last]
  | seg :: rest => stripCR seg :: linesGo rest

def lines (s : List Nat) : List (List Nat) := linesGo (splitOn LF s)

def digitVal (radix c : Nat) : Option Nat :=
  let v : Option Nat :=
    if 48 ≤ c ∧ c ≤ 57 then some (c - 48)
    else if 97 ≤ c ∧ c ≤ 122 then some (c - 87)
    else if 65 ≤ c ∧ c ≤ 90 then some (c - 55)
    else none
  match v with
  | some d => if d < radix then some d else none
  | none => none

def parseDigits (radix : Nat) : List Nat → Nat → Option Nat
  | [], acc => some acc
  | c :: rest, acc =>
    match digitVal radix c with
    | some d => parseDigits radix rest (acc * radix + d)
    | none => none

/-- `u16::from_str_radix`: optional `+`, at least one digit, no overflow -/
def parseU16 (radix : Nat) (s : List Nat) : Option Nat :=
  let digits : Option (List Nat) :=
    match s with
    | [] => none
    | [43] => none
    | [45] => none
    | 43 :: rest => some rest
    | _ => some s
  match digits with
  | none => none
  | some ds =>
    match parseDigits radix ds 0 with
    | some v => if v ≤ 65535 then some v else none
    | none => none

/-- `str::parse::<i32>` -/
def parseI32 (s : List Nat) : Option Int :=
  match s with
  | [] => none
  | [43] => none
  | [45] => none
  | 43 :: rest =>
    (match parseDigits 10 rest 0 with
     | some v => if v ≤ 2147483647 then some (Int.ofNat v) else none
     | none => none)
  | 45 :: rest =>
    (match parseDigits 10 rest 0 with
     | some v => if v ≤ 2147483648 then some (- Int.ofNat v) else none
     | none => none)
  | _ =>
    (match parseDigits 10 s 0 with
     | some v => if v ≤ 2147483647 then some (Int.ofNat v) else none
     | none => none)

/-- `InnerClassFlags::from(u16)` followed by `u16::from`: the bits duke knows -/
def ACCESS_MASK : Nat := 0x761F
def maskAccess (v : Nat) : Nat := Nat.land v ACCESS_MASK

/-- `Nests::parse_u16_hex_binary_and_decimal` -/
def parseAccess (s : List Nat) : Option Nat :=
  match s with
  | 48 :: 120 :: hex => parseU16 16 hex
  | 48 :: 98 :: bin => parseU16 2 bin
  | _ => parseU16 10 s

/-- JVMS 4.2.2 unqualified name as checked by duke -/
def validUnqualified (x : List Nat) : Bool :=
  !x.isEmpty && x.all (fun c => c != 46 && c != 59 && c != 91 && c != 47)

def validObjClassName (x : List Nat) : Bool :=
  x.head? != some LBRACK && (splitOn SLASH x).all validUnqualified

def validMethodName (x : List Nat) : Bool :=
  x == [60, 105, 110, 105, 116, 62] || x == [60, 99, 108, 105, 110, 105, 116, 62] ||
    (!x.isEmpty && x.all (fun c => c != 46 && c != 59 && c != 91 && c != 47 && c != 60 && c != 62))

/-- kind of a nest as decided by `read_line` from the text of the inner name -/
def kindOfInnerName (inner : List Nat) : Kind :=
  if inner.all isDigit then .anonymous
  else if (match inner.head? with | some c => isDigit c | none => false) then .local
  else .inner

/-- `Nests::read_line` -/
def readLine (line : List Nat) : Option Nest :=
  match splitOn TAB line with
  | [cn, en, mn, md, inn, acc] =>
    if cn.isEmpty || en.isEmpty || inn.isEmpty then none
    else if !validObjClassName cn then none
    else if !validObjClassName en then none
    else
      let m : Option (Option (JStr × JStr)) :=
        if mn.isEmpty || md.isEmpty then some none
        else if validMethodName mn then some (some (mn, md)) else none
      match m with
      | none => none
      | some m =>
        if !validObjClassName inn then none
        else
          match parseAccess acc with
          | none => none
          | some a =>
            some { kind := kindOfInnerName inn, className := cn, enclClass := en, enclMethod := m,
                   innerName := inn, access := maskAccess a }
  | _ => none

def readLines : List (List Nat) → Nests → Option Nests
  | [], acc => some acc
  | l :: rest, acc =>
    match readLine l with
    | none => none
    | some n => readLines rest (add acc n)

/-- `Nests::read` (on the code points of valid UTF-8 text) -/
def read (text : List Nat) : Option Nests := readLines (lines text) []

/-! ## class names through a nests table -/

def join (p i : JStr) : JStr := p ++ DOLLAR :: i

/-- `build_translation` of `nester_run.rs` (and, on the filtered table, `remap` of `nester_jar.rs`): the nested name of
`c`. `none` = the depth bound was exceeded (`bail!("cyclic nests…")`); the check comes first, as in the Rust. -/
def build (ns : Nests) : Nat → JStr → Option JStr
  | 0, _ => none
  | fuel + 1, c =>
    match get ns c with
    | none => some c
    | some n =>
      match build ns fuel n.enclClass with
      | none => none
      | some a => some (join a n.innerName)

/-- `remap(this_nests, nest)` of `nester_jar.rs`: recursion on the nest, not on the name -/
def jarRemap (ns : Nests) : Nat → Nest → Option JStr
  | 0, _ => none
  | fuel + 1, n =>
    let r : Option JStr :=
      match get ns n.enclClass with
      | some e => jarRemap ns fuel e
      | none => some n.enclClass
    match r with
    | none => none
    | some a => some (join a n.innerName)

/-- the depth bound of the code: calls at depth `0 ..= number of nests` pass the check (`Thm.C14.build_fuel_enough`: enough for
every acyclic table) -/
def fuelFor (ns : Nests) : Nat := ns.length + 1

/-- `iter().map(f).collect::<Option<Vec<_>>>()` -/
def mapOpt {α β : Type} (f : α → Option β) : List α → Option (List β)
  | [] => some []
  | a :: rest =>
    match f a with
    | none => none
    | some b =>
      match mapOpt f rest with
      | none => none
      | some bs => some (b :: bs)

/-- the map `old ↦ new` built by `nest_jar` (entries with `old = new` are dropped, which `map_class` cannot see) -/
def jarTable (ns : Nests) : Option (AList JStr JStr) :=
  mapOpt (fun n => (jarRemap ns (fuelFor ns) n).map (fun r => (n.className, r))) ns

/-- the map built by `MyRemapper::new(nests, true)` -/
def mapTable (ns : Nests) : Option (AList JStr JStr) :=
  mapOpt (fun n => (build ns (fuelFor ns) n.enclClass).map (fun a => (n.className, join a n.innerName))) ns

/-- `ARemapper::map_class` over such a table -/
def tableMap (t : AList JStr JStr) (c : JStr) : JStr :=
  match AList.lookup c t with
  | some r => r
  | none => c

/-- `IndexMap::from_iter` then `get`: the LAST pair with the key wins -/
def lookupLast (c : JStr) : AList JStr JStr → Option JStr
  | [] => none
  | (k, v) :: rest =>
    match lookupLast c rest with
    | some r => some r
    | none => if k == c then some v else none

/-- `map_class` of `MyRemapper::new(nests, false)`: the inverted table -/
def tableUnmap (t : AList JStr JStr) (c : JStr) : JStr :=
  match lookupLast c (t.map (fun (k, v) => (v, k))) with
  | some r => r
  | none => c

/-! ## class files (the observed part) and jars -/

structure InnerClass where
  inner : JStr
  outer : Option JStr
  name : Option JStr
  flags : Nat
  deriving Repr, DecidableEq, BEq

structure EnclMethod where
  cls : JStr
  method : Option (JStr × JStr)
  deriving Repr, DecidableEq, BEq

structure JClass where
  name : JStr
  version : Nat
  pub : Bool
  super : Option JStr
  interfaces : List JStr
  methods : List (JStr × JStr)
  innerClasses : Option (List InnerClass)
  enclosingMethod : Option EnclMethod
  deriving Repr, DecidableEq, BEq

inductive Entry where
  | dir
  | other
  | cls (c : JClass)
  deriving Repr, DecidableEq, BEq

abbrev Jar := AList JStr Entry

def JAVA_LANG_OBJECT : JStr := jstr "java/lang/Object"
def DOT_CLASS : JStr := jstr ".class"

def classesOf (jar : Jar) : List JClass :=
  jar.filterMap (fun e => match e.2 with | .cls c => some c | _ => none)

/-- minimum class version, `none` on a jar without classes -/
def minVersion : List JClass → Option Nat
  | [] => none
  | c :: rest =>
    match minVersion rest with
    | none => some c.version
    | some v => some (if c.version < v then c.version else v)

/-- `methods_map`: last class with a name wins -/
def methodsMap (cs : List JClass) : AList JStr (List (JStr × JStr)) :=
  cs.foldl (fun acc c => AList.insert c.name c.methods acc) []

/-- `nest.inner_name.parse::<i32>().map_or(false, |x| x >= 1)` -/
def anonOk (inner : JStr) : Bool :=
  match parseI32 inner with
  | some x => decide (x ≥ 1)
  | none => false

def hasEnclMethod (mm : AList JStr (List (JStr × JStr))) (n : Nest) : Bool :=
  match n.enclMethod with
  | none => false
  | some m =>
    match AList.lookup n.enclClass mm with
    | none => false
    | some ms => ms.contains m

/-- the per-kind rule -/
def kindRule (mm : AList JStr (List (JStr × JStr))) (n : Nest) : Bool :=
  match n.kind with
  | .anonymous => anonOk n.innerName
  | .inner => !hasEnclMethod mm n
  | .local => hasEnclMethod mm n

/-- state threaded through the `filter` closure -/
structure FState where
  inJar : List JStr
  created : List JStr
  kept : Nests
  deriving Repr, DecidableEq

/-- side effect of the closure: a missing enclosing class is synthesised and from then on counted as present -/
def synthEncl (st : FState) (n : Nest) : FState :=
  if st.inJar.contains n.enclClass then st
  else
    { st with inJar := st.inJar ++ [n.enclClass],
              created := if st.created.contains n.enclClass then st.created else st.created ++ [n.enclClass] }

/-- one evaluation of the filter closure, side effects first -/
def filterStep (mm : AList JStr (List (JStr × JStr))) (st : FState) (n : Nest) : FState :=
  if st.inJar.contains n.className then
    let st1 := synthEncl st n
    if kindRule mm n then { st1 with kept := st1.kept ++ [n] } else st1
  else st

def filterRun (jar : Jar) (ns : Nests) : FState :=
  let cs := classesOf jar
  ns.foldl (filterStep (methodsMap cs)) { inJar := (cs.map (·.name)).eraseDups, created := [], kept := [] }

/-- `strip_local_class_prefix` -/
def stripLocalPrefix (inner : JStr) : JStr :=
  let stripped := inner.dropWhile isDigit
  if stripped.isEmpty then inner else stripped

/-- the `InnerClasses` entry synthesised for a nest -/
def innerClassOf (n : Nest) : InnerClass :=
  { inner := n.className,
    outer := if n.kind = .inner then some n.enclClass else none,
    name := if n.kind = .inner ∨ n.kind = .local then some (stripLocalPrefix n.innerName) else none,
    flags := n.access }

/-- `do_nested_class_attribute_class_visitor` -/
def addAttrs (this : Nests) (c : JClass) : JClass :=
  match get this c.name with
  | none => c
  | some n =>
    let c1 : JClass :=
      if n.kind = .anonymous ∨ n.kind = .local then
        { c with enclosingMethod := some { cls := n.enclClass, method := n.enclMethod } }
      else c
    { c1 with innerClasses := some ((c1.innerClasses.getD []) ++ [innerClassOf n]) }

/-- `ARemapper::map_class_any` -/
def mapClassAny (f : JStr → JStr) (c : JStr) : Option JStr :=
  if c.head? = some LBRACK then MapDesc.mapDesc f c else some (f c)

def remapInner (f : JStr → JStr) (ic : InnerClass) : Option InnerClass :=
  match mapClassAny f ic.inner with
  | none => none
  | some i =>
    match ic.outer with
    | none => some { ic with inner := i }
    | some o =>
      match mapClassAny f o with
      | none => none
      | some o' => some { ic with inner := i, outer := some o' }

def remapEncl (f : JStr → JStr) (em : EnclMethod) : Option EnclMethod :=
  match em.method with
  | none => (mapClassAny f em.cls).map (fun c => { cls := c, method := none })
  | some (mn, md) =>
    if em.cls.head? = some LBRACK then
      (MapDesc.mapDesc f em.cls).map (fun c => { cls := c, method := some (mn, md) })
    else
      (MapDesc.mapDesc f md).map (fun d => { cls := f em.cls, method := some (mn, d) })

def mapMOpt {α β : Type} (f : α → Option β) : Option α → Option (Option β)
  | none => some none
  | some a => (f a).map some

/-- the modelled part of `dukebox::remap::remap_class` with an `ARemapperAsBRemapper` -/
def remapClass (f : JStr → JStr) (c : JClass) : Option JClass :=
  match mapOpt (fun (m : JStr × JStr) => (MapDesc.mapDesc f m.2).map (fun d => (m.1, d))) c.methods with
  | none => none
  | some ms =>
    match mapMOpt (fun ics => mapOpt (remapInner f) ics) c.innerClasses with
    | none => none
    | some ics =>
      match mapMOpt (remapEncl f) c.enclosingMethod with
      | none => none
      | some em =>
        some { c with name := f c.name, super := c.super.map f, interfaces := c.interfaces.map f, methods := ms,
                      innerClasses := ics, enclosingMethod := em }

def stripSuffix (suf s : List Nat) : Option (List Nat) :=
  if suf.isSuffixOf s then some (s.take (s.length - suf.length)) else none

/-- `remap_jar_entry_name_java` -/
def remapEntryName (f : JStr → JStr) (name : JStr) : JStr :=
  match stripSuffix DOT_CLASS name with
  | some c => f c ++ DOT_CLASS
  | none => name

def newClass (version : Nat) (name : JStr) : JClass :=
  { name := name, version := version, pub := true, super := some JAVA_LANG_OBJECT, interfaces := [], methods := [],
    innerClasses := none, enclosingMethod := none }

/-- second and third loop of `nest_jar`: emit one class -/
def emitClass (remap : Bool) (this : Nests) (f : JStr → JStr) (c : JClass) : Option JClass :=
  let c1 := addAttrs this c
  if remap then remapClass f c1 else some c1

def emitCreated (remap : Bool) (this : Nests) (f : JStr → JStr) (version : Nat) :
    List JStr → Jar → Option Jar
  | [], out => some out
  | name :: rest, out =>
    let ename := if remap then remapEntryName f (name ++ DOT_CLASS) else name ++ DOT_CLASS
    match emitClass remap this f (newClass version name) with
    | none => none
    | some c => emitCreated remap this f version rest (AList.insert ename (.cls c) out)

def emitSource (remap : Bool) (this : Nests) (f : JStr → JStr) : Jar → Jar → Option Jar
  | [], out => some out
  | (name, .dir) :: rest, out => emitSource remap this f rest (AList.insert name .dir out)
  | (name, .other) :: rest, out => emitSource remap this f rest (AList.insert name .other out)
  | (name, .cls c) :: rest, out =>
    match emitClass remap this f c with
    | none => none
    | some c' =>
      let ename := if remap then remapEntryName f name else name
      emitSource remap this f rest (AList.insert ename (.cls c') out)

/-- `dukenest::nest_jar`. Errors: `"e"` (an `Err`; a cyclic table of applied nests is one of them). -/
def nestJar (remap : Bool) (jar : Jar) (ns : Nests) : Except String Jar :=
  match minVersion (classesOf jar) with
  | none => .error "e"
  | some version =>
    let st := filterRun jar ns
    match jarTable st.kept with
    | none => .error "e"
    | some table =>
      let f := tableMap table
      match emitCreated remap st.kept f version st.created [] with
      | none => .error "e"
      | some out1 =>
        match emitSource remap st.kept f jar out1 with
        | none => .error "e"
        | some out => .ok out

/-- jar-side name of a class: `remapper.map_class` inside `nest_jar` -/
def jarName (jar : Jar) (ns : Nests) (c : JStr) : Option JStr :=
  (jarTable (filterRun jar ns).kept).map (fun t => tableMap t c)

/-- mappings-side name of a class: `MyRemapper::new(nests, true).map_class` -/
def mapName (ns : Nests) (c : JStr) : Option JStr :=
  (mapTable ns).map (fun t => tableMap t c)

/-! ## `map_nests`: a nests table through mappings -/

structure RemClass where
  to : JStr
  methods : AList (JStr × JStr) (JStr × JStr)

/-- `Mappings::remapper_b_first_to_second(NoSuperClassProvider)`: classes and methods (fields only for their errors) -/
abbrev RemB := AList JStr RemClass

def name0 (names : Names) : Option JStr := match names[0]? with | some (some n) => some n | _ => none
def name1 (names : Names) : Option JStr := match names[1]? with | some (some n) => some n | _ => none

/-- `remapper_a(0, 1)` -/
def remA (m : Mappings) : AList JStr JStr :=
  m.classes.foldl (fun acc e =>
    match name0 e.2.names, name1 e.2.names with
    | some a, some b => AList.insert a b acc
    | _, _ => acc) []

def remBClass (aTo : JStr → JStr) (c : Class) : Option (AList (JStr × JStr) (JStr × JStr)) :=
  let fieldsOk := c.fields.all (fun e =>
    match name0 e.2.names, name1 e.2.names with
    | some _, some _ => (MapDesc.mapDesc id e.2.desc).isSome && (MapDesc.mapDesc aTo e.2.desc).isSome
    | _, _ => true)
  if !fieldsOk then none
  else
    c.methods.foldl (fun acc e =>
      match acc with
      | none => none
      | some ms =>
        match name0 e.2.names, name1 e.2.names with
        | some a, some b =>
          (match MapDesc.mapDesc id e.2.desc, MapDesc.mapDesc aTo e.2.desc with
           | some df, some dt => some (AList.insert (a, df) (b, dt) ms)
           | _, _ => none)
        | _, _ => some ms) (some [])

def remB (m : Mappings) : Option RemB :=
  let aTo := tableMap (remA m)
  m.classes.foldl (fun acc e =>
    match acc with
    | none => none
    | some cs =>
      match name0 e.2.names, name1 e.2.names with
      | some a, some b =>
        (match remBClass aTo e.2 with
         | none => none
         | some ms => some (AList.insert a { to := b, methods := ms } cs))
      | _, _ => some cs) (some [])

def remBMapClass (r : RemB) (c : JStr) : JStr :=
  match AList.lookup c r with
  | some rc => rc.to
  | none => c

/-- `BRemapper::map_method_name_and_desc` without super classes -/
def remBMapMethod (r : RemB) (cls : JStr) (m : JStr × JStr) : Option (JStr × JStr) :=
  let found : Option (JStr × JStr) :=
    match AList.lookup cls r with
    | some rc => AList.lookup m rc.methods
    | none => none
  match found with
  | some x => some x
  | none => (MapDesc.mapDesc (remBMapClass r) m.2).map (fun d => (m.1, d))

/-- `str::rsplit_once("__")` -/
def rsplitUU : List Nat → Option (List Nat × List Nat)
  | [] => none
  | x :: xs =>
    match rsplitUU xs with
    | some (p, i) => some (x :: p, i)
    | none =>
      match xs with
      | y :: ys => if x = USCORE ∧ y = USCORE then some ([], ys) else none
      | [] => none

/-- `rsplit_underscore`: `none` = `bail!`, `some none` = no `__` -/
def rsplitUnderscore (name : JStr) : Option (Option (JStr × JStr)) :=
  match rsplitUU name with
  | none => some none
  | some (e, i) =>
    if e.getLast? = some SLASH then none
    else if i.head? = some SLASH then none
    else some (some (e, i))

/-- `str::rsplit_once('/')`'s second half or everything: `get_simple_name` -/
def simpleName (s : JStr) : JStr :=
  let rec go : List Nat → List Nat → List Nat
    | [], acc => acc
    | c :: rest, acc => if c = SLASH then go rest rest else go rest acc
  go s s

inductive NestTypeA where
  | anonymous
  | inner
  | local (prefix_ simple : JStr)

/-- `NestTypeA::new` -/
def nestTypeA (inner : JStr) : NestTypeA :=
  let pre := inner.takeWhile isDigit
  let rest := inner.dropWhile isDigit
  if rest.isEmpty then .anonymous
  else if pre.isEmpty then .inner
  else .local pre rest

def C_ : JStr := [67, 95]

def stripPrefix (pre s : List Nat) : Option (List Nat) :=
  if pre.isPrefixOf s then some (s.drop pre.length) else none

/-- `inner_name` of `nests_mapper_run.rs` -/
def innerNameOf (nestClass nestInner mapped : JStr) : Option JStr :=
  match nestTypeA nestInner with
  | .anonymous =>
    (match stripPrefix C_ (simpleName mapped) with
     | some number => if number.all isDigit then some number else none
     | none => some nestInner)
  | .inner =>
    if nestInner.isSuffixOf nestClass then some (simpleName mapped) else some nestInner
  | .local pre simple =>
    if simple.isSuffixOf nestClass then some (pre ++ simpleName mapped) else some nestInner

def mapNest (r : RemB) (n : Nest) : Option Nest :=
  let mapped := remBMapClass r n.className
  match rsplitUnderscore mapped with
  | none => none
  | some sp =>
    let ei : Option (JStr × JStr) :=
      match sp with
      | some (e, i) => some (e, i)
      | none =>
        (match innerNameOf n.className n.innerName mapped with
         | some i => some (remBMapClass r n.enclClass, i)
         | none => none)
    match ei with
    | none => none
    | some (e, i) =>
      match mapMOpt (remBMapMethod r n.enclClass) n.enclMethod with
      | none => none
      | some em =>
        some { kind := n.kind, className := mapped, enclClass := e, enclMethod := em, innerName := i,
               access := n.access }

def mapNestsGo (r : RemB) : Nests → Nests → Option Nests
  | [], acc => some acc
  | n :: rest, acc =>
    match mapNest r n with
    | none => none
    | some n' => mapNestsGo r rest (add acc n')

/-- `dukenest::remap_nests` -/
def mapNests (ns : Nests) (m : Mappings) : Option Nests :=
  match remB m with
  | none => none
  | some r => mapNestsGo r ns []

/-! ## nesting and un-nesting mappings -/

/-- `[src, dst].into()`: empty strings become `None` -/
def nameOpt (s : JStr) : Option JStr := if s.isEmpty then none else some s

/-- `map_with_key_from_result_iter`: the items are produced one by one (`step`) and added with `add_child`
(a key that is already there is an error) -/
def foldAddE {A K V : Type} [BEq K] (step : A → Except String (K × V)) :
    List A → AList K V → Except String (AList K V)
  | [], acc => .ok acc
  | a :: rest, acc =>
    match step a with
    | .error e => .error e
    | .ok (k, v) =>
      match AList.insertNew k v acc with
      | none => .error "e"
      | some acc' => foldAddE step rest acc'

/-- one field: descriptor rewritten, key recomputed from the first name and the new descriptor -/
def stepField (tr : JStr → JStr) (e : MemberKey × Field) : Except String (MemberKey × Field) :=
  match MapDesc.mapDesc tr e.2.desc with
  | none => .error "e"
  | some d =>
    match name0 e.2.names with
    | none => .error "e"
    | some n => .ok ((n, d), { e.2 with desc := d })

def stepMethod (tr : JStr → JStr) (e : MemberKey × Method) : Except String (MemberKey × Method) :=
  match MapDesc.mapDesc tr e.2.desc with
  | none => .error "e"
  | some d =>
    match name0 e.2.names with
    | none => .error "e"
    | some n => .ok ((n, d), { e.2 with desc := d })

def applyFields (tr : JStr → JStr) (fs : AList MemberKey Field) : Except String (AList MemberKey Field) :=
  foldAddE (stepField tr) fs []

def applyMethods (tr : JStr → JStr) (ms : AList MemberKey Method) : Except String (AList MemberKey Method) :=
  foldAddE (stepMethod tr) ms []

/-- one class of the loop shared by `apply_nests_to_mappings` and `undo_nests_to_mappings`; `"panic"` = `dst.unwrap()` -/
def rewriteClass (tr : JStr → JStr) (dstf : JStr → JStr) (e : JStr × Class) : Except String (JStr × Class) :=
  match name1 e.2.names with
  | none => .error "panic"
  | some dst =>
    match applyFields tr e.2.fields with
    | .error _ => .error "e"
    | .ok fs =>
      match applyMethods tr e.2.methods with
      | .error _ => .error "e"
      | .ok ms =>
        match nameOpt (tr e.1) with
        | none => .error "e"
        | some k' => .ok (k', { e.2 with names := [some k', nameOpt (dstf dst)], fields := fs, methods := ms })

def rewriteClasses (tr : JStr → JStr) (dstf : JStr → JStr) (cs : AList JStr Class) : Except String (AList JStr Class) :=
  foldAddE (rewriteClass tr dstf) cs []

/-- `dukenest::apply_nests_to_mappings` -/
def applyNests (m : Mappings) (ns : Nests) : Except String Mappings :=
  match mapNests ns m with
  | none => .error "e"
  | some mapped =>
    match mapTable ns, mapTable mapped with
    | some t, some mt =>
      (match rewriteClasses (tableMap t) (tableMap mt) m.classes with
       | .ok cs => .ok { m with classes := cs }
       | .error e => .error e)
    | _, _ => .error "e"

/-- `replace_double_underscore_with_dollar` (which replaces `$` by `__`) -/
def dollarToUU (s : JStr) : JStr :=
  s.flatMap (fun c => if c = DOLLAR then [USCORE, USCORE] else [c])

/-- `dukenest::undo_nests_to_mappings` -/
def undoNests (m : Mappings) (ns : Nests) : Except String Mappings :=
  match mapTable ns with
  | none => .error "e"
  | some t =>
    match rewriteClasses (tableUnmap t) (fun d => if containsKey ns d then dollarToUU d else d) m.classes with
    | .ok cs => .ok { m with classes := cs }
    | .error e => .error e

end Nest
