import FeatherModel.Model.TotalSites

/-!
# C16 — resolution of `Dynamic` constants (`PoolRead::get_loadable` → `as_loadable` → `as_dynamic` → `get_loadable` …,
`duke/src/class_reader/pool.rs`)

The `dyn` wrapper of the harness has `k` `Dynamic` constants `D_0 … D_{k-1}` (pool indices 35 …), `D_i` uses bootstrap
method `i`, whose arguments are given in the request: `Arg.int` (an Integer constant) or `Arg.dyn j` (the constant
`D_j`).  The method body is `ldc_w D_0`.

`as_dynamic` resolves every argument recursively and *clones* the result into the tree: the value of `resolve` is the
number of `Loadable` nodes of the expanded tree.  Since cb2ce34 the recursion carries `depth`:
`get_loadable_at_depth(argument, .., depth + 1)` starts with `depth > MAX_BOOTSTRAP_ARGUMENT_DEPTH (= 16) => bail!`, for
every argument (also an Integer).  The model recurses structurally on `rem = 16 - depth`.  Acyclic argument DAGs are
still expanded into trees (a copy per use), but since the repair of the expansion (`MAX_BOOTSTRAP_ARGUMENT_CONSTANTS`) one
resolution builds at most 65536 nodes: every `get_loadable_at_depth` call spends one unit of a budget that the top-level
call sets up, and fails with an error when it is used up (`Thm.C16.dyn_nodes_bounded`).
-/

namespace Total.Dyn

open TM

inductive Arg where
  | int
  | dyn (j : Nat)
  deriving Repr, Inhabited, DecidableEq

abbrev Bsms := List (List Arg)

/-- `MAX_BOOTSTRAP_ARGUMENT_DEPTH` -/
def maxDepth : Nat := 16

/-- `MAX_BOOTSTRAP_ARGUMENT_CONSTANTS`: the budget of one top-level `get_loadable` (and of the arguments of one
`as_invoke_dynamic`): every `get_loadable_at_depth` call spends one unit, `budget.checked_sub(1)` failing is an error -/
def maxNodes : Nat := 65536

/-- the argument loop of `as_dynamic`: `for &argument in &method.arguments { vec.push(pool.get_loadable_at_depth(argument, ..,
depth + 1, budget)?) }`; `inner = none`: `depth + 1 > 16`, every argument fails. State threaded through: the remaining
budget. Result: (number of `Loadable` nodes built, budget left) -/
def sumArgs (inner : Option (Nat → Nat → TM (Nat × Nat))) : List Arg → Nat → TM (Nat × Nat)
  | [], b => pure (0, b)
  | a :: rest, b =>
    match inner with
    | none => fail
    | some f => do
      let xb ← (match a with
        | .int => if b = 0 then fail else pure (1, b - 1)    -- an Integer argument is one `get_loadable_at_depth` call, too
        | .dyn j => f j b)
      let nb ← sumArgs inner rest xb.2
      pure (xb.1 + nb.1, nb.2)

/-- `get_loadable_at_depth(D_i, .., depth, budget)` once the deeper resolver is fixed: the budget, then `PoolRead::get`,
then `as_dynamic` -/
def resolveWith (spec : Bsms) (inner : Option (Nat → Nat → TM (Nat × Nat))) (i : Nat) (b : Nat) : TM (Nat × Nat) :=
  if b = 0 then fail else                         -- `*budget = budget.checked_sub(1).with_context(..)?`
  match spec[i]? with
  | none => fail                                  -- `PoolRead::get`: index beyond the pool
  | some args => do
    request args.length                           -- `Vec::with_capacity(method.arguments.len())`
    let nb ← sumArgs inner args (b - 1)
    pure (1 + nb.1, nb.2)

/-- `get_loadable_at_depth(D_i, .., 16 - rem, budget)` -/
def resolve (spec : Bsms) : Nat → Nat → Nat → TM (Nat × Nat)
  | 0 => resolveWith spec none
  | rem + 1 => resolveWith spec (some (resolve spec rem))

/-- the `dyn` op: `ldc_w D_0` is `get_loadable(D_0)`: depth 0, a fresh budget; the answer is the number of nodes -/
def dynOp (spec : Bsms) : TM Nat := do
  let nb ← resolve spec maxDepth 0 maxNodes
  pure nb.1

/-- `D_0` lists itself as its own bootstrap argument -/
def selfRef : Bsms := [[.dyn 0]]

/-- `D_i` has the two arguments `D_{i+1}, D_{i+1}` for `i < d`, `D_d` has none: `d + 1` constants -/
def binDag : Nat → Nat → Bsms
  | 0, _ => [[]]
  | d + 1, i => [.dyn (i + 1), .dyn (i + 1)] :: binDag d (i + 1)

end Total.Dyn
