import FeatherModel.Model.TotalSites

/-!
# C16 — resolution of `Dynamic` constants (`PoolRead::get_loadable` → `as_loadable` → `as_dynamic` → `get_loadable` …,
`duke/src/class_reader/pool.rs`)

The `dyn` wrapper of the harness has `k` `Dynamic` constants `D_0 … D_{k-1}` (pool indices 35 …), `D_i` uses bootstrap
method `i`, whose arguments are given in the request: `Arg.int` (an Integer constant) or `Arg.dyn j` (the constant
`D_j`).  The method body is `ldc_w D_0`.

`as_dynamic` resolves every argument recursively and *clones* the result into the tree: the value of `resolve` is the
number of `Loadable` nodes of the expanded tree.  Since cb2ce34 the recursion carries `depth`:
`get_loadable_at_depth(argument, .., depth + 1)` starts with `depth > MAX_BOOTSTRAP_ARGUMENT_DEPTH (= 16) => bail!`, for
every argument (also an Integer).  The model recurses structurally on `rem = 16 - depth`.  The expansion of acyclic
argument DAGs into trees is unchanged (up to `fanout ^ 16` nodes).
-/

namespace Total.Dyn

open TM

inductive Arg where
  | int
  | dyn (j : Nat)
  deriving Repr, Inhabited, DecidableEq

abbrev Bsms := List (List Arg)

/-- `MAX_BOOTSTRAP_ARGUMENT_DEPTH` -/
def maxDepth : Nat := 16

/-- the argument loop of `as_dynamic`: `for &argument in &method.arguments { vec.push(pool.get_loadable_at_depth(argument, .., depth + 1)?) }`;
`inner = none`: `depth + 1 > 16`, every argument fails -/
def sumArgs (inner : Option (Nat → TM Nat)) : List Arg → TM Nat
  | [] => pure 0
  | a :: rest =>
    match inner with
    | none => fail
    | some f => do
      let x ← (match a with | .int => pure 1 | .dyn j => f j)
      let n ← sumArgs inner rest
      pure (x + n)

/-- `as_dynamic` of `D_i` once the deeper resolver is fixed -/
def resolveWith (spec : Bsms) (inner : Option (Nat → TM Nat)) (i : Nat) : TM Nat :=
  match spec[i]? with
  | none => fail                                  -- `PoolRead::get`: index beyond the pool
  | some args => do
    request args.length                           -- `Vec::with_capacity(method.arguments.len())`
    let n ← sumArgs inner args
    pure (1 + n)

/-- `get_loadable_at_depth(D_i, .., 16 - rem)` -/
def resolve (spec : Bsms) : Nat → Nat → TM Nat
  | 0 => resolveWith spec none
  | rem + 1 => resolveWith spec (some (resolve spec rem))

/-- the `dyn` op: `ldc_w D_0` is `get_loadable(D_0)` at depth 0 -/
def dynOp (spec : Bsms) : TM Nat := resolve spec maxDepth 0

/-- `D_0` lists itself as its own bootstrap argument -/
def selfRef : Bsms := [[.dyn 0]]

/-- `D_i` has the two arguments `D_{i+1}, D_{i+1}` for `i < d`, `D_d` has none: `d + 1` constants -/
def binDag : Nat → Nat → Bsms
  | 0, _ => [[]]
  | d + 1, i => [.dyn (i + 1), .dyn (i + 1)] :: binDag d (i + 1)

end Total.Dyn
