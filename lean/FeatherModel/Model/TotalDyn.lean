import FeatherModel.Model.TotalSites

/-!
# C16 — resolution of `Dynamic` constants (`PoolRead::get_loadable` → `as_loadable` → `as_dynamic` → `get_loadable` …,
`duke/src/class_reader/pool.rs`)

The `dyn` wrapper of the harness has `k` `Dynamic` constants `D_0 … D_{k-1}` (pool indices 35 …), `D_i` uses bootstrap
method `i`, whose arguments are given in the request: `Arg.int` (an Integer constant) or `Arg.dyn j` (the constant
`D_j`).  The method body is `ldc_w D_0`.

`as_dynamic` resolves every argument recursively and *clones* the result into the tree: the value of `resolve` is the
number of `Loadable` nodes of the expanded tree.  Nothing in the Rust code bounds the recursion (`// TODO: recursion`):
`gas` is the number of levels the stack holds, `resolve 0` is the stack overflow.
-/

namespace Total.Dyn

open TM

inductive Arg where
  | int
  | dyn (j : Nat)
  deriving Repr, Inhabited, DecidableEq

abbrev Bsms := List (List Arg)

/-- the argument loop of `as_dynamic`: `for &argument in &method.arguments { vec.push(pool.get_loadable(argument, ..)?) }` -/
def sumArgs (f : Nat → TM Nat) : List Arg → TM Nat
  | [] => pure 0
  | .int :: rest => do
    let n ← sumArgs f rest
    pure (1 + n)
  | .dyn j :: rest => do
    let a ← f j
    let n ← sumArgs f rest
    pure (a + n)

/-- `get_loadable(D_i)`; `level` is the recursion level being entered -/
def resolve (spec : Bsms) : Nat → Nat → Nat → TM Nat
  | 0, level, _ => do enter level; crash Sites.stackDynamic
  | gas + 1, level, i => do
    enter level
    match spec[i]? with
    | none => fail                                  -- `PoolRead::get`: index beyond the pool
    | some args => do
      request args.length                           -- `Vec::with_capacity(method.arguments.len())`
      let n ← sumArgs (resolve spec gas (level + 1)) args
      pure (1 + n)

/-- the `dyn` op -/
def dynOp (gas : Nat) (spec : Bsms) : TM Nat := resolve spec gas 1 0

/-- `D_0` lists itself as its own bootstrap argument -/
def selfRef : Bsms := [[.dyn 0]]

/-- `D_i` has the two arguments `D_{i+1}, D_{i+1}` for `i < d`, `D_d` has none: `d + 1` constants -/
def binDag : Nat → Nat → Bsms
  | 0, _ => [[]]
  | d + 1, i => [.dyn (i + 1), .dyn (i + 1)] :: binDag d (i + 1)

end Total.Dyn
