import FeatherModel.Model.Bridge
import FeatherModel.Model.Remapper

/-!
# `add_specialized_methods_to_mappings` end to end (C15)

`Model/Bridge.lean` has the bridge selection and the insertion loop relative to two abstract remappers. This file
supplies the concrete ones, exactly as the Rust function builds them:

* `jarSupers` — `OpenedJar::get_super_classes_provider` of one jar (`class ↦ {super} ∪ interfaces`, `java/lang/Object`
  included, a class visited twice keeps its first position and the later row);
* `provider` — `Vec<JarSuperProv>` (main jar first, then the libraries; the first jar that knows the class answers);
* `remapProvider` — `JarSuperProv::remap` with the class half of the calamus remapper;
* the calamus remapper `official → intermediary` over `provider`, the named remapper `intermediary → named` over
  `remapProvider` (`Remapper.remapperB`, `Remapper.mapRefObj`: the C06 model);
* `addFull` — the whole function. Outer `none` = some hierarchy walk / super-type search needs more than `fuel` steps
  (the Rust code does not terminate on cyclic hierarchies), inner `none` = `Err`.
-/

namespace Bridge

open Remapper (BTable Supers ATable)

/-- the `IndexSet` a class contributes: super class first, then the interfaces -/
def superRow (c : ClassDesc) : List JStr := setExtend [] (c.super.toList ++ c.ifaces)

/-- `get_super_classes_provider` -/
def jarSupers (jar : JarDesc) : Supers := jar.foldl (fun acc c => upsert c.name (superRow c) acc) []

/-- `Vec<JarSuperProv>` as one first-match table -/
def provider (jars : List JarDesc) : Supers := jars.flatMap jarSupers

/-- `JarSuperProv::remap` for one jar -/
def remapSupers (t : ATable) (s : Supers) : Supers :=
  s.foldl (fun acc e => upsert (Remapper.mapClass t e.1) (setExtend [] (e.2.map (Remapper.mapClass t))) acc) []

def remapProvider (t : ATable) (jars : List JarDesc) : Supers := jars.flatMap fun j => remapSupers t (jarSupers j)

/-- `BRemapper::map_method_ref_obj`; outer `none` = fuel, inner `none` = `Err` -/
def mapRef (r : BTable) (sup : Supers) (fuel : Nat) (m : MRef) : Option (Option MRef) :=
  match Remapper.mapRefObj Remapper.BClass.methods r sup fuel m.cls (m.name, m.desc) with
  | none => none
  | some none => some none
  | some (some (c, k)) => some (some ⟨c, k.1, k.2⟩)

/-- the name half of `mapRef` -/
def mapRefName (r : BTable) (sup : Supers) (fuel : Nat) (m : MRef) : Option (Option JStr) :=
  match mapRef r sup fuel m with
  | none => none
  | some none => some none
  | some (some m') => some (some m'.name)

/-- everything `add_specialized_methods_to_mappings` builds before the loop -/
structure Setup where
  calamus : BTable
  supC : Supers
  named : BTable
  supN : Supers

/-- `none` = one of the `?` in front of the loop fails (`get_namespace`, `remapper_b`) -/
def setup (jar : JarDesc) (libs : List JarDesc) (cal m : Mappings) : Option Setup :=
  match cal.getNamespace (jstr "official"), cal.getNamespace (jstr "intermediary") with
  | some o, some i =>
    match Remapper.remapperB cal o i with
    | none => none
    | some rc =>
      match m.getNamespace (jstr "intermediary"), m.getNamespace (jstr "named") with
      | some i2, some n2 =>
        match Remapper.remapperB m i2 n2 with
        | none => none
        | some rn =>
          some { calamus := rc, supC := provider (jar :: libs), named := rn,
                 supN := remapProvider (Remapper.classTable rc) (jar :: libs) }
      | _, _ => none
  | _, _ => none

/-- the calamus remapper on method references; both `none`s (no answer within the fuel, `Err`) collapse: only used
where `mapRef` is known to answer -/
def Setup.interOf (su : Setup) (fuel : Nat) (r : MRef) : Option MRef := (mapRef su.calamus su.supC fuel r).join

/-- the name the named remapper (own class first, then the super types, recursively) gives to a method reference -/
def Setup.namedOf (su : Setup) (fuel : Nat) (r : MRef) : Option JStr := (mapRefName su.named su.supN fuel r).join

/-- the loop part, given the selected pairs -/
def addWith (su : Setup) (fuel : Nat) (pairs : List (MRef × MRef)) (m : Mappings) : Option (Option Mappings) :=
  if !(pairs.all fun p => (mapRef su.calamus su.supC fuel p.1).isSome && (mapRef su.calamus su.supC fuel p.2).isSome) then none else
  match remapPairs (su.interOf fuel) pairs [] with
  | none => some none
  | some ps =>
    if !(ps.all fun p => (mapRefName su.named su.supN fuel p.1).isSome) then none else
    some (applyPairs (su.namedOf fuel) ps m)

/-- `add_specialized_methods_to_mappings(main_jar, calamus, libraries, mappings)` -/
def addFull (jar : JarDesc) (libs : List JarDesc) (cal m : Mappings) (fuel : Nat) : Option (Option Mappings) :=
  match setup jar libs cal m with
  | none => some none
  | some su =>
    match select (ofJar jar) fuel with
    | none => none
    | some st => addWith su fuel st.1 m

end Bridge
