import FeatherModel.Model.RemapTree

/-!
# Specification side of C07: the references of a class, what a remapper answers for each, and the shape

Nothing in this file looks at `RemapTree.remap*`.

* `Ref` — one reference position; `refsClass` — the *independent traversal*: all reference positions of a class in
  document order (declarations, code, annotations, inner-class / enclosing-method / nest / permitted-subclass entries,
  module services and main class, record components with their annotations).
* `applyRef r owner` — what the remapper answers for a reference (`owner` = the class declaring a member).
* `eraseClass` — the shape: the same tree with every reference position blanked. Signatures, annotation element names,
  local variable names and the names of `invokedynamic` / dynamic constants are *not* reference positions of this
  traversal (no remapper primitive answers for them); they are part of the shape, and listed as
  exceptions of `Thm.C07.field_coverage_partial`. Module names, package names and unknown attributes are not class,
  field or method references: shape.
* `expectedInnerName` — `InnerClass.inner_name` is not answered by the remapper either, but follows from the answer for
  the class name: the simple name that name spells out. It is blanked in the shape and specified on its own.
-/

namespace RemapTree

inductive Ref where
  /-- an object class name (this class, super class, interfaces): `map_class` -/
  | cls (n : JStr)
  /-- any class name, possibly an array: `map_class_any` -/
  | clsAny (n : JStr)
  /-- a field / method / return descriptor: `map_*_desc` -/
  | desc (d : JStr)
  /-- the descriptor of an `invokedynamic` or of a dynamic constant -/
  | dynDesc (d : JStr)
  /-- a field declared by the class being remapped -/
  | fieldDecl (name desc : JStr)
  /-- a method declared by the class being remapped -/
  | methodDecl (name desc : JStr)
  | fieldRef (f : MemberRef)
  | methodRef (m : MemberRef)
  /-- an enum constant in an annotation: descriptor of the enum type and name of the constant (a field of that class) -/
  | enumConst (type const : JStr)
  /-- a component of the record being remapped: the field of that class with this name and descriptor -/
  | recordDecl (name desc : JStr)
  deriving DecidableEq, Repr

def L_ : Nat := 76
def SEMI : Nat := 59

/-- the class named by the descriptor of a class type (JVMS 4.3.2, `L ClassName ;`): the text between the leading `L`
and the trailing `;`, when that is a class name in internal form (`Descriptor.validObj`, the documented predicate of
`ObjClassName`: not an array, every `/`-separated part non-empty and free of `.` `;` `[` `/`).
`classOfDesc_iff` (Lemmas/RemapDesc.lean): exactly the JVMS grammar `L ClassName ;`; `classOfDesc_eq`: this is what
duke's descriptor parser answers (`objectClassOf`). -/
def classOfDesc (t : JStr) : Option JStr :=
  match t with
  | c :: rest =>
    if c == L_ && rest.getLast? == some SEMI && Descriptor.validObj rest.dropLast then some rest.dropLast else none
  | [] => none

/-- a string that can be the name of a field (JVMS 4.2.2 unqualified name: non-empty, no `.` `;` `[` `/`) -/
def fieldNameOk (n : JStr) : Bool := Descriptor.validUnqualified n

/-- what the remapper answers for a reference -/
def applyRef (r : Remapper) (owner : JStr) : Ref → Option Ref
  | .cls n => (r.mapClass n).map .cls
  | .clsAny n => (mapClassAny r n).map .clsAny
  | .desc d => (r.mapDesc d).map .desc
  | .dynDesc d => (r.mapDesc d).map .dynDesc
  | .fieldDecl n d => (r.mapField owner n d).map fun p => .fieldDecl p.1 p.2
  | .methodDecl n d => (r.mapMethod owner n d).map fun p => .methodDecl p.1 p.2
  | .fieldRef f => (mapFieldRef r f).map .fieldRef
  | .methodRef m => (mapMethodRef r m).map .methodRef
  | .enumConst t c =>
    match r.mapDesc t with
    | none => none
    | some t' =>
      match classOfDesc t with
      | none => some (.enumConst t' c)
      | some k =>
        -- the field `k.c` declared with type `t`; a string that cannot name a field names nothing to rename
        if fieldNameOk c then (r.mapField k c t).map fun p => .enumConst t' p.1 else some (.enumConst t' c)
  | .recordDecl n d =>
    -- the field `owner.n : d`; a string that cannot name a field names nothing to rename, the descriptor remains
    if fieldNameOk n then (r.mapField owner n d).map fun p => .recordDecl p.1 p.2
    else (r.mapDesc d).map fun d' => .recordDecl n d'

/-! ## The independent traversal -/

mutual
  def refsAnnotation : Annotation → List Ref
    | .mk t ps => .desc t :: refsPairs ps
  def refsPairs : List Pair → List Ref
    | [] => []
    | p :: ps => refsPair p ++ refsPairs ps
  def refsPair : Pair → List Ref
    | .mk _ v => refsElementValue v
  def refsElementValue : ElementValue → List Ref
    | .object _ => []
    | .enum t c => [.enumConst t c]
    | .cls d => [.desc d]
    | .ann a => refsAnnotation a
    | .array vs => refsElementValues vs
  def refsElementValues : List ElementValue → List Ref
    | [] => []
    | v :: vs => refsElementValue v ++ refsElementValues vs
end

def refsHandle : Handle → List Ref
  | .field _ f => [.fieldRef f]
  | .method _ m => [.methodRef m]

mutual
  def refsLoadable : Loadable → List Ref
    | .const _ => []
    | .cls n => [.clsAny n]
    | .handle h => refsHandle h
    | .methodType d => [.desc d]
    | .dynamic c => refsConstDyn c
  def refsConstDyn : ConstDyn → List Ref
    | .mk _ d h args => .dynDesc d :: (refsHandle h ++ refsLoadables args)
  def refsLoadables : List Loadable → List Ref
    | [] => []
    | l :: ls => refsLoadable l ++ refsLoadables ls
end

def refsVType : VType → List Ref
  | .plain _ => []
  | .object n => [.clsAny n]

def refsFrame : Frame → List Ref
  | .plain _ => []
  | .same1 s => refsVType s
  | .append ls => ls.flatMap refsVType
  | .full ls ss => ls.flatMap refsVType ++ ss.flatMap refsVType

def refsInsn : Insn → List Ref
  | .plain _ => []
  | .ldc l => refsLoadable l
  | .field _ f => [.fieldRef f]
  | .method _ m => [.methodRef m]
  | .indy _ d h args => .dynDesc d :: (refsHandle h ++ refsLoadables args)
  | .cls _ n => [.clsAny n]

def refsOpt {α : Type} (f : α → List Ref) : Option α → List Ref
  | none => []
  | some a => f a

def refsInsnEntry (e : InsnEntry) : List Ref := refsOpt refsFrame e.frame ++ refsInsn e.insn

def refsExc (e : ExcEntry) : List Ref := refsOpt (fun n => [.clsAny n]) e.catchType

def refsLv (l : Lv) : List Ref := refsOpt (fun d => [.desc d]) l.desc

def refsTypeAnnotation (t : TypeAnnotation) : List Ref := refsAnnotation t.annotation

def refsCode (c : Code) : List Ref :=
  c.insns.flatMap refsInsnEntry ++ c.exceptions.flatMap refsExc ++ refsOpt (·.flatMap refsLv) c.lvs ++
  c.rvta.flatMap refsTypeAnnotation ++ c.rita.flatMap refsTypeAnnotation

def refsField (f : Field) : List Ref :=
  .fieldDecl f.name f.desc :: (f.rva.flatMap refsAnnotation ++ f.ria.flatMap refsAnnotation ++
  f.rvta.flatMap refsTypeAnnotation ++ f.rita.flatMap refsTypeAnnotation)

def refsMethod (m : Method) : List Ref :=
  .methodDecl m.name m.desc :: (refsOpt refsCode m.code ++ refsOpt (·.map .clsAny) m.exceptions ++
  m.rva.flatMap refsAnnotation ++ m.ria.flatMap refsAnnotation ++
  m.rvta.flatMap refsTypeAnnotation ++ m.rita.flatMap refsTypeAnnotation ++ refsOpt refsElementValue m.annotationDefault)

def refsInnerClass (i : InnerClass) : List Ref := .clsAny i.inner :: refsOpt (fun n => [.clsAny n]) i.outer

def refsEnclosing (e : Enclosing) : List Ref :=
  match e.method with
  | some (n, d) => [.methodRef ⟨e.cls, n, d⟩]
  | none => [.clsAny e.cls]

/-- a record component names the field of the record class with the same name and descriptor, and is annotated like it -/
def refsRecordComponent (c : RecordComponent) : List Ref :=
  .recordDecl c.name c.desc :: (c.rva.flatMap refsAnnotation ++ c.ria.flatMap refsAnnotation ++
  c.rvta.flatMap refsTypeAnnotation ++ c.rita.flatMap refsTypeAnnotation)

def refsModuleProvides (p : ModuleProvides) : List Ref := .clsAny p.name :: p.providesWith.map .clsAny

/-- the classes a module descriptor names: the services it uses, the services it provides and their implementations -/
def refsModule (m : Module) : List Ref := m.uses.map .clsAny ++ m.provides.flatMap refsModuleProvides

def refsClass (c : ClassFile) : List Ref :=
  .cls c.name :: (refsOpt (fun n => [.cls n]) c.superClass ++ c.interfaces.map .cls ++
  c.fields.flatMap refsField ++ c.methods.flatMap refsMethod ++
  refsOpt (·.flatMap refsInnerClass) c.innerClasses ++ refsOpt refsEnclosing c.enclosingMethod ++
  c.rva.flatMap refsAnnotation ++ c.ria.flatMap refsAnnotation ++
  c.rvta.flatMap refsTypeAnnotation ++ c.rita.flatMap refsTypeAnnotation ++
  refsOpt refsModule c.module ++ refsOpt (fun n => [.clsAny n]) c.moduleMainClass ++
  refsOpt (fun n => [.clsAny n]) c.nestHost ++ refsOpt (·.map .clsAny) c.nestMembers ++
  refsOpt (·.map .clsAny) c.permittedSubclasses ++ c.recordComponents.flatMap refsRecordComponent)

/-! ## Shape: the tree with every reference position blanked -/

def noRef : MemberRef := ⟨[], [], []⟩

mutual
  def eraseAnnotation : Annotation → Annotation
    | .mk _ ps => .mk [] (erasePairs ps)
  def erasePairs : List Pair → List Pair
    | [] => []
    | p :: ps => erasePair p :: erasePairs ps
  def erasePair : Pair → Pair
    | .mk n v => .mk n (eraseElementValue v)
  def eraseElementValue : ElementValue → ElementValue
    | .object o => .object o
    | .enum _ _ => .enum [] []
    | .cls _ => .cls []
    | .ann a => .ann (eraseAnnotation a)
    | .array vs => .array (eraseElementValues vs)
  def eraseElementValues : List ElementValue → List ElementValue
    | [] => []
    | v :: vs => eraseElementValue v :: eraseElementValues vs
end

def eraseHandle : Handle → Handle
  | .field k _ => .field k noRef
  | .method k _ => .method k noRef

mutual
  def eraseLoadable : Loadable → Loadable
    | .const o => .const o
    | .cls _ => .cls []
    | .handle h => .handle (eraseHandle h)
    | .methodType _ => .methodType []
    | .dynamic c => .dynamic (eraseConstDyn c)
  def eraseConstDyn : ConstDyn → ConstDyn
    | .mk n _ h args => .mk n [] (eraseHandle h) (eraseLoadables args)
  def eraseLoadables : List Loadable → List Loadable
    | [] => []
    | l :: ls => eraseLoadable l :: eraseLoadables ls
end

def eraseVType : VType → VType
  | .plain o => .plain o
  | .object _ => .object []

def eraseFrame : Frame → Frame
  | .plain o => .plain o
  | .same1 s => .same1 (eraseVType s)
  | .append ls => .append (ls.map eraseVType)
  | .full ls ss => .full (ls.map eraseVType) (ss.map eraseVType)

def eraseInsn : Insn → Insn
  | .plain o => .plain o
  | .ldc l => .ldc (eraseLoadable l)
  | .field op _ => .field op noRef
  | .method op _ => .method op noRef
  | .indy n _ h args => .indy n [] (eraseHandle h) (eraseLoadables args)
  | .cls op _ => .cls op []

def eraseInsnEntry (e : InsnEntry) : InsnEntry :=
  { e with frame := e.frame.map eraseFrame, insn := eraseInsn e.insn }

def eraseExc (e : ExcEntry) : ExcEntry := { e with catchType := e.catchType.map fun _ => [] }

def eraseLv (l : Lv) : Lv := { l with desc := l.desc.map fun _ => [] }

def eraseTypeAnnotation (t : TypeAnnotation) : TypeAnnotation := { t with annotation := eraseAnnotation t.annotation }

def eraseCode (c : Code) : Code :=
  { c with insns := c.insns.map eraseInsnEntry, exceptions := c.exceptions.map eraseExc,
           lvs := c.lvs.map (·.map eraseLv), rvta := c.rvta.map eraseTypeAnnotation,
           rita := c.rita.map eraseTypeAnnotation }

def eraseField (f : Field) : Field :=
  { f with name := [], desc := [], rva := f.rva.map eraseAnnotation, ria := f.ria.map eraseAnnotation,
           rvta := f.rvta.map eraseTypeAnnotation, rita := f.rita.map eraseTypeAnnotation }

def eraseMethod (m : Method) : Method :=
  { m with name := [], desc := [], code := m.code.map eraseCode, exceptions := m.exceptions.map (·.map fun _ => []),
           rva := m.rva.map eraseAnnotation, ria := m.ria.map eraseAnnotation,
           rvta := m.rvta.map eraseTypeAnnotation, rita := m.rita.map eraseTypeAnnotation,
           annotationDefault := m.annotationDefault.map eraseElementValue }

def eraseInnerClass (i : InnerClass) : InnerClass :=
  { i with inner := [], outer := i.outer.map fun _ => [], innerName := i.innerName.map fun _ => [] }

/-! ## Inner names -/

/-- the text after the last occurrence of `c`, if there is one -/
def lastPiece (c : Nat) (s : JStr) : Option JStr :=
  if c ∈ s then some (s.reverse.takeWhile (· ≠ c)).reverse else none

/-- the simple name a binary class name spells out (JLS 13.1): in its last `/`-separated part, what follows the last
`$`, minus the digits in front of the name of a local class; `none` when that part has no `$` -/
def spelledSimpleName (n : JStr) : Option JStr :=
  let part := (lastPiece 47 n).getD n
  (lastPiece 36 part).map fun s => s.dropWhile fun c => decide (48 ≤ c ∧ c ≤ 57)

/-- what a consistent renaming makes of `inner_name` when the class `old` is renamed to `new`: an inner name that was
the simple name spelled out by `old` becomes the one spelled out by `new` (kept when `new` spells none); an inner name
that was something else has no relation to the class name and is kept -/
def expectedInnerName (old new : JStr) (innerName : Option JStr) : Option JStr :=
  innerName.map fun s => if spelledSimpleName old = some s then (spelledSimpleName new).getD s else s

def eraseEnclosing (e : Enclosing) : Enclosing := ⟨[], e.method.map fun _ => ([], [])⟩

def eraseRecordComponent (c : RecordComponent) : RecordComponent :=
  { c with name := [], desc := [], rva := c.rva.map eraseAnnotation, ria := c.ria.map eraseAnnotation,
           rvta := c.rvta.map eraseTypeAnnotation, rita := c.rita.map eraseTypeAnnotation }

def eraseModuleProvides (p : ModuleProvides) : ModuleProvides := ⟨[], p.providesWith.map fun _ => []⟩

def eraseModule (m : Module) : Module :=
  { m with uses := m.uses.map fun _ => [], provides := m.provides.map eraseModuleProvides }

def eraseClass (c : ClassFile) : ClassFile :=
  { c with name := [], superClass := c.superClass.map fun _ => [], interfaces := c.interfaces.map fun _ => [],
           fields := c.fields.map eraseField, methods := c.methods.map eraseMethod,
           innerClasses := c.innerClasses.map (·.map eraseInnerClass),
           enclosingMethod := c.enclosingMethod.map eraseEnclosing,
           rva := c.rva.map eraseAnnotation, ria := c.ria.map eraseAnnotation,
           rvta := c.rvta.map eraseTypeAnnotation, rita := c.rita.map eraseTypeAnnotation,
           module := c.module.map eraseModule, moduleMainClass := c.moduleMainClass.map fun _ => [],
           nestHost := c.nestHost.map fun _ => [], nestMembers := c.nestMembers.map (·.map fun _ => []),
           permittedSubclasses := c.permittedSubclasses.map (·.map fun _ => []),
           recordComponents := c.recordComponents.map eraseRecordComponent }

/-! ## Jar level -/

/-- the entry is named after the class it contains -/
def wellNamed (ne : JStr × Entry) : Bool :=
  match ne.2.content with
  | .cls c => ne.1 == c.name ++ dotClass
  | _ => stripDotClass ne.1 == none

end RemapTree
