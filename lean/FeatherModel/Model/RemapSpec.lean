import FeatherModel.Model.RemapTree

/-!
# Specification side of C07: the references of a class, what a remapper answers for each, and the shape

Nothing in this file looks at `RemapTree.remap*`.

* `Ref` — one reference position; `refsClass` — the *independent traversal*: all reference positions of a class in
  document order, including the ones `remap.rs` does not touch (enum constants in annotations) and the ones it drops
  (record components).
* `applyRef r owner` — what the remapper answers for a reference (`owner` = the class declaring a member).
* `codeApply r owner` — what `remap.rs` does at a position of that kind: differs from `applyRef` exactly on
  the constant of `enumConst` (copied).
* `eraseClass` — the shape: the same tree with every reference position blanked. Signatures, annotation element names,
  `InnerClass.inner_name`, local variable names and the names of `invokedynamic` / dynamic constants are *not*
  reference positions of this traversal (no remapper primitive answers for them); they are part of the shape, and listed as
  exceptions of `Thm.C07.field_coverage_partial`.
* `strip` — the class without what `remap.rs` drops (module data, record components, unknown attributes);
  `Kept c` — nothing to drop.
-/

namespace RemapTree

inductive Ref where
  /-- an object class name (this class, super class, interfaces): `map_class` -/
  | cls (n : JStr)
  /-- any class name, possibly an array: `map_class_any` -/
  | clsAny (n : JStr)
  /-- a field / method / return descriptor: `map_*_desc` -/
  | desc (d : JStr)
  /-- the descriptor of an `invokedynamic` or of a dynamic constant -/
  | dynDesc (d : JStr)
  /-- a field declared by the class being remapped -/
  | fieldDecl (name desc : JStr)
  /-- a method declared by the class being remapped -/
  | methodDecl (name desc : JStr)
  | fieldRef (f : MemberRef)
  | methodRef (m : MemberRef)
  /-- an enum constant in an annotation: descriptor of the enum type and name of the constant (a field of that class) -/
  | enumConst (type const : JStr)
  deriving DecidableEq, Repr

def L_ : Nat := 76
def SEMI : Nat := 59

/-- the class named by a descriptor `L<name>;` -/
def classOfDesc (t : JStr) : Option JStr :=
  match t with
  | c :: rest => if c == L_ && rest.getLast? == some SEMI then some rest.dropLast else none
  | [] => none

/-- what the remapper answers for a reference -/
def applyRef (r : Remapper) (owner : JStr) : Ref → Option Ref
  | .cls n => (r.mapClass n).map .cls
  | .clsAny n => (mapClassAny r n).map .clsAny
  | .desc d => (r.mapDesc d).map .desc
  | .dynDesc d => (r.mapDesc d).map .dynDesc
  | .fieldDecl n d => (r.mapField owner n d).map fun p => .fieldDecl p.1 p.2
  | .methodDecl n d => (r.mapMethod owner n d).map fun p => .methodDecl p.1 p.2
  | .fieldRef f => (mapFieldRef r f).map .fieldRef
  | .methodRef m => (mapMethodRef r m).map .methodRef
  | .enumConst t c =>
    match r.mapDesc t with
    | none => none
    | some t' =>
      match classOfDesc t with
      | none => some (.enumConst t' c)
      | some k => (r.mapField k c t).map fun p => .enumConst t' p.1

/-- what `remap.rs` does at a position of this kind -/
def codeApply (r : Remapper) (owner : JStr) : Ref → Option Ref
  | .enumConst t c => (r.mapDesc t).map fun t' => .enumConst t' c
  | x => applyRef r owner x

/-! ## The independent traversal -/

mutual
  def refsAnnotation : Annotation → List Ref
    | .mk t ps => .desc t :: refsPairs ps
  def refsPairs : List Pair → List Ref
    | [] => []
    | p :: ps => refsPair p ++ refsPairs ps
  def refsPair : Pair → List Ref
    | .mk _ v => refsElementValue v
  def refsElementValue : ElementValue → List Ref
    | .object _ => []
    | .enum t c => [.enumConst t c]
    | .cls d => [.desc d]
    | .ann a => refsAnnotation a
    | .array vs => refsElementValues vs
  def refsElementValues : List ElementValue → List Ref
    | [] => []
    | v :: vs => refsElementValue v ++ refsElementValues vs
end

def refsHandle : Handle → List Ref
  | .field _ f => [.fieldRef f]
  | .method _ m => [.methodRef m]

mutual
  def refsLoadable : Loadable → List Ref
    | .const _ => []
    | .cls n => [.clsAny n]
    | .handle h => refsHandle h
    | .methodType d => [.desc d]
    | .dynamic c => refsConstDyn c
  def refsConstDyn : ConstDyn → List Ref
    | .mk _ d h args => .dynDesc d :: (refsHandle h ++ refsLoadables args)
  def refsLoadables : List Loadable → List Ref
    | [] => []
    | l :: ls => refsLoadable l ++ refsLoadables ls
end

def refsVType : VType → List Ref
  | .plain _ => []
  | .object n => [.clsAny n]

def refsFrame : Frame → List Ref
  | .plain _ => []
  | .same1 s => refsVType s
  | .append ls => ls.flatMap refsVType
  | .full ls ss => ls.flatMap refsVType ++ ss.flatMap refsVType

def refsInsn : Insn → List Ref
  | .plain _ => []
  | .ldc l => refsLoadable l
  | .field _ f => [.fieldRef f]
  | .method _ m => [.methodRef m]
  | .indy _ d h args => .dynDesc d :: (refsHandle h ++ refsLoadables args)
  | .cls _ n => [.clsAny n]

def refsOpt {α : Type} (f : α → List Ref) : Option α → List Ref
  | none => []
  | some a => f a

def refsInsnEntry (e : InsnEntry) : List Ref := refsOpt refsFrame e.frame ++ refsInsn e.insn

def refsExc (e : ExcEntry) : List Ref := refsOpt (fun n => [.clsAny n]) e.catchType

def refsLv (l : Lv) : List Ref := refsOpt (fun d => [.desc d]) l.desc

def refsTypeAnnotation (t : TypeAnnotation) : List Ref := refsAnnotation t.annotation

def refsCode (c : Code) : List Ref :=
  c.insns.flatMap refsInsnEntry ++ c.exceptions.flatMap refsExc ++ refsOpt (·.flatMap refsLv) c.lvs ++
  c.rvta.flatMap refsTypeAnnotation ++ c.rita.flatMap refsTypeAnnotation

def refsField (f : Field) : List Ref :=
  .fieldDecl f.name f.desc :: (f.rva.flatMap refsAnnotation ++ f.ria.flatMap refsAnnotation ++
  f.rvta.flatMap refsTypeAnnotation ++ f.rita.flatMap refsTypeAnnotation)

def refsMethod (m : Method) : List Ref :=
  .methodDecl m.name m.desc :: (refsOpt refsCode m.code ++ refsOpt (·.map .clsAny) m.exceptions ++
  m.rva.flatMap refsAnnotation ++ m.ria.flatMap refsAnnotation ++
  m.rvta.flatMap refsTypeAnnotation ++ m.rita.flatMap refsTypeAnnotation ++ refsOpt refsElementValue m.annotationDefault)

def refsInnerClass (i : InnerClass) : List Ref := .clsAny i.inner :: refsOpt (fun n => [.clsAny n]) i.outer

def refsEnclosing (e : Enclosing) : List Ref :=
  match e.method with
  | some (n, d) => [.methodRef ⟨e.cls, n, d⟩]
  | none => [.clsAny e.cls]

/-- a record component names the field of the record class with the same name and descriptor -/
def refsRecordComponent (c : RecordComponent) : List Ref := [.fieldDecl c.name c.desc]

def refsClass (c : ClassFile) : List Ref :=
  .cls c.name :: (refsOpt (fun n => [.cls n]) c.superClass ++ c.interfaces.map .cls ++
  c.fields.flatMap refsField ++ c.methods.flatMap refsMethod ++
  refsOpt (·.flatMap refsInnerClass) c.innerClasses ++ refsOpt refsEnclosing c.enclosingMethod ++
  c.rva.flatMap refsAnnotation ++ c.ria.flatMap refsAnnotation ++
  c.rvta.flatMap refsTypeAnnotation ++ c.rita.flatMap refsTypeAnnotation ++
  refsOpt (fun n => [.clsAny n]) c.nestHost ++ refsOpt (·.map .clsAny) c.nestMembers ++
  refsOpt (·.map .clsAny) c.permittedSubclasses ++ c.recordComponents.flatMap refsRecordComponent)

/-! ## Shape: the tree with every reference position blanked -/

def noRef : MemberRef := ⟨[], [], []⟩

mutual
  def eraseAnnotation : Annotation → Annotation
    | .mk _ ps => .mk [] (erasePairs ps)
  def erasePairs : List Pair → List Pair
    | [] => []
    | p :: ps => erasePair p :: erasePairs ps
  def erasePair : Pair → Pair
    | .mk n v => .mk n (eraseElementValue v)
  def eraseElementValue : ElementValue → ElementValue
    | .object o => .object o
    | .enum _ _ => .enum [] []
    | .cls _ => .cls []
    | .ann a => .ann (eraseAnnotation a)
    | .array vs => .array (eraseElementValues vs)
  def eraseElementValues : List ElementValue → List ElementValue
    | [] => []
    | v :: vs => eraseElementValue v :: eraseElementValues vs
end

def eraseHandle : Handle → Handle
  | .field k _ => .field k noRef
  | .method k _ => .method k noRef

mutual
  def eraseLoadable : Loadable → Loadable
    | .const o => .const o
    | .cls _ => .cls []
    | .handle h => .handle (eraseHandle h)
    | .methodType _ => .methodType []
    | .dynamic c => .dynamic (eraseConstDyn c)
  def eraseConstDyn : ConstDyn → ConstDyn
    | .mk n _ h args => .mk n [] (eraseHandle h) (eraseLoadables args)
  def eraseLoadables : List Loadable → List Loadable
    | [] => []
    | l :: ls => eraseLoadable l :: eraseLoadables ls
end

def eraseVType : VType → VType
  | .plain o => .plain o
  | .object _ => .object []

def eraseFrame : Frame → Frame
  | .plain o => .plain o
  | .same1 s => .same1 (eraseVType s)
  | .append ls => .append (ls.map eraseVType)
  | .full ls ss => .full (ls.map eraseVType) (ss.map eraseVType)

def eraseInsn : Insn → Insn
  | .plain o => .plain o
  | .ldc l => .ldc (eraseLoadable l)
  | .field op _ => .field op noRef
  | .method op _ => .method op noRef
  | .indy n _ h args => .indy n [] (eraseHandle h) (eraseLoadables args)
  | .cls op _ => .cls op []

def eraseInsnEntry (e : InsnEntry) : InsnEntry :=
  { e with frame := e.frame.map eraseFrame, insn := eraseInsn e.insn }

def eraseExc (e : ExcEntry) : ExcEntry := { e with catchType := e.catchType.map fun _ => [] }

def eraseLv (l : Lv) : Lv := { l with desc := l.desc.map fun _ => [] }

def eraseTypeAnnotation (t : TypeAnnotation) : TypeAnnotation := { t with annotation := eraseAnnotation t.annotation }

def eraseCode (c : Code) : Code :=
  { c with insns := c.insns.map eraseInsnEntry, exceptions := c.exceptions.map eraseExc,
           lvs := c.lvs.map (·.map eraseLv), rvta := c.rvta.map eraseTypeAnnotation,
           rita := c.rita.map eraseTypeAnnotation }

def eraseField (f : Field) : Field :=
  { f with name := [], desc := [], rva := f.rva.map eraseAnnotation, ria := f.ria.map eraseAnnotation,
           rvta := f.rvta.map eraseTypeAnnotation, rita := f.rita.map eraseTypeAnnotation }

def eraseMethod (m : Method) : Method :=
  { m with name := [], desc := [], code := m.code.map eraseCode, exceptions := m.exceptions.map (·.map fun _ => []),
           rva := m.rva.map eraseAnnotation, ria := m.ria.map eraseAnnotation,
           rvta := m.rvta.map eraseTypeAnnotation, rita := m.rita.map eraseTypeAnnotation,
           annotationDefault := m.annotationDefault.map eraseElementValue }

def eraseInnerClass (i : InnerClass) : InnerClass := { i with inner := [], outer := i.outer.map fun _ => [] }

def eraseEnclosing (e : Enclosing) : Enclosing := ⟨[], e.method.map fun _ => ([], [])⟩

def eraseRecordComponent (c : RecordComponent) : RecordComponent := { c with name := [], desc := [] }

def eraseClass (c : ClassFile) : ClassFile :=
  { c with name := [], superClass := c.superClass.map fun _ => [], interfaces := c.interfaces.map fun _ => [],
           fields := c.fields.map eraseField, methods := c.methods.map eraseMethod,
           innerClasses := c.innerClasses.map (·.map eraseInnerClass),
           enclosingMethod := c.enclosingMethod.map eraseEnclosing,
           rva := c.rva.map eraseAnnotation, ria := c.ria.map eraseAnnotation,
           rvta := c.rvta.map eraseTypeAnnotation, rita := c.rita.map eraseTypeAnnotation,
           nestHost := c.nestHost.map fun _ => [], nestMembers := c.nestMembers.map (·.map fun _ => []),
           permittedSubclasses := c.permittedSubclasses.map (·.map fun _ => []),
           recordComponents := c.recordComponents.map eraseRecordComponent }

/-! ## What `remap.rs` drops -/

def stripCode (c : Code) : Code := { c with attributes := [] }
def stripField (f : Field) : Field := { f with attributes := [] }
def stripMethod (m : Method) : Method := { m with code := m.code.map stripCode, attributes := [] }

/-- the class without module data, record components and unknown attributes -/
def strip (c : ClassFile) : ClassFile :=
  { c with fields := c.fields.map stripField, methods := c.methods.map stripMethod, module := none,
           modulePackages := none, moduleMainClass := none, recordComponents := [], attributes := [] }

def keptCode (c : Code) : Bool := c.attributes.isEmpty
def keptField (f : Field) : Bool := f.attributes.isEmpty
def keptMethod (m : Method) : Bool :=
  m.attributes.isEmpty && (match m.code with | none => true | some c => keptCode c)

/-- the class has nothing that `remap.rs` drops -/
def Kept (c : ClassFile) : Bool :=
  c.fields.all keptField && c.methods.all keptMethod && c.module.isNone && c.modulePackages.isNone &&
  c.moduleMainClass.isNone && c.recordComponents.isEmpty && c.attributes.isEmpty

/-- at every reference position of `c` the code does what the remapper answers -/
def Agree (r : Remapper) (c : ClassFile) : Bool :=
  (refsClass c).all fun x => codeApply r c.name x == applyRef r c.name x

/-! ## Jar level -/

/-- the entry is named after the class it contains -/
def wellNamed (ne : JStr × Entry) : Bool :=
  match ne.2.content with
  | .cls c => ne.1 == c.name ++ dotClass
  | _ => stripDotClass ne.1 == none

end RemapTree
