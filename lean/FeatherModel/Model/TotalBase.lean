import FeatherModel.Base.Sexp

/-!
# C16 — base of the totality models: explicit `panic` outcome, allocation and recursion accounting

`Outcome α = ok a | err | panic site`.  `err` is every `bail!` / `?` of the Rust code (the text is not modelled),
`panic site` an *unchecked* Rust operation that fails (the harness is built with overflow checks on): `+ - *` out of
range, a slice index out of range or off a UTF-8 boundary, `unreachable!`, `assert!`, an exhausted stack (site
`Site.stack*`).  Site numbers are those of `Total.Sites.table` (`Model/TotalSites.lean`).

The readers run in `TM`, a state monad over `Outcome` whose state `Acct` survives errors: `alloc` is the largest
single allocation *request* made so far (the argument of `Vec::with_capacity`, `HashMap::with_capacity`, the bytes
`read_u8_vec` gathers with `take(size).read_to_end`), counted in elements.

Recursion: since 835fdd2 / cb2ce34 the two input-driven recursions of the class reader carry a depth counter with a
constant limit (element values: 255, bootstrap arguments: 16); the models recurse structurally on the remaining depth.
-/

namespace Total

inductive Outcome (α : Type) where
  | ok (a : α)
  | err
  | panic (site : Nat)
  deriving Repr, Inhabited, DecidableEq

/-- accounting state; survives `err` and `panic` -/
structure Acct where
  /-- largest single allocation request so far -/
  alloc : Nat := 0
  deriving Repr, Inhabited, DecidableEq

/-- the reader monad of the totality models -/
def TM (α : Type) : Type := Acct → Outcome α × Acct

namespace TM

@[inline] def ret {α : Type} (a : α) : TM α := fun st => (.ok a, st)

@[inline] def bnd {α β : Type} (m : TM α) (f : α → TM β) : TM β := fun st =>
  match m st with
  | (.ok a, st') => f a st'
  | (.err, st') => (.err, st')
  | (.panic s, st') => (.panic s, st')

instance : Monad TM where
  pure := TM.ret
  bind := TM.bnd

/-- `bail!` / a failing `?` -/
@[inline] def fail {α : Type} : TM α := fun st => (.err, st)

/-- an unchecked operation that fails -/
@[inline] def crash {α : Type} (site : Nat) : TM α := fun st => (.panic site, st)

/-- `Option`-valued pure helpers: `None` / `Err` is `err` -/
@[inline] def ofOption {α : Type} : Option α → TM α
  | some a => pure a
  | none => fail

/-- `if !cond { bail!(..) }` -/
@[inline] def guard (c : Bool) : TM Unit := if c then pure () else fail

/-- an unchecked operation: fine when `c` holds, a panic at `site` otherwise -/
@[inline] def check (site : Nat) (c : Bool) : TM Unit := if c then pure () else crash site

/-- record an allocation request of `n` elements -/
@[inline] def request (n : Nat) : TM Unit := fun st => (.ok (), { st with alloc := max st.alloc n })


/-- run from the empty account -/
def run {α : Type} (m : TM α) : Outcome α × Acct := m {}

end TM

open TM

/-! ## checked machine arithmetic (overflow checks on) -/

/-- `a + b` in `u8` -/
def addU8 (site : Nat) (a b : Nat) : TM Nat := if a + b ≤ 255 then pure (a + b) else crash site
/-- `a + b` in `u16` -/
def addU16 (site : Nat) (a b : Nat) : TM Nat := if a + b ≤ 65535 then pure (a + b) else crash site
/-- `a - b` in an unsigned type -/
def subU (site : Nat) (a b : Nat) : TM Nat := if b ≤ a then pure (a - b) else crash site

/-! ## reading big-endian integers from the unread suffix (`Read + Seek` over a `Cursor`, as in C01's base) -/

abbrev Rd (α : Type) := Bytes → TM (α × Bytes)

/-- a byte: the models take list elements modulo 256, so that every statement holds for arbitrary `List Nat` -/
@[inline] def byte (a : Nat) : Nat := a % 256

def u8 : Rd Nat
  | a :: r => pure (byte a, r)
  | _ => fail

def u16 : Rd Nat
  | a :: b :: r => pure (byte a * 256 + byte b, r)
  | _ => fail

def u32 : Rd Nat
  | a :: b :: c :: d :: r => pure (((byte a * 256 + byte b) * 256 + byte c) * 256 + byte d, r)
  | _ => fail

def toI16 (n : Nat) : Int := if n < 32768 then (n : Int) else (n : Int) - 65536
def toI32 (n : Nat) : Int := if n < 2147483648 then (n : Int) else (n : Int) - 4294967296

/-- `read_u8_vec(n)` (8349742): `Vec::new()`, `take(n).read_to_end(..)`, then `read != n => bail!`: the buffer only grows
with bytes that are present, so the request is `min n |rest|` -/
def takeVec (n : Nat) : Rd Bytes := fun s => do
  request (min n s.length)
  if s.length < n then fail else pure (s.take n, s.drop n)

/-- `skip(n)`: `SeekFrom::Current(n)` may move past the end; every later read then fails -/
def skipN (n : Nat) : Rd Unit := fun s => pure ((), s.drop n)

/-- `read_vec(size, elem)` after the size is known: `Vec::with_capacity(size)`, then `size` elements -/
def readVecLoop {α : Type} (elem : Rd α) : Nat → Rd Unit
  | 0, s => pure ((), s)
  | n + 1, s => do
    let (_, s) ← elem s
    readVecLoop elem n s

def readVec {α : Type} (elem : Rd α) (n : Nat) : Rd Unit := fun s => do
  request n
  readVecLoop elem n s

/-- `read_vec(|r| r.read_u16_as_usize(), elem)` -/
def readVec16 {α : Type} (elem : Rd α) : Rd Unit := fun s => do
  let (n, s) ← u16 s
  readVec elem n s

/-- a loop `for _ in 0..n { body }` without an up-front allocation (`Vec::new()` + `push`) -/
def loopN (body : Rd Unit) : Nat → Rd Unit
  | 0, s => pure ((), s)
  | n + 1, s => do
    let (_, s) ← body s
    loopN body n s

/-! ## UTF-8 (the text parsers read `BufRead::lines()`: a line that is not UTF-8 is an `Err`) -/

def isCont (b : Nat) : Bool := 128 ≤ b && b < 192

/-- strict UTF-8 (`core::str::from_utf8`): shortest form, no surrogates, at most U+10FFFF -/
def utf8Decode : Bytes → Option (List Nat)
  | [] => some []
  | a :: rest =>
    if a < 128 then (utf8Decode rest).map (a :: ·)
    else if 194 ≤ a && a < 224 then
      match rest with
      | b :: rest => if isCont b then (utf8Decode rest).map (((a - 192) * 64 + (b - 128)) :: ·) else none
      | _ => none
    else if 224 ≤ a && a < 240 then
      match rest with
      | b :: c :: rest =>
        let ok := isCont b && isCont c && (a != 224 || 160 ≤ b) && (a != 237 || b < 160)
        if ok then (utf8Decode rest).map (((a - 224) * 4096 + (b - 128) * 64 + (c - 128)) :: ·) else none
      | _ => none
    else if 240 ≤ a && a < 245 then
      match rest with
      | b :: c :: d :: rest =>
        let ok := isCont b && isCont c && isCont d && (a != 240 || 144 ≤ b) && (a != 244 || b < 144)
        if ok then (utf8Decode rest).map (((a - 240) * 262144 + (b - 128) * 4096 + (c - 128) * 64 + (d - 128)) :: ·) else none
      | _ => none
    else none

/-- number of bytes of the UTF-8 encoding of a scalar value -/
def utf8Len (c : Nat) : Nat := if c < 128 then 1 else if c < 2048 then 2 else if c < 65536 then 3 else 4

/-- byte offset `off` is a `char` boundary of the string with these code points (`str::is_char_boundary`) -/
def isCharBoundary : List Nat → Nat → Bool
  | _, 0 => true
  | [], _ + 1 => false
  | c :: rest, off + 1 => if off + 1 < utf8Len c then false else isCharBoundary rest (off + 1 - utf8Len c)

/-- `&line[n..]` for a `str`: panics unless `n` is a char boundary (which includes `n <= len`) -/
def strSliceFrom (site : Nat) (line : List Nat) (n : Nat) : TM Unit := check site (isCharBoundary line n)

end Total
