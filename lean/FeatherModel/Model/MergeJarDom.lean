import FeatherModel.Model.MergeJar

/-!
# C13: decidable domains and observation functions shared by theorems (`Thm/C13.lean`) and the driver's oracles

Nothing here is part of the model of `dukebox/src/merge.rs`; these are the predicates the theorems are stated with.
-/

namespace MergeJar

/-- entry names of a jar, in `IndexMap` order -/
def names (j : Jar) : List JStr := j.map (·.1)

/-- an entry name survives the merge: it is not a signature file (`META-INF/…` ending in `.SF` or `.RSA`; the code does
not drop `.DSA`/`.EC`) and it is not a "bundled server library" (a name ending in `.class`, containing a `/`, not below
`net/minecraft/`) that only the server has -/
def kept (client : Jar) (n : JStr) : Bool := !isSig n && !(isBundled n && !(names client).contains n)

/-- the `@Environment` marks a member carries -/
def envMarks (m : Member) : List Side :=
  m.anns.filterMap (fun a => match a with | Ann.env s => some s | _ => none)

/-- the `@Environment` marks among the visible annotations of a class -/
def classEnvMarks (c : Class) : List Side :=
  c.visAnns.filterMap (fun a => match a with | Ann.env s => some s | _ => none)

/-- the key lists of both sides are duplicate-free (true of every class file a JVM accepts) -/
def keysOk (c s : Class) : Bool :=
  keysNodup c.fields && keysNodup s.fields && keysNodup c.methods && keysNodup s.methods &&
  nodupB (c.inners.map (·.name)) && nodupB (s.inners.map (·.name))

/-- domain of the class-level oracles: a pair that really goes through `class_merger_merge` and is merged -/
def marksDomain (c s : Class) : Bool :=
  mergeOk c s && c != s && noEnv c.fields && noEnv s.fields && noEnv c.methods && noEnv s.methods &&
  nodupB c.interfaces && nodupB s.interfaces

/-- domain of the union/order oracle: a merged pair with duplicate-free interface lists -/
def unionDomain (c s : Class) : Bool :=
  mergeOk c s && c != s && nodupB c.interfaces && nodupB s.interfaces

/-- the jar-level domain on which `merge` returns `Ok`: for every name both jars have (other than the manifest and
signature files) the entry kinds agree and two differing classes are mergeable -/
def jarDomain (client server : Jar) : Bool :=
  client.all fun e =>
    e.1 == MANIFEST || isSig e.1 ||
    match get e.1 server with
    | none => true
    | some s =>
      match e.2.content, s.content with
      | Content.dir, Content.dir => true
      | Content.other _, Content.other _ => true
      | Content.cls _ cc, Content.cls _ cs => cc == cs || mergeOk cc cs
      | _, _ => false

end MergeJar
