import FeatherModel.Model.Nest
import FeatherModel.Model.Reorder

/-!
# C14: decidable domains of the theorems and the views compared by the oracles
Computed by the driver (`Driver/C14.lean`) and, independently, by the harness (`harness/src/bin/c14.rs`) on the
implementation; the two verdicts are compared on every oracle request.
-/

namespace Nest

/-- the table is keyed by class name without repetition (what `IndexMap` guarantees for a table built with `add`) -/
def keysUnique (ns : Nests) : Bool := decide (ns.map (·.className)).Nodup

/-- jar-side: every nest of the table passes the filter (the hypothesis of `names_agree`) -/
def allApply (jar : Jar) (ns : Nests) : Bool := decide ((filterRun jar ns).kept = ns)

/-- class names of a jar -/
def jarNames (jar : Jar) : List JStr := ((classesOf jar).map (·.name)).eraseDups

/-! ## the filter of `nest_jar`, stated without the threaded state -/

/-- is class `c` counted as present when the closure has run over the nests `older` (most recent first)? It is in the
jar, or it is the enclosing class of an earlier nest whose own class was counted as present (then it was synthesised,
whether or not that nest was kept) -/
def presentRev (names : List JStr) : List Nest → JStr → Bool
  | [], c => names.contains c
  | m :: older, c => presentRev names older c || (c == m.enclClass && presentRev names older m.className)

/-- the nests that are applied, in table order -/
def keptSpecGo (names : List JStr) (mm : AList JStr (List (JStr × JStr))) : List Nest → Nests → Nests
  | _, [] => []
  | older, n :: rest =>
    (if presentRev names older n.className && kindRule mm n then [n] else []) ++ keptSpecGo names mm (n :: older) rest

def keptSpec (jar : Jar) (ns : Nests) : Nests :=
  keptSpecGo (jarNames jar) (methodsMap (classesOf jar)) [] ns

/-- the enclosing classes that are synthesised, in order of creation -/
def createdSpecGo (names : List JStr) : List Nest → Nests → List JStr
  | _, [] => []
  | older, n :: rest =>
    (if presentRev names older n.className && !presentRev names older n.enclClass then [n.enclClass] else []) ++
      createdSpecGo names (n :: older) rest

def createdSpec (jar : Jar) (ns : Nests) : List JStr := createdSpecGo (jarNames jar) [] ns

/-- no listed class is missing from the jar while being the enclosing class of a listed class: then "present" means
"in the jar" and the filter does not depend on the order of the table -/
def noSynthListed (jar : Jar) (ns : Nests) : Bool :=
  ns.all (fun n => (jarNames jar).contains n.className || ns.all (fun m => m.enclClass != n.className))

/-- what becomes of a source entry when nesting without renaming -/
def emitEntry (this : Nests) : Entry → Entry
  | .cls c => .cls (addAttrs this c)
  | e => e

/-- entry name and, for a class entry, the name of the class in it -/
def nameView (e : JStr × Entry) : JStr × Option JStr :=
  (e.1, match e.2 with | .cls c => some c.name | _ => none)

/-- what the property asks of a source entry when renaming with the class map `f`: a class entry is renamed, its class
carries the new name; directories and resources keep their names -/
def renamedView (f : JStr → JStr) (e : JStr × Entry) : JStr × Option JStr :=
  match e.2 with
  | .cls c => (remapEntryName f e.1, some (f c.name))
  | _ => (e.1, none)

/-- what the property asks of a synthesised class when renaming: entry `<new name>.class` holding the class of that name -/
def createdView (f : JStr → JStr) (name : JStr) : JStr × Option JStr := (f name ++ DOT_CLASS, some (f name))

/-- the `InnerClasses` entry a nested class must carry after renaming with the class map `f`: the new name of the class,
the new name of its enclosing class (inner classes only), simple name and flags as without renaming -/
def renamedInnerClass (f : JStr → JStr) (n : Nest) : InnerClass :=
  { inner := f n.className, outer := if n.kind = .inner then some (f n.enclClass) else none,
    name := (innerClassOf n).name, flags := n.access }

/-- the `EnclosingMethod` attribute an anonymous or local nested class must carry after renaming: the new name of the
enclosing class, the method with its descriptor rewritten (`none` when the descriptor is malformed) -/
def renamedEnclMethod (f : JStr → JStr) (n : Nest) : Option EnclMethod :=
  match n.enclMethod with
  | none => some { cls := f n.enclClass, method := none }
  | some (mn, md) => (MapDesc.mapDesc f md).map (fun d => { cls := f n.enclClass, method := some (mn, d) })

/-- no `;` and non-empty: what `map_desc` needs of a replacement name -/
def cleanName (s : JStr) : Bool := !s.isEmpty && !s.contains MapDesc.SEMI

/-- every class name a mapping set mentions in its first namespace: class keys and the classes inside descriptors -/
def usedNames (m : Mappings) : List JStr :=
  m.classes.flatMap (fun e =>
    e.1 :: (e.2.fields.flatMap (fun f => Reorder.classesOf f.2.desc) ++
            e.2.methods.flatMap (fun f => Reorder.classesOf f.2.desc)))

/-- the translation of `c` collides with the translation of no other table entry -/
def noCollision (t : AList JStr JStr) (c : JStr) : Bool :=
  t.all (fun kv => tableMap t c != kv.2 || c == kv.1)

/-- decidable domain of `undo_apply` (`InjectiveTranslation` of the design): the table is acyclic, the nested names it
produces can be written into a descriptor, and on the names the mapping set uses the translation is injective against
the table -/
def undoApplyDomain (m : Mappings) (ns : Nests) : Bool :=
  match mapTable ns with
  | none => false
  | some t =>
    t.all (fun kv => cleanName kv.2) && (usedNames m).all (fun c => cleanName c && noCollision t c)

/-- entries are stored under the key derived from their info (`ToKey`), keys are unique, second names non-empty -/
def wfClass (k : JStr) (c : Class) : Bool :=
  name0 c.names == some k &&
  (match name1 c.names with | some d => !d.isEmpty | none => true) &&
  c.fields.all (fun e => name0 e.2.names == some e.1.1 && e.1.2 == e.2.desc) &&
  decide (c.fields.map (·.1)).Nodup &&
  c.methods.all (fun e => name0 e.2.names == some e.1.1 && e.1.2 == e.2.desc) &&
  decide (c.methods.map (·.1)).Nodup

def wfMappings (m : Mappings) : Bool :=
  m.classes.all (fun e => wfClass e.1 e.2) && decide (m.classes.map (·.1)).Nodup

/-- a class entry without its second-namespace name -/
structure ClassView where
  key : JStr
  first : Option JStr
  doc : Option JStr
  fields : AList MemberKey Field
  methods : AList MemberKey Method
  deriving DecidableEq, Repr

def classView (e : JStr × Class) : ClassView :=
  { key := e.1, first := name0 e.2.names, doc := e.2.doc, fields := e.2.fields, methods := e.2.methods }

/-- everything but the second-namespace class names (which un-nesting does not restore, by design) -/
def srcView (m : Mappings) : List ClassView := m.classes.map classView

end Nest
