import FeatherModel.Model.Mappings
import FeatherModel.Base.AListOps

/-!
# Mapping diffs (C04)
`quill/src/tree/mappings_diff.rs`, `quill/src/tree/mappings_diff/action.rs` (the tree and `Action`),
`quill/src/action/apply_diff.rs` (`apply_diff_option`, `apply_diff_map`, `MappingsDiff::apply_to`),
`quill/src/tree/mod.rs` (`Names::change_name`, `Namespaces::change_name`), `quill/src/tree/mappings.rs` (`FromKey`),
`quill/src/action/diff_mappings.rs` (`MappingsDiff::diff`).
`none` = the `bail!`/`Err` of the Rust code (error text is never modelled).
-/

namespace DiffModel

/-- `Action<T>` -/
inductive Action (α : Type) where
  | none
  | add (b : α)
  | remove (a : α)
  | edit (a b : α)
  deriving Repr, BEq, DecidableEq

/-- `Action::from_tuple` -/
def Action.fromTuple {α : Type} : Option α → Option α → Action α
  | .none, .none => .none
  | .none, some b => .add b
  | some a, .none => .remove a
  | some a, some b => .edit a b

/-- `Action::to_tuple` -/
def Action.toTuple {α : Type} : Action α → Option α × Option α
  | .none => (.none, .none)
  | .add b => (.none, some b)
  | .remove a => (some a, .none)
  | .edit a b => (some a, some b)

/-- `ParameterNowodeDiff` -/
structure PDiff where
  info : Action JStr
  doc : Action JStr
  deriving Repr, BEq, DecidableEq

/-- `FieldNowodeDiff` -/
structure FDiff where
  info : Action JStr
  doc : Action JStr
  deriving Repr, BEq, DecidableEq

/-- `MethodNowodeDiff` -/
structure MDiff where
  info : Action JStr
  doc : Action JStr
  params : AList Nat PDiff
  deriving Repr, BEq, DecidableEq

/-- `ClassNowodeDiff` -/
structure CDiff where
  info : Action JStr
  doc : Action JStr
  fields : AList MemberKey FDiff
  methods : AList MemberKey MDiff
  deriving Repr, BEq, DecidableEq

/-- `MappingsDiff`; `info` acts on the name of the target namespace -/
structure Diff where
  info : Action JStr
  doc : Action JStr
  classes : AList JStr CDiff
  deriving Repr, BEq, DecidableEq

/-! ## application -/

/-- `apply_diff_option`; outer `none` = refused -/
def applyOption {α : Type} [DecidableEq α] : Action α → Option α → Option (Option α)
  | .none, t => some t
  | .add b, .none => some (some b)
  | .add _, some _ => .none
  | .remove a, some t => if t = a then some .none else .none
  | .remove _, .none => .none
  | .edit a b, some t => if t = a then some (some b) else .none
  | .edit _ _, .none => .none

/-- `Names::change_name`: the first namespace is refused, the current name must equal `frm` -/
def changeName (ns : Nat) (frm to : Option JStr) (names : Names) : Option Names :=
  if ns = 0 then none
  else if names[ns]? = some frm then some (names.set ns to) else none

/-- `Names::from_first_name` for `N` namespaces -/
def fromFirstName (N : Nat) (src : JStr) : Names :=
  match N with
  | 0 => []
  | n + 1 => some src :: List.replicate n none

/-- what `apply_diff_map` needs to know about one level (the `NodeInfo`/`GetNames`/`FromKey` traits):
`fromKey N k` = `Target::new(Mapping::from_key(k))`: no children, no javadoc -/
structure Ops (K D T : Type) where
  action : D → Action JStr
  names : T → Names
  setNames : T → Names → T
  fromKey : Nat → K → T

section applyMap
variable {K D T : Type} [BEq K]

/-- case 1 of `apply_diff_map` (key in both maps). `none` = refused, `some none` = entry removed (children are NOT looked
at), `some (some t)` = entry kept with the children diff applied -/
def applyPresent (ops : Ops K D T) (ns : Nat) (child : D → T → Option T) (d : D) (t : T) : Option (Option T) :=
  match ops.action d with
  | .none => (child d t).map some
  | .add b =>
    match changeName ns none (some b) (ops.names t) with
    | none => none
    | some n => (child d (ops.setNames t n)).map some
  | .remove a =>
    match changeName ns (some a) none (ops.names t) with
    | none => none
    | some _ => some none
  | .edit a b =>
    match changeName ns (some a) (some b) (ops.names t) with
    | none => none
    | some n => (child d (ops.setNames t n)).map some

/-- case 3 of `apply_diff_map` (key only in the diff): only `Add` is possible; the node is created from the key and the
name goes through `change_name` like a name added to an existing entry (first namespace refused, old value `None`) -/
def applyAbsent (ops : Ops K D T) (ns N : Nat) (child : D → T → Option T) (k : K) (d : D) : Option T :=
  match ops.action d with
  | .add b =>
    let t := ops.fromKey N k
    match changeName ns none (some b) (ops.names t) with
    | none => none
    | some n => child d (ops.setNames t n)
  | _ => none

/-- first loop of `apply_diff_map`: over the targets in order; applied diffs are `swap_remove`d from the diff map -/
def applyLoop1 (ops : Ops K D T) (ns : Nat) (child : D → T → Option T) :
    AList K T → AList K D → AList K T → Option (AList K T × AList K D)
  | [], diffs, results => some (results, diffs)
  | (key, target) :: rest, diffs, results =>
    match AList.swapRemove key diffs with
    | none => applyLoop1 ops ns child rest diffs (AList.insert key target results)
    | some (d, diffs') =>
      match applyPresent ops ns child d target with
      | none => none
      | some none => applyLoop1 ops ns child rest diffs' results
      | some (some t') => applyLoop1 ops ns child rest diffs' (AList.insert key t' results)

/-- second loop of `apply_diff_map`: over the diffs that are left, in the order the `swap_remove`s left them in -/
def applyLoop2 (ops : Ops K D T) (ns N : Nat) (child : D → T → Option T) :
    AList K D → AList K T → Option (AList K T)
  | [], results => some results
  | (key, d) :: rest, results =>
    match applyAbsent ops ns N child key d with
    | none => none
    | some t => applyLoop2 ops ns N child rest (AList.insert key t results)

/-- `apply_diff_map` -/
def applyMap (ops : Ops K D T) (ns N : Nat) (child : D → T → Option T)
    (diffs : AList K D) (targets : AList K T) : Option (AList K T) :=
  match applyLoop1 ops ns child targets diffs [] with
  | none => none
  | some (results, left) => applyLoop2 ops ns N child left results

end applyMap

def classOps : Ops JStr CDiff Class where
  action := CDiff.info
  names := Class.names
  setNames c n := { c with names := n }
  fromKey N k := { names := fromFirstName N k, doc := none, fields := [], methods := [] }

def fieldOps : Ops MemberKey FDiff Field where
  action := FDiff.info
  names := Field.names
  setNames f n := { f with names := n }
  fromKey N k := { desc := k.2, names := fromFirstName N k.1, doc := none }

def methodOps : Ops MemberKey MDiff Method where
  action := MDiff.info
  names := Method.names
  setNames m n := { m with names := n }
  fromKey N k := { desc := k.2, names := fromFirstName N k.1, doc := none, params := [] }

/-- parameters are created with all names absent (`Names::none()`) -/
def paramOps : Ops Nat PDiff Param where
  action := PDiff.info
  names := Param.names
  setNames p n := { p with names := n }
  fromKey N k := { index := k, names := List.replicate N none, doc := none }

/-- the closures of `MappingsDiff::apply_to`, innermost first -/
def applyParam (d : PDiff) (p : Param) : Option Param :=
  match applyOption d.doc p.doc with
  | none => none
  | some doc => some { p with doc := doc }

def applyField (d : FDiff) (f : Field) : Option Field :=
  match applyOption d.doc f.doc with
  | none => none
  | some doc => some { f with doc := doc }

def applyMethod (ns N : Nat) (d : MDiff) (m : Method) : Option Method :=
  match applyOption d.doc m.doc with
  | none => none
  | some doc =>
    match applyMap paramOps ns N applyParam d.params m.params with
    | none => none
    | some ps => some { m with doc := doc, params := ps }

def applyClass (ns N : Nat) (d : CDiff) (c : Class) : Option Class :=
  match applyOption d.doc c.doc with
  | none => none
  | some doc =>
    match applyMap fieldOps ns N applyField d.fields c.fields with
    | none => none
    | some fs =>
      match applyMap methodOps ns N (applyMethod ns N) d.methods c.methods with
      | none => none
      | some ms => some { c with doc := doc, fields := fs, methods := ms }

/-- the `info` arm of `apply_to`: `Namespaces::change_name` (no first-namespace check there) -/
def applyInfo (info : Action JStr) (nss : List JStr) (ns : Nat) : Option (List JStr) :=
  match info with
  | .none => some nss
  | .add _ => none
  | .remove _ => none
  | .edit a b => if nss[ns]? = some a then some (nss.set ns b) else none

/-- `MappingsDiff::apply_to` after the namespace lookup -/
def applyAt (d : Diff) (t : Mappings) (ns : Nat) : Option Mappings :=
  let N := t.ns.length
  match applyInfo d.info t.ns ns with
  | none => none
  | some nss =>
    match applyOption d.doc t.doc with
    | none => none
    | some doc =>
      match applyMap classOps ns N (applyClass ns N) d.classes t.classes with
      | none => none
      | some cs => some { ns := nss, doc := doc, classes := cs }

/-- `MappingsDiff::apply_to` -/
def applyTo (d : Diff) (t : Mappings) (nsName : JStr) : Option Mappings :=
  match t.getNamespace nsName with
  | none => none
  | some ns => applyAt d t ns

/-! ## diff generation
`Combination<&T>` (`A(a) | B(b) | AB(a, b)`) is modelled as a pair of options that are not both `none`; the one-sided map
walk `map_combine_one_side(m, …)` is the zip of `m` with the empty map (same keys, same order, same combination). -/

def nameAt (names : Names) (i : Nat) : Option JStr :=
  match names[i]? with
  | some (some n) => some n
  | _ => none

/-- `gen_diff_names` with `target_namespace = Namespace::new(1)`; `none` = `with_context` error on an absent name -/
def genDiffNames : Option Names → Option Names → Option (Action JStr)
  | some a, .none => (nameAt a 1).map .remove
  | .none, some b => (nameAt b 1).map .add
  | some a, some b =>
    match nameAt a 1, nameAt b 1 with
    | some x, some y => some (.edit x y)
    | _, _ => none
  | .none, .none => none

def flat {α : Type} : Option (Option α) → Option α
  | some (some x) => some x
  | _ => none

/-- `gen_diff_javadoc` -/
def genDiffDoc (a b : Option (Option JStr)) : Action JStr := Action.fromTuple (flat a) (flat b)

section zipMap
variable {K V W : Type} [BEq K]

/-- key union of `zip_map`: keys of `a` in order, then the keys of `b` that `a` does not have, in order -/
def zipKeys (a b : AList K V) : List K :=
  a.keys ++ (b.keys.filter fun k => !AList.contains k a)

def mapKeysM (f : K → Option W) : List K → Option (AList K W)
  | [] => some []
  | k :: rest =>
    match f k with
    | none => none
    | some w =>
      match mapKeysM f rest with
      | none => none
      | some r => some ((k, w) :: r)

/-- `zip_map` / `zip_map_combination` -/
def zipMap (f : Option V → Option V → Option W) (a b : AList K V) : Option (AList K W) :=
  mapKeysM (fun k => f (AList.lookup k a) (AList.lookup k b)) (zipKeys a b)

end zipMap

/-- children of an optional side (`ab.map(|x| &x.fields)`; an absent side contributes no keys) -/
def kids {T K V : Type} (o : Option T) (f : T → AList K V) : AList K V :=
  match o with
  | some x => f x
  | none => []

def diffParam (a b : Option Param) : Option PDiff :=
  match genDiffNames (a.map Param.names) (b.map Param.names) with
  | none => none
  | some info => some { info := info, doc := genDiffDoc (a.map Param.doc) (b.map Param.doc) }

def diffField (a b : Option Field) : Option FDiff :=
  match genDiffNames (a.map Field.names) (b.map Field.names) with
  | none => none
  | some info => some { info := info, doc := genDiffDoc (a.map Field.doc) (b.map Field.doc) }

def diffMethod (a b : Option Method) : Option MDiff :=
  match genDiffNames (a.map Method.names) (b.map Method.names) with
  | none => none
  | some info =>
    match zipMap diffParam (kids a Method.params) (kids b Method.params) with
    | none => none
    | some ps => some { info := info, doc := genDiffDoc (a.map Method.doc) (b.map Method.doc), params := ps }

def diffClass (a b : Option Class) : Option CDiff :=
  match genDiffNames (a.map Class.names) (b.map Class.names) with
  | none => none
  | some info =>
    match zipMap diffField (kids a Class.fields) (kids b Class.fields) with
    | none => none
    | some fs =>
      match zipMap diffMethod (kids a Class.methods) (kids b Class.methods) with
      | none => none
      | some ms => some { info := info, doc := genDiffDoc (a.map Class.doc) (b.map Class.doc), fields := fs, methods := ms }

/-- `MappingsDiff::diff` (defined for two-namespace mapping sets only: `Mappings<2, Ns>`) -/
def diff (a b : Mappings) : Option Diff :=
  if a.ns.length ≠ 2 ∨ b.ns.length ≠ 2 then none
  else if a.ns ≠ b.ns then none
  else
    match zipMap diffClass a.classes b.classes with
    | none => none
    | some cs => some { info := .none, doc := genDiffDoc (some a.doc) (some b.doc), classes := cs }

end DiffModel

/-! ## S-expression codec (mirror of `harness/src/diffcodec.rs`)
  action := none | (add x) | (remove x) | (edit a b)
  diff   := (info doc (class…))          class := (key info doc (field…) (method…))
  field  := (kname kdesc info doc)       method := (kname kdesc info doc (param…))      param := (kindex info doc) -/

namespace DiffCodec
open Sexp DiffModel

def actionTo : Action JStr → Sexp
  | .none => tag "none"
  | .add b => list [tag "add", ofJStr b]
  | .remove a => list [tag "remove", ofJStr a]
  | .edit a b => list [tag "edit", ofJStr a, ofJStr b]

def actionFrom : Sexp → Option (Action JStr)
  | atom "none" => some .none
  | list [atom "add", b] => do let b ← toJStr? b; pure (.add b)
  | list [atom "remove", a] => do let a ← toJStr? a; pure (.remove a)
  | list [atom "edit", a, b] => do let a ← toJStr? a; let b ← toJStr? b; pure (.edit a b)
  | _ => none

def paramTo (e : Nat × PDiff) : Sexp := list [ofNat e.1, actionTo e.2.info, actionTo e.2.doc]
def fieldTo (e : MemberKey × FDiff) : Sexp := list [ofJStr e.1.1, ofJStr e.1.2, actionTo e.2.info, actionTo e.2.doc]
def methodTo (e : MemberKey × MDiff) : Sexp :=
  list [ofJStr e.1.1, ofJStr e.1.2, actionTo e.2.info, actionTo e.2.doc, ofList paramTo e.2.params]
def classTo (e : JStr × CDiff) : Sexp :=
  list [ofJStr e.1, actionTo e.2.info, actionTo e.2.doc, ofList fieldTo e.2.fields, ofList methodTo e.2.methods]
def diffTo (d : Diff) : Sexp := list [actionTo d.info, actionTo d.doc, ofList classTo d.classes]

def paramFrom : Sexp → Option (Nat × PDiff)
  | list [k, i, d] => do
    let k ← toNat? k; let i ← actionFrom i; let d ← actionFrom d
    pure (k, { info := i, doc := d })
  | _ => none
def fieldFrom : Sexp → Option (MemberKey × FDiff)
  | list [kn, kd, i, d] => do
    let kn ← toJStr? kn; let kd ← toJStr? kd; let i ← actionFrom i; let d ← actionFrom d
    pure ((kn, kd), { info := i, doc := d })
  | _ => none
def methodFrom : Sexp → Option (MemberKey × MDiff)
  | list [kn, kd, i, d, ps] => do
    let kn ← toJStr? kn; let kd ← toJStr? kd; let i ← actionFrom i; let d ← actionFrom d
    let ps ← toListOf? paramFrom ps
    pure ((kn, kd), { info := i, doc := d, params := ps })
  | _ => none
def classFrom : Sexp → Option (JStr × CDiff)
  | list [k, i, d, fs, ms] => do
    let k ← toJStr? k; let i ← actionFrom i; let d ← actionFrom d
    let fs ← toListOf? fieldFrom fs; let ms ← toListOf? methodFrom ms
    pure (k, { info := i, doc := d, fields := fs, methods := ms })
  | _ => none
def diffFrom : Sexp → Option Diff
  | list [i, d, cs] => do
    let i ← actionFrom i; let d ← actionFrom d; let cs ← toListOf? classFrom cs
    pure { info := i, doc := d, classes := cs }
  | _ => none

end DiffCodec
