import FeatherModel.Base.Sexp
import FeatherModel.Base.AList
import FeatherModel.Gen.ScopeTable

/-!
# Maven dependency resolution (C19)

Model of `/repo/maven_dependency_resolver` as it is:
`src/lib.rs` (`DependencyScope`, `the_scope_table`, `get_dependencies_tree`, `clean_up_dependencies`,
`get_maven_dependencies`, `FoundDependency` printer / parser), `src/coord.rs` (`MavenCoord` printer / parser, URLs,
snapshot base version, artifact-handler tables), `src/resolver.rs` (`try_resolvers`, `try_get_pom_for`),
`src/maven_pom_done.rs` (`get_merged_pom`, `merge_parent`, `make_dependency_management`, `make_dependencies`),
`src/tree.rs` (`Forest::breadth_first_retain`, `into_breadth_first`).

Not modelled: XML parsing (`serde_xml_rs`), the async `Downloader` / HTTP.  The downloader is a finite map from URL to
an already parsed POM structure (or to "unparsable document").

The scope table, the `Display` and `FromStr` tables of `DependencyScope` are **not** written here: they are read from
`Gen/ScopeTable.lean`, which `translate/scope_to_lean.py` regenerates from the Rust source on every run.
-/

namespace Maven

/-! ## Scopes -/

inductive Scope where
  | compile | runtime | test | system | provided
  deriving DecidableEq, Repr, Inhabited

/-- scope ids as used by the translator (assigned by variant name) -/
def Scope.id : Scope → Nat
  | .compile => 0 | .runtime => 1 | .test => 2 | .system => 3 | .provided => 4

def Scope.ofId? : Nat → Option Scope
  | 0 => some .compile | 1 => some .runtime | 2 => some .test | 3 => some .system | 4 => some .provided
  | _ => none

def Scope.all : List Scope := [.compile, .runtime, .test, .system, .provided]

def patMatches : Gen.ScopeTable.Pat → Nat → Bool
  | .any, _ => true
  | .oneOf ids, n => ids.contains n

/-- Rust `match` semantics over the translated arms: first matching arm wins.
Outer `none`: no arm matches (cannot happen for code that compiles: `match` must be exhaustive). -/
def evalArms : List Gen.ScopeTable.Arm → Nat → Nat → Option (Option Nat)
  | [], _, _ => none
  | a :: rest, l, t =>
    if patMatches a.left l && patMatches a.top t then
      some (match a.rhs with
        | .none => none
        | .const i => some i
        | .left => some l
        | .top => some t)
    else evalArms rest l t

/-- `the_scope_table(left_column, top_row)` -/
def theScopeTable (left top : Scope) : Option Scope :=
  match evalArms Gen.ScopeTable.arms left.id top.id with
  | some (some i) => Scope.ofId? i
  | _ => none

/-- `impl Display for DependencyScope` -/
def Scope.print (s : Scope) : JStr :=
  match Gen.ScopeTable.display.find? (fun e => e.1 == s.id) with
  | some e => e.2
  | none => []

/-- `impl FromStr for DependencyScope` -/
def Scope.parse (str : JStr) : Option Scope :=
  match Gen.ScopeTable.fromStr.find? (fun e => e.1 == str) with
  | some e => Scope.ofId? e.2
  | none => none

/-! ## String helpers -/

def COLON : Nat := 58
def DOT : Nat := 46
def SLASH : Nat := 47
def MINUS : Nat := 45
def AT : Nat := 64
def SPACE : Nat := 32

/-- `str::split(c)` -/
def splitOn (c : Nat) : List Nat → List (List Nat)
  | [] => [[]]
  | x :: xs =>
    if x = c then [] :: splitOn c xs
    else
      match splitOn c xs with
      | h :: t => (x :: h) :: t
      | [] => [[x]]

/-- `str::rsplit_once(c)` -/
def rsplitOnce (c : Nat) : List Nat → Option (List Nat × List Nat)
  | [] => none
  | x :: xs =>
    match rsplitOnce c xs with
    | some (p, i) => some (x :: p, i)
    | none => if x = c then some ([], xs) else none

/-- `str::split_once(c)` -/
def splitOnce (c : Nat) : List Nat → Option (List Nat × List Nat)
  | [] => none
  | x :: xs =>
    if x = c then some ([], xs)
    else
      match splitOnce c xs with
      | some (p, i) => some (x :: p, i)
      | none => none

/-- the string starts with `" @ "`: the rest after it -/
def startsSep : List Nat → Option (List Nat)
  | x :: y :: z :: rest => if x = 32 ∧ y = 64 ∧ z = 32 then some rest else none
  | _ => none

/-- `str::split_once(" @ ")`: the first occurrence, scanning from the left -/
def splitOnceAt : List Nat → Option (List Nat × List Nat)
  | [] => none
  | x :: xs =>
    match startsSep (x :: xs) with
    | some rest => some ([], rest)
    | none =>
      match splitOnceAt xs with
      | some (p, i) => some (x :: p, i)
      | none => none

def isDigit (n : Nat) : Bool := 48 ≤ n && n ≤ 57

def endsWithSlash (s : JStr) : Bool := s.getLast? == some SLASH

/-! ## Coordinates -/

structure Coord where
  group : JStr
  artifact : JStr
  version : JStr
  classifier : Option JStr
  type_ : JStr
  deriving DecidableEq, Repr, Inhabited

/-- `impl Display for MavenCoord`: `group:artifact:type[:classifier]:version` -/
def Coord.print (c : Coord) : JStr :=
  c.group ++ COLON :: (c.artifact ++ COLON :: (c.type_ ++
    (match c.classifier with
     | some k => COLON :: k
     | none => []) ++ COLON :: c.version))

/-- `impl FromStr for MavenCoord`: `group:artifact[:type[:classifier]]:version` -/
def Coord.parse (s : JStr) : Option Coord :=
  match splitOn COLON s with
  | [g, a, v] => some { group := g, artifact := a, version := v, classifier := none, type_ := jstr "jar" }
  | [g, a, t, v] => some { group := g, artifact := a, version := v, classifier := none, type_ := t }
  | [g, a, t, c, v] => some { group := g, artifact := a, version := v, classifier := some c, type_ := t }
  | _ => none

/-- `to_snapshot_version`: `^(.*)-(\d{8}.\d{6})-(\d+)$` ↦ `\1-SNAPSHOT` -/
def baseVersion (version : JStr) : JStr :=
  match rsplitOnce MINUS version with
  | none => version
  | some (before, after) =>
    if after.isEmpty || !after.all isDigit then version else
    match rsplitOnce MINUS before with
    | none => version
    | some (bp, between) =>
      match splitOnce DOT between with
      | none => version
      | some (date, time) =>
        if date.length == 8 && date.all isDigit && time.length == 6 && time.all isDigit
        then bp ++ jstr "-SNAPSHOT" else version

/-- `Types::type_to_classifier` -/
def typeToClassifier (t : JStr) : Option JStr :=
  if t = jstr "test-jar" then some (jstr "tests")
  else if t = jstr "ejb-client" then some (jstr "client")
  else if t = jstr "java-source" then some (jstr "sources")
  else if t = jstr "javadoc" then some (jstr "javadoc")
  else none

/-- `Types::type_to_extension` -/
def typeToExtension (t : JStr) : JStr :=
  if t = jstr "test-jar" || t = jstr "maven-plugin" || t = jstr "ejb" || t = jstr "ejb-client" ||
     t = jstr "java-source" || t = jstr "javadoc" || t = jstr "bundle" then jstr "jar"
  else t

/-- `Types::packaging_to_type`: every reachable arm returns its argument -/
def packagingToType (p : JStr) : JStr := p

structure Resolver where
  name : JStr
  maven : JStr
  deriving DecidableEq, Repr, Inhabited

def groupPath (g : JStr) : JStr := g.map (fun c => if c = DOT then SLASH else c)

def mavenPrefix (r : Resolver) : JStr := r.maven ++ (if endsWithSlash r.maven then [] else [SLASH])

/-- `MavenCoord::make_pom_url` -/
def Coord.pomUrl (c : Coord) (r : Resolver) : JStr :=
  mavenPrefix r ++ groupPath c.group ++ SLASH :: c.artifact ++ SLASH :: baseVersion c.version ++ SLASH ::
    c.artifact ++ MINUS :: c.version ++ jstr ".pom"

/-- `MavenCoord::make_url` -/
def Coord.url (c : Coord) (r : Resolver) : JStr :=
  mavenPrefix r ++ groupPath c.group ++ SLASH :: c.artifact ++ SLASH :: baseVersion c.version ++ SLASH ::
    c.artifact ++ MINUS :: c.version ++
    (match c.classifier with
     | some k => MINUS :: k
     | none => []) ++ DOT :: typeToExtension c.type_

/-- `DependencyCollisionId` -/
abbrev CollisionId := JStr × JStr × Option JStr × JStr

def Coord.collisionId (c : Coord) : CollisionId := (c.group, c.artifact, c.classifier, c.type_)

/-- `matches_besides_version` -/
def Coord.matchesBesidesVersion (c : Coord) (g a : JStr) (k : Option JStr) (t : JStr) : Bool :=
  c.group == g && c.artifact == a && c.classifier == k && c.type_ == t

/-! ## Found dependencies -/

structure Found where
  resolver : Resolver
  coord : Coord
  scope : Scope
  deriving DecidableEq, Repr, Inhabited

/-- `impl Display for FoundDependency`: `{coord}:{scope} @ {url}` -/
def Found.print (f : Found) : JStr :=
  f.coord.print ++ COLON :: (f.scope.print ++ (SPACE :: AT :: SPACE :: f.resolver.maven))

/-- `impl TryFrom<&str> for FoundDependency` -/
def Found.parse (s : JStr) : Option Found :=
  match splitOnceAt s with
  | none => none
  | some (left, url) =>
    match rsplitOnce COLON left with
    | none => none
    | some (coord, scope) =>
      match Coord.parse coord with
      | none => none
      | some c =>
        match Scope.parse scope with
        | none => none
        | some sc => some { resolver := { name := url, maven := url }, coord := c, scope := sc }

def Found.url (f : Found) : JStr := f.coord.url f.resolver

/-! ## POM structures (`maven_pom.rs`) -/

structure Parent where
  group : JStr
  artifact : JStr
  version : JStr
  deriving Repr, Inhabited

/-- `Dependency<Scope>`; for managed entries `S = Option Scope` with `none` = `import` -/
structure RawDep (S : Type) where
  group : JStr
  artifact : JStr
  version : Option JStr
  type_ : Option JStr
  classifier : Option JStr
  scope : Option S
  optional : Option Bool
  deriving Repr, Inhabited

structure Pom where
  modelVersion : JStr
  parent : Option Parent
  group : Option JStr
  artifact : JStr
  version : Option JStr
  packaging : Option JStr
  /-- `dependencyManagement/dependencies/dependency*` (absent containers = empty list) -/
  depMgmt : List (RawDep (Option Scope))
  deps : List (RawDep Scope)
  deriving Repr, Inhabited

/-- `DependencyDone` -/
structure DepDone where
  coord : Coord
  scope : Option Scope
  optional : Option Bool
  deriving DecidableEq, Repr, Inhabited

/-- `MavenPomDone` -/
structure PomDone where
  coord : Coord
  depMgmt : List DepDone
  deps : List DepDone
  deriving DecidableEq, Repr, Inhabited

/-- the downloader: URL ↦ parsed POM, or `none` for a document that does not parse -/
abbrev Universe := AList JStr (Option Pom)

/-! ## Results: ok / error / recursion fuel exhausted
(the Rust code has no recursion limiter: on cyclic inputs it does not terminate) -/

inductive Res (α : Type) where
  | ok (a : α)
  | err
  | fuel
  deriving Repr

def Res.bind {α β : Type} : Res α → (α → Res β) → Res β
  | .ok a, f => f a
  | .err, _ => .err
  | .fuel, _ => .fuel

instance : Monad Res where
  pure := Res.ok
  bind := Res.bind

def Pom.parentCoord (p : Pom) : Option Coord :=
  p.parent.map fun q =>
    { group := q.group, artifact := q.artifact, version := q.version, classifier := none, type_ := jstr "pom" }

/-- `try_resolvers` + `try_get_pom_for`: the first repository that serves the URL; a document that does not parse or
has `modelVersion ≠ 4.0.0` is an error (not "try the next one") -/
def tryGetPom (U : Universe) : List Resolver → Coord → Res (Resolver × Pom)
  | [], _ => .err
  | r :: rs, c =>
    match AList.lookup (c.pomUrl r) U with
    | none => tryGetPom U rs c
    | some none => .err
    | some (some pom) => if pom.modelVersion = jstr "4.0.0" then .ok (r, pom) else .err

/-- the `while let Some(coord) = to_get.take()` loop of `get_merged_pom`: nearest parent first -/
def collectParents (U : Universe) (rs : List Resolver) : Nat → Option Coord → Res (List Pom)
  | _, none => .ok []
  | 0, some _ => .fuel
  | fuel + 1, some c =>
    match tryGetPom U rs c with
    | .ok (_, pom) =>
      match collectParents U rs fuel pom.parentCoord with
      | .ok rest => .ok (pom :: rest)
      | .err => .err
      | .fuel => .fuel
    | .err => .err
    | .fuel => .fuel

/-- `x.classifier.or_else(|| Types::type_to_classifier(&type_))` -/
def orDefaultClassifier (k : Option JStr) (type_ : JStr) : Option JStr :=
  match k with
  | some k => some k
  | none => typeToClassifier type_

def depCoord (g a : JStr) (v : JStr) (t : Option JStr) (k : Option JStr) : Coord :=
  let type_ := t.getD (jstr "jar")
  { group := g, artifact := a, version := v, type_ := type_, classifier := orDefaultClassifier k type_ }

/-- the loop of `make_dependency_management` over the POM's own entries; `imp` resolves an `import`-scoped BOM to its
effective POM -/
def makeDMOwn (imp : Coord → Res PomDone) : List (RawDep (Option Scope)) → Res (List DepDone)
  | [] => .ok []
  | x :: rest =>
    match x.version with
    | none => .err
    | some v =>
      let coord := depCoord x.group x.artifact v x.type_ x.classifier
      match x.scope with
      | some none =>
        -- scope import: splice the BOM's effective dependency management in place, drop the entry itself
        match imp coord with
        | .ok target =>
          match makeDMOwn imp rest with
          | .ok r => .ok (target.depMgmt ++ r)
          | .err => .err
          | .fuel => .fuel
        | .err => .err
        | .fuel => .fuel
      | sc =>
        match makeDMOwn imp rest with
        | .ok r => .ok ({ coord := coord, scope := sc.join, optional := x.optional } :: r)
        | .err => .err
        | .fuel => .fuel

/-- `make_dependency_management` -/
def makeDM (imp : Coord → Res PomDone) (own : List (RawDep (Option Scope))) (parent : Option (List DepDone)) :
    Res (List DepDone) :=
  match makeDMOwn imp own with
  | .ok v => .ok (v ++ parent.getD [])
  | .err => .err
  | .fuel => .fuel

/-- one own dependency of `make_dependencies`: the first matching managed entry fills omitted fields -/
def fillDep (dm : List DepDone) (x : RawDep Scope) : Option DepDone :=
  let type_ := x.type_.getD (jstr "jar")
  let classifier := orDefaultClassifier x.classifier type_
  match dm.find? (fun i => i.coord.matchesBesidesVersion x.group x.artifact classifier type_) with
  | some m =>
    some { coord := { group := x.group, artifact := x.artifact, version := x.version.getD m.coord.version,
                      classifier := classifier, type_ := type_ },
           scope := match x.scope with
             | some s => some s
             | none => m.scope,
           optional := match x.optional with
             | some o => some o
             | none => m.optional }
  | none =>
    match x.version with
    | some v => some { coord := { group := x.group, artifact := x.artifact, version := v,
                                  classifier := classifier, type_ := type_ },
                       scope := x.scope, optional := x.optional }
    | none => none

def fillDeps (dm : List DepDone) : List (RawDep Scope) → Option (List DepDone)
  | [] => some []
  | x :: rest =>
    match fillDep dm x with
    | none => none
    | some d =>
      match fillDeps dm rest with
      | none => none
      | some r => some (d :: r)

/-- `make_dependencies`: own (filled) dependencies, then the parent's appended -/
def makeDeps (dm : List DepDone) (own : List (RawDep Scope)) (parent : Option (List DepDone)) : Res (List DepDone) :=
  match fillDeps dm own with
  | some v => .ok (v ++ parent.getD [])
  | none => .err

/-- `merge_parent` -/
def mergeParent (imp : Coord → Res PomDone) (parent : Option PomDone) (child : Pom) : Res PomDone :=
  match parent with
  | some p =>
    if p.coord.type_ ≠ jstr "pom" then .err else
    let coord : Coord :=
      { group := child.group.getD p.coord.group, artifact := child.artifact,
        version := child.version.getD p.coord.version, classifier := none,
        type_ := packagingToType (child.packaging.getD (jstr "jar")) }
    match makeDM imp child.depMgmt (some p.depMgmt) with
    | .ok dm =>
      match makeDeps dm child.deps (some p.deps) with
      | .ok deps => .ok { coord := coord, depMgmt := dm, deps := deps }
      | .err => .err
      | .fuel => .fuel
    | .err => .err
    | .fuel => .fuel
  | none =>
    match child.group, child.version with
    | some g, some v =>
      let coord : Coord :=
        { group := g, artifact := child.artifact, version := v, classifier := none,
          type_ := packagingToType (child.packaging.getD (jstr "jar")) }
      match makeDM imp child.depMgmt none with
      | .ok dm =>
        match makeDeps dm child.deps none with
        | .ok deps => .ok { coord := coord, depMgmt := dm, deps := deps }
        | .err => .err
        | .fuel => .fuel
      | .err => .err
      | .fuel => .fuel
    | _, _ => .err

/-- the `for pom in poms_stack.into_iter().rev()` loop: merge from the root ancestor downwards;
the argument list is already reversed (root ancestor first) -/
def mergeChain (imp : Coord → Res PomDone) : Option PomDone → List Pom → Res (Option PomDone)
  | acc, [] => .ok acc
  | acc, p :: rest =>
    match mergeParent imp acc p with
    | .ok m => mergeChain imp (some m) rest
    | .err => .err
    | .fuel => .fuel

/-- `get_merged_pom` (effective POM).  `fuel` bounds the nesting of BOM imports and the parent chain. -/
def getMergedPom (U : Universe) (rs : List Resolver) : Nat → Coord → Res (Resolver × PomDone)
  | 0, _ => .fuel
  | fuel + 1, coord =>
    let imp : Coord → Res PomDone := fun c =>
      match getMergedPom U rs fuel c with
      | .ok (_, p) => .ok p
      | .err => .err
      | .fuel => .fuel
    match tryGetPom U rs coord with
    | .ok (resolver, pom) =>
      match collectParents U rs fuel pom.parentCoord with
      | .ok stack =>
        match mergeChain imp none stack.reverse with
        | .ok parent =>
          match mergeParent imp parent pom with
          | .ok merged => .ok (resolver, merged)
          | .err => .err
          | .fuel => .fuel
        | .err => .err
        | .fuel => .fuel
      | .err => .err
      | .fuel => .fuel
    | .err => .err
    | .fuel => .fuel

/-! ## Trees (`tree.rs`) -/

inductive Tree (α : Type) where
  | node (data : α) (children : List (Tree α))
  deriving Repr, Inhabited

namespace Tree
variable {α : Type}

def data : Tree α → α
  | node d _ => d

def children : Tree α → List (Tree α)
  | node _ c => c

mutual
def size : Tree α → Nat
  | node _ cs => 1 + sizeList cs
def sizeList : List (Tree α) → Nat
  | [] => 0
  | t :: ts => size t + sizeList ts
end

end Tree

open Tree (sizeList)

/-- `Vec::retain` with a stateful (`FnMut`) predicate on the node data: calls in order, state threaded -/
def filterS {α σ : Type} (f : σ → α → Bool × σ) : σ → List (Tree α) → σ × List (Tree α)
  | s, [] => (s, [])
  | s, t :: ts =>
    let r := f s t.data
    let rest := filterS f r.2 ts
    (rest.1, if r.1 then t :: rest.2 else rest.2)

theorem sizeList_append {α : Type} (a b : List (Tree α)) : sizeList (a ++ b) = sizeList a + sizeList b := by
  induction a with
  | nil => simp [Tree.sizeList]
  | cons t ts ih => simp [Tree.sizeList, ih]; omega

theorem sizeList_filterS_le {α σ : Type} (f : σ → α → Bool × σ) (s : σ) (ts : List (Tree α)) :
    sizeList (filterS f s ts).2 ≤ sizeList ts := by
  induction ts generalizing s with
  | nil => simp [filterS, Tree.sizeList]
  | cons t ts ih =>
    simp only [filterS]
    have := ih (f s t.data).2
    split <;> simp [Tree.sizeList] <;> omega

theorem size_eq {α : Type} (t : Tree α) : t.size = 1 + sizeList t.children := by
  cases t; simp [Tree.size, Tree.children]

/-- The `while let Some(t) = queue.pop_front()` loop of `Forest::breadth_first_retain`.
The Rust queue holds `&mut` references into the forest that is mutated in place; the functional rendering records,
in the order the queue is served, each node's data and how many of its children survive `retain`
(= the breadth-first serialisation of the mutated forest, see `rebuild`). -/
def queueRun {α σ : Type} (f : σ → α → Bool × σ) (s : σ) : List (Tree α) → List (α × Nat)
  | [] => []
  | t :: q =>
    let r := filterS f s t.children
    (t.data, r.2.length) :: queueRun f r.1 (q ++ r.2)
termination_by q => sizeList q
decreasing_by
  simp only [sizeList_append, Tree.sizeList, size_eq]
  have := sizeList_filterS_le f s t.children
  omega

/-- the forest whose breadth-first serialisation (data, number of children) is given: the last entry owns the last
`n` pending trees -/
def rebuild {α : Type} : List (α × Nat) → List (Tree α)
  | [] => []
  | (d, n) :: rest =>
    let pending := rebuild rest
    Tree.node d (pending.drop (pending.length - n)) :: pending.take (pending.length - n)

/-- `Forest::breadth_first_retain` -/
def bfsRetain {α σ : Type} (f : σ → α → Bool × σ) (s : σ) (forest : List (Tree α)) : List (Tree α) :=
  let r := filterS f s forest
  rebuild (queueRun f r.1 r.2)

/-- `Forest::into_breadth_first(..).collect()` (also `Forest::breadth_first`) -/
def bfs {α : Type} : List (Tree α) → List α
  | [] => []
  | t :: q => t.data :: bfs (q ++ t.children)
termination_by q => sizeList q
decreasing_by
  simp only [sizeList_append, Tree.sizeList, size_eq]
  omega

/-- the closure of `clean_up_dependencies`: `set.remove(&id)` — true iff the id was still in the set -/
def removeFirst {α ι : Type} [DecidableEq ι] (idOf : α → ι) (rem : List ι) (a : α) : Bool × List ι :=
  (rem.contains (idOf a), rem.filter (fun i => i ≠ idOf a))

/-- `clean_up_dependencies`, for any notion of collision id -/
def cleanUpBy {α ι : Type} [DecidableEq ι] (idOf : α → ι) (forest : List (Tree α)) : List (Tree α) :=
  let set := (forest.flatMap (fun t => bfs [t])).map idOf
  bfsRetain (removeFirst idOf) set forest

def cleanUp (forest : List (Tree Found)) : List (Tree Found) :=
  cleanUpBy (fun f => f.coord.collisionId) forest

/-! ## Dependency tree and resolution (`lib.rs`) -/

/-- the loop over `pom.dependencies` in `get_dependencies_tree`; `rec` builds the subtree of one dependency -/
def depChildren (rec : Coord → Scope → Res (Tree Found)) (scope : Scope) : List DepDone → Res (List (Tree Found))
  | [] => .ok []
  | d :: rest =>
    let isOptional := d.optional.getD false
    let depScope := d.scope.getD .compile
    if isOptional then depChildren rec scope rest else
    match theScopeTable scope depScope with
    | none => depChildren rec scope rest
    | some sc =>
      match rec d.coord sc with
      | .ok c =>
        match depChildren rec scope rest with
        | .ok cs => .ok (c :: cs)
        | .err => .err
        | .fuel => .fuel
      | .err => .err
      | .fuel => .fuel

/-- `get_dependencies_tree`: the full transitive tree (no mediation, no cycle check) -/
def depTree (U : Universe) (rs : List Resolver) : Nat → Coord → Scope → Res (Tree Found)
  | 0, _, _ => .fuel
  | fuel + 1, coord, scope =>
    match getMergedPom U rs fuel coord with
    | .ok (resolver, pom) =>
      match depChildren (fun c s => depTree U rs fuel c s) scope pom.deps with
      | .ok children => .ok (.node { resolver := resolver, coord := coord, scope := scope } children)
      | .err => .err
      | .fuel => .fuel
    | .err => .err
    | .fuel => .fuel

def depForest (U : Universe) (rs : List Resolver) (fuel : Nat) : List (Coord × Scope) → Res (List (Tree Found))
  | [] => .ok []
  | (c, s) :: rest =>
    match depTree U rs fuel c s with
    | .ok t =>
      match depForest U rs fuel rest with
      | .ok ts => .ok (t :: ts)
      | .err => .err
      | .fuel => .fuel
    | .err => .err
    | .fuel => .fuel

/-- `get_maven_dependencies` -/
def resolve (U : Universe) (rs : List Resolver) (fuel : Nat) (roots : List (Coord × Scope)) : Res (List Found) :=
  match depForest U rs fuel roots with
  | .ok forest => .ok (bfs (cleanUp forest))
  | .err => .err
  | .fuel => .fuel

end Maven
