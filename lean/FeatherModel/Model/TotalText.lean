import FeatherModel.Model.TotalSites
import FeatherModel.Model.Tiny
import FeatherModel.Model.TinyDiff
import FeatherModel.Model.Enigma
import FeatherModel.Model.Nest
import FeatherModel.Model.Descriptor

/-!
# C16 — the text parsers and the descriptor parsers as total functions of *bytes* with an explicit `panic`

The value part is the model of the property that owns the format (C03 `Tiny.read`, C04 `TinyDiff.read`, C12
`Enigma.readClasses`, C14 `Nest.read`, C18 `Descriptor.parse*`): those are functions of code points returning `Option`.
This file adds what they leave out:

* the input is a **byte** string: `BufRead::lines()` yields an `Err` for a line that is not UTF-8, and every reader
  either consumes all lines or stops at an error, so an input that is not UTF-8 as a whole is an `err`;
* `TinyLine::new` (`quill/src/lines.rs:86`) and `EnigmaLine::new` (`quill/src/enigma_file.rs:245`) cut the leading TABs
  off with a *byte-offset* slice `&line[idents..]` where `idents` counts *characters*: a checked operation
  (`strSliceFrom`).  The Rust code does this lazily line by line; the model checks all lines first — the theorems
  show the check never fires, so the order cannot be observed;
* `read_field_type` counts `[` in a `u8` (`array_dimension += 1`, guarded by `== 255`): `bracketsChecked`;
* `get_arguments_size` counts argument slots in a `u8`; since cf30e8c with `checked_add`: `argsSize` (former sites 7, 8).
-/

namespace Total.Text

open TM

def leadingTabs (l : List Nat) : Nat := (l.takeWhile (· == 9)).length

/-- `&line[idents..]` for every line -/
def sliceChecks (site : Nat) : List (List Nat) → TM Unit
  | [] => pure ()
  | l :: ls => do
    strSliceFrom site l (leadingTabs l)
    sliceChecks site ls

def unitOf {α : Type} (o : Option α) : TM Unit :=
  match o with
  | some _ => pure ()
  | none => fail

/-- `quill::tiny_v2::read::<N, _>` on bytes (`N` is a const generic: the harness instantiates 2, 3, 4) -/
def tinyOp (n : Nat) (b : Bytes) : TM Unit :=
  match utf8Decode b with
  | none => fail
  | some t => do
    sliceChecks Sites.sliceTinyLine (Tiny.lines t)
    if 2 ≤ n ∧ n ≤ 4 then unitOf (Tiny.read n t) else fail

/-- `quill::tiny_v2_diff::read_file` -/
def tinyDiffOp (b : Bytes) : TM Unit :=
  match utf8Decode b with
  | none => fail
  | some t => do
    sliceChecks Sites.sliceTinyLine (Tiny.lines t)
    unitOf (TinyDiff.read t)

/-- `quill::enigma_file::read_into` into empty mappings -/
def enigmaOp (b : Bytes) : TM Unit :=
  match utf8Decode b with
  | none => fail
  | some t => do
    sliceChecks Sites.sliceEnigmaLine (Tiny.lines t)
    unitOf (Enigma.readClasses t [])

/-- `dukenest::nest::Nests::read` -/
def nestsOp (b : Bytes) : TM Unit :=
  match utf8Decode b with
  | none => fail
  | some t => unitOf (Nest.read t)

/-- upper bound of the recursion depth of `parse_class` (one activation per indentation level of a CLASS line): the
longest run of TABs plus one -/
def maxTabRun : List Nat → Nat → Nat → Nat
  | [], cur, best => max cur best
  | c :: rest, cur, best => if c = 9 then maxTabRun rest (cur + 1) best else maxTabRun rest 0 (max cur best)

def enigmaDepth (t : List Nat) : Nat := maxTabRun t 0 0 + 1

/-! ## descriptors -/

/-- the `while chars.next_if_eq(&'[')` loop of `read_field_type` with the counter as a checked `u8` -/
def bracketsChecked : Nat → JStr → TM (Nat × JStr)
  | n, [] => pure (n, [])
  | n, c :: rest =>
    if c = 91 then
      if n = 255 then fail
      else do
        let n' ← addU8 Sites.arrayDimension n 1
        bracketsChecked n' rest
    else pure (n, c :: rest)

def descFieldOp (s : JStr) : TM Unit := unitOf (Descriptor.parseField s)
def descMethodOp (s : JStr) : TM Unit := unitOf (Descriptor.parseMethod s)
def descReturnOp (s : JStr) : TM Unit := unitOf (Descriptor.parseReturn s)

/-- the characters up to and including the first `;` are consumed; `none` = the descriptor ends first -/
def skipName : JStr → Option JStr
  | [] => none
  | c :: rest => if c = 59 then some rest else skipName rest

def skipBrackets : JStr → JStr
  | [] => []
  | c :: rest => if c = 91 then skipBrackets rest else c :: rest

/-- the `loop` of `MethodDescriptorSlice::get_arguments_size`; `size: u8`.  Every iteration consumes a character: fuel
= length. -/
def argsLoop : Nat → Nat → JStr → TM Nat
  | _, _, [] => fail
  | fuel, size, c :: rest =>
    if c = 41 then pure size
    else match fuel with
      | 0 => fail
      | fuel + 1 =>
        if c = 68 ∨ c = 74 then do
          guard (size + 2 ≤ 255)                       -- cf30e8c: `size.checked_add(2)` (former site 7)
          argsLoop fuel (size + 2) rest
        else
          match skipBrackets (c :: rest) with
          | [] => fail
          | x :: r =>
            if x = 76 then
              match skipName r with
              | none => fail
              | some r' => do
                guard (size + 1 ≤ 255)                 -- `size.checked_add(1)` (former site 8)
                argsLoop fuel (size + 1) r'
            else do
              guard (size + 1 ≤ 255)
              argsLoop fuel (size + 1) r

/-- `get_arguments_size` -/
def argsSize (s : JStr) : TM Nat :=
  match s with
  | c :: rest => if c = 40 then argsLoop rest.length 1 rest else fail
  | [] => fail

/-- the `argsize` op: read the wrapper (any string is a `MethodDescriptor`), write it: the writer calls
`get_arguments_size` for the `invokeinterface` -/
def argSizeOp (s : JStr) : TM Unit := do
  let _ ← argsSize s
  pure ()

end Total.Text
