import FeatherModel.Base.Sexp

/-!
# Model of `dukebox/src/merge.rs` (client/server jar merge)

Mirrors the code as it is (after the commits "merge_preserve_order advances the server cursor and tests membership
in the client list" and "jar merge reports classes that cannot be merged as an error instead of panicking"):

* `mergePreserveOrder` — the three nested `while`s of `merge_preserve_order`, literally: an outer loop (fuel
  `|a|+|b|+1`, never exhausted: `Thm.C13.mpo_fuel`) whose body runs the three inner loops to completion one after the
  other, the `no_change` break and the stall tail `a_rest ++ b_rest.filter (∉ a)`;
* `mergeSlice` — keyed member merge (`IndexMap`s built by `collect`: duplicate keys, last one wins);
* `mergeClass` — `class_merger_merge` on the modelled part of a class (version, access, name, super, interfaces, fields,
  methods, deprecated/synthetic, InnerClasses, one client-side payload standing for "everything taken from the client",
  visible / invisible annotations). `merge_eq`, `merge_from_client` and the InnerClasses closure `bail!` (outcome `err`);
  the only panic site left is the `unreachable!()` arm of `merge_slice` (outcome `Outcome.panic`, never taken:
  `Thm.C13.merge_class_no_panic`, `Thm.C13.merge_jar_no_panic`);
* `mergeJar` — the entry table `Client | Server | Both` × manifest / signature files / bundled server libraries /
  class equal-bytes passthrough vs merged / other / dir / type mismatch, in `IndexMap` insertion order.

Not modelled: `permitted_subclasses`, `record_components` (dropped by the code), type annotations, module data, unknown
attributes (all taken from the client — represented by `payload`), zip I/O, file attributes beyond one number.
Equality of written class bytes is modelled as equality of the class descriptions (the class writer is assumed
deterministic and injective on the modelled part; exercised by the correspondence through the real writer).
-/

namespace MergeJar

/-! ## Outcome: ok / clean error / panic -/

inductive Outcome (α : Type) where
  | ok (a : α)
  | err
  | panic (site : String)
  deriving Repr

namespace Outcome
def bind {α β : Type} : Outcome α → (α → Outcome β) → Outcome β
  | ok a, f => f a
  | err, _ => err
  | panic s, _ => panic s

instance : Monad Outcome where
  pure := Outcome.ok
  bind := Outcome.bind

/-- `iter.map(f).collect::<Result<Vec<_>>>()`: left to right, stops at the first failure -/
def mapM' {α β : Type} (f : α → Outcome β) : List α → Outcome (List β)
  | [] => ok []
  | x :: xs =>
    match f x with
    | ok y =>
      match mapM' f xs with
      | ok ys => ok (y :: ys)
      | err => err
      | panic s => panic s
    | err => err
    | panic s => panic s
end Outcome

open Outcome

/-! ## merge_preserve_order -/

section MPO
variable {α : Type} [BEq α]

/-- first inner loop: while both cursors show equal elements take the client's and advance both.
Result: (pushed, rest of a, rest of b) -/
def loop1 : List α → List α → List α × List α × List α
  | x :: ra, y :: rb =>
    if y == x then
      let r := loop1 ra rb
      (x :: r.1, r.2.1, r.2.2)
    else ([], x :: ra, y :: rb)
  | ra, rb => ([], ra, rb)

/-- what is appended after the outer loop: `r.extend(ai); r.extend(bi.filter(|x| !a.contains(x)))` -/
def mpoTail (a ra rb : List α) : List α := ra ++ rb.filter (fun y => !a.contains y)

/-- outer `while`; `a b` are the complete slices (used by `contains`), `ra rb` the two cursors -/
def mpoLoop (a b : List α) : Nat → List α → List α → List α
  | 0, ra, rb => mpoTail a ra rb
  | fuel + 1, ra, rb =>
    if ra.isEmpty && rb.isEmpty then mpoTail a ra rb else
    let r1 := loop1 ra rb
    -- second inner loop: client elements the server does not have at all
    let p2 := r1.2.1.takeWhile (fun x => !b.contains x)
    let ra2 := r1.2.1.dropWhile (fun x => !b.contains x)
    -- third inner loop: server elements the client does not have at all
    let p3 := r1.2.2.takeWhile (fun y => !a.contains y)
    let rb3 := r1.2.2.dropWhile (fun y => !a.contains y)
    if r1.1.isEmpty && p2.isEmpty && p3.isEmpty then mpoTail a ra2 rb3   -- `no_change`: break
    else r1.1 ++ (p2 ++ (p3 ++ mpoLoop a b fuel ra2 rb3))

def mergePreserveOrder (a b : List α) : List α := mpoLoop a b (a.length + b.length + 1) a b

/-- the common elements appear in the same relative order in both lists -/
def compatibleB (a b : List α) : Bool := a.filter (fun x => b.contains x) == b.filter (fun y => a.contains y)

def nodupB : List α → Bool
  | [] => true
  | x :: xs => !xs.contains x && nodupB xs

end MPO

/-! ## class descriptions -/

inductive Side where
  | client | server
  deriving DecidableEq, Repr

inductive Ann where
  /-- `@Environment(EnvType.X)` exactly as `sided_annotation` builds it -/
  | env (s : Side)
  /-- `@EnvironmentInterfaces({@EnvironmentInterface(value = X, itf = I.class), …})` -/
  | envItfs (marks : List (Side × JStr))
  /-- any other annotation (identified by a number) -/
  | other (n : Nat)
  deriving DecidableEq, Repr

/-- a field or a method: key = (name, desc); `anns` = runtime invisible annotations; `payload` = everything else -/
structure Member where
  name : JStr
  desc : JStr
  access : Nat
  deprecated : Bool
  synthetic : Bool
  payload : Nat
  anns : List Ann
  deriving DecidableEq, Repr

structure Inner where
  name : JStr
  flags : Nat
  deriving DecidableEq, Repr

structure Class where
  version : Nat
  access : Nat
  name : JStr
  super : Option JStr
  interfaces : List JStr
  fields : List Member
  methods : List Member
  deprecated : Bool
  synthetic : Bool
  /-- `inner_classes`: `None` ≙ `[]` -/
  inners : List Inner
  /-- stands for all parts the merge copies from the client (source file, signature, …) -/
  payload : Nat
  visAnns : List Ann
  invisAnns : List Ann
  deriving DecidableEq, Repr

/-! ## merge_slice -/

section Slice
variable {T K : Type} [BEq K]

/-- `IndexMap::insert`: replace in place or append -/
def upsert (k : K) (v : T) : List (K × T) → List (K × T)
  | [] => [(k, v)]
  | (k', v') :: rest => if k' == k then (k', v) :: rest else (k', v') :: upsert k v rest

/-- `iter.map(|i| (key(i), i)).collect::<IndexMap<_,_>>()` -/
def collect (key : T → K) (xs : List T) : List (K × T) := xs.foldl (fun m x => upsert (key x) x m) []

def get (k : K) : List (K × T) → Option T
  | [] => none
  | (k', v) :: rest => if k' == k then some v else get k rest

def mergeSlice [BEq T] (key : T → K) (side : T → Side → Outcome T) (inner : T → T → Outcome T)
    (client server : List T) : Outcome (List T) :=
  let lc := client.map key
  let ls := server.map key
  let c := collect key client
  let s := collect key server
  Outcome.mapM' (fun i =>
    match get i c, get i s with
    | some ec, some es => if ec == es then ok ec else inner ec es
    | some ec, none => side ec Side.client
    | none, some es => side es Side.server
    | none, none => Outcome.panic "unreachable") (mergePreserveOrder lc ls)

end Slice

def mergeEq {α : Type} [BEq α] (c s : α) : Outcome α := if c != s then err else ok c
/-- since 9bfd462 the same as `merge_eq` (`bail!` instead of `assert_eq!`) -/
def mergeFromClient {α : Type} [BEq α] (c s : α) : Outcome α := if c != s then err else ok c

def memberKey (m : Member) : JStr × JStr := (m.name, m.desc)

def sideMember (m : Member) (s : Side) : Outcome Member := ok { m with anns := m.anns ++ [Ann.env s] }

/-- the `inner` closure for fields and methods: everything from the client; deprecated/synthetic must be equal (else `Err`) -/
def innerMember (c s : Member) : Outcome Member := do
  let name ← mergeEq c.name s.name
  let desc ← mergeEq c.desc s.desc
  let dep ← mergeFromClient c.deprecated s.deprecated
  let syn ← mergeFromClient c.synthetic s.synthetic
  pure { c with access := c.access, name := name, desc := desc, deprecated := dep, synthetic := syn }

def mergeMembers (c s : List Member) : Outcome (List Member) := mergeSlice memberKey sideMember innerMember c s

def mergeInners (c s : List Inner) : Outcome (List Inner) :=
  mergeSlice (fun i => i.name) (fun i _ => ok i) (fun _ _ => err) c s

/-- interfaces of the merged list that only the given side has -/
def onlyClient (c s : Class) (itfs : List JStr) : List JStr :=
  itfs.filter (fun i => c.interfaces.contains i && !s.interfaces.contains i)
def onlyServer (c s : Class) (itfs : List JStr) : List JStr :=
  itfs.filter (fun i => !c.interfaces.contains i && s.interfaces.contains i)

def itfMarks (c s : Class) (itfs : List JStr) : List (Side × JStr) :=
  (onlyClient c s itfs).map (fun i => (Side.client, i)) ++ (onlyServer c s itfs).map (fun i => (Side.server, i))

/-- `class_merger_merge`; field initialisers are evaluated in source order -/
def mergeClass (c s : Class) : Outcome Class := do
  let itfs := mergePreserveOrder c.interfaces s.interfaces
  let version ← mergeFromClient c.version s.version
  let access ← mergeFromClient c.access s.access
  let name ← mergeEq c.name s.name
  let super ← mergeEq c.super s.super
  let fields ← mergeMembers c.fields s.fields
  let methods ← mergeMembers c.methods s.methods
  let dep ← mergeFromClient c.deprecated s.deprecated
  let syn ← mergeFromClient c.synthetic s.synthetic
  let inners ← mergeInners c.inners s.inners
  let marks := itfMarks c s itfs
  pure {
    version := version, access := access, name := name, super := super, interfaces := itfs,
    fields := fields, methods := methods, deprecated := dep, synthetic := syn, inners := inners,
    payload := c.payload, visAnns := c.visAnns,
    invisAnns := if marks.isEmpty then c.invisAnns else c.invisAnns ++ [Ann.envItfs marks] }

/-- `visit_sided_annotation` -/
def sidedClass (c : Class) (s : Side) : Class := { c with visAnns := c.visAnns ++ [Ann.env s] }

/-! ## jars -/

inductive ClsRepr where
  | parsed | vec
  deriving DecidableEq, Repr

inductive Content where
  | dir
  | other (data : Bytes)
  | cls (repr : ClsRepr) (c : Class)
  deriving DecidableEq, Repr

structure Entry where
  attr : Nat
  content : Content
  deriving DecidableEq, Repr

/-- a jar: `IndexMap<String, ParsedJarEntry>`; names are duplicate-free (map invariant, enforced by `jarOfList`) -/
abbrev Jar := List (JStr × Entry)

def jarOfList (es : List (JStr × Entry)) : Jar := es.foldl (fun m e => upsert e.1 e.2 m) []

inductive Comb where
  | client (c : Entry)
  | server (s : Entry)
  | both (c s : Entry)
  deriving Repr

/-- the `keys` IndexMap: client names in order (Both when the server has the name too), then the server-only names.
(Closed form of the insertion loop; its `unreachable!()` arms are excluded by the uniqueness of names in a jar.) -/
def combine (client server : Jar) : List (JStr × Comb) :=
  client.map (fun e => (e.1, match get e.1 server with
    | some s => Comb.both e.2 s
    | none => Comb.client e.2))
  ++ (server.filter (fun e => (get e.1 client).isNone)).map (fun e => (e.1, Comb.server e.2))

def MANIFEST : JStr := jstr "META-INF/MANIFEST.MF"
def MANIFEST_BYTES : Bytes := jstr "Manifest-Version: 1.0\nMain-Class: net.minecraft.client.Main\n"
def SLASH : Nat := 47

/-- signature files, dropped from either side -/
def isSig (n : JStr) : Bool :=
  (jstr "META-INF/").isPrefixOf n &&
    ((jstr ".SF").isSuffixOf n || (jstr ".RSA").isSuffixOf n || (jstr ".DSA").isSuffixOf n || (jstr ".EC").isSuffixOf n)

/-- "the libraries the server bundles": decided on the entry name only -/
def isBundled (n : JStr) : Bool :=
  (jstr ".class").isSuffixOf n && !(jstr "net/minecraft/").isPrefixOf n && n.contains SLASH

def oneSided (e : Entry) (s : Side) : Entry :=
  { attr := e.attr,
    content := match e.content with
      | Content.dir => Content.dir
      | Content.cls _ c => Content.cls ClsRepr.parsed (sidedClass c s)
      | Content.other d => Content.other d }

/-- the `(Class(client), Class(server))` arm -/
def mergeClassEntry (rc : ClsRepr) (cc cs : Class) : Outcome Content :=
  if cc == cs then ok (Content.cls rc cc)
  else do
    let m ← mergeClass cc cs
    pure (Content.cls ClsRepr.parsed m)

/-- one iteration of the result loop; `none` = `continue` -/
def mergeEntry (n : JStr) (cmb : Comb) : Outcome (Option Entry) :=
  if n == MANIFEST then
    ok (some { attr := (match cmb with
                | Comb.client c => c.attr
                | Comb.server s => s.attr
                | Comb.both c _ => c.attr),
               content := Content.other MANIFEST_BYTES })
  else if isSig n then ok none
  else match cmb with
    | Comb.client c => ok (some (oneSided c Side.client))
    | Comb.server s => if isBundled n then ok none else ok (some (oneSided s Side.server))
    | Comb.both c s =>
      match c.content, s.content with
      | Content.dir, Content.dir => ok (some { attr := c.attr, content := Content.dir })
      | Content.cls rc cc, Content.cls _ cs => do
        let m ← mergeClassEntry rc cc cs
        pure (some { attr := c.attr, content := m })
      | Content.other dc, Content.other _ => ok (some { attr := c.attr, content := Content.other dc })
      | _, _ => err

def mergeEntries : List (JStr × Comb) → Outcome Jar
  | [] => ok []
  | (n, cmb) :: rest =>
    match mergeEntry n cmb with
    | ok none => mergeEntries rest
    | ok (some e) =>
      match mergeEntries rest with
      | ok r => ok ((n, e) :: r)
      | err => err
      | Outcome.panic s => Outcome.panic s
    | err => err
    | Outcome.panic s => Outcome.panic s

def mergeJar (client server : Jar) : Outcome Jar := mergeEntries (combine client server)

/-! ## decidable domains used by theorems and oracles -/

def keysNodup (ms : List Member) : Bool := nodupB (ms.map memberKey)

/-- no `@Environment` mark on any member yet -/
def noEnv (ms : List Member) : Bool := ms.all (fun m => m.anns.all (fun a => match a with | Ann.env _ => false | _ => true))

/-- shared members agree on the two asserted flags -/
def sharedFlagsOk (c s : List Member) : Bool :=
  c.all (fun mc => s.all (fun ms => memberKey mc != memberKey ms ||
    (mc.deprecated == ms.deprecated && mc.synthetic == ms.synthetic)))

def sharedInnersOk (c s : List Inner) : Bool :=
  c.all (fun ic => s.all (fun is' => ic.name != is'.name || ic == is'))

/-- the domain on which `class_merger_merge` returns `Ok` (`Thm.C13.merge_class_total`, `Thm.C13.merge_class_ok_iff`) -/
def mergeOk (c s : Class) : Bool :=
  c.version == s.version && c.access == s.access && c.name == s.name && c.super == s.super &&
  c.deprecated == s.deprecated && c.synthetic == s.synthetic &&
  keysNodup c.fields && keysNodup s.fields && keysNodup c.methods && keysNodup s.methods &&
  nodupB (c.inners.map (·.name)) && nodupB (s.inners.map (·.name)) &&
  sharedFlagsOk c.fields s.fields && sharedFlagsOk c.methods s.methods && sharedInnersOk c.inners s.inners

end MergeJar
