import FeatherModel.Base.Sexp
import FeatherModel.Base.AListOps
import FeatherModel.Model.Descriptor

/-!
# Model of `dukebox/src/remap.rs` (jar remapping) over the reference skeleton of duke's class tree

`ClassFile`, `Field`, `Method`, `Code`, … below are duke's tree structs reduced to their *reference skeleton*:
every position that carries a class name, a field / method name, a descriptor, a field / method reference, a handle,
a loadable constant, an annotation type or element value, a verification type, an inner-class / enclosing-method /
nest / permitted-subclass / record entry or a signature keeps its own field; everything else of the same struct
(flags, version, instruction operands and labels, constants, line numbers, type-annotation targets, …) is lumped into an
`Opaque` value (`shape`, `op`, …) which `remap` can only copy.

`remap` follows `remap.rs` impl by impl **as it is**, including what it leaves alone:

* `ClassSignature` / `FieldSignature` / `MethodSignature`: returned unchanged (`return Ok(self)` before the `todo!`);
* `InvokeDynamic` / `ConstantDynamic`: `name` copied (`// TODO: remap`); descriptor, handle and arguments remapped
  (the descriptor since the commit "jar remapping renames the classes in invokedynamic and dynamic-constant descriptors");
* `ElementValue::Enum`: the type descriptor is remapped; the constant is renamed through `map_field` on the class the
  descriptor names (`map_enum_const_name`; copied when the descriptor is not that of a class or the constant cannot be
  a field name) — since the commit "jar remapping renames the constant of an enum element value in annotations";
* `ElementValuePair.name` copied (it names a method of the annotation interface);
* `InnerClass.inner_name`: when it is the simple name the class name spells out (`simple_name`: after the last `$` of
  the last `/`-separated part, leading digits skipped) it becomes the simple name the remapped class name spells out, if
  that has a `$`; copied otherwise — since the commit "jar remapping renames the inner name of an inner class along
  with the class";
* `Lv.name`, `MethodParameter` copied;
* `RecordComponent`: name and descriptor through `map_field` on the class being remapped (descriptor alone when the name
  cannot be a field name), annotations remapped, signature through the identity impl, attributes copied;
* `Module`: `uses`, `provides` (service and implementations) through `map_class_any`, everything else copied;
  `module_packages` copied, `module_main_class` through `map_class_any`;
* `attributes` (unknown attributes) copied on class, field, method, code and record component.

The remapper is abstract (`Remapper`): the four primitive answers every `BRemapper` gives — `map_class`,
`map_desc` (one function behind `map_field_desc`, `map_method_desc`, `map_return_desc` and array class names),
`map_field`, `map_method` — each possibly failing (`Result`). The derived operations `map_class_any`, `map_field_ref`,
`map_method_ref` are the provided trait methods of `quill::remapper::{ARemapper, BRemapper}` and are modelled here.
All errors are one class (`none`).
-/

namespace RemapTree

abbrev Opaque := Sexp

/-- `Result<Vec<_>>` collection: left to right, fails when one element fails -/
def omapM {α β : Type} (f : α → Option β) : List α → Option (List β)
  | [] => some []
  | x :: xs =>
    match f x with
    | none => none
    | some y =>
      match omapM f xs with
      | none => none
      | some ys => some (y :: ys)

/-- `Option<T>.remap`: `self.map(|x| x.remap(remapper)).transpose()` -/
def ooptM {α β : Type} (f : α → Option β) : Option α → Option (Option β)
  | none => some none
  | some x =>
    match f x with
    | none => none
    | some y => some (some y)

/-! ## The remapper -/

structure Remapper where
  /-- `ARemapper::map_class` on an object class name (falls back to the name itself when unmapped) -/
  mapClass : JStr → Option JStr
  /-- `map_desc` as used by `map_field_desc` / `map_method_desc` / `map_return_desc` / array class names -/
  mapDesc : JStr → Option JStr
  /-- `BRemapper::map_field owner name desc` -/
  mapField : JStr → JStr → JStr → Option (JStr × JStr)
  /-- `BRemapper::map_method owner name desc` -/
  mapMethod : JStr → JStr → JStr → Option (JStr × JStr)

def LBRACK : Nat := 91

/-- `ClassNameSlice::is_array` -/
def isArray (n : JStr) : Bool := n.head? == some LBRACK

/-- `ARemapper::map_class_any` -/
def mapClassAny (r : Remapper) (n : JStr) : Option JStr :=
  if isArray n then r.mapDesc n else r.mapClass n

structure MemberRef where
  cls : JStr
  name : JStr
  desc : JStr
  deriving DecidableEq, Repr

/-- `BRemapper::map_field_ref` (the owner is an object class name) -/
def mapFieldRef (r : Remapper) (f : MemberRef) : Option MemberRef :=
  match r.mapField f.cls f.name f.desc with
  | none => none
  | some (n, d) =>
    match r.mapClass f.cls with
    | none => none
    | some c => some ⟨c, n, d⟩

/-- `BRemapper::map_method_ref`: name and descriptor are left alone when the owner is an array class -/
def mapMethodRef (r : Remapper) (m : MemberRef) : Option MemberRef :=
  match (if isArray m.cls then some (m.name, m.desc) else r.mapMethod m.cls m.name m.desc) with
  | none => none
  | some (n, d) =>
    match mapClassAny r m.cls with
    | none => none
    | some c => some ⟨c, n, d⟩

/-- `FieldName::check_valid` = `is_valid_unqualified_name` (model: `Descriptor.validUnqualified`, C18) -/
def validFieldName (n : JStr) : Bool := Descriptor.validUnqualified n

/-- `let Ok(ParsedFieldDescriptor(Type::Object(enum_class))) = type_name.parse()`: the class a field descriptor names
(model of `FieldDescriptorSlice::parse`: `Descriptor.parseField`, C18) -/
def objectClassOf (t : JStr) : Option JStr :=
  match Descriptor.parseField t with
  | some (.obj k) => some k
  | _ => none

/-- `map_enum_const_name` (nested fn of `impl Mappable for ElementValue`) -/
def mapEnumConstName (r : Remapper) (t c : JStr) : Option JStr :=
  match objectClassOf t with
  | none => some c
  | some k =>
    if validFieldName c then
      match r.mapField k c t with
      | none => none
      | some (n, _) => some n
    else some c

/-! ## The class tree, reduced -/

mutual
  /-- `Annotation { annotation_type: FieldDescriptor, element_value_pairs }` -/
  inductive Annotation where
    | mk (type : JStr) (pairs : List Pair)
  /-- `ElementValuePair { name, value }` -/
  inductive Pair where
    | mk (name : JStr) (value : ElementValue)
  inductive ElementValue where
    | object (o : Opaque)
    | enum (typeName : JStr) (constName : JStr)
    | cls (retDesc : JStr)
    | ann (a : Annotation)
    | array (vs : List ElementValue)
end

/-- `TypeAnnotation<T> { type_reference, type_path, annotation }` -/
structure TypeAnnotation where
  target : Opaque
  annotation : Annotation

/-- `Handle`: the nine variants are four on a `FieldRef` and five on a `MethodRef` (two with an `is_interface` flag);
`kind` is the variant (and the flag) -/
inductive Handle where
  | field (kind : Opaque) (ref : MemberRef)
  | method (kind : Opaque) (ref : MemberRef)

mutual
  inductive Loadable where
    /-- `Integer | Float | Long | Double | String` -/
    | const (o : Opaque)
    | cls (name : JStr)
    | handle (h : Handle)
    | methodType (desc : JStr)
    | dynamic (c : ConstDyn)
  /-- `ConstantDynamic { name, descriptor, handle, arguments }` -/
  inductive ConstDyn where
    | mk (name : JStr) (desc : JStr) (handle : Handle) (args : List Loadable)
end

inductive VType where
  /-- `Top | Integer | Float | Long | Double | Null | UninitializedThis | Uninitialized(label)` -/
  | plain (o : Opaque)
  | object (name : JStr)

inductive Frame where
  /-- `Same | Chop { k }` -/
  | plain (o : Opaque)
  | same1 (stack : VType)
  | append (locals : List VType)
  | full (locals : List VType) (stack : List VType)

inductive Insn where
  /-- every instruction without a reference: opcode, operands, labels -/
  | plain (o : Opaque)
  | ldc (l : Loadable)
  /-- `GetStatic | PutStatic | GetField | PutField` -/
  | field (op : Opaque) (ref : MemberRef)
  /-- `InvokeVirtual | InvokeSpecial(_, itf) | InvokeStatic(_, itf) | InvokeInterface` -/
  | method (op : Opaque) (ref : MemberRef)
  /-- `InvokeDynamic { name, descriptor, handle, arguments }` -/
  | indy (name : JStr) (desc : JStr) (handle : Handle) (args : List Loadable)
  /-- `New | ANewArray | CheckCast | InstanceOf | MultiANewArray(_, dims)` -/
  | cls (op : Opaque) (name : JStr)

/-- `InstructionListEntry { label, frame, instruction }` -/
structure InsnEntry where
  label : Opaque
  frame : Option Frame
  insn : Insn

/-- `Exception { start, end, handler, catch }` -/
structure ExcEntry where
  shape : Opaque
  catchType : Option JStr

/-- `Lv { range, name, descriptor, signature, index }` -/
structure Lv where
  shape : Opaque
  name : JStr
  desc : Option JStr
  signature : Option JStr

structure Code where
  /-- `max_stack, max_locals, last_label, line_numbers` -/
  shape : Opaque
  insns : List InsnEntry
  exceptions : List ExcEntry
  lvs : Option (List Lv)
  rvta : List TypeAnnotation
  rita : List TypeAnnotation
  attributes : List Opaque

structure Field where
  /-- `access, has_deprecated_attribute, has_synthetic_attribute, constant_value` -/
  shape : Opaque
  name : JStr
  desc : JStr
  signature : Option JStr
  rva : List Annotation
  ria : List Annotation
  rvta : List TypeAnnotation
  rita : List TypeAnnotation
  attributes : List Opaque

structure Method where
  /-- `access, has_deprecated_attribute, has_synthetic_attribute` -/
  shape : Opaque
  name : JStr
  desc : JStr
  code : Option Code
  exceptions : Option (List JStr)
  signature : Option JStr
  rva : List Annotation
  ria : List Annotation
  rvta : List TypeAnnotation
  rita : List TypeAnnotation
  annotationDefault : Option ElementValue
  /-- `Option<Vec<MethodParameter>>`: copied as a whole -/
  parameters : Opaque
  attributes : List Opaque

structure InnerClass where
  inner : JStr
  outer : Option JStr
  innerName : Option JStr
  flags : Opaque

/-- `EnclosingMethod { class, method: Option<MethodNameAndDesc> }` -/
structure Enclosing where
  cls : JStr
  method : Option (JStr × JStr)

/-- `RecordComponent { name, descriptor, signature, annotations ×2, type annotations ×2, attributes }` -/
structure RecordComponent where
  name : JStr
  desc : JStr
  signature : Option JStr
  rva : List Annotation
  ria : List Annotation
  rvta : List TypeAnnotation
  rita : List TypeAnnotation
  attributes : List Opaque

/-- `ModuleProvides { name, provides_with }` -/
structure ModuleProvides where
  name : JStr
  providesWith : List JStr

/-- `Module { name, flags, version, requires, exports, opens, uses, provides }` -/
structure Module where
  /-- `name, flags, version, requires, exports, opens`: module and package names, flags, versions -/
  shape : Opaque
  uses : List JStr
  provides : List ModuleProvides

structure ClassFile where
  /-- `version, access, has_deprecated_attribute, has_synthetic_attribute, source_file, source_debug_extension` -/
  shape : Opaque
  name : JStr
  superClass : Option JStr
  interfaces : List JStr
  fields : List Field
  methods : List Method
  innerClasses : Option (List InnerClass)
  enclosingMethod : Option Enclosing
  signature : Option JStr
  rva : List Annotation
  ria : List Annotation
  rvta : List TypeAnnotation
  rita : List TypeAnnotation
  module : Option Module
  modulePackages : Option (List JStr)
  moduleMainClass : Option JStr
  nestHost : Option JStr
  nestMembers : Option (List JStr)
  permittedSubclasses : Option (List JStr)
  recordComponents : List RecordComponent
  attributes : List Opaque

/-! ## `remap`, impl by impl -/

mutual
  /-- `impl Mappable for Annotation` -/
  def remapAnnotation (r : Remapper) : Annotation → Option Annotation
    | .mk t ps =>
      match r.mapDesc t with
      | none => none
      | some t' =>
        match remapPairs r ps with
        | none => none
        | some ps' => some (.mk t' ps')
  def remapPairs (r : Remapper) : List Pair → Option (List Pair)
    | [] => some []
    | p :: ps =>
      match remapPair r p with
      | none => none
      | some p' =>
        match remapPairs r ps with
        | none => none
        | some ps' => some (p' :: ps')
  /-- `impl Mappable for ElementValuePair`: `name: self.name` -/
  def remapPair (r : Remapper) : Pair → Option Pair
    | .mk n v =>
      match remapElementValue r v with
      | none => none
      | some v' => some (.mk n v')
  /-- `impl Mappable for ElementValue` -/
  def remapElementValue (r : Remapper) : ElementValue → Option ElementValue
    | .object o => some (.object o)
    | .enum t c =>
      match mapEnumConstName r t c with
      | none => none
      | some c' =>
        match r.mapDesc t with
        | none => none
        | some t' => some (.enum t' c')
    | .cls d =>
      match r.mapDesc d with
      | none => none
      | some d' => some (.cls d')
    | .ann a =>
      match remapAnnotation r a with
      | none => none
      | some a' => some (.ann a')
    | .array vs =>
      match remapElementValues r vs with
      | none => none
      | some vs' => some (.array vs')
  def remapElementValues (r : Remapper) : List ElementValue → Option (List ElementValue)
    | [] => some []
    | v :: vs =>
      match remapElementValue r v with
      | none => none
      | some v' =>
        match remapElementValues r vs with
        | none => none
        | some vs' => some (v' :: vs')
end

/-- `impl<T> Mappable for TypeAnnotation<T>` -/
def remapTypeAnnotation (r : Remapper) (t : TypeAnnotation) : Option TypeAnnotation :=
  match remapAnnotation r t.annotation with
  | none => none
  | some a => some { t with annotation := a }

/-- `impl Mappable for Handle` -/
def remapHandle (r : Remapper) : Handle → Option Handle
  | .field k f => (mapFieldRef r f).map (.field k)
  | .method k m => (mapMethodRef r m).map (.method k)

mutual
  /-- `impl MappableWithClassName for Loadable` (the class name is passed along and never used) -/
  def remapLoadable (r : Remapper) : Loadable → Option Loadable
    | .const o => some (.const o)
    | .cls n => (mapClassAny r n).map .cls
    | .handle h => (remapHandle r h).map .handle
    | .methodType d => (r.mapDesc d).map .methodType
    | .dynamic c => (remapConstDyn r c).map .dynamic
  /-- `impl MappableWithClassName for ConstantDynamic`: `name` copied -/
  def remapConstDyn (r : Remapper) : ConstDyn → Option ConstDyn
    | .mk n d h args =>
      match r.mapDesc d with
      | none => none
      | some d' =>
        match remapHandle r h with
        | none => none
        | some h' =>
          match remapLoadables r args with
          | none => none
          | some args' => some (.mk n d' h' args')
  def remapLoadables (r : Remapper) : List Loadable → Option (List Loadable)
    | [] => some []
    | l :: ls =>
      match remapLoadable r l with
      | none => none
      | some l' =>
        match remapLoadables r ls with
        | none => none
        | some ls' => some (l' :: ls')
end

/-- `impl Mappable for VerificationTypeInfo` -/
def remapVType (r : Remapper) : VType → Option VType
  | .plain o => some (.plain o)
  | .object n => (mapClassAny r n).map .object

/-- `impl Mappable for StackMapData` -/
def remapFrame (r : Remapper) : Frame → Option Frame
  | .plain o => some (.plain o)
  | .same1 s => (remapVType r s).map .same1
  | .append ls => (omapM (remapVType r) ls).map .append
  | .full ls ss =>
    match omapM (remapVType r) ls with
    | none => none
    | some ls' =>
      match omapM (remapVType r) ss with
      | none => none
      | some ss' => some (.full ls' ss')

/-- `impl MappableWithClassName for Instruction` (with `InvokeDynamic` inlined: `name` copied) -/
def remapInsn (r : Remapper) : Insn → Option Insn
  | .plain o => some (.plain o)
  | .ldc l => (remapLoadable r l).map .ldc
  | .field op f => (mapFieldRef r f).map (.field op)
  | .method op m => (mapMethodRef r m).map (.method op)
  | .indy n d h args =>
    match r.mapDesc d with
    | none => none
    | some d' =>
      match remapHandle r h with
      | none => none
      | some h' =>
        match remapLoadables r args with
        | none => none
        | some args' => some (.indy n d' h' args')
  | .cls op n => (mapClassAny r n).map (.cls op)

/-- `impl MappableWithClassName for InstructionListEntry` -/
def remapInsnEntry (r : Remapper) (e : InsnEntry) : Option InsnEntry :=
  match ooptM (remapFrame r) e.frame with
  | none => none
  | some f =>
    match remapInsn r e.insn with
    | none => none
    | some i => some { e with frame := f, insn := i }

/-- `impl Mappable for Exception` -/
def remapExc (r : Remapper) (e : ExcEntry) : Option ExcEntry :=
  match ooptM (mapClassAny r) e.catchType with
  | none => none
  | some c => some { e with catchType := c }

/-- `impl Mappable for Lv`: `name` copied, the signature goes through the identity impl of `FieldSignature` -/
def remapLv (r : Remapper) (l : Lv) : Option Lv :=
  match ooptM r.mapDesc l.desc with
  | none => none
  | some d => some { l with desc := d }

/-- `impl MappableWithClassName for Code` -/
def remapCode (r : Remapper) (c : Code) : Option Code :=
  match omapM (remapInsnEntry r) c.insns with
  | none => none
  | some insns =>
    match omapM (remapExc r) c.exceptions with
    | none => none
    | some excs =>
      match ooptM (omapM (remapLv r)) c.lvs with
      | none => none
      | some lvs =>
        match omapM (remapTypeAnnotation r) c.rvta with
        | none => none
        | some rvta =>
          match omapM (remapTypeAnnotation r) c.rita with
          | none => none
          | some rita =>
            some { c with insns := insns, exceptions := excs, lvs := lvs, rvta := rvta, rita := rita }

/-- `impl MappableWithClassName for Field` -/
def remapField (r : Remapper) (thisClass : JStr) (f : Field) : Option Field :=
  match r.mapField thisClass f.name f.desc with
  | none => none
  | some (n, d) =>
    match omapM (remapAnnotation r) f.rva with
    | none => none
    | some rva =>
      match omapM (remapAnnotation r) f.ria with
      | none => none
      | some ria =>
        match omapM (remapTypeAnnotation r) f.rvta with
        | none => none
        | some rvta =>
          match omapM (remapTypeAnnotation r) f.rita with
          | none => none
          | some rita =>
            some { f with name := n, desc := d, rva := rva, ria := ria, rvta := rvta, rita := rita }

/-- `impl MappableWithClassName for Method` -/
def remapMethod (r : Remapper) (thisClass : JStr) (m : Method) : Option Method :=
  match r.mapMethod thisClass m.name m.desc with
  | none => none
  | some (n, d) =>
    match ooptM (remapCode r) m.code with
    | none => none
    | some code =>
      match ooptM (omapM (mapClassAny r)) m.exceptions with
      | none => none
      | some excs =>
        match omapM (remapAnnotation r) m.rva with
        | none => none
        | some rva =>
          match omapM (remapAnnotation r) m.ria with
          | none => none
          | some ria =>
            match omapM (remapTypeAnnotation r) m.rvta with
            | none => none
            | some rvta =>
              match omapM (remapTypeAnnotation r) m.rita with
              | none => none
              | some rita =>
                match ooptM (remapElementValue r) m.annotationDefault with
                | none => none
                | some ad =>
                  some { m with name := n, desc := d, code := code, exceptions := excs, rva := rva, ria := ria,
                                rvta := rvta, rita := rita, annotationDefault := ad }

/-- the `let (name, descriptor) = match FieldName::try_from(self.name.as_inner()) { … }` of the impl below -/
def mapRecordDecl (r : Remapper) (thisClass n d : JStr) : Option (JStr × JStr) :=
  if validFieldName n then r.mapField thisClass n d else (r.mapDesc d).map fun d' => (n, d')

/-- `impl MappableWithClassName for RecordComponent`: the component belongs to the field `this_class.name:descriptor`;
a name that cannot be a field name is kept and the descriptor alone is remapped (`RecordName::try_from` never fails:
`RecordName::check_valid` is `Ok(())`) -/
def remapRecordComponent (r : Remapper) (thisClass : JStr) (c : RecordComponent) : Option RecordComponent :=
  match mapRecordDecl r thisClass c.name c.desc with
  | none => none
  | some (n, d) =>
    match omapM (remapAnnotation r) c.rva with
    | none => none
    | some rva =>
      match omapM (remapAnnotation r) c.ria with
      | none => none
      | some ria =>
        match omapM (remapTypeAnnotation r) c.rvta with
        | none => none
        | some rvta =>
          match omapM (remapTypeAnnotation r) c.rita with
          | none => none
          | some rita =>
            some { c with name := n, desc := d, rva := rva, ria := ria, rvta := rvta, rita := rita }

/-- `impl Mappable for ModuleProvides` -/
def remapModuleProvides (r : Remapper) (p : ModuleProvides) : Option ModuleProvides :=
  match mapClassAny r p.name with
  | none => none
  | some n =>
    match omapM (mapClassAny r) p.providesWith with
    | none => none
    | some ws => some ⟨n, ws⟩

/-- `impl Mappable for Module`: only `uses` and `provides` name classes -/
def remapModule (r : Remapper) (m : Module) : Option Module :=
  match omapM (mapClassAny r) m.uses with
  | none => none
  | some uses =>
    match omapM (remapModuleProvides r) m.provides with
    | none => none
    | some provides => some { m with uses := uses, provides := provides }

def DOLLAR : Nat := 36
def SLASH : Nat := 47

/-- `JavaStr::rsplit_once(c)`, second component: what follows the last `c` -/
def afterLast (c : Nat) : JStr → Option JStr
  | [] => none
  | x :: xs =>
    match afterLast c xs with
    | some t => some t
    | none => if x = c then some xs else none

/-- `JavaCodePoint::is_ascii_digit` -/
def isAsciiDigit (c : Nat) : Bool := 48 ≤ c && c ≤ 57

/-- `simple_name` (nested fn of `impl Mappable for InnerClass`) -/
def simpleName (n : JStr) : Option JStr :=
  let lastPart := match afterLast SLASH n with | some p => p | none => n
  match afterLast DOLLAR lastPart with
  | none => none
  | some afterDollar => some (afterDollar.dropWhile isAsciiDigit)

/-- `map_inner_class_name` -/
def mapInnerClassName (name newName innerName : JStr) : JStr :=
  if simpleName name = some innerName then
    match simpleName newName with
    | some newInnerName => newInnerName
    | none => innerName
  else innerName

/-- `impl Mappable for InnerClass` -/
def remapInnerClass (r : Remapper) (i : InnerClass) : Option InnerClass :=
  match mapClassAny r i.inner with
  | none => none
  | some inner =>
    match ooptM (mapClassAny r) i.outer with
    | none => none
    | some outer =>
      some { i with inner := inner, outer := outer, innerName := i.innerName.map (mapInnerClassName i.inner inner) }

/-- `impl Mappable for EnclosingMethod` -/
def remapEnclosing (r : Remapper) (e : Enclosing) : Option Enclosing :=
  match e.method with
  | some (n, d) =>
    match mapMethodRef r ⟨e.cls, n, d⟩ with
    | none => none
    | some m => some ⟨m.cls, some (m.name, m.desc)⟩
  | none =>
    match mapClassAny r e.cls with
    | none => none
    | some c => some ⟨c, none⟩

/-- `impl Mappable for ClassFile` -/
def remapClass (r : Remapper) (c : ClassFile) : Option ClassFile :=
  match r.mapClass c.name with
  | none => none
  | some name =>
  match ooptM r.mapClass c.superClass with
  | none => none
  | some superClass =>
  match omapM r.mapClass c.interfaces with
  | none => none
  | some interfaces =>
  match omapM (remapField r c.name) c.fields with
  | none => none
  | some fields =>
  match omapM (remapMethod r c.name) c.methods with
  | none => none
  | some methods =>
  match ooptM (omapM (remapInnerClass r)) c.innerClasses with
  | none => none
  | some innerClasses =>
  match ooptM (remapEnclosing r) c.enclosingMethod with
  | none => none
  | some enclosingMethod =>
  match omapM (remapAnnotation r) c.rva with
  | none => none
  | some rva =>
  match omapM (remapAnnotation r) c.ria with
  | none => none
  | some ria =>
  match omapM (remapTypeAnnotation r) c.rvta with
  | none => none
  | some rvta =>
  match omapM (remapTypeAnnotation r) c.rita with
  | none => none
  | some rita =>
  match ooptM (remapModule r) c.module with
  | none => none
  | some module =>
  match ooptM (mapClassAny r) c.moduleMainClass with
  | none => none
  | some moduleMainClass =>
  match ooptM (mapClassAny r) c.nestHost with
  | none => none
  | some nestHost =>
  match ooptM (omapM (mapClassAny r)) c.nestMembers with
  | none => none
  | some nestMembers =>
  match ooptM (omapM (mapClassAny r)) c.permittedSubclasses with
  | none => none
  | some permittedSubclasses =>
  match omapM (remapRecordComponent r c.name) c.recordComponents with
  | none => none
  | some recordComponents =>
    some { c with
      name := name, superClass := superClass, interfaces := interfaces, fields := fields, methods := methods,
      innerClasses := innerClasses, enclosingMethod := enclosingMethod, rva := rva, ria := ria, rvta := rvta,
      rita := rita, module := module, moduleMainClass := moduleMainClass, nestHost := nestHost,
      nestMembers := nestMembers, permittedSubclasses := permittedSubclasses, recordComponents := recordComponents }

/-! ## Jar level: `remap`, `remap_jar_entry_name_java` -/

inductive Content where
  | dir
  | other (data : Opaque)
  | cls (c : ClassFile)

/-- `ParsedJarEntry { attr, content }` -/
structure Entry where
  attr : Opaque
  content : Content

abbrev Jar := AList JStr Entry

def dotClass : JStr := [46, 99, 108, 97, 115, 115]

/-- `JavaStr::strip_suffix(".class")` -/
def stripDotClass (name : JStr) : Option JStr :=
  if dotClass.isSuffixOf name then some (name.take (name.length - dotClass.length)) else none

/-- `remap_jar_entry_name_java`: decided by the entry *name* alone -/
def remapEntryName (r : Remapper) (name : JStr) : Option JStr :=
  match stripDotClass name with
  | some cn => (r.mapClass cn).map (· ++ dotClass)
  | none => some name

/-- `try_map_both(remap_class, remap_other)`: decided by the entry *content* alone -/
def remapContent (r : Remapper) : Content → Option Content
  | .dir => some .dir
  | .other d => some (.other d)
  | .cls c => (remapClass r c).map .cls

def remapEntry (r : Remapper) (ne : JStr × Entry) : Option (JStr × Entry) :=
  match remapEntryName r ne.1 with
  | none => none
  | some n =>
    match remapContent r ne.2.content with
    | none => none
    | some c => some (n, { ne.2 with content := c })

/-- the loop of `remap`: entries in order, `IndexMap::insert` into the result -/
def remapJarLoop (r : Remapper) : List (JStr × Entry) → Jar → Option Jar
  | [], acc => some acc
  | ne :: rest, acc =>
    match remapEntry r ne with
    | none => none
    | some (n, e) => remapJarLoop r rest (AList.insert n e acc)

def remapJar (r : Remapper) (j : Jar) : Option Jar := remapJarLoop r j []

end RemapTree
