import FeatherModel.Base.Sexp

/-!
# C20 — generic interpreter of the `notation!` layouts of `raw_class_file`

`raw_class_file/src/lib.rs` declares 23 structs/enums in a small declarative DSL; `raw_class_file/src/macros.rs`
expands each declaration into `_write`, `_read` and `_len`.  This file is the hand-written model of **macros.rs**:
an interpreter of layout *data*.  The data itself (`FeatherModel/Gen/RawLayouts.lean`) is regenerated from `lib.rs`
by `translate/notation_to_lean.py` on every check run.

What is mirrored (model = code, including quirks):
* `_write`: constants are written as `expr as ty` (truncating cast), evaluated on the value being written
  (`evalW`: fields by name, `.len()` of vec fields, `pool_slots(&field)`, `this._len()`); vectors with a `[count type]`
  write `len as ty` (truncating) followed by the elements, vectors with a `{len}` or `{len; slots}` write only the
  elements; `nowrite` fields write nothing; enum variants first write `tag_expr as tag_ty`.
* `_read`: constants are read and bound; they are *checked only when the source expression is a literal*; `{len}`
  and `nowrite = expr` are evaluated on the bindings read so far (`evalR`: tag variable, pattern binding, earlier
  constants and numeric fields); enum variants are tried in source order (pattern, then `pool_has_utf8` guard);
  after a field marked `; Some(&field)` the pool handed to everything read later is that field.  A vector
  `{len; slots}` is read item by item until the `.slots()` of the items read add up to `len`; an item that ends past
  `len` is an error (`readSlots`).
* slots (since the `fix:` commit for C20-long-double-pool): `CpInfo::slots` answers 2 for the variants listed in
  `Env.wide` (translated from the `match` of that function) and 1 for every other one; `pool_slots` is their sum;
  `pool_get(pool, index)` walks the entries, the first one at index 1, each one `.slots()` after the one before
  (`poolGet`): index 0, the second index of a two-slot entry and an index past the end name no entry.
* `_len`: widths only, no expression is evaluated; the result is a `u32` (`len32`).
* `readG false` (= `read`) is the Rust reader; `readG true` (= `readStrict`) is the same reader with the additional
  `ConstsAgree` check (see "strict mode"), used only to state the `write (read b) = b` theorem.
* Rust integer semantics with overflow checks on: `+ - *` are done in the operand type (`bits`), overflow and
  underflow panic (`none`); `as` truncates (`% 2^w`).
-/

namespace RawLayout

inductive Prim where
  | u8 | u16 | u32
  deriving DecidableEq, Repr, Inhabited

def Prim.bytes : Prim → Nat
  | .u8 => 1 | .u16 => 2 | .u32 => 4

def Prim.bound : Prim → Nat
  | .u8 => 256 | .u16 => 65536 | .u32 => 4294967296

def Prim.bits : Prim → Nat
  | .u8 => 8 | .u16 => 16 | .u32 => 32

/-- expressions of the DSL; `lenOf`/`thisLen` only make sense on the write side -/
inductive Expr where
  | lit (n : Nat)
  | var (x : Nat)
  | lenOf (x : Nat)
  /-- `pool_slots(&this.x)`: the sum of `.slots()` over the vec field `x`; `wide` = the variants answering 2 -/
  | slotsOf (x : Nat) (wide : List Nat)
  | thisLen
  | add (a b : Expr)
  | sub (a b : Expr)
  | mul (a b : Expr)
  deriving DecidableEq, Repr, Inhabited

/-- expression with the width of the Rust integer type its arithmetic is done in (8/16/32, 64 = usize) -/
structure TExpr where
  bits : Nat
  e : Expr
  deriving DecidableEq, Repr, Inhabited

inductive Ty where
  | prim (p : Prim)
  | vecCnt (cnt : Prim) (elem : Ty)
  | vecLen (len : TExpr) (elem : Ty)
  /-- `Vec<elem> {len; slots}`: items until their `.slots()` add up to `len`; `wide` = the variants answering 2 -/
  | vecSlots (len : TExpr) (wide : List Nat) (elem : Ty)
  | ref (id : Nat)
  deriving DecidableEq, Repr, Inhabited

/-- `const name: p = e` ; `lit = some n` iff the source expression is a literal token (then verified on read) -/
structure Const where
  name : Nat
  p : Prim
  e : TExpr
  lit : Option Nat
  deriving DecidableEq, Repr, Inhabited

inductive FieldKind where
  | field (ty : Ty) (setsPool : Bool)
  | nowrite (p : Prim) (e : TExpr)
  deriving DecidableEq, Repr, Inhabited

/-- `mut name: …` followed by the constants up to the next `mut` -/
structure Field where
  name : Nat
  kind : FieldKind
  post : List Const
  deriving DecidableEq, Repr, Inhabited

structure Body where
  pre : List Const
  fields : List Field
  deriving DecidableEq, Repr, Inhabited

inductive Pat where
  | lit (n : Nat)
  | range (lo hi : Nat)
  | any
  deriving DecidableEq, Repr, Inhabited

/-- `V { = tagWrite => [bind @] pat [if pool_has_utf8(pool, tag, guard)?], body }` -/
structure Variant where
  name : Nat
  tagWrite : TExpr
  pat : Pat
  bind : Option Nat
  guard : Option (List Nat)
  body : Body
  deriving DecidableEq, Repr, Inhabited

inductive Def where
  | struct (name : Nat) (body : Body)
  | enum (name : Nat) (tagName : Nat) (tagTy : Prim) (variants : List Variant) (fallback : Bool)
  deriving DecidableEq, Repr, Inhabited

/-- layout environment: the definitions, the index of the variant `Utf8` of the pool entry type and the indices of its
variants that take two constant-pool slots (`CpInfo::slots`) -/
structure Env where
  defs : List Def
  utf8 : Nat
  wide : List Nat
  deriving Repr, Inhabited

/-- generic values: numbers, vectors, struct (`k = 0`) / enum-variant (`k` = variant index) nodes with their `mut` fields -/
inductive Val where
  | num (n : Nat)
  | list (vs : List Val)
  | node (k : Nat) (fs : List Val)
  deriving Repr, Inhabited

mutual
def Val.beq : Val → Val → Bool
  | .num a, .num b => a == b
  | .list a, .list b => Val.beqList a b
  | .node k a, .node l b => k == l && Val.beqList a b
  | _, _ => false
def Val.beqList : List Val → List Val → Bool
  | [], [] => true
  | a :: as, b :: bs => Val.beq a b && Val.beqList as bs
  | _, _ => false
end

instance : BEq Val := ⟨Val.beq⟩

abbrev Pool := Option (List Val)
abbrev Binds := List (Nat × Nat)

def lookup {α : Type} (x : Nat) : List (Nat × α) → Option α
  | [] => none
  | (k, v) :: rest => if k = x then some v else lookup x rest

/-! ## slots -/

/-- `.slots()` answers 2 -/
def isWide (wide : List Nat) : Val → Bool
  | .node k _ => wide.contains k
  | _ => false

/-- `item.slots()` -/
def slotsV (wide : List Nat) (v : Val) : Nat := if isWide wide v then 2 else 1

/-- `pool_slots(items)` -/
def slotsAll (wide : List Nat) : List Val → Nat
  | [] => 0
  | v :: vs => slotsV wide v + slotsAll wide vs

/-! ## big-endian numbers -/

def be : Prim → Nat → Bytes
  | .u8, n => [n % 256]
  | .u16, n => [n / 256 % 256, n % 256]
  | .u32, n => [n / 16777216 % 256, n / 65536 % 256, n / 256 % 256, n % 256]

/-- `read_exact` of the width followed by `from_be_bytes`; `none` = unexpected end of input -/
def takeBE : Prim → Bytes → Option (Nat × Bytes)
  | .u8, a :: r => some (a, r)
  | .u16, a :: b :: r => some (a * 256 + b, r)
  | .u32, a :: b :: c :: d :: r => some (a * 16777216 + b * 65536 + c * 256 + d, r)
  | _, _ => none

/-! ## expressions -/

def checkedAdd (bits a b : Nat) : Option Nat := if a + b < 2 ^ bits then some (a + b) else none
def checkedSub (a b : Nat) : Option Nat := if b ≤ a then some (a - b) else none
def checkedMul (bits a b : Nat) : Option Nat := if a * b < 2 ^ bits then some (a * b) else none

/-- write side: evaluated on the value being written. `none` = the Rust expression panics (or is ill-typed). -/
def evalW (bits : Nat) (thisLen : Option Nat) (ctx : List (Nat × Val)) : Expr → Option Nat
  | .lit n => some n
  | .var x => match lookup x ctx with
    | some (.num n) => some n
    | _ => none
  | .lenOf x => match lookup x ctx with
    | some (.list vs) => some vs.length
    | _ => none
  | .slotsOf x wide => match lookup x ctx with
    | some (.list vs) => some (slotsAll wide vs)
    | _ => none
  | .thisLen => thisLen
  | .add a b => match evalW bits thisLen ctx a, evalW bits thisLen ctx b with
    | some x, some y => checkedAdd bits x y
    | _, _ => none
  | .sub a b => match evalW bits thisLen ctx a, evalW bits thisLen ctx b with
    | some x, some y => checkedSub x y
    | _, _ => none
  | .mul a b => match evalW bits thisLen ctx a, evalW bits thisLen ctx b with
    | some x, some y => checkedMul bits x y
    | _, _ => none

/-- read side: evaluated on the bindings read so far -/
def evalR (bits : Nat) (binds : Binds) : Expr → Option Nat
  | .lit n => some n
  | .var x => lookup x binds
  | .lenOf _ => none
  | .slotsOf _ _ => none
  | .thisLen => none
  | .add a b => match evalR bits binds a, evalR bits binds b with
    | some x, some y => checkedAdd bits x y
    | _, _ => none
  | .sub a b => match evalR bits binds a, evalR bits binds b with
    | some x, some y => checkedSub x y
    | _, _ => none
  | .mul a b => match evalR bits binds a, evalR bits binds b with
    | some x, some y => checkedMul bits x y
    | _, _ => none

/-! ## `_len` -/

def constsLen : List Const → Nat
  | [] => 0
  | c :: cs => c.p.bytes + constsLen cs

mutual
/-- the mathematical value of `_len()`; ill-shaped values have length 0 -/
def lenV (env : Env) : Ty → Val → Nat
  | .prim p, .num _ => p.bytes
  | .vecCnt c el, .list vs => c.bytes + lenAll env el vs
  | .vecLen _ el, .list vs => lenAll env el vs
  | .vecSlots _ _ el, .list vs => lenAll env el vs
  | .ref id, .node k fs =>
    match env.defs[id]? with
    | some (.struct _ body) => constsLen body.pre + lenFields env body.fields fs
    | some (.enum _ _ tagTy variants _) =>
      match variants[k]? with
      | some v => tagTy.bytes + (constsLen v.body.pre + lenFields env v.body.fields fs)
      | none => 0
    | none => 0
  | _, _ => 0
def lenAll (env : Env) (el : Ty) : List Val → Nat
  | [] => 0
  | v :: vs => lenV env el v + lenAll env el vs
def lenFields (env : Env) : List Field → List Val → Nat
  | f :: fds, v :: vs =>
    (match f.kind with
      | .field ty _ => lenV env ty v
      | .nowrite _ _ => 0) + (constsLen f.post + lenFields env fds vs)
  | _, _ => 0
end

/-- `_len()` returns `u32`; the additions are checked, so a total of 4 GiB or more panics -/
def len32 (n : Nat) : Option Nat := if n < 4294967296 then some n else none

/-! ## `_write` -/

def mkCtx : List Field → List Val → List (Nat × Val)
  | f :: fds, v :: vs => (f.name, v) :: mkCtx fds vs
  | _, _ => []

def writeConsts (thisLen : Option Nat) (ctx : List (Nat × Val)) : List Const → Option Bytes
  | [] => some []
  | c :: cs =>
    match evalW c.e.bits thisLen ctx c.e.e, writeConsts thisLen ctx cs with
    | some n, some r => some (be c.p (n % c.p.bound) ++ r)
    | _, _ => none

mutual
/-- `none` = the Rust code panics (arithmetic overflow in an expression) or the value is not of the type -/
def writeV (env : Env) : Ty → Val → Option Bytes
  | .prim p, .num n => if n < p.bound then some (be p n) else none
  | .vecCnt c el, .list vs =>
    match writeAll env el vs with
    | some b => some (be c (vs.length % c.bound) ++ b)
    | none => none
  | .vecLen _ el, .list vs => writeAll env el vs
  | .vecSlots _ _ el, .list vs => writeAll env el vs
  | .ref id, .node k fs =>
    match env.defs[id]? with
    | some (.struct _ body) =>
      if k = 0 then
        match writeConsts (len32 (lenV env (.ref id) (.node k fs))) (mkCtx body.fields fs) body.pre,
              writeFields env (len32 (lenV env (.ref id) (.node k fs))) (mkCtx body.fields fs) body.fields fs with
        | some a, some b => some (a ++ b)
        | _, _ => none
      else none
    | some (.enum _ _ tagTy variants _) =>
      match variants[k]? with
      | some v =>
        match evalW v.tagWrite.bits (len32 (lenV env (.ref id) (.node k fs))) (mkCtx v.body.fields fs) v.tagWrite.e,
              writeConsts (len32 (lenV env (.ref id) (.node k fs))) (mkCtx v.body.fields fs) v.body.pre,
              writeFields env (len32 (lenV env (.ref id) (.node k fs))) (mkCtx v.body.fields fs) v.body.fields fs with
        | some t, some a, some b => some (be tagTy (t % tagTy.bound) ++ (a ++ b))
        | _, _, _ => none
      | none => none
    | none => none
  | _, _ => none
def writeAll (env : Env) (el : Ty) : List Val → Option Bytes
  | [] => some []
  | v :: vs =>
    match writeV env el v, writeAll env el vs with
    | some a, some b => some (a ++ b)
    | _, _ => none
def writeFields (env : Env) (thisLen : Option Nat) (ctx : List (Nat × Val)) : List Field → List Val → Option Bytes
  | [], [] => some []
  | f :: fds, v :: vs =>
    match (match f.kind with
            | .field ty _ => writeV env ty v
            | .nowrite _ _ => (match v with | .num _ => some [] | _ => none)),
          writeConsts thisLen ctx f.post, writeFields env thisLen ctx fds vs with
    | some a, some c, some r => some (a ++ (c ++ r))
    | _, _, _ => none
  | _, _ => none
end

/-! ## `_read` -/

inductive Res (α : Type) where
  | ok (a : α)
  | err
  | panic
  | fuel
  deriving Repr, Inhabited, DecidableEq

def Res.bind {α β : Type} : Res α → (α → Res β) → Res β
  | .ok a, f => f a
  | .err, _ => .err
  | .panic, _ => .panic
  | .fuel, _ => .fuel

/-- reader of a referenced definition: id, pool, input -/
abbrev Rec := Nat → Pool → Bytes → Res (Val × Bytes)

def readN (rd : Bytes → Res (Val × Bytes)) : Nat → Bytes → Res (List Val × Bytes)
  | 0, bs => .ok ([], bs)
  | n + 1, bs =>
    (rd bs).bind fun (v, bs1) =>
    (readN rd n bs1).bind fun (vs, r) => .ok (v :: vs, r)

/-- the loop of the `{len; slots}` read rule: `n` = slots still to fill.  An item is read first; a two-slot item with only
one slot left ends past `len`: error. -/
def readSlots (wide : List Nat) (rd : Bytes → Res (Val × Bytes)) : Nat → Bytes → Res (List Val × Bytes)
  | 0, bs => .ok ([], bs)
  | n + 1, bs =>
    (rd bs).bind fun (v, bs1) =>
      if isWide wide v then
        (match n with
         | 0 => .err
         | m + 1 => (readSlots wide rd m bs1).bind fun (vs, r) => .ok (v :: vs, r))
      else (readSlots wide rd n bs1).bind fun (vs, r) => .ok (v :: vs, r)

def readTy (rc : Rec) (pool : Pool) (binds : Binds) : Ty → Bytes → Res (Val × Bytes)
  | .prim p, bs =>
    match takeBE p bs with
    | some (n, r) => .ok (.num n, r)
    | none => .err
  | .vecCnt c el, bs =>
    match takeBE c bs with
    | some (n, r) => (readN (readTy rc pool binds el) n r).bind fun (vs, r') => .ok (.list vs, r')
    | none => .err
  | .vecLen e el, bs =>
    match evalR e.bits binds e.e with
    | some n => (readN (readTy rc pool binds el) n bs).bind fun (vs, r') => .ok (.list vs, r')
    | none => .panic
  | .vecSlots e wide el, bs =>
    match evalR e.bits binds e.e with
    | some n => (readSlots wide (readTy rc pool binds el) n bs).bind fun (vs, r') => .ok (.list vs, r')
    | none => .panic
  | .ref id, bs => rc id pool bs

/-- a constant read as `n` passes `notation!(check, …)`: compared only when the source expression is a literal -/
def constOk (c : Const) (n : Nat) : Bool :=
  match c.lit with
  | some l => n == l
  | none => true

/-- reads the constants; besides the bindings it returns the values read, in order (a ghost output: the Rust code
drops them; the strict mode of `readBody` compares them with the recomputed ones) -/
def readConsts (binds : Binds) : List Const → Bytes → Res (Binds × List Nat × Bytes)
  | [], bs => .ok (binds, [], bs)
  | c :: cs, bs =>
    match takeBE c.p bs with
    | none => .err
    | some (n, r) =>
      if constOk c n then
        (readConsts ((c.name, n) :: binds) cs r).bind fun (b, ns, r') => .ok (b, n :: ns, r')
      else .err

def poolAfter (setsPool : Bool) (v : Val) (pool : Pool) : Pool :=
  if setsPool then (match v with | .list vs => some vs | _ => pool) else pool

def bindVal (name : Nat) (v : Val) (binds : Binds) : Binds :=
  match v with
  | .num n => (name, n) :: binds
  | _ => binds

/-- fields of a body and the constants after each; also returns the values of those constants (ghost, see `readConsts`) -/
def readFields (rc : Rec) (pool : Pool) (binds : Binds) : List Field → Bytes → Res (List Val × List Nat × Bytes)
  | [], bs => .ok ([], [], bs)
  | f :: fds, bs =>
    match f.kind with
    | .field ty sp =>
      (readTy rc pool binds ty bs).bind fun (v, bs1) =>
      (readConsts (bindVal f.name v binds) f.post bs1).bind fun (binds2, t1, bs2) =>
      (readFields rc (poolAfter sp v pool) binds2 fds bs2).bind fun (vs, t2, r) => .ok (v :: vs, t1 ++ t2, r)
    | .nowrite _ e =>
      match evalR e.bits binds e.e with
      | none => .panic
      | some n =>
        (readConsts ((f.name, n) :: binds) f.post bs).bind fun (binds2, t1, bs2) =>
        (readFields rc pool binds2 fds bs2).bind fun (vs, t2, r) => .ok (.num n :: vs, t1 ++ t2, r)

def patMatch : Pat → Nat → Bool
  | .lit n, t => t == n
  | .range lo hi, t => lo ≤ t && t ≤ hi
  | .any, _ => true

def natsOf : List Val → Option (List Nat)
  | [] => some []
  | .num n :: r => (natsOf r).map (n :: ·)
  | _ :: _ => none

/-- `pool_get(pool, index)`; `at` = `entry_index`, the constant-pool index of the first entry of the list -/
def poolGet (wide : List Nat) : List Val → Nat → Nat → Option Val
  | [], _, _ => none
  | e :: es, at_, index => if at_ = index then some e else poolGet wide es (at_ + slotsV wide e) index

/-- `pool_has_utf8(pool, index, value)?` -/
def poolHasUtf8 (utf8 : Nat) (wide : List Nat) (pool : Pool) (index : Nat) (value : List Nat) : Res Bool :=
  match pool with
  | none => .err
  | some entries =>
    match poolGet wide entries 1 index with
    | none => .err
    | some (.node k [.list bs]) =>
      if k = utf8 then (match natsOf bs with | some ns => .ok (ns == value) | none => .err) else .err
    | some _ => .err

/-- the `match tag { … }` of an enum's `_read`: first variant (index from `i`) whose pattern and guard accept -/
def selectVariant (utf8 : Nat) (wide : List Nat) (pool : Pool) (tag : Nat) : List Variant → Nat → Res (Nat × Variant)
  | [], _ => .err
  | v :: vs, i =>
    if patMatch v.pat tag then
      match v.guard with
      | none => .ok (i, v)
      | some name =>
        match poolHasUtf8 utf8 wide pool tag name with
        | .ok true => .ok (i, v)
        | .ok false => selectVariant utf8 wide pool tag vs (i + 1)
        | .err => .err
        | .panic => .panic
        | .fuel => .fuel
    else selectVariant utf8 wide pool tag vs (i + 1)

def headBinds (v : Variant) (tagName tag : Nat) : Binds :=
  match v.bind with
  | some b => [(b, tag), (tagName, tag)]
  | none => [(tagName, tag)]

/-! ### strict mode (`ConstsAgree`)

The Rust reader verifies literal constants only; computed constants (`attribute_length = this._len() - 6`,
`constant_pool_count`, …) and computed tags are read and dropped.  `strict = false` is the model of the Rust code.
`strict = true` additionally compares, at the end of every struct / variant, the constants and the tag that were read
with the ones `_write` would produce for the value just read, and fails (`err`) when they differ.  The predicate
"the strict reader does not fail where the plain reader succeeds" is the `ConstsAgree` hypothesis of the
`write (read b) = b` theorem. -/

/-- values `_write` puts into the constants (after the `as` cast) -/
def constVals (thisLen : Option Nat) (ctx : List (Nat × Val)) : List Const → Option (List Nat)
  | [] => some []
  | c :: cs =>
    match evalW c.e.bits thisLen ctx c.e.e, constVals thisLen ctx cs with
    | some n, some r => some (n % c.p.bound :: r)
    | _, _ => none

def allPost : List Field → List Const
  | [] => []
  | f :: fds => f.post ++ allPost fds

/-- the constants (`trace`, in order) and the tag read for a node are the ones `_write` recomputes from its fields -/
def nodeAgrees (env : Env) (id k : Nat) (body : Body) (tag : Option (TExpr × Prim × Nat)) (vs : List Val)
    (trace : List Nat) : Bool :=
  (constVals (len32 (lenV env (.ref id) (.node k vs))) (mkCtx body.fields vs) (body.pre ++ allPost body.fields) == some trace) &&
  (match tag with
   | none => true
   | some (e, p, t) =>
     (match evalW e.bits (len32 (lenV env (.ref id) (.node k vs))) (mkCtx body.fields vs) e.e with
      | some n => n % p.bound == t
      | none => false))

def readBody (strict : Bool) (env : Env) (id : Nat) (tag : Option (TExpr × Prim × Nat)) (rc : Rec) (pool : Pool)
    (binds : Binds) (k : Nat) (body : Body) (bs : Bytes) : Res (Val × Bytes) :=
  (readConsts binds body.pre bs).bind fun (binds1, t1, bs1) =>
  (readFields rc pool binds1 body.fields bs1).bind fun (vs, t2, r) =>
  if strict && !nodeAgrees env id k body tag vs (t1 ++ t2) then .err else .ok (.node k vs, r)

def readDef (strict : Bool) (rc : Rec) (env : Env) (id : Nat) (pool : Pool) (bs : Bytes) : Res (Val × Bytes) :=
  match env.defs[id]? with
  | none => .err
  | some (.struct _ body) => readBody strict env id none rc pool [] 0 body bs
  | some (.enum _ tagName tagTy variants _) =>
    match takeBE tagTy bs with
    | none => .err
    | some (tag, bs1) =>
      (selectVariant env.utf8 env.wide pool tag variants 0).bind fun (i, v) =>
      readBody strict env id (some (v.tagWrite, tagTy, tag)) rc pool (headBinds v tagName tag) i v.body bs1

/-- `T::_read(reader, pool)` with `fuel` levels of nested definitions; `strict = false` is the Rust code -/
def readG (strict : Bool) (env : Env) : Nat → Rec
  | 0 => fun _ _ _ => .fuel
  | f + 1 => readDef strict (readG strict env f) env

/-- the model of `_read` -/
abbrev read (env : Env) : Nat → Rec := readG false env

/-- the checking reader defining `ConstsAgree` -/
abbrev readStrict (env : Env) : Nat → Rec := readG true env

/-- `ConstsAgree`: the checking reader accepts the input, i.e. every computed constant and computed tag in it is the
one `_write` would produce for the value read (decidable) -/
def constsAgree (env : Env) (fuel id : Nat) (pool : Pool) (b : Bytes) : Bool :=
  match readStrict env fuel id pool b with
  | .ok _ => true
  | _ => false

/-! ## `Fits`: the values the format can express (decidable; domain of the round-trip theorems and oracles) -/

/-- bindings the reader will have after the constants (values as written, i.e. after the cast) -/
def constsBinds (thisLen : Option Nat) (ctx : List (Nat × Val)) (binds : Binds) : List Const → Option Binds
  | [] => some binds
  | c :: cs =>
    match evalW c.e.bits thisLen ctx c.e.e with
    | none => none
    | some n =>
      if constOk c (n % c.p.bound) then constsBinds thisLen ctx ((c.name, n % c.p.bound) :: binds) cs else none

def selectIdx (utf8 : Nat) (wide : List Nat) (pool : Pool) (tag : Nat) (vs : List Variant) : Option Nat :=
  match selectVariant utf8 wide pool tag vs 0 with
  | .ok (i, _) => some i
  | _ => none

mutual
def fitsV (env : Env) (pool : Pool) (binds : Binds) : Ty → Val → Bool
  | .prim p, .num n => n < p.bound
  | .vecCnt c el, .list vs => vs.length < c.bound && fitsAll env pool binds el vs
  | .vecLen e el, .list vs => evalR e.bits binds e.e == some vs.length && fitsAll env pool binds el vs
  | .vecSlots e wide el, .list vs => evalR e.bits binds e.e == some (slotsAll wide vs) && fitsAll env pool binds el vs
  | .ref id, .node k fs =>
    match env.defs[id]? with
    | some (.struct _ body) =>
      k == 0 &&
      (match constsBinds (len32 (lenV env (.ref id) (.node k fs))) (mkCtx body.fields fs) [] body.pre with
       | some b1 => fitsFields env (len32 (lenV env (.ref id) (.node k fs))) (mkCtx body.fields fs) pool b1 body.fields fs
       | none => false)
    | some (.enum _ tagName tagTy variants _) =>
      match variants[k]? with
      | some v =>
        (match evalW v.tagWrite.bits (len32 (lenV env (.ref id) (.node k fs))) (mkCtx v.body.fields fs) v.tagWrite.e with
         | some t =>
           selectIdx env.utf8 env.wide pool (t % tagTy.bound) variants == some k &&
           (match constsBinds (len32 (lenV env (.ref id) (.node k fs))) (mkCtx v.body.fields fs)
                    (headBinds v tagName (t % tagTy.bound)) v.body.pre with
            | some b1 => fitsFields env (len32 (lenV env (.ref id) (.node k fs))) (mkCtx v.body.fields fs) pool b1 v.body.fields fs
            | none => false)
         | none => false)
      | none => false
    | none => false
  | _, _ => false
def fitsAll (env : Env) (pool : Pool) (binds : Binds) (el : Ty) : List Val → Bool
  | [] => true
  | v :: vs => fitsV env pool binds el v && fitsAll env pool binds el vs
def fitsFields (env : Env) (thisLen : Option Nat) (ctx : List (Nat × Val)) (pool : Pool) (binds : Binds) :
    List Field → List Val → Bool
  | [], [] => true
  | f :: fds, v :: vs =>
    (match f.kind with
     | .field ty sp =>
       fitsV env pool binds ty v &&
       (match constsBinds thisLen ctx (bindVal f.name v binds) f.post with
        | some b2 => fitsFields env thisLen ctx (poolAfter sp v pool) b2 fds vs
        | none => false)
     | .nowrite _ e =>
       (match v, evalR e.bits binds e.e with
        | .num n, some m =>
          n == m &&
          (match constsBinds thisLen ctx ((f.name, n) :: binds) f.post with
           | some b2 => fitsFields env thisLen ctx pool b2 fds vs
           | none => false)
        | _, _ => false))
  | _, _ => false
end

/-! ## static well-formedness of a layout environment (decidable; checked on the translated layouts by `decide`)

What the macro and rustc guarantee for a `notation!` block that compiles, as far as the interpreter relies on it:
references resolve, element types of vectors are single tokens, read-side expressions (`{len}`, `nowrite = …`) only
mention names bound earlier (tag variable, pattern binding, earlier constants and numeric fields), write-side
expressions only mention fields of the value (`x` numeric, `x.len()` vector) or `this._len()`, the widths are Rust
integer widths, the `lit` flag of a constant is set iff its expression is a literal that fits, names are distinct
within a body, patterns fit the tag type, the pool is handed on only after a vector of pool entries whose variant
`utf8` is `{ bytes: Vec<u8> }`; `{len; slots}` and `pool_slots` are only used on vectors of pool entries, with the slot
table of the environment (`Env.wide`, which names variants of the pool entry type).  Under `WF` the outcomes `none` / `panic` of the interpreter stand for arithmetic
overflow only, never for an unbound name. -/

def Expr.okR (bound : List Nat) : Expr → Bool
  | .lit _ => true
  | .var x => bound.contains x
  | .lenOf _ => false
  | .slotsOf _ _ => false
  | .thisLen => false
  | .add a b => a.okR bound && b.okR bound
  | .sub a b => a.okR bound && b.okR bound
  | .mul a b => a.okR bound && b.okR bound

/-- `pools` = the vec fields of pool entries, with the slot table of the environment -/
def Expr.okW (wide : List Nat) (nums vecs pools : List Nat) : Expr → Bool
  | .lit _ => true
  | .var x => nums.contains x
  | .lenOf x => vecs.contains x
  | .slotsOf x w => pools.contains x && w == wide
  | .thisLen => true
  | .add a b => a.okW wide nums vecs pools && b.okW wide nums vecs pools
  | .sub a b => a.okW wide nums vecs pools && b.okW wide nums vecs pools
  | .mul a b => a.okW wide nums vecs pools && b.okW wide nums vecs pools

def bitsOk (b : Nat) : Bool := b == 8 || b == 16 || b == 32 || b == 64

def elemOk (ndefs : Nat) : Ty → Bool
  | .prim _ => true
  | .ref id => id < ndefs
  | _ => false

/-- the definition `id` is an enum whose variant `utf8` is `{ bytes: Vec<u8> }` (what `pool_has_utf8` destructures) and
which has the variants the slot table names (what `CpInfo::slots` matches on) -/
def poolEntryOk (env : Env) : Ty → Bool
  | .ref id =>
    (match env.defs[id]? with
     | some (.enum _ _ _ variants _) =>
       env.wide.all (· < variants.length) &&
       (match variants[env.utf8]? with
        | some v =>
          (match v.body.pre, v.body.fields with
           | [], [f] =>
             (match f.kind, f.post with
              | .field (.vecCnt _ (.prim .u8)) _, [] => true
              | _, _ => false)
           | _, _ => false)
        | none => false)
     | _ => false)
  | _ => false

def tyOk (env : Env) (bound : List Nat) : Ty → Bool
  | .prim _ => true
  | .vecCnt _ el => elemOk env.defs.length el
  | .vecLen e el => bitsOk e.bits && e.e.okR bound && elemOk env.defs.length el
  | .vecSlots e w el => bitsOk e.bits && e.e.okR bound && poolEntryOk env el && w == env.wide
  | .ref id => id < env.defs.length

def Const.wf (wide : List Nat) (nums vecs pools : List Nat) (c : Const) : Bool :=
  bitsOk c.e.bits && c.e.e.okW wide nums vecs pools &&
  (match c.lit, c.e.e with
   | some n, .lit m => n == m && n < c.p.bound
   | none, .lit _ => false
   | some _, _ => false
   | none, _ => true)

def Field.isNum (f : Field) : Bool :=
  match f.kind with
  | .field (.prim _) _ => true
  | .nowrite _ _ => true
  | _ => false

def Field.isVec (f : Field) : Bool :=
  match f.kind with
  | .field (.vecCnt _ _) _ => true
  | .field (.vecLen _ _) _ => true
  | .field (.vecSlots _ _ _) _ => true
  | _ => false

/-- a vector of pool entries -/
def Field.isPool (env : Env) (f : Field) : Bool :=
  match f.kind with
  | .field (.vecCnt _ el) _ => poolEntryOk env el
  | .field (.vecLen _ el) _ => poolEntryOk env el
  | .field (.vecSlots _ _ el) _ => poolEntryOk env el
  | _ => false

def fieldsWf (env : Env) (nums vecs pools : List Nat) : List Nat → List Field → Bool
  | _, [] => true
  | bound, f :: fds =>
    (match f.kind with
     | .field ty sp => tyOk env bound ty && (!sp || f.isPool env)
     | .nowrite _ e => bitsOk e.bits && e.e.okR bound) &&
    f.post.all (Const.wf env.wide nums vecs pools) &&
    fieldsWf env nums vecs pools (f.post.reverse.map (·.name) ++ ((if f.isNum then [f.name] else []) ++ bound)) fds

def allNames (b : Body) : List Nat :=
  b.pre.map (·.name) ++ b.fields.flatMap fun f => f.name :: f.post.map (·.name)

def distinct : List Nat → Bool
  | [] => true
  | x :: xs => !xs.contains x && distinct xs

def Body.wf (env : Env) (head : List Nat) (b : Body) : Bool :=
  let nums := (b.fields.filter Field.isNum).map (·.name)
  let vecs := (b.fields.filter Field.isVec).map (·.name)
  let pools := (b.fields.filter (Field.isPool env)).map (·.name)
  b.pre.all (Const.wf env.wide nums vecs pools) &&
  fieldsWf env nums vecs pools (b.pre.reverse.map (·.name) ++ head) b.fields &&
  distinct (allNames b)

def Pat.wf (tagTy : Prim) : Pat → Bool
  | .lit n => n < tagTy.bound
  | .range lo hi => lo ≤ hi && hi < tagTy.bound
  | .any => true

def Variant.wf (env : Env) (tagName : Nat) (tagTy : Prim) (v : Variant) : Bool :=
  let nums := (v.body.fields.filter Field.isNum).map (·.name)
  let vecs := (v.body.fields.filter Field.isVec).map (·.name)
  let pools := (v.body.fields.filter (Field.isPool env)).map (·.name)
  v.pat.wf tagTy && bitsOk v.tagWrite.bits && v.tagWrite.e.okW env.wide nums vecs pools &&
  -- a binding is only possible on a range or catch-all pattern; a guard needs a pool index, i.e. no literal pattern
  (match v.pat with
   | .lit _ => v.bind.isNone && v.guard.isNone
   | _ => true) &&
  v.body.wf env (match v.bind with | some b => [b, tagName] | none => [tagName])

def Def.wf (env : Env) : Def → Bool
  | .struct _ body =>
    body.wf env [] && body.fields.all fun f => match f.kind with | .nowrite _ _ => false | _ => true
  | .enum _ tagName tagTy variants _ =>
    variants.all (Variant.wf env tagName tagTy) &&
    variants.all fun v => v.body.fields.all fun f => match f.kind with | .field _ true => false | _ => true

/-- well-formed layout environment -/
def WF (env : Env) : Bool := env.defs.all (Def.wf env)

/-! nesting depth of definitions in a value = fuel needed to read it back -/
mutual
def depthV : Val → Nat
  | .num _ => 0
  | .list vs => depthAll vs
  | .node _ fs => depthAll fs + 1
def depthAll : List Val → Nat
  | [] => 0
  | v :: vs => max (depthV v) (depthAll vs)
end

/-! ## shape: what a value of the Rust type looks like (the request decoder of the driver rejects anything else) -/

mutual
def typedV (env : Env) : Ty → Val → Bool
  | .prim p, .num n => n < p.bound
  | .vecCnt _ el, .list vs => typedAll env el vs
  | .vecLen _ el, .list vs => typedAll env el vs
  | .vecSlots _ _ el, .list vs => typedAll env el vs
  | .ref id, .node k fs =>
    match env.defs[id]? with
    | some (.struct _ body) => k == 0 && typedFields env body.fields fs
    | some (.enum _ _ _ variants _) =>
      (match variants[k]? with
       | some v => typedFields env v.body.fields fs
       | none => false)
    | none => false
  | _, _ => false
def typedAll (env : Env) (el : Ty) : List Val → Bool
  | [] => true
  | v :: vs => typedV env el v && typedAll env el vs
def typedFields (env : Env) : List Field → List Val → Bool
  | [], [] => true
  | f :: fds, v :: vs =>
    (match f.kind with
     | .field ty _ => typedV env ty v
     | .nowrite p _ => (match v with | .num n => n < p.bound | _ => false)) && typedFields env fds vs
  | _, _ => false
end

end RawLayout
