import FeatherModel.Model.Mappings
import FeatherModel.Model.MapDesc

/-!
# `Mappings::reorder` (C08) — `quill/src/action/reorder.rs`

Supporting code mirrored here:
* `Namespaces::get_namespace` (first match, unknown name = error) — `Mappings.getNamespace`;
* `Names::reorder`, `Namespaces::reorder` (`table.map(|ns| self[ns].clone())`, never fail);
* `Mappings::remapper_a(0, table[0])` (rows with both names present; `IndexMap::insert`: a later class with the same
  `from` name overwrites the earlier) and `ARemapper::map_class` (unmapped names are kept);
* `map_desc` through `MapDesc.mapDesc`;
* `map_with_key_from_result_iter` / `add_child`: keys are rebuilt from the *new* node info
  (`first_name()?`, remapped descriptor, parameter index), a key that already exists is an error.

Quirks mirrored as they are: the requested names need not be a permutation (a repeated name duplicates a column);
the remapper reads `names[0]` of the node info, not the map key; keys of the input maps are ignored altogether.
The request has the Rust type `[&str; N]`; the model rejects requests of any other length.
-/

namespace Reorder

/-- `Names::reorder` / `Index<Namespace>`: position `i` of the new row is position `table[i]` of the old one -/
def reorderNames (table : List Nat) (names : Names) : Names := table.map (fun i => names.getD i none)

/-- the `(from, to)` pairs `remapper_a(0, to)` inserts, in class order -/
def rows (m : Mappings) (to : Nat) : AList JStr JStr :=
  m.classes.filterMap fun e =>
    match e.2.names.getD 0 none, e.2.names.getD to none with
    | some a, some b => some (a, b)
    | _, _ => none

/-- `ARemapper::map_class` on the `IndexMap` built by successive `insert`s: the *last* pair with the name wins,
a name without a pair maps to itself -/
def mapClass (rows : AList JStr JStr) (name : JStr) : JStr :=
  match AList.lookup name rows.reverse with
  | some b => b
  | none => name

def mapOpt {α β : Type} (f : α → Option β) : List α → Option (List β)
  | [] => some []
  | a :: rest =>
    match f a with
    | none => none
    | some b =>
      match mapOpt f rest with
      | none => none
      | some bs => some (b :: bs)

/-- `map_with_key_from_result_iter`: nodes are produced one by one (`child?`), each is added under its own key
(`add_child`), an existing key is an error -/
def buildMap {K V W : Type} [BEq K] (mk : V → Option (K × W)) : List V → AList K W → Option (AList K W)
  | [], acc => some acc
  | v :: rest, acc =>
    match mk v with
    | none => none
    | some (k, w) =>
      match AList.insertNew k w acc with
      | none => none
      | some acc' => buildMap mk rest acc'

/-- `Names::first_name` -/
def firstName (names : Names) : Option JStr :=
  match names.head? with
  | some (some n) => some n
  | _ => none

def reorderParam (table : List Nat) (p : Param) : Option (Nat × Param) :=
  some (p.index, { p with names := reorderNames table p.names })

def reorderField (f : JStr → JStr) (table : List Nat) (fl : Field) : Option (MemberKey × Field) :=
  match MapDesc.mapDesc f fl.desc with
  | none => none
  | some d =>
    let names := reorderNames table fl.names
    match firstName names with
    | none => none
    | some n => some ((n, d), { desc := d, names := names, doc := fl.doc })

def reorderMethod (f : JStr → JStr) (table : List Nat) (mt : Method) : Option (MemberKey × Method) :=
  match MapDesc.mapDesc f mt.desc with
  | none => none
  | some d =>
    let names := reorderNames table mt.names
    match buildMap (reorderParam table) (AList.values mt.params) [] with
    | none => none
    | some ps =>
      match firstName names with
      | none => none
      | some n => some ((n, d), { desc := d, names := names, doc := mt.doc, params := ps })

def reorderClass (f : JStr → JStr) (table : List Nat) (c : Class) : Option (JStr × Class) :=
  let names := reorderNames table c.names
  match buildMap (reorderField f table) (AList.values c.fields) [] with
  | none => none
  | some fs =>
    match buildMap (reorderMethod f table) (AList.values c.methods) [] with
    | none => none
    | some ms =>
      match firstName names with
      | none => none
      | some n => some (n, { names := names, doc := c.doc, fields := fs, methods := ms })

/-- the lookup table: old index of the namespace requested at each position -/
def tableOf (m : Mappings) (req : List JStr) : Option (List Nat) := mapOpt m.getNamespace req

def reorder (m : Mappings) (req : List JStr) : Option Mappings :=
  if req.length ≠ m.ns.length then none else
  match tableOf m req with
  | none => none
  | some table =>
    match table with
    | [] => none                                   -- `Namespace::new(0)?` with `N = 0`
    | t0 :: _ =>
      let f := mapClass (rows m t0)
      match buildMap (reorderClass f table) (AList.values m.classes) [] with
      | none => none
      | some cs => some { ns := table.map (fun i => m.ns.getD i []), doc := m.doc, classes := cs }

/-! ## class names mentioned by a descriptor, and the decidable domains used by the theorems and the oracles -/

open MapDesc in
/-- the names handed to `map_class` by `map_desc`, in order (same state machine as `MapDesc.go`) -/
def classesGo : List Nat → Mode → List JStr
  | [], _ => []
  | c :: rest, .copy => if c = CH_L then classesGo rest .first else classesGo rest .copy
  | c :: rest, .first => if c = SEMI then [] else classesGo rest (.name [c])
  | c :: rest, .name acc => if c = SEMI then acc.reverse :: classesGo rest .copy else classesGo rest (.name (c :: acc))

def classesOf (desc : JStr) : List JStr := classesGo desc .copy

/-- all descriptors of a mapping set -/
def descsOf (m : Mappings) : List JStr :=
  m.classes.flatMap fun e => e.2.fields.map (fun x => x.2.desc) ++ e.2.methods.map (fun x => x.2.desc)

/-- `map_desc` accepts the descriptor (every `L` is followed by a non-empty name and a `;`) -/
def DescOk (d : JStr) : Prop := (MapDesc.mapDesc id d).isSome = true

instance (d : JStr) : Decidable (DescOk d) := by unfold DescOk; infer_instance

def ParamWF (n : Nat) (e : Nat × Param) : Prop := e.2.names.length = n ∧ e.1 = e.2.index

def FieldWF (n : Nat) (e : MemberKey × Field) : Prop :=
  e.2.names.length = n ∧ e.2.names.head? = some (some e.1.1) ∧ e.1.2 = e.2.desc

def MethodWF (n : Nat) (e : MemberKey × Method) : Prop :=
  e.2.names.length = n ∧ e.2.names.head? = some (some e.1.1) ∧ e.1.2 = e.2.desc ∧
  (AList.keys e.2.params).Nodup ∧ ∀ p ∈ e.2.params, ParamWF n p

def ClassWF (n : Nat) (e : JStr × Class) : Prop :=
  e.2.names.length = n ∧ e.2.names.head? = some (some e.1) ∧
  (AList.keys e.2.fields).Nodup ∧ (∀ x ∈ e.2.fields, FieldWF n x) ∧
  (AList.keys e.2.methods).Nodup ∧ (∀ x ∈ e.2.methods, MethodWF n x)

/-- the invariants every `Mappings<N>` built through quill's API has: name rows of length `N`, every entry stored
under the key derived from its info (`ToKey`), unique keys; plus: namespace names pairwise different -/
def WF (m : Mappings) : Prop :=
  m.ns.Nodup ∧ (AList.keys m.classes).Nodup ∧ ∀ e ∈ m.classes, ClassWF m.ns.length e

instance (n : Nat) (e : Nat × Param) : Decidable (ParamWF n e) := by unfold ParamWF; infer_instance
instance (n : Nat) (e : MemberKey × Field) : Decidable (FieldWF n e) := by unfold FieldWF; infer_instance
instance (n : Nat) (e : MemberKey × Method) : Decidable (MethodWF n e) := by unfold MethodWF; infer_instance
instance (n : Nat) (e : JStr × Class) : Decidable (ClassWF n e) := by unfold ClassWF; infer_instance
instance (m : Mappings) : Decidable (WF m) := by unfold WF; infer_instance

/-- every descriptor is accepted by `map_desc` -/
def DescsOk (m : Mappings) : Prop := ∀ d ∈ descsOf m, DescOk d
instance (m : Mappings) : Decidable (DescsOk m) := by unfold DescsOk; infer_instance

/-- names of the classes in namespace `t` -/
def targets (m : Mappings) (t : Nat) : List JStr :=
  m.classes.filterMap fun e => e.2.names.getD t none

/-- the class-name map `0 → t` is injective on the classes a descriptor mentions: a mentioned class that is not a class
of the set (hence mapped to itself) is not the namespace-`t` name of a class of the set; and the namespace-`t` names
can be written into a descriptor (non-empty, no `;`). Injectivity *among* the classes of the set is implied by the
success of `reorder` (the new keys are unique). -/
def DescInjective (m : Mappings) (t : Nat) : Prop :=
  (∀ d ∈ descsOf m, ∀ x ∈ classesOf d, x ∈ AList.keys m.classes ∨ x ∉ targets m t) ∧
  (∀ y ∈ targets m t, y ≠ [] ∧ MapDesc.SEMI ∉ y)

instance (m : Mappings) (t : Nat) : Decidable (DescInjective m t) := by unfold DescInjective; infer_instance

end Reorder
