import FeatherModel.Model.Mappings
import FeatherModel.Model.InnerNames
import FeatherModel.Model.DummyDiff

/-!
# Dummy-mapping filters (C10)
`quill/src/action/remove_dummy.rs`: `Mappings::remove_dummy(namespace)` (first part of this file);
`quill/src/action/insert_dummy.rs`: `MappingsDiff::insert_dummy_and_contract_inner_names()` (second part).

The Rust code is four nested `IndexMap::retain` closures. `retain` keeps the relative order of the kept entries, so it is
`List.filter` on the association list. Every closure first filters the children of the entry *in place* and then decides
about the entry looking at the already filtered children, i.e. children-first (`filterMethod` then `keepMethod`, …).
Only the name in the chosen namespace is inspected; an absent name (`None`) is never a placeholder
(`Option::is_some_and`).
-/

namespace Dummy

/-- `"C_"` -/
def pfxC : JStr := [67, 95]
/-- `"net/minecraft/unmapped/C_"` -/
def pfxNMU : JStr := [110, 101, 116, 47, 109, 105, 110, 101, 99, 114, 97, 102, 116, 47, 117, 110, 109, 97, 112, 112, 101, 100, 47, 67, 95]
/-- `"f_"` -/
def pfxF : JStr := [102, 95]
/-- `"m_"` -/
def pfxM : JStr := [109, 95]
/-- `"p_"` -/
def pfxP : JStr := [112, 95]
/-- `MethodName::INIT` = `"<init>"` -/
def nameInit : JStr := [60, 105, 110, 105, 116, 62]
/-- `MethodName::CLINIT` = `"<clinit>"` -/
def nameClinit : JStr := [60, 99, 108, 105, 110, 105, 116, 62]

/-- `str::starts_with` -/
def startsWith (pfx s : JStr) : Bool := pfx.isPrefixOf s

/-- `names[namespace].as_ref().is_some_and(p)`; a row that is too short counts as an absent name -/
def nameIs (names : Names) (ns : Nat) (p : JStr → Bool) : Bool :=
  match names[ns]? with
  | some (some n) => p n
  | _ => false

def dummyParamName (n : JStr) : Bool := startsWith pfxP n
def dummyFieldName (n : JStr) : Bool := startsWith pfxF n
def dummyMethodName (n : JStr) : Bool := startsWith pfxM n || n == nameInit || n == nameClinit
def dummyClassName (n : JStr) : Bool := startsWith pfxC n || startsWith pfxNMU n

/-- the innermost `retain` closure -/
def keepParam (ns : Nat) (p : Param) : Bool :=
  p.doc.isSome || !nameIs p.names ns dummyParamName

def keepField (ns : Nat) (f : Field) : Bool :=
  f.doc.isSome || !nameIs f.names ns dummyFieldName

/-- first statement of the method closure: `v.parameters.retain(..)` -/
def filterMethod (ns : Nat) (m : Method) : Method :=
  { m with params := m.params.filter (fun e => keepParam ns e.2) }

/-- the boolean the method closure returns; evaluated on the *filtered* method -/
def keepMethod (ns : Nat) (m : Method) : Bool :=
  m.doc.isSome || !m.params.isEmpty || !nameIs m.names ns dummyMethodName

/-- `IndexMap::retain` with a closure that first rewrites the value: rewrite every value, keep those passing -/
def retainMap {K V : Type} (f : V → V) (keep : V → Bool) (m : AList K V) : AList K V :=
  (m.map (fun e => (e.1, f e.2))).filter (fun e => keep e.2)

def filterClass (ns : Nat) (c : Class) : Class :=
  { c with
    fields := c.fields.filter (fun e => keepField ns e.2)
    methods := retainMap (filterMethod ns) (keepMethod ns) c.methods }

/-- the boolean the class closure returns; evaluated on the *filtered* class -/
def keepClass (ns : Nat) (c : Class) : Bool :=
  c.doc.isSome || !c.fields.isEmpty || !c.methods.isEmpty || !nameIs c.names ns dummyClassName

def removeDummyAt (m : Mappings) (ns : Nat) : Mappings :=
  { m with classes := retainMap (filterClass ns) (keepClass ns) m.classes }

/-- `Mappings::remove_dummy`; `none` = the namespace name is unknown (`get_namespace` fails) -/
def removeDummy (m : Mappings) (nsName : JStr) : Option Mappings :=
  match m.getNamespace nsName with
  | none => none
  | some ns => some (removeDummyAt m ns)

/-! ## The diff-side counterpart: `insert_dummy_and_contract_inner_names`

Again nested `retain` closures, children first. Every closure runs the same `match &v.info` ("validator"): `Add` is
illegal (`false`, node untouched), `Remove(a)` is rewritten in place to `Edit(a, placeholder)`, `None`/`Edit` pass.
A leaf is kept iff `validator && (info.is_diff() || javadoc.is_diff())` — with `is_diff` evaluated on the *rewritten*
info, so `Remove(a)` on a key whose placeholder is `a` itself becomes the no-op `Edit(a, a)` and is dropped;
a method / class is additionally kept whenever filtered children remain (even an `Add`, which then stays an `Add`).
The top-level `info` / `javadoc` of the diff are not touched.
-/

open DummyDiff

/-- the `match &v.info { … }` block: `(validator_check, v.info afterwards)` -/
def validate (placeholder : JStr) : Action JStr → Bool × Action JStr
  | .none => (true, .none)
  | .add b => (false, .add b)
  | .remove a => (true, .edit a placeholder)
  | .edit a b => (true, .edit a b)

/-- `format!("{}", n)` for a `usize` -/
def decimal (n : Nat) : JStr := (Nat.toDigits 10 n).map Char.toNat

/-- `format!("p_{}", k.index)` -/
def paramPlaceholder (index : Nat) : JStr := pfxP ++ decimal index

/-- `get_simplified`: `name.get_inner_class_name().unwrap_or(name)` -/
def classPlaceholder (key : JStr) : JStr :=
  match InnerNames.split key with
  | some (_, inner) => inner
  | none => key

/-- `IndexMap::retain` whose closure may rewrite the value and sees the key: `none` = entry dropped -/
def retainK {K V : Type} (f : K → V → Option V) (m : AList K V) : AList K V :=
  m.filterMap (fun e => (f e.1 e.2).map (fun v => (e.1, v)))

def insertParam (k : Nat) (p : PDiff) : Option PDiff :=
  let r := validate (paramPlaceholder k) p.info
  if r.1 && (r.2.isDiff || p.doc.isDiff) then some { p with info := r.2 } else none

def insertField (k : MKey) (f : FDiff) : Option FDiff :=
  let r := validate k.1 f.info
  if r.1 && (r.2.isDiff || f.doc.isDiff) then some { f with info := r.2 } else none

def insertMethod (k : MKey) (m : MDiff) : Option MDiff :=
  let params := retainK insertParam m.params
  let r := validate k.1 m.info
  if (r.1 && (r.2.isDiff || m.doc.isDiff)) || !params.isEmpty then some { m with info := r.2, params := params } else none

def insertClass (k : JStr) (c : CDiff) : Option CDiff :=
  let fields := retainK insertField c.fields
  let methods := retainK insertMethod c.methods
  let r := validate (classPlaceholder k) c.info
  if (r.1 && (r.2.isDiff || c.doc.isDiff)) || !fields.isEmpty || !methods.isEmpty then
    some { c with info := r.2, fields := fields, methods := methods }
  else none

/-- `MappingsDiff::insert_dummy_and_contract_inner_names` (never fails) -/
def insertDummy (d : Diff) : Diff :=
  { d with classes := retainK insertClass d.classes }

end Dummy
