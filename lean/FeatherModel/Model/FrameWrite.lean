import FeatherModel.Model.CodeWrite
import FeatherModel.Model.PoolWrite

/-!
# Model of the `StackMapTable` writer in `duke/src/simple_class_writer.rs` (commit 6210871)

Mirrors the Rust *as it is*:

* `write_code` pushes `(opcode_pos, &frame)` for every instruction that carries a frame, in every attempt, and
  `frames.clear()`s the vector when an attempt is abandoned (`writeF` below is the retry loop with that vector;
  `Thm.C02.frames_of_final_attempt`: what is left are the frames of the final attempt, once each, at the final
  positions: `collect`);
* after the exception table, `if !frames.is_empty()`, `write_attribute(STACK_MAP_TABLE, body)`: the body closure runs
  **first** (it puts the classes of `Object` types into the pool), then the attribute name goes to the pool, then
  `attribute_length` through `write_usize_as_u32`;
* body: `number_of_entries` through `write_usize_as_u16`, then per frame `offset_delta` (`offset` for the first frame,
  `offset - previous - 1` afterwards: unchecked `u16` arithmetic, overflow checks on ⇒ an explicit `Fail.panic` in the
  model, proved unreachable for the frames `write_code` collects), the frame in its short or extended form and its
  verification types (`write_verification_type_info`);
* errors: chop count / append length outside `1..=3`, more than 65535 frames / locals / stack items, an
  `Uninitialized` label without bytecode offset, constant pool overflow.

Labels are the labels of `Model/CodeWrite.lean` (instruction `k` carries label `k`, the last label is `n`).
-/

namespace FrameWrite
open CodeWrite (Fail u16b)
open PoolWrite (Pool)

/-- `VerificationTypeInfo` -/
inductive VType where
  | top | int | float | double | long | null | uninitThis
  /-- `Object(ClassName)` -/
  | object (c : JStr)
  /-- `Uninitialized(Label)` -/
  | uninit (label : Nat)
  deriving DecidableEq, Repr

/-- `StackMapData` (`k` is a `u8` in the Rust type) -/
inductive Frame where
  | same
  | same1 (stack : VType)
  | chop (k : Nat)
  | append (locals : List VType)
  | full (locals stack : List VType)
  deriving DecidableEq, Repr

abbrev W := Except Fail (Bytes × Pool)

/-- `write_verification_type_info`; `lp` = `labels.get` -/
def writeVType (lp : Nat → Option Nat) (p : Pool) : VType → W
  | .top => .ok ([0], p)
  | .int => .ok ([1], p)
  | .float => .ok ([2], p)
  | .double => .ok ([3], p)
  | .long => .ok ([4], p)
  | .null => .ok ([5], p)
  | .uninitThis => .ok ([6], p)
  | .object c =>
    match PoolWrite.putClass p c with
    | none => .error .err
    | some (i, p') => .ok (7 :: u16b i, p')
  | .uninit l =>
    match lp l with
    | none => .error .err
    | some o => .ok (8 :: u16b o, p)

/-- `for local in locals { write_verification_type_info(…)? }` -/
def writeVTypes (lp : Nat → Option Nat) : Pool → List VType → W
  | p, [] => .ok ([], p)
  | p, v :: vs =>
    match writeVType lp p v with
    | .error e => .error e
    | .ok (b, p1) =>
      match writeVTypes lp p1 vs with
      | .error e => .error e
      | .ok (bs, p2) => .ok (b ++ bs, p2)

/-- `w.write_slice(items, |w, len| w.write_usize_as_u16(len), …)` -/
def writeVTypes16 (lp : Nat → Option Nat) (p : Pool) (vs : List VType) : W :=
  if vs.length > 65535 then .error .err
  else
    match writeVTypes lp p vs with
    | .error e => .error e
    | .ok (bs, p1) => .ok (u16b vs.length ++ bs, p1)

/-- `offset_delta`: `offset` for the first frame, `offset - previous - 1` (in `u16`, overflow checks on) afterwards -/
def offsetDelta (previous : Option Nat) (offset : Nat) : Except Fail Nat :=
  match previous with
  | none => .ok offset
  | some prev => if offset < prev + 1 then .error .panic else .ok (offset - prev - 1)

/-- the `match frame { … }` of the body closure; `d` = `offset_delta` -/
def writeFrame (lp : Nat → Option Nat) (p : Pool) (d : Nat) : Frame → W
  | .same => if d ≤ 63 then .ok ([d], p) else .ok (251 :: u16b d, p)
  | .same1 v =>
    match writeVType lp p v with
    | .error e => .error e
    | .ok (b, p1) => .ok ((if d ≤ 63 then [64 + d] else 247 :: u16b d) ++ b, p1)
  | .chop k => if 1 ≤ k ∧ k ≤ 3 then .ok ((251 - k) :: u16b d, p) else .error .err
  | .append ls =>
    if 1 ≤ ls.length ∧ ls.length ≤ 3 then
      match writeVTypes lp p ls with
      | .error e => .error e
      | .ok (bs, p1) => .ok ((251 + ls.length) :: (u16b d ++ bs), p1)
    else .error .err
  | .full ls ss =>
    match writeVTypes16 lp p ls with
    | .error e => .error e
    | .ok (b1, p1) =>
      match writeVTypes16 lp p1 ss with
      | .error e => .error e
      | .ok (b2, p2) => .ok (255 :: (u16b d ++ b1 ++ b2), p2)

/-- `for &(offset, frame) in &frames { … }` with `previous` -/
def writeFrames (lp : Nat → Option Nat) : Pool → Option Nat → List (Nat × Frame) → W
  | p, _, [] => .ok ([], p)
  | p, prev, (off, f) :: rest =>
    match offsetDelta prev off with
    | .error e => .error e
    | .ok d =>
      match writeFrame lp p d f with
      | .error e => .error e
      | .ok (b, p1) =>
        match writeFrames lp p1 (some off) rest with
        | .error e => .error e
        | .ok (bs, p2) => .ok (b ++ bs, p2)

/-- the body closure handed to `write_attribute`: `number_of_entries`, then the entries -/
def body (lp : Nat → Option Nat) (p : Pool) (frames : List (Nat × Frame)) : W :=
  if frames.length > 65535 then .error .err
  else
    match writeFrames lp p none frames with
    | .error e => .error e
    | .ok (bs, p1) => .ok (u16b frames.length ++ bs, p1)

def sStackMapTable : JStr := jstr "StackMapTable"

/-- `if !frames.is_empty() { attribute_count += 1; write_attribute(&mut buffer, pool, STACK_MAP_TABLE, body)? }`:
the attribute as (name index, body), `none` when there are no frames -/
def attr (lp : Nat → Option Nat) (p : Pool) (frames : List (Nat × Frame)) :
    Except Fail (Option (Nat × Bytes) × Pool) :=
  if frames.isEmpty then .ok (none, p)
  else
    match body lp p frames with
    | .error e => .error e
    | .ok (b, p1) =>
      match PoolWrite.putUtf8 p1 sStackMapTable with
      | none => .error .err
      | some (i, p2) => if b.length > 4294967295 then .error .err else .ok (some (i, b), p2)

/-! ## the `frames` vector of `write_code` -/

/-- the pushes of one pass: `(opcode_pos, frame)` for every instruction that carries a frame; `fs[k]` is the frame of
instruction `k`, `pos[k]` its position in that pass -/
def collect : List Nat → List (Option Frame) → List (Nat × Frame)
  | p :: ps, some f :: fs => (p, f) :: collect ps fs
  | _ :: ps, none :: fs => collect ps fs
  | _, _ => []

/-- the `'a: loop` of `write_code` with the `frames` vector: every pass appends its pushes, an abandoned attempt
clears the vector (`frames.clear()`); `CodeWrite.write` is this loop without the vector -/
def writeF (is : List CodeWrite.Insn) (fs : List (Option Frame)) :
    Nat → List Nat → List (Nat × Frame) → CodeWrite.Outcome × List (Nat × Frame)
  | 0, _, acc => (.outOfFuel, acc)
  | fuel + 1, wide, acc =>
    match CodeWrite.pass wide is CodeWrite.St.init with
    | .error .err => (.err, acc)
    | .error .panic => (.panic, acc)
    | .ok s =>
      let acc := acc ++ collect s.pos.toList fs
      match CodeWrite.resolve (CodeWrite.labelPos s.pos s.w.size) s.unw.toList s.w with
      | .fail => (.err, acc)
      | .retry idx => writeF is fs fuel (idx :: wide) []
      | .done w =>
        if w.size = 0 ∨ w.size > 65535 then (.err, acc)
        else (.ok { code := w.toList, pos := s.pos, wide := wide }, acc)

/-- the frames with which the `StackMapTable` is written: those of the result of `write_code` -/
def framesOf (res : CodeWrite.Result) (fs : List (Option Frame)) : List (Nat × Frame) := collect res.pos.toList fs

end FrameWrite
