import FeatherModel.Base.Sexp

/-!
# `map_desc` of `quill/src/remapper.rs` (shared by C06, C08, C14)
Single pass over the code points: every character is copied; after an `L` the next character must exist and must not be
`;`, then everything up to the next `;` is the class name, which is replaced by `f name` and followed by `;`.
`none` = the `bail!` (missing semicolon or `L;`).
-/

namespace MapDesc

def CH_L : Nat := 76
def SEMI : Nat := 59

inductive Mode where
  | copy                       -- outside a class name
  | first                      -- just after `L`: the first character of the name
  | name (acc : List Nat)      -- inside the name, `acc` reversed
  deriving Repr, DecidableEq

/-- `out` is the output so far, reversed -/
def go (f : JStr → JStr) : List Nat → Mode → List Nat → Option (List Nat)
  | [], .copy, out => some out.reverse
  | [], _, _ => none
  | c :: rest, .copy, out =>
    if c = CH_L then go f rest .first (c :: out) else go f rest .copy (c :: out)
  | c :: rest, .first, out =>
    if c = SEMI then none else go f rest (.name [c]) out
  | c :: rest, .name acc, out =>
    if c = SEMI then go f rest .copy (SEMI :: (f acc.reverse).reverse ++ out)
    else go f rest (.name (c :: acc)) out

def mapDesc (f : JStr → JStr) (desc : JStr) : Option JStr := go f desc .copy []

end MapDesc
