import FeatherModel.Model.TotalSites

/-!
# C16 — the fixed constant pool of the harness' wrapper classes

`harness/src/bin/c16.rs` (`wrapper_pool`) puts a Code / AnnotationDefault attribute body around a fixed class
`class A extends Object { public void m() … }` whose constant pool is the table below, so that the component models
(`TotalCode`, `TotalAnno`) are complete models of what `duke::read_class` does on the wrapped input: every pool lookup
of the reader is a lookup in this table.

Resolvers mirror `class_reader/pool.rs`: `get(index)` fails on 0, on the upper half of a long/double and beyond the
pool; `as_*` fails on another kind; names go through the `check_valid` of their newtype.
-/

namespace Total.Wrap

inductive Entry where
  | utf8 (s : JStr)
  | cls (name : Nat)
  | nameAndType (name desc : Nat)
  | fieldRef (cls nat : Nat)
  | methodRef (cls nat : Nat)
  | ifaceMethodRef (cls nat : Nat)
  | int | float | long | double
  | str (s : Nat)
  | handle (kind ref : Nat)
  | methodType (desc : Nat)
  deriving Repr, Inhabited

/-- index 0 and the second slots of long / double are `none` -/
def pool : List (Option Entry) := [
  none,
  some (.utf8 (jstr "A")),                               -- 1
  some (.cls 1),                                         -- 2
  some (.utf8 (jstr "java/lang/Object")),                -- 3
  some (.cls 3),                                         -- 4
  some (.utf8 (jstr "m")),                               -- 5
  some (.utf8 (jstr "()V")),                             -- 6
  some (.utf8 (jstr "Code")),                            -- 7
  some (.nameAndType 5 6),                               -- 8
  some (.utf8 (jstr "f")),                               -- 9
  some (.utf8 (jstr "I")),                               -- 10
  some (.nameAndType 9 10),                              -- 11
  some (.fieldRef 2 11),                                 -- 12
  some (.methodRef 2 8),                                 -- 13
  some (.ifaceMethodRef 2 8),                            -- 14
  some .int,                                             -- 15
  some .float,                                           -- 16
  some .long, none,                                      -- 17, 18
  some .double, none,                                    -- 19, 20
  some (.str 1),                                         -- 21
  some (.handle 6 13),                                   -- 22
  some (.methodType 6),                                  -- 23
  some (.utf8 (jstr "StackMapTable")),                   -- 24
  some (.utf8 (jstr "LineNumberTable")),                 -- 25
  some (.utf8 (jstr "LocalVariableTable")),              -- 26
  some (.utf8 (jstr "LocalVariableTypeTable")),          -- 27
  some (.utf8 (jstr "AnnotationDefault")),               -- 28
  some (.utf8 (jstr "LA;")),                             -- 29
  some (.utf8 (jstr "StackMap")),                        -- 30
  some (.utf8 (jstr "RuntimeVisibleTypeAnnotations")),   -- 31
  some (.utf8 (jstr "x")),                               -- 32
  some (.utf8 (jstr "RuntimeInvisibleTypeAnnotations")), -- 33
  some (.utf8 (jstr "BootstrapMethods"))                 -- 34
]

/-- `PoolRead::get` -/
def get (i : Nat) : Option Entry := (pool[i]?).join

def getUtf8 (i : Nat) : Option JStr :=
  match get i with
  | some (.utf8 s) => some s
  | _ => none

/-! name predicates of `duke/src/tree/mod.rs` (`names`) -/

def unqChar (c : Nat) : Bool := c != 46 && c != 59 && c != 91 && c != 47
def validUnqualified (s : JStr) : Bool := !s.isEmpty && s.all unqChar

/-- `x.split('/').all(is_valid_unqualified_name)` -/
def segmentsOk : JStr → Bool → Bool
  | [], nonEmpty => nonEmpty
  | c :: rest, nonEmpty => if c = 47 then nonEmpty && segmentsOk rest false else unqChar c && segmentsOk rest true

def validObjClass (s : JStr) : Bool := s.head? != some 91 && segmentsOk s false
def validClass (s : JStr) : Bool := s.head? == some 91 || segmentsOk s false
def validMethodName (s : JStr) : Bool :=
  s == jstr "<init>" || s == jstr "<clinit>" || (!s.isEmpty && s.all fun c => unqChar c && c != 60 && c != 62)

/-- `get_class` -/
def classOk (i : Nat) : Bool :=
  match get i with
  | some (.cls n) => (match getUtf8 n with | some s => validClass s | none => false)
  | _ => false

/-- `get_obj_class` -/
def objClassOk (i : Nat) : Bool :=
  match get i with
  | some (.cls n) => (match getUtf8 n with | some s => validObjClass s | none => false)
  | _ => false

/-- `get_field_name_and_type`: FieldName is an unqualified name, every string is a FieldDescriptor -/
def fieldNatOk (i : Nat) : Bool :=
  match get i with
  | some (.nameAndType n d) => (match getUtf8 n, getUtf8 d with | some s, some _ => validUnqualified s | _, _ => false)
  | _ => false

def methodNatOk (i : Nat) : Bool :=
  match get i with
  | some (.nameAndType n d) => (match getUtf8 n, getUtf8 d with | some s, some _ => validMethodName s | _, _ => false)
  | _ => false

def fieldRefOk (i : Nat) : Bool :=
  match get i with
  | some (.fieldRef c n) => objClassOk c && fieldNatOk n
  | _ => false

def methodRefOk (i : Nat) : Bool :=
  match get i with
  | some (.methodRef c n) => classOk c && methodNatOk n
  | _ => false

def ifaceMethodRefOk (i : Nat) : Bool :=
  match get i with
  | some (.ifaceMethodRef c n) => classOk c && methodNatOk n
  | _ => false

def anyMethodRefOk (i : Nat) : Bool := methodRefOk i || ifaceMethodRefOk i

/-- `as_method_handle` -/
def handleOk (i : Nat) : Bool :=
  match get i with
  | some (.handle k r) =>
    if 1 ≤ k && k ≤ 4 then fieldRefOk r
    else if k == 5 || k == 8 then methodRefOk r
    else if k == 6 || k == 7 then anyMethodRefOk r
    else if k == 9 then ifaceMethodRefOk r
    else false
  | _ => false

/-- `get_loadable` on the wrapper pool (it holds no `Dynamic` constant: see `TotalDyn` for those) -/
def loadableOk (i : Nat) : Bool :=
  match get i with
  | some .int | some .float | some .long | some .double => true
  | some (.cls _) => classOk i
  | some (.str s) => (getUtf8 s).isSome
  | some (.handle _ _) => handleOk i
  | some (.methodType d) => (getUtf8 d).isSome
  | _ => false

def isInt (i : Nat) : Bool := match get i with | some .int => true | _ => false
def isFloat (i : Nat) : Bool := match get i with | some .float => true | _ => false
def isLong (i : Nat) : Bool := match get i with | some .long => true | _ => false
def isDouble (i : Nat) : Bool := match get i with | some .double => true | _ => false

end Total.Wrap
