import FeatherModel.Model.TotalWrap

/-!
# C16 — `read_element_value_unnamed` / `read_element_values_named` / `read_element_values_unnamed`
(`duke/src/class_reader.rs`)

The three Rust functions recurse into each other once per nesting level of an `element_value` (`[` array or `@`
annotation).  Since 835fdd2 they carry `depth` and `read_element_values_*` starts with
`depth > MAX_ELEMENT_VALUE_DEPTH (= 255) => bail!`; a nested list is read at `depth + 1`.  The model recurses structurally
on `rem = 255 - depth`, the number of further levels allowed: opening a `[` or `@` with `rem = 0` is the `bail!`.
A top-level value (AnnotationDefault, or a value of a top-level annotation) is read at depth 0, `rem = maxDepth`.
The result is the nesting depth of the value that was read (what the harness computes from the tree).

Constant indices are looked up in the wrapper pool (`Total.Wrap`).  The loops over the `u16` counts are the generic
`iterMax` applied to the function one level down.
-/

namespace Total.Anno

open TM Wrap

/-- `for _ in 0..n { … }` keeping the largest depth seen -/
def iterMax (f : Rd Nat) : Nat → Nat → Rd Nat
  | 0, acc, s => pure (acc, s)
  | n + 1, acc, s => do
    let (d, s) ← f s
    iterMax f n (max acc d) s

/-- one `name_index` + `element_value` pair of `read_element_values_named` -/
def namedPair (value : Rd Nat) : Rd Nat := fun s => do
  let (name, s) ← u16 s
  guard (getUtf8 name).isSome
  value s

def constIndex (p : Nat → Bool) : Rd Nat := fun s => do
  let (i, s) ← u16 s
  guard (p i)
  pure (1, s)

/-- `MAX_ELEMENT_VALUE_DEPTH` -/
def maxDepth : Nat := 255

/-- one `element_value`; `inner` reads a value one level down (`none`: the depth limit is reached) -/
def readValueWith (inner : Option (Rd Nat)) : Rd Nat := fun s => do
  let (tag, s) ← u8 s
  if tag = 66 ∨ tag = 67 ∨ tag = 73 ∨ tag = 83 ∨ tag = 90 then constIndex isInt s           -- B C I S Z
  else if tag = 68 then constIndex isDouble s                                               -- D
  else if tag = 70 then constIndex isFloat s                                                -- F
  else if tag = 74 then constIndex isLong s                                                 -- J
  else if tag = 115 then constIndex (fun i => (getUtf8 i).isSome) s                         -- s
  else if tag = 101 then do                                                                 -- e
    let (t, s) ← u16 s
    guard (getUtf8 t).isSome
    constIndex (fun i => (getUtf8 i).isSome) s
  else if tag = 99 then constIndex (fun i => (getUtf8 i).isSome) s                          -- c
  else if tag = 64 then do                                                                  -- @
    let (t, s) ← u16 s
    guard (getUtf8 t).isSome
    match inner with
    | none => fail                                -- `read_element_values_named(.., depth + 1)`: `depth + 1 > 255`
    | some value => do
      let (n, s) ← u16 s
      let (d, s) ← iterMax (namedPair value) n 0 s
      pure (1 + d, s)
  else if tag = 91 then                                                                     -- [
    match inner with
    | none => fail                                -- `read_element_values_unnamed(.., depth + 1)`
    | some value => do
      let (n, s) ← u16 s
      let (d, s) ← iterMax value n 0 s
      pure (1 + d, s)
  else fail

/-- an `element_value` at depth `255 - rem` -/
def readValue : Nat → Rd Nat
  | 0 => readValueWith none
  | rem + 1 => readValueWith (some (readValue rem))

/-- `read_element_values_named(.., 0)` at the top of an annotation -/
def readPairs : Rd Nat := fun s => do
  let (n, s) ← u16 s
  iterMax (namedPair (readValue maxDepth)) n 0 s

/-- the `anno` op: the AnnotationDefault body is followed by the `attributes_count = 0` of the wrapper class -/
def annoOp (body : Bytes) : TM Nat := do
  let (d, _) ← readValue maxDepth (body ++ [0, 0])
  pure d

/-- `[`-nesting of depth `d` around an int constant: 3 bytes per level -/
def nested : Nat → Bytes
  | 0 => [73, 0, 15]
  | d + 1 => [91, 0, 1] ++ nested d

end Total.Anno
