import FeatherModel.Base.Sexp
import FeatherModel.Base.AList
import FeatherModel.Model.Mappings

/-!
# Specialized (bridge) methods — model of `/repo/src/specialized_methods/mod.rs` (C15)

The model mirrors the Rust module step by step:

* `ofJar` — the index the partial class visitor builds (`EntryIndex`, `InheritanceIndex`, `ReferenceIndex`):
  class set, method → access flags, method → set of invoked methods (object classes only, `invokedynamic` and every
  non-invoke instruction ignored), parents / children maps (`java/lang/Object` as super class is not an edge).
* `walk` — the work-list loop shared by `get_ancestors` / `get_descendants` (a stack, **no visited set**: it does not
  terminate on a cyclic hierarchy, hence the fuel; `none` = fuel exhausted, i.e. "still running").
* `typesCompat`, `isPotentialBridge`, `higher` (`get_higher_method`), `candidate` (the iterator chain in front of the
  loop), `stepSel` (the loop body), `selectWith`/`select` (`get_specialized_methods`).
* `remapPairs` (`SpecializedMethods::remap`, as far as `bridge_to_specialized` is concerned), `applyOne` /
  `applyPairs` (the insertion loop of `add_specialized_methods_to_mappings`).

The two B-remappers (`calamus`: official → intermediary, `mappings`: intermediary → named, both with super-class
search) are parameters of the model: `interOf : MRef → Option MRef` and `namedOf : MRef → Option JStr`
(`none` = the remapper returned `Err`). The correspondence run supplies them as finite tables computed with the real
remappers. Descriptors are parsed by a small transcription of `duke`'s `read_field_type` (C18 is about that parser).

`IndexMap` ↦ association list in insertion order, `IndexSet` ↦ duplicate-free list in insertion order.
-/

namespace Bridge

/-! ## `IndexMap` / `IndexSet` operations -/

variable {K V : Type}

/-- `IndexMap::insert`: an existing key keeps its position and gets the new value, a new key is appended -/
def upsert [BEq K] (k : K) (v : V) : AList K V → AList K V
  | [] => [(k, v)]
  | (k', v') :: rest => if k' == k then (k', v) :: rest else (k', v') :: upsert k v rest

/-- `IndexSet::insert` -/
def setInsert {α : Type} [BEq α] (x : α) (l : List α) : List α := if l.contains x then l else l ++ [x]

/-- `IndexSet::extend` -/
def setExtend {α : Type} [BEq α] (l : List α) (xs : List α) : List α := xs.foldl (fun acc x => setInsert x acc) l

/-- `map.entry(k).or_default()` followed by an in-place modification of the value -/
def entryModify [BEq K] (k : K) (dflt : V) (f : V → V) (m : AList K V) : AList K V :=
  upsert k (f ((AList.lookup k m).getD dflt)) m

/-! ## jar description (what the visitor gets to see) -/

/-- `MethodRefObj` -/
structure MRef where
  cls : JStr
  name : JStr
  desc : JStr
  deriving DecidableEq, Repr

/-- the five `MethodAccess` flags the module looks at -/
structure Access where
  synthetic : Bool
  bridge : Bool
  priv : Bool
  static : Bool
  final : Bool
  deriving DecidableEq, Repr

/-- `MethodAccess::from(u16)` restricted to those flags -/
def Access.ofFlags (n : Nat) : Access :=
  { priv := n.testBit 1, static := n.testBit 3, final := n.testBit 4, bridge := n.testBit 6, synthetic := n.testBit 12 }

/-- an instruction, as far as `finish_method` distinguishes: the four invoke instructions carrying a `MethodRef`
(whose class may be an array class), everything else (incl. `invokedynamic`) -/
inductive Insn where
  | invoke (cls name desc : JStr)
  | other
  deriving DecidableEq, Repr

structure MethodDesc where
  name : JStr
  desc : JStr
  flags : Nat
  code : Option (List Insn)
  deriving Repr

structure ClassDesc where
  name : JStr
  super : Option JStr
  ifaces : List JStr
  methods : List MethodDesc
  deriving Repr

abbrev JarDesc := List ClassDesc

/-- `ObjClassName::JAVA_LANG_OBJECT` -/
def JLO : JStr := jstr "java/lang/Object"

/-- `ClassName::into_obj`: array class names start with `[` -/
def Insn.target? : Insn → Option MRef
  | .invoke c n d => if c.head? == some 91 then none else some ⟨c, n, d⟩
  | .other => none

/-! ## the index -/

structure Index where
  classes : List JStr
  methods : AList MRef Access
  refs : AList MRef (List MRef)
  parents : AList JStr (List JStr)
  children : AList JStr (List JStr)
  deriving Repr

def Index.empty : Index := { classes := [], methods := [], refs := [], parents := [], children := [] }

/-- one `parents.entry(child).or_default().insert(parent); children.entry(parent).or_default().insert(child)` -/
def addEdge (idx : Index) (child parent : JStr) : Index :=
  { idx with
    parents := entryModify child [] (setInsert parent) idx.parents
    children := entryModify parent [] (setInsert child) idx.children }

/-- `finish_method` -/
def visitMethod (cls : JStr) (idx : Index) (m : MethodDesc) : Index :=
  let r : MRef := ⟨cls, m.name, m.desc⟩
  let idx := { idx with methods := upsert r (Access.ofFlags m.flags) idx.methods }
  match m.code with
  | none => idx
  | some insns => { idx with refs := entryModify r [] (fun l => setExtend l (insns.filterMap Insn.target?)) idx.refs }

/-- `visit_class` + `InheritanceIndex::store` + the methods of the class -/
def visitClass (idx : Index) (c : ClassDesc) : Index :=
  let idx := { idx with classes := setInsert c.name idx.classes }
  let idx := match c.super with
    | some s => if s != JLO then addEdge idx c.name s else idx
    | none => idx
  let idx := c.ifaces.foldl (fun idx i => addEdge idx c.name i) idx
  c.methods.foldl (visitMethod c.name) idx

/-- `read_classes_into(MultiClassVisitorImpl::default())` -/
def ofJar (jar : JarDesc) : Index := jar.foldl visitClass Index.empty

/-! ## descriptors (transcription of `read_field_type` / `MethodDescriptorSlice::parse`) -/

inductive Prim where
  | B | C | D | F | I | J | S | Z
  deriving DecidableEq, Repr

inductive Elem where
  | prim (p : Prim)
  | obj (name : JStr)
  deriving DecidableEq, Repr

inductive Ty where
  | prim (p : Prim)
  | obj (name : JStr)
  | arr (dims : Nat) (e : Elem)
  deriving DecidableEq, Repr

def primOf (c : Nat) : Option Prim :=
  if c = 66 then some .B else if c = 67 then some .C else if c = 68 then some .D else if c = 70 then some .F
  else if c = 73 then some .I else if c = 74 then some .J else if c = 83 then some .S else if c = 90 then some .Z
  else none

/-- `x.split('/').all(is_valid_unqualified_name)`; the flag says whether the current segment is non-empty -/
def segsOK : JStr → Bool → Bool
  | [], ne => ne
  | c :: r, ne =>
    if c = 47 then ne && segsOK r false
    else if c = 46 || c = 59 || c = 91 then false
    else segsOK r true

/-- `is_valid_obj_class_name` -/
def validObj (s : JStr) : Bool := s.head? != some 91 && segsOK s false

/-- the `while chars.next_if_eq(&'[')` loop with its 255 cap -/
def readBrackets : Nat → JStr → Option (Nat × JStr)
  | n, [] => some (n, [])
  | n, c :: rest =>
    if c = 91 then (if n = 255 then none else readBrackets (n + 1) rest)
    else some (n, c :: rest)

/-- the `while char != ';'` loop -/
def readName : JStr → Option (JStr × JStr)
  | [] => none
  | c :: rest =>
    if c = 59 then some ([], rest)
    else match readName rest with
      | some (n, r) => some (c :: n, r)
      | none => none

def readElem : JStr → Option (Elem × JStr)
  | [] => none
  | c :: rest =>
    if c = 76 then
      match readName rest with
      | some (n, r) => if validObj n then some (.obj n, r) else none
      | none => none
    else match primOf c with
      | some p => some (.prim p, rest)
      | none => none

def readFieldType (s : JStr) : Option (Ty × JStr) :=
  match readBrackets 0 s with
  | none => none
  | some (dims, rest) =>
    match readElem rest with
    | none => none
    | some (e, r) =>
      if dims = 0 then
        match e with
        | .prim p => some (.prim p, r)
        | .obj n => some (.obj n, r)
      else some (.arr dims e, r)

/-- the parameter loop; the fuel only bounds the number of parameters (each consumes at least one character) -/
def readParams : Nat → JStr → Option (List Ty × JStr)
  | 0, _ => none
  | fuel + 1, s =>
    match s with
    | 41 :: rest => some ([], rest)
    | _ =>
      match readFieldType s with
      | none => none
      | some (t, r) =>
        match readParams fuel r with
        | none => none
        | some (ts, r') => some (t :: ts, r')

/-- `MethodDescriptorSlice::parse` -/
def parseMethodDesc (s : JStr) : Option (List Ty × Option Ty) :=
  match s with
  | 40 :: rest =>
    match readParams (rest.length + 1) rest with
    | none => none
    | some (ps, r) =>
      match r with
      | 86 :: r' => if r'.isEmpty then some (ps, none) else none
      | _ =>
        match readFieldType r with
        | some (t, []) => some (ps, some t)
        | _ => none
  | _ => none

/-! ## hierarchy walks -/

/-- the value stored for a class in a parents / children map, `[]` when there is no entry -/
def nexts (g : AList JStr (List JStr)) (c : JStr) : List JStr := (AList.lookup c g).getD []

/-- the loop of `get_ancestors` / `get_descendants`: `st` is the `queue` vector (head = last element, the one `pop`
takes), `acc` the result vector. One unit of fuel per `pop`. -/
def walk (g : AList JStr (List JStr)) : Nat → List JStr → List JStr → Option (List JStr)
  | _, [], acc => some acc
  | 0, _ :: _, _ => none
  | fuel + 1, c :: st, acc => walk g fuel ((nexts g c).reverse ++ st) (acc ++ nexts g c)

def ancestors (idx : Index) (fuel : Nat) (c : JStr) : Option (List JStr) := walk idx.parents fuel [c] []
def descendants (idx : Index) (fuel : Nat) (c : JStr) : Option (List JStr) := walk idx.children fuel [c] []

/-- results of the two walks, as functions of the start class (`none` = does not terminate within the fuel) -/
structure Walks where
  anc : JStr → Option (List JStr)
  desc : JStr → Option (List JStr)

/-! ## the bridge predicate -/

/-- `are_types_bridge_compatible` -/
def typesCompat (idx : Index) (w : Walks) (tb ts : Ty) : Option Bool :=
  if tb = ts then some true else
  match tb, ts with
  | .obj b, .obj s =>
    if b = JLO then some true
    else if !idx.classes.contains b then some true
    else match w.anc s with
      | none => none
      | some as => some (as.any fun a => b == a || !idx.classes.contains a)
  | _, _ => some false

/-- the `for i in 0..len` loop over the parameters (returns at the first incompatible position) -/
def allCompat (idx : Index) (w : Walks) : List Ty → List Ty → Option Bool
  | b :: bs, s :: ss =>
    match typesCompat idx w b s with
    | none => none
    | some false => some false
    | some true => allCompat idx w bs ss
  | _, _ => some true

/-- `is_potential_bridge(...).unwrap_or(false)`: a descriptor that does not parse gives `false` -/
def isPotentialBridge (idx : Index) (w : Walks) (m : MRef) (acc : Access) (s : MRef) : Option Bool :=
  if acc.priv || acc.final || acc.static then some false else
  match parseMethodDesc m.desc with
  | none => some false
  | some (pb, rb) =>
    match parseMethodDesc s.desc with
    | none => some false
    | some (ps, rs) =>
      if pb.length != ps.length then some false else
      match allCompat idx w pb ps with
      | none => none
      | some false => some false
      | some true =>
        match rb, rs with
        | some b, some s => typesCompat idx w b s
        | none, none => some true
        | _, _ => some false

/-- `get_higher_method` -/
def higher (w : Walks) (b1 b2 : MRef) : Option MRef :=
  match w.desc b1.cls with
  | none => none
  | some ds => some (if ds.contains b2.cls then b1 else b2)

/-- the iterator chain in front of the loop, for one entry of `entry.methods`:
`some none` = filtered out, `some (some (bridge, specialized))` = reaches the loop body -/
def candidate (idx : Index) (w : Walks) (m : MRef) (acc : Access) : Option (Option (MRef × MRef)) :=
  if !acc.synthetic then some none else
  match AList.lookup m idx.refs with
  | some [s] =>
    if acc.bridge then some (some (m, s)) else
    match isPotentialBridge idx w m acc s with
    | none => none
    | some true => some (some (m, s))
    | some false => some none
  | _ => some none

def candidates (idx : Index) (w : Walks) : AList MRef Access → Option (List (MRef × MRef))
  | [] => some []
  | (m, acc) :: rest =>
    match candidate idx w m acc with
    | none => none
    | some c =>
      match candidates idx w rest with
      | none => none
      | some cs => some (c.toList ++ cs)

/-- state of the loop: `(bridge_to_specialized, specialized_to_bridge)` -/
abbrev SelState := AList MRef MRef × AList MRef MRef

/-- the loop body -/
def stepSel (w : Walks) (st : SelState) (p : MRef × MRef) : Option SelState :=
  match AList.lookup p.2 st.2 with
  | some other =>
    match higher w p.1 other with
    | none => none
    | some h => some (upsert p.1 p.2 st.1, upsert p.2 h st.2)
  | none => some (upsert p.1 p.2 st.1, upsert p.2 p.1 st.2)

def foldSel (w : Walks) : List (MRef × MRef) → SelState → Option SelState
  | [], st => some st
  | p :: rest, st =>
    match stepSel w st p with
    | none => none
    | some st' => foldSel w rest st'

/-- `get_specialized_methods`, relative to given walk results -/
def selectWith (idx : Index) (w : Walks) : Option SelState :=
  match candidates idx w idx.methods with
  | none => none
  | some cs => foldSel w cs ([], [])

def walksOf (idx : Index) (fuel : Nat) : Walks := ⟨ancestors idx fuel, descendants idx fuel⟩

/-- `get_specialized_methods`; `none` = some hierarchy walk needs more than `fuel` pops -/
def select (idx : Index) (fuel : Nat) : Option SelState := selectWith idx (walksOf idx fuel)

/-! ## insertion into the mappings -/

/-- `SpecializedMethods::remap` on `bridge_to_specialized`: `collect::<Result<IndexMap<_, _>>>()` — the first `Err`
aborts, a key produced twice keeps its first position and gets the later value -/
def remapPairs (interOf : MRef → Option MRef) : List (MRef × MRef) → AList MRef MRef → Option (AList MRef MRef)
  | [], acc => some acc
  | (b, s) :: rest, acc =>
    match interOf b with
    | none => none
    | some b' =>
      match interOf s with
      | none => none
      | some s' => remapPairs interOf rest (upsert b' s' acc)

/-- `Names::from([T; N])`: an empty string is an absent name -/
def mkName (s : JStr) : Option JStr := if s.isEmpty then none else some s

/-- the value an occupied / vacant `class.methods.entry(key)` ends up with: only `info` is replaced -/
def newEntry (old : Option Method) (s : MRef) (named : JStr) : Method :=
  match old with
  | some o => { o with desc := s.desc, names := [mkName s.name, mkName named] }
  | none => { desc := s.desc, names := [mkName s.name, mkName named], doc := none, params := [] }

/-- one iteration of the loop of `add_specialized_methods_to_mappings` (`b`, `s` in the intermediary namespace) -/
def applyOne (namedOf : MRef → Option JStr) (m : Mappings) (b s : MRef) : Option Mappings :=
  match namedOf b with
  | none => none
  | some named =>
    match AList.lookup b.cls m.classes with
    | none => some m
    | some cl =>
      -- `info.get_key()?` fails when the first name is absent
      if s.name.isEmpty then none else
      let key : MemberKey := (s.name, s.desc)
      let ms := upsert key (newEntry (AList.lookup key cl.methods) s named) cl.methods
      some { m with classes := upsert b.cls { cl with methods := ms } m.classes }

def applyPairs (namedOf : MRef → Option JStr) : List (MRef × MRef) → Mappings → Option Mappings
  | [], m => some m
  | (b, s) :: rest, m =>
    match applyOne namedOf m b s with
    | none => none
    | some m' => applyPairs namedOf rest m'

/-- `add_specialized_methods_to_mappings` after the remappers have been built and the bridges selected -/
def addSpecialized (pairs : List (MRef × MRef)) (interOf : MRef → Option MRef) (namedOf : MRef → Option JStr)
    (m : Mappings) : Option Mappings :=
  match remapPairs interOf pairs [] with
  | none => none
  | some ps => applyPairs namedOf ps m

/-- the two `get_namespace` pairs at the start of `add_specialized_methods_to_mappings` -/
def nsOK (calamusNs : List JStr) (m : Mappings) : Bool :=
  calamusNs.contains (jstr "official") && calamusNs.contains (jstr "intermediary") &&
  m.ns.contains (jstr "intermediary") && m.ns.contains (jstr "named")

end Bridge
