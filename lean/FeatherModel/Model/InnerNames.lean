import FeatherModel.Model.Mappings

/-!
# Inner-class names (C11)
`duke/src/tree/class.rs`: `split_inner_class_parent_and_name`, `from_inner_class`;
`quill/src/action/extend_inner_class_names.rs`: `extend_inner_class_names`, `contract_inner_class_names`.
-/

namespace InnerNames

def DOLLAR : Nat := 36
def SLASH : Nat := 47

/-- `str::rsplit_once(c)`: split at the last occurrence of `c` -/
def rsplitOnce (c : Nat) : List Nat → Option (List Nat × List Nat)
  | [] => none
  | x :: xs =>
    match rsplitOnce c xs with
    | some (p, i) => some (x :: p, i)
    | none => if x = c then some ([], xs) else none

/-- `ObjClassNameSlice::split_inner_class_parent_and_name` -/
def split (s : JStr) : Option (JStr × JStr) :=
  match rsplitOnce DOLLAR s with
  | some (p, i) =>
    if p ≠ [] ∧ i ≠ [] ∧ p.getLast? ≠ some SLASH ∧ SLASH ∉ i then some (p, i) else none
  | none => none

/-- `ObjClassName::from_inner_class` -/
def join (p i : JStr) : JStr := p ++ DOLLAR :: i

/-- `ObjClassNameSlice::get_inner_class_parent`: the first half of `split` -/
def innerParent (s : JStr) : Option JStr := (split s).map (·.1)

/-- `ObjClassNameSlice::get_inner_class_name`: the second half of `split` -/
def innerName (s : JStr) : Option JStr := (split s).map (·.2)

/-- `Mappings::get_class_name` -/
def getClassName (m : Mappings) (cls : JStr) (ns : Nat) : Option JStr :=
  match AList.lookup cls m.classes with
  | none => none
  | some c =>
    match c.names[ns]? with
    | some (some n) => some n
    | _ => none

/-- the recursive helper `map` of `extend_inner_class_names.rs`; fuel bounds the nesting depth
(every step strictly shortens `name`, so `name.length` always suffices: `extName_fuel`) -/
def extName (m : Mappings) (ns : Nat) : Nat → JStr → JStr → Option JStr
  | 0, _, _ => none
  | fuel + 1, name, mapped =>
    match split name with
    | some (parent, _) =>
      match getClassName m parent ns with
      | none => none
      | some mappedParent =>
        match extName m ns fuel parent mappedParent with
        | none => none
        | some r => some (join r mapped)
    | none => some mapped

/-- `Names::extend_inner_class_name` (includes `get_mut_with_src`) -/
def extendNames (m : Mappings) (ns : Nat) (names : Names) : Option Names :=
  if ns = 0 then none
  else if names.length < 2 then none
  else
    match names[ns]? with
    | some (some b) =>
      match names[0]? with
      | some (some src) =>
        match extName m ns (src.length + 1) src b with
        | some b' => some (names.set ns (some b'))
        | none => none
      | _ => none
    | _ => some names

/-- `Names::contract_inner_class_name` -/
def contractNames (ns : Nat) (names : Names) : Names :=
  match names[ns]? with
  | some (some b) =>
    match split b with
    | some (_, inner) => names.set ns (some inner)
    | none => names
  | _ => names

def extend (m : Mappings) (nsName : JStr) : Option Mappings :=
  match m.getNamespace nsName with
  | none => none
  | some ns =>
    match AList.mapValsM (fun _ c =>
        match extendNames m ns c.names with
        | some n => some { c with names := n }
        | none => none) m.classes with
    | none => none
    | some cs => some { m with classes := cs }

def contract (m : Mappings) (nsName : JStr) : Option Mappings :=
  match m.getNamespace nsName with
  | none => none
  | some ns => some { m with classes := AList.mapVals (fun c => { c with names := contractNames ns c.names }) m.classes }

end InnerNames
