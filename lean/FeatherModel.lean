-- Root of the `FeatherModel` library: every model, theorem and driver module.
import FeatherModel.Base.Sexp
import FeatherModel.Base.Driver
import FeatherModel.Base.AList
import FeatherModel.Model.Mappings
