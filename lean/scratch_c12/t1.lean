import FeatherModel.Model.Enigma
open Enigma
def mk (cs : AList JStr Class) : Mappings := { ns := [jstr "a", jstr "b"], doc := none, classes := cs }
def cls (k : String) (d : Option String) : JStr × Class := (jstr k, { names := [some (jstr k), d.map jstr], doc := none, fields := [], methods := [] })
def orphan := mk [cls "A$B" (some "X$Y")]
#eval writeAll orphan
#eval (writeAll orphan).bind (fun t => readInto t (emptyLike orphan)) == some orphan
theorem t : (writeAll orphan).bind (fun t => readInto t (emptyLike orphan)) = some orphan := by decide
theorem t2 : writableB orphan = true := by decide
