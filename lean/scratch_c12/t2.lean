import FeatherModel.Model.Enigma
open Enigma
def mk (cs : AList JStr Class) : Mappings := { ns := [jstr "a", jstr "b"], doc := none, classes := cs }
def cls (k : String) (d : Option String) : JStr × Class := (jstr k, { names := [some (jstr k), d.map jstr], doc := none, fields := [], methods := [] })
def rt (m : Mappings) : Option Mappings := (writeAll m).bind (fun t => readInto t (emptyLike m))
-- nested dst not following
#eval rt (mk [cls "A" (some "X"), cls "A$B" (some "Y")])
#eval rt (mk [cls "A" (some "ACC:X")])
#eval rt (mk [cls "A" (some "X"), cls "B" (some "X")])
#eval rt (mk [(jstr "A", { names := [some (jstr "A"), none], doc := some (jstr "a\tb"), fields := [], methods := [] })])
#eval rt (mk [(jstr "A", { names := [some (jstr "A"), none], doc := none, fields := [], methods := [((jstr "m", jstr "()V"), {desc := jstr "()V", names := [some (jstr "m"), some (jstr "<init>")], doc := none, params := [(0, {index := 0, names := [some (jstr "s"), some (jstr "p")], doc := none})]})] })])
