"""MANIFEST.json texts: claimed properties come from props.d; everything else is listed as not_applicable with its reason."""
from props import MANIFEST_TEXT as CHECK_TEXT

_ALL = ["C%02d" % i for i in range(1, 21)]
_PENDING = "machinery for this property is not built yet in this round; planned per DESIGN.md §5/§9 (the proof technique applies)"
_REASONS = {}
NOT_APPLICABLE = [{"property_id": p, "reason": _REASONS.get(p, _PENDING)} for p in _ALL if p not in CHECK_TEXT]
