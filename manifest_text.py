"""Texts of MANIFEST.json per property (level claimed, trusted base)."""

CHECK_TEXT = {
    "C11": {
        "text": "Machine-checked proof (Lean 4, no sorry/own axioms) over an executable model of split/join, extend_inner_class_names and "
                "contract_inner_class_names: split/join mutually inverse (split_join, join_split, split_none_iff), extension is a frame "
                "outside the chosen namespace (extend_frame), its result is characterised relationally for top-level and nested classes "
                "(extend_toplevel, extend_nested), it fails on a missing/unnamed outer class, on the first namespace and on unknown "
                "namespaces, contraction keeps the innermost simple name only (contract_spec), and contract∘extend = id on the Simple "
                "domain (contract_extend) with a negative witness outside it. All for every mapping set, nesting depth and namespace count. "
                "The model is tied to the Rust code by a correspondence run on generated mapping sets (depth 0..4, 2..4 namespaces, absent "
                "names, unknown/first namespace) and exhaustive short strings for split.",
        "note": "Trusted: Lean kernel + propext/Quot.sound; the theorem statements; the hand-written model is tied to the code by differential "
                "testing only (coverage limits apply); strings as code-point lists; IndexMap modelled as association list.",
    },
}

_ALL = ["C%02d" % i for i in range(1, 21)]
_PENDING = "machinery for this property is not built yet in this round; planned per DESIGN.md §5/§9 (proof technique applies)"
NOT_APPLICABLE = [{"property_id": p, "reason": _PENDING} for p in _ALL if p not in CHECK_TEXT]
