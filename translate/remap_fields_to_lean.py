#!/usr/bin/env python3
"""Translator for C07: dukebox/src/remap.rs + the duke tree definitions -> lean/FeatherModel/Gen/RemapFields.lean

From the Rust sources as they are *now* (repo = $VERIF_REPO, default /repo):

  * every `struct` / `enum` of duke's class tree (duke/src/tree/**.rs, duke/src/visitor/method/code.rs), with the type of
    every struct field and of every enum-variant payload;
  * every `impl Mappable… for X` of remap.rs: what its body does with each field / variant payload of X:
        kept      the value is copied                         `f: self.f`, `V(x) => V(x)`, `A | B(_) => self`,
                                                              or remapped through an impl that just returns `self`
        remapped  `.remap(…)` / `.remap_with_class_name(…)` / `remapper.map_…(&self.f)`
        dropped   replaced by `None` / `Vec::new()`
        custom    anything else (computed from other values; vouched for one by one in Thm/C07.lean)
  * for every field whether its type can carry a class / field / method reference: a leaf table below classifies the string
    newtypes and primitives, composites carry what their parts carry (fixpoint over the parsed definitions).

One `Row` per (type, field) resp. (enum, variant, payload). The output is written only when its content changes.
Anything this small grammar does not understand (an unknown leaf type, an impl body of an unknown form, a match without
an arm for some variant, a wildcard arm, a field missing in a struct literal) is an error: exit status 1 = broken tie.
"""
import os, re, sys

REPO = os.environ.get("VERIF_REPO", "/repo").rstrip("/")
REMAP = os.path.join(REPO, "dukebox", "src", "remap.rs")
TREE_FILES = ["tree/class.rs", "tree/field.rs", "tree/method.rs", "tree/method/code.rs", "tree/annotation.rs",
              "tree/type_annotation.rs", "tree/record.rs", "tree/module.rs", "tree/attribute.rs", "tree/version.rs",
              "tree/descriptor.rs", "visitor/method/code.rs"]
OUT = os.path.join(os.path.dirname(os.path.dirname(os.path.abspath(__file__))), "lean", "FeatherModel", "Gen", "RemapFields.lean")

# ---- leaf classification (the only hand-written knowledge about duke's types)
# string newtypes / leaves that ARE (part of) a class, field or method reference
REF_LEAVES = {
    "ClassName", "ObjClassName", "ArrClassName", "FieldDescriptor", "MethodDescriptor", "ReturnDescriptor",
    "FieldName", "MethodName", "ClassSignature", "FieldSignature", "MethodSignature", "RecordName",
    # raw attribute bytes index the constant pool of the class they were read from: they may name anything, nobody can
    # tell (remap.rs copies them; Thm/C07.lean lists these positions as `opaqueKept`, not as findings)
    "Attribute",
}
# leaves that carry no class / field / method reference
PLAIN_LEAVES = {
    "JavaString", "bool", "u8", "u16", "u32", "i8", "i16", "i32", "i64", "f32", "f64", "Label", "LvIndex",
    "LocalVariableName", "ParameterName", "ModuleName", "T", "TypePath", "TypePathKind", "ArrayType",
    # a package is not a class, field or method: a class remapper (map_class / map_field / map_method) has no answer for
    # it, like for a module name (ASM's Remapper.mapPackageName is the identity by default as well)
    "PackageName",
    # parsed by hand-written code, never holding names
    "ParsedFieldDescriptor", "ParsedMethodDescriptor", "ParsedReturnDescriptor", "Type", "ArrayTypeDesc", "BaseOrObjectType",
}
# plain `JavaString` fields that nevertheless name a class member / class
REF_FIELDS = {
    ("ElementValuePair", "name"),       # method of the annotation interface
    ("ElementValue", "Enum.const_name"),  # field of the enum class
    ("InnerClass", "inner_name"),       # simple name of the inner class
}


class Bad(Exception):
    pass


def strip_comments(src):
    out, i, n = [], 0, len(src)
    while i < n:
        c = src[i]
        if c == '"':
            j = i + 1
            while j < n and src[j] != '"':
                j += 2 if src[j] == "\\" else 1
            out.append(src[i:j + 1]); i = j + 1
        elif c == "'" and i + 2 < n and (src[i + 2] == "'" or (src[i + 1] == "\\" and src.find("'", i + 2) in (i + 3, i + 4))):
            j = src.find("'", i + 2 if src[i + 1] != "\\" else i + 3)
            out.append(src[i:j + 1]); i = j + 1
        elif src.startswith("//", i):
            j = src.find("\n", i); i = n if j < 0 else j
        elif src.startswith("/*", i):
            j = src.find("*/", i + 2)
            if j < 0:
                raise Bad("unterminated block comment")
            i = j + 2
        else:
            out.append(c); i += 1
    return "".join(out)


OPEN, CLOSE = "([{<", ")]}>"


def matching(src, i):
    """index of the bracket matching src[i] (angle brackets are not tracked inside; strings skipped)"""
    o = src[i]; c = {"(": ")", "[": "]", "{": "}"}[o]
    depth, j, n = 0, i, len(src)
    while j < n:
        ch = src[j]
        if ch == '"':
            j += 1
            while j < n and src[j] != '"':
                j += 2 if src[j] == "\\" else 1
        elif ch == o:
            depth += 1
        elif ch == c:
            depth -= 1
            if depth == 0:
                return j
        j += 1
    raise Bad("unbalanced %r" % o)


def split_top(s, sep=","):
    """split at top-level separators; (), [], {} and <> nest (`->`/`=>` are not brackets)"""
    parts, depth, cur, i, n = [], 0, [], 0, len(s)
    while i < n:
        ch = s[i]
        if ch == '"':
            j = i + 1
            while j < n and s[j] != '"':
                j += 2 if s[j] == "\\" else 1
            cur.append(s[i:j + 1]); i = j + 1; continue
        if ch in "([{":
            depth += 1
        elif ch in ")]}":
            depth -= 1
        elif ch == "<" and sep == "," and re.match(r"[A-Za-z0-9_>]", s[i - 1] if i else " "):
            depth += 1
        elif ch == ">" and sep == "," and i and s[i - 1] not in "-=" and depth > 0 and "<" in "".join(cur):
            depth -= 1
        if ch == sep and depth == 0:
            parts.append("".join(cur)); cur = []
        else:
            cur.append(ch)
        i += 1
    if "".join(cur).strip():
        parts.append("".join(cur))
    return [p.strip() for p in parts]


# ---------------------------------------------------------------- duke definitions

def parse_defs():
    """-> structs: name -> [(field, type)], enums: name -> [(variant, [(payload-name-or-index, type)])], newtypes:set"""
    structs, enums, newtypes = {}, {}, set()
    for rel in TREE_FILES:
        path = os.path.join(REPO, "duke", "src", rel)
        try:
            src = strip_comments(open(path).read())
        except OSError as e:
            raise Bad("cannot read %s: %s" % (path, e))
        for m in re.finditer(r"make_string_str_like!\s*\(", src):
            body = src[m.end():matching(src, m.end() - 1)]
            mm = re.search(r"pub(?:\([a-z]+\))?\s+([A-Za-z0-9_]+)\s*\(\s*JavaString\s*\)", body)
            if not mm:
                raise Bad("%s: cannot parse make_string_str_like! block" % rel)
            newtypes.add(mm.group(1))
        for m in re.finditer(r"\bpub(?:\([a-z]+\))?\s+(struct|enum)\s+([A-Za-z0-9_]+)\s*(<[^>{]*>)?\s*(\{|\(|;)", src):
            kind, name, opener = m.group(1), m.group(2), m.group(4)
            if opener == ";":
                structs[name] = []
                continue
            end = matching(src, m.end() - 1)
            body = src[m.end():end]
            if kind == "struct":
                if opener == "(":
                    fields = [(str(i), re.sub(r"^pub(\([a-z]+\))?\s+", "", t)) for i, t in enumerate(split_top(body))]
                else:
                    fields = []
                    for part in split_top(body):
                        part = re.sub(r"#\[[^\]]*\]\s*", "", part)
                        fm = re.match(r"(?:pub(?:\([a-z]+\))?\s+)?([a-z_][a-z0-9_]*)\s*:\s*(.+)$", part, flags=re.S)
                        if not fm:
                            raise Bad("%s: struct %s: cannot parse field %r" % (rel, name, part))
                        fields.append((fm.group(1), " ".join(fm.group(2).split())))
                structs[name] = fields
            else:
                variants = []
                for part in split_top(body):
                    part = re.sub(r"#\[[^\]]*\]\s*", "", part).strip()
                    vm = re.match(r"([A-Z][A-Za-z0-9_]*)\s*(.*)$", part, flags=re.S)
                    if not vm:
                        raise Bad("%s: enum %s: cannot parse variant %r" % (rel, name, part))
                    vname, rest = vm.group(1), vm.group(2).strip()
                    payload = []
                    if rest.startswith("("):
                        inner = rest[1:matching(rest, 0)]
                        payload = [(str(i), " ".join(t.split())) for i, t in enumerate(split_top(inner))]
                    elif rest.startswith("{"):
                        inner = rest[1:matching(rest, 0)]
                        for f in split_top(inner):
                            fm = re.match(r"([a-z_][a-z0-9_]*)\s*:\s*(.+)$", f, flags=re.S)
                            if not fm:
                                raise Bad("%s: enum %s::%s: cannot parse field %r" % (rel, name, vname, f))
                            payload.append((fm.group(1), " ".join(fm.group(2).split())))
                    elif rest and not rest.startswith("="):
                        raise Bad("%s: enum %s: cannot parse variant %r" % (rel, name, part))
                    variants.append((vname, payload))
                enums[name] = variants
    return structs, enums, newtypes


def type_atoms(t):
    """names of the types a type expression is built from (Option, Vec, tuples, generics stripped)"""
    t = re.sub(r"/\*.*?\*/", "", t)
    names = re.findall(r"[A-Za-z_][A-Za-z0-9_]*", t)
    return [x for x in names if x not in ("Option", "Vec", "Box", "pub", "crate")]


def carries_fixpoint(structs, enums, newtypes):
    for nt in newtypes:
        if nt not in REF_LEAVES and nt not in PLAIN_LEAVES:
            raise Bad("string newtype %s is not classified (REF_LEAVES / PLAIN_LEAVES of the translator)" % nt)
    known = set(structs) | set(enums) | REF_LEAVES | PLAIN_LEAVES
    carries = {n: True for n in REF_LEAVES}
    carries.update({n: False for n in PLAIN_LEAVES})
    comp = {}
    for n, fs in structs.items():
        if n in carries:
            continue
        comp[n] = [(n, f, t) for f, t in fs]
    for n, vs in enums.items():
        if n in carries:
            continue
        comp[n] = [(n, "%s.%s" % (v, p), t) for v, ps in vs for p, t in ps]
    for n, parts in comp.items():
        for _, _, t in parts:
            for a in type_atoms(t):
                if a not in known:
                    raise Bad("type %s (in %s) is unknown to the translator" % (a, n))
    for n in comp:
        carries[n] = False
    changed = True
    while changed:
        changed = False
        for n, parts in comp.items():
            if carries[n]:
                continue
            if any((o, f) in REF_FIELDS or any(carries[a] for a in type_atoms(t)) for o, f, t in parts):
                carries[n] = True
                changed = True
    return carries


def field_carries(owner, pos, t, carries):
    return (owner, pos) in REF_FIELDS or any(carries[a] for a in type_atoms(t))


# ---------------------------------------------------------------- remap.rs

def parse_impls(src):
    """-> list of (target type name, trait, body of the remap fn)"""
    impls = []
    for m in re.finditer(r"\bimpl\s*(<[^>]*>)?\s*(Mappable|MappableWithClassName)\s*(<[^{]*?>)?\s+for\s+([^{]+?)\s*(where[^{]*)?\{", src):
        generics, trait, target = m.group(1) or "", m.group(2), m.group(4).strip()
        end = matching(src, m.end() - 1)
        body = src[m.end():end]
        fm = re.search(r"fn\s+(remap|remap_with_class_name)\s*\(", body)
        if not fm:
            raise Bad("impl %s for %s: no remap fn" % (trait, target))
        b0 = body.find("{", matching(body, fm.end() - 1))
        fbody = body[b0 + 1:matching(body, b0)]
        tname = target.lstrip("&").strip()
        tname = re.sub(r"<.*>$", "", tname)
        if tname in ("T", "Option", "Vec"):
            continue  # blanket impls: by-reference forwarding, Option, Vec
        impls.append((tname, trait, fbody.strip()))
    return impls


def classify_expr(e, pos_names):
    """e: the expression a field / payload is rebuilt from; pos_names: spellings of `the old value of this position`"""
    e = " ".join(e.split())
    e0 = e[:-1] if e.endswith("?") else e
    for pn in pos_names:
        if e0 == pn:
            return "kept"
    if e0 in ("None", "Vec::new()"):
        return "dropped"
    for pn in pos_names:
        q = re.escape(pn)
        if re.fullmatch(r"\(?&?%s\)?(\.as_ref\(\))?\.(remap|remap_with_class_name)\(remapper(, ?(this_class|&self\.name))?\)" % q, e0):
            return "remapped"
        if re.fullmatch(r"remapper\.map_[a-z_]+\(&%s\)" % q, e0):
            return "remapped-direct"
    return "custom"


def let_bindings(body):
    """`let x = expr;` statements of an fn body (simple identifiers only) -> {x: expr}"""
    out = {}
    for m in re.finditer(r"\blet\s+([a-z_][a-z0-9_]*)\s*=\s*", body):
        i, depth = m.end(), 0
        while i < len(body):
            ch = body[i]
            if ch in "([{":
                depth += 1
            elif ch in ")]}":
                depth -= 1
            elif ch == ";" and depth == 0:
                break
            i += 1
        out[m.group(1)] = " ".join(body[m.end():i].split())
    return out


def struct_literals(body, tname):
    """all `Tname { … }` literals in body -> list of {field: expr}; a field initialised from a variable bound by a plain
    `let x = expr;` of the same body counts as initialised from `expr`"""
    lets = let_bindings(body)
    lits = []
    for m in re.finditer(r"\b%s\s*\{" % re.escape(tname), body):
        end = matching(body, m.end() - 1)
        d = {}
        for part in split_top(body[m.end():end]):
            fm = re.match(r"([a-z_][a-z0-9_]*)\s*(?::\s*(.+))?$", part, flags=re.S)
            if not fm:
                raise Bad("impl for %s: cannot parse field initialiser %r" % (tname, part))
            e = fm.group(2) if fm.group(2) is not None else fm.group(1)
            d[fm.group(1)] = lets.get(e.strip(), e)
        lits.append(d)
    return lits


def parse_match_arms(body, ename):
    m = re.search(r"Ok\s*\(\s*match\s+self\s*\{", body)
    if not m:
        raise Bad("impl for enum %s: expected `Ok(match self { … })`" % ename)
    end = matching(body, m.end() - 1)
    inner = body[m.end():end]
    arms, i, n = [], 0, len(inner)
    while i < n:
        j = inner.find("=>", i)
        if j < 0:
            if inner[i:].strip():
                raise Bad("impl for enum %s: trailing text in match: %r" % (ename, inner[i:].strip()[:60]))
            break
        pat = inner[i:j].strip()
        k = j + 2
        while k < n and inner[k].isspace():
            k += 1
        # the arm expression extends to the next top-level comma
        depth, e = 0, k
        while e < n:
            ch = inner[e]
            if ch in "([{":
                depth += 1
            elif ch in ")]}":
                depth -= 1
            elif ch == "," and depth == 0:
                break
            e += 1
        arms.append((pat, inner[k:e].strip()))
        i = e + 1
    return arms


def variant_pattern(p, ename):
    p = p.strip()
    m = re.match(r"([A-Z][A-Za-z0-9_]*)\s*(.*)$", p, flags=re.S)
    if not m:
        raise Bad("impl for enum %s: pattern %r not understood (wildcards are not allowed)" % (ename, p))
    name, rest = m.group(1), m.group(2).strip()
    binds = None
    if rest.startswith("("):
        binds = [("%d" % i, b) for i, b in enumerate(split_top(rest[1:matching(rest, 0)]))]
    elif rest.startswith("{"):
        inner = rest[1:matching(rest, 0)].strip()
        binds = "rest" if inner == ".." else [(b.split(":")[0].strip(), b.split(":")[-1].strip()) for b in split_top(inner)]
    elif rest:
        raise Bad("impl for enum %s: pattern %r not understood" % (ename, p))
    return name, binds


def translate():
    structs, enums, newtypes = parse_defs()
    carries = carries_fixpoint(structs, enums, newtypes)
    try:
        src = strip_comments(open(REMAP).read())
    except OSError as e:
        raise Bad("cannot read %s: %s" % (REMAP, e))
    impls = parse_impls(src)
    if not impls:
        raise Bad("no Mappable impls found in remap.rs")
    kind = {}      # type -> leaf-remapped | identity | fields
    rows = []      # (type, position, treat, carries, type text, note)
    pending = []
    for tname, trait, body in impls:
        flat = " ".join(body.split())
        if tname in kind:
            raise Bad("two impls for %s" % tname)
        if re.fullmatch(r"remapper\.map_[a-z_]+\(&?self\)", flat):
            kind[tname] = "leaf-remapped"
            continue
        if flat == "Ok(self)" or re.search(r"\breturn Ok\(self\);", flat):
            kind[tname] = "identity"
            continue
        if tname in structs:
            lits = struct_literals(body, tname)
            if not lits:
                raise Bad("impl for struct %s: no `%s { … }` literal found" % (tname, tname))
            kind[tname] = "fields"
            for f, t in structs[tname]:
                treats = set()
                for lit in lits:
                    if f not in lit:
                        raise Bad("impl for struct %s: field %s missing in a literal" % (tname, f))
                    treats.add(classify_expr(lit[f], ["self." + f]))
                treat = treats.pop() if len(treats) == 1 else "custom"
                pending.append((tname, f, treat, t))
            for lit in lits:
                for f in lit:
                    if f not in dict(structs[tname]):
                        raise Bad("impl for struct %s: literal names unknown field %s" % (tname, f))
        elif tname in enums:
            kind[tname] = "fields"
            arms = parse_match_arms(body, tname)
            seen = {}
            for pat, expr in arms:
                alts = split_top(pat, "|")
                for alt in alts:
                    vname, binds = variant_pattern(alt, tname)
                    vdef = dict(enums[tname]).get(vname)
                    if vdef is None:
                        raise Bad("impl for enum %s: unknown variant %s" % (tname, vname))
                    if vname in seen:
                        raise Bad("impl for enum %s: variant %s matched twice" % (tname, vname))
                    if expr == "self":
                        seen[vname] = [(p, "kept") for p, _ in vdef]
                        continue
                    if len(alts) != 1:
                        raise Bad("impl for enum %s: or-pattern with a rebuilding arm" % tname)
                    em = re.match(r"%s\s*(.*)$" % re.escape(vname), expr, flags=re.S)
                    if not em:
                        raise Bad("impl for enum %s: arm for %s does not rebuild the same variant: %r" % (tname, vname, expr[:80]))
                    rest = em.group(1).strip()
                    if not vdef:
                        if rest:
                            raise Bad("impl for enum %s: arm for unit variant %s: %r" % (tname, vname, expr[:80]))
                        seen[vname] = []
                        continue
                    if binds is None or binds == "rest":
                        raise Bad("impl for enum %s: arm for %s rebuilds without binding the payload" % (tname, vname))
                    bd = dict(binds)
                    if rest.startswith("("):
                        args = split_top(rest[1:matching(rest, 0)])
                        if len(args) != len(vdef):
                            raise Bad("impl for enum %s: arm for %s has %d arguments, variant has %d" % (tname, vname, len(args), len(vdef)))
                        seen[vname] = [(p, classify_expr(a, [bd.get(p, "?")])) for (p, _), a in zip(vdef, args)]
                    elif rest.startswith("{"):
                        lit = struct_literals(expr, vname)[0]
                        res = []
                        for p, _ in vdef:
                            if p not in lit:
                                raise Bad("impl for enum %s: arm for %s misses field %s" % (tname, vname, p))
                            res.append((p, classify_expr(lit[p], [bd.get(p, "?")])))
                        seen[vname] = res
                    else:
                        raise Bad("impl for enum %s: arm for %s not understood: %r" % (tname, vname, expr[:80]))
            for vname, vdef in enums[tname]:
                if vname not in seen:
                    raise Bad("impl for enum %s: no arm for variant %s" % (tname, vname))
                for (p, t), (p2, treat) in zip(vdef, seen[vname]):
                    pending.append((tname, "%s.%s" % (vname, p), treat, t))
        else:
            raise Bad("impl for %s: neither a parsed struct nor enum, nor a leaf/identity impl" % tname)
    # a position remapped through an identity impl is in fact kept
    for tname, pos, treat, t in pending:
        note = ""
        if treat == "remapped-direct":
            treat = "remapped"
        elif treat == "remapped":
            head = type_atoms(t)[0]   # the type under Option / Vec; its generic arguments are not remapped
            k = "leaf-remapped" if head == "T" else kind.get(head)
            if k == "identity":
                treat, note = "kept", "goes through `impl Mappable for %s`, which returns `self`" % head
            elif k is None:
                raise Bad("%s.%s is remapped but there is no impl for its type %s" % (tname, pos, t))
        rows.append((tname, pos, treat, field_carries(tname, pos, t, carries), t, note))
    rows.sort(key=lambda r: (r[0], r[1]))
    return rows, kind


def ident(t, p):
    return "id_%s_%s" % (t, re.sub(r"[^A-Za-z0-9]", "_", p))


def render(rows, kind):
    L = []
    L.append("/-! GENERATED by translate/remap_fields_to_lean.py from dukebox/src/remap.rs and duke/src/tree/**.rs — do not edit.")
    L.append("One row per field of every struct and per payload of every enum variant that has a `Mappable` impl:")
    L.append("what the impl does with it, and whether its type can carry a class / field / method reference. -/")
    L.append("")
    L.append("namespace Gen.RemapFields")
    L.append("")
    L.append("inductive Treat where")
    L.append("  | kept | remapped | dropped | custom")
    L.append("  deriving DecidableEq, Repr")
    L.append("")
    L.append("structure Row where")
    L.append("  id : Nat")
    L.append("  treat : Treat")
    L.append("  carries : Bool")
    L.append("  deriving DecidableEq, Repr")
    L.append("")
    for i, (t, p, treat, c, ty, note) in enumerate(rows):
        L.append("/-- `%s.%s : %s`%s -/" % (t, p, ty, (" — " + note) if note else ""))
        L.append("def %s : Nat := %d" % (ident(t, p), i))
    L.append("")
    L.append("def table : List Row := [")
    for i, (t, p, treat, c, ty, note) in enumerate(rows):
        L.append("  ⟨%d, .%s, %s⟩%s  -- %s.%s" % (i, treat, "true" if c else "false", "," if i + 1 < len(rows) else "", t, p))
    L.append("]")
    L.append("")
    L.append("/-- types whose impl hands the value to the remapper -/")
    L.append("def leafRemapped : List String := [%s]" % ", ".join('"%s"' % k for k in sorted(kind) if kind[k] == "leaf-remapped"))
    L.append("/-- types whose impl returns `self` unchanged -/")
    L.append("def identityImpls : List String := [%s]" % ", ".join('"%s"' % k for k in sorted(kind) if kind[k] == "identity"))
    L.append("")
    L.append("end Gen.RemapFields")
    return "\n".join(L) + "\n"


def main():
    try:
        rows, kind = translate()
        text = render(rows, kind)
    except Bad as e:
        sys.stderr.write("remap_fields_to_lean: %s\n" % e)
        return 1
    try:
        if open(OUT).read() == text:
            return 0
    except OSError:
        pass
    os.makedirs(os.path.dirname(OUT), exist_ok=True)
    tmp = OUT + ".tmp%d" % os.getpid()
    with open(tmp, "w") as f:
        f.write(text)
    os.replace(tmp, OUT)
    return 0


if __name__ == "__main__":
    sys.exit(main())
