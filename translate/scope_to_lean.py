#!/usr/bin/env python3
"""Translator for C19: maven_dependency_resolver/src/lib.rs  ->  lean/FeatherModel/Gen/ScopeTable.lean

Extracts, from the Rust source as it is *now*:
  * the variants of `enum DependencyScope`,
  * the match arms of `fn the_scope_table(left_column, top_row)`,
  * the string tables of `impl Display for DependencyScope` and `impl FromStr for DependencyScope`,
and writes them as Lean data (Nat ids, code-point lists; no strings, so `decide` works).

Scope ids are assigned BY NAME (not by position): Compile 0, Runtime 1, Test 2, System 3, Provided 4.
The repo is read from $VERIF_REPO (default /repo). The output file is written only when its content changes.
Exit status is non-zero when the source cannot be parsed by the small grammar below (= broken tie).
"""
import os, re, sys

REPO = os.environ.get("VERIF_REPO", "/repo").rstrip("/")
SRC = os.path.join(REPO, "maven_dependency_resolver", "src", "lib.rs")
OUT = os.path.join(os.path.dirname(os.path.dirname(os.path.abspath(__file__))), "lean", "FeatherModel", "Gen", "ScopeTable.lean")

IDS = {"Compile": 0, "Runtime": 1, "Test": 2, "System": 3, "Provided": 4}
ENUM = "DependencyScope"


class Bad(Exception):
    pass


def strip_comments(src):
    """remove // line comments and /* */ block comments, keep string literals intact"""
    out = []
    i, n = 0, len(src)
    while i < n:
        c = src[i]
        if c == '"':
            j = i + 1
            while j < n and src[j] != '"':
                j += 2 if src[j] == "\\" else 1
            out.append(src[i:j + 1])
            i = j + 1
        elif src.startswith("//", i):
            j = src.find("\n", i)
            i = n if j < 0 else j
        elif src.startswith("/*", i):
            j = src.find("*/", i + 2)
            if j < 0:
                raise Bad("unterminated block comment")
            i = j + 2
        else:
            out.append(c)
            i += 1
    return "".join(out)


def block_after(src, start):
    """text between the `{` at/after index start and its matching `}` (strings respected)"""
    i = src.find("{", start)
    if i < 0:
        raise Bad("no `{` found")
    depth, j, n = 0, i, len(src)
    while j < n:
        c = src[j]
        if c == '"':
            j += 1
            while j < n and src[j] != '"':
                j += 2 if src[j] == "\\" else 1
        elif c == "{":
            depth += 1
        elif c == "}":
            depth -= 1
            if depth == 0:
                return src[i + 1:j], j + 1
        j += 1
    raise Bad("unbalanced braces")


def split_top(s, sep):
    """split at separator characters that are not nested in () [] {} or strings"""
    parts, cur, depth, i, n = [], [], 0, 0, len(s)
    while i < n:
        c = s[i]
        if c == '"':
            j = i + 1
            while j < n and s[j] != '"':
                j += 2 if s[j] == "\\" else 1
            cur.append(s[i:j + 1])
            i = j + 1
            continue
        if c in "([{":
            depth += 1
        elif c in ")]}":
            depth -= 1
        if c == sep and depth == 0:
            parts.append("".join(cur))
            cur = []
        else:
            cur.append(c)
        i += 1
    parts.append("".join(cur))
    return parts


def variant_id(tok):
    m = re.fullmatch(r"(?:%s|Self)::([A-Za-z]+)" % ENUM, tok.strip())
    if not m:
        raise Bad("expected a %s variant, got %r" % (ENUM, tok.strip()))
    if m.group(1) not in IDS:
        raise Bad("unknown scope variant %r" % m.group(1))
    return IDS[m.group(1)]


def parse_enum(src):
    m = re.search(r"\benum\s+%s\s*\{" % ENUM, src)
    if not m:
        raise Bad("enum %s not found" % ENUM)
    body, _ = block_after(src, m.start())
    body = re.sub(r"#\[[^\]]*\]", "", body)
    names = [x.strip() for x in body.split(",") if x.strip()]
    ids = []
    for nme in names:
        if not re.fullmatch(r"[A-Za-z]+", nme):
            raise Bad("cannot parse enum variant %r" % nme)
        if nme not in IDS:
            raise Bad("unknown scope variant %r (the model knows %s)" % (nme, sorted(IDS)))
        ids.append(IDS[nme])
    if sorted(ids) != sorted(IDS.values()):
        raise Bad("enum %s has variants %s, expected exactly %s" % (ENUM, names, sorted(IDS)))
    return ids


def parse_pat(p):
    """-> ('any',) | ('bind', name) | ('oneOf', [ids])"""
    p = p.strip()
    if p == "_":
        return ("any",)
    if re.fullmatch(r"[a-z_][a-z0-9_]*", p):
        return ("bind", p)
    return ("oneOf", [variant_id(x) for x in p.split("|")])


def parse_table(src):
    m = re.search(r"\bfn\s+the_scope_table\s*\(([^)]*)\)\s*->\s*Option\s*<\s*%s\s*>" % ENUM, src)
    if not m:
        raise Bad("fn the_scope_table(..) -> Option<%s> not found" % ENUM)
    params = []
    for p in m.group(1).split(","):
        pm = re.fullmatch(r"\s*([a-z_][a-z0-9_]*)\s*:\s*%s\s*" % ENUM, p)
        if not pm:
            raise Bad("cannot parse parameter %r" % p)
        params.append(pm.group(1))
    if params != ["left_column", "top_row"]:
        raise Bad("the_scope_table parameters are %s, expected [left_column, top_row]" % params)
    body, _ = block_after(src, m.end())
    mm = re.fullmatch(r"\s*match\s*\(\s*([a-z_]+)\s*,\s*([a-z_]+)\s*\)\s*\{(.*)\}\s*", body, flags=re.S)
    if not mm:
        raise Bad("body of the_scope_table is not a single `match (a, b) { .. }`")
    scrut = [mm.group(1), mm.group(2)]
    if sorted(scrut) != sorted(params):
        raise Bad("match scrutinee %s is not a permutation of the parameters" % scrut)
    arms = []
    for arm in split_top(mm.group(3), ","):
        if not arm.strip():
            continue
        am = re.fullmatch(r"\s*\((.*)\)\s*=>\s*(.*?)\s*", arm, flags=re.S)
        if not am:
            raise Bad("cannot parse match arm %r" % arm.strip())
        pats = split_top(am.group(1), ",")
        if len(pats) != 2:
            raise Bad("arm pattern is not a pair: %r" % arm.strip())
        pats = [parse_pat(p) for p in pats]
        # what an identifier on the right-hand side denotes: a function parameter, possibly shadowed by a binding
        env = {"left_column": "left", "top_row": "top"}
        for k, p in enumerate(pats):
            if p[0] == "bind":
                env[p[1]] = env_of_param(scrut[k])
        rhs = am.group(2).strip()
        if rhs == "None":
            r = ".none"
        else:
            rm = re.fullmatch(r"Some\s*\(\s*(.*?)\s*\)", rhs)
            if not rm:
                raise Bad("cannot parse arm result %r" % rhs)
            inner = rm.group(1)
            if re.fullmatch(r"[a-z_][a-z0-9_]*", inner):
                if inner not in env:
                    raise Bad("unknown identifier %r in arm result" % inner)
                r = "." + env[inner]
            else:
                r = ".const %d" % variant_id(inner)
        byparam = {scrut[0]: pats[0], scrut[1]: pats[1]}
        arms.append((byparam["left_column"], byparam["top_row"], r))
    if not arms:
        raise Bad("the_scope_table has no arms")
    return arms


def env_of_param(name):
    return {"left_column": "left", "top_row": "top"}[name]


def lean_pat(p):
    if p[0] in ("any", "bind"):
        return ".any"
    return "(.oneOf [%s])" % ", ".join(str(i) for i in p[1])


def match_arms(body, what):
    """arms of the single `match .. { .. }` inside an impl body"""
    mm = re.search(r"\bmatch\s+[A-Za-z_][A-Za-z0-9_]*\s*\{", body)
    if not mm:
        raise Bad("%s: `match <ident> {` not found" % what)
    arms, _ = block_after(body, mm.start())
    if re.search(r"\bmatch\b", arms):
        raise Bad("%s: nested match" % what)
    return [a.strip() for a in split_top(arms, ",") if a.strip()]


def parse_strings(src):
    """Display: every arm is `Variant => "text"`;  FromStr: literal arms `"text" => Variant`, then one catch-all `bail!`.
    Every arm must be understood completely (or-patterns, guards, anything else = broken tie)."""
    m = re.search(r"impl\s+Display\s+for\s+%s\s*\{" % ENUM, src)
    if not m:
        raise Bad("impl Display for %s not found" % ENUM)
    body, _ = block_after(src, m.start())
    disp = []
    for arm in match_arms(body, "Display for %s" % ENUM):
        am = re.fullmatch(r"((?:%s|Self)::[A-Za-z]+)\s*=>\s*\"([^\"\\]*)\"" % ENUM, arm)
        if not am:
            raise Bad("Display for %s: cannot parse arm %r" % (ENUM, arm))
        disp.append((variant_id(am.group(1)), am.group(2)))
    m = re.search(r"impl\s+FromStr\s+for\s+%s\s*\{" % ENUM, src)
    if not m:
        raise Bad("impl FromStr for %s not found" % ENUM)
    body, _ = block_after(src, m.start())
    arms = match_arms(body, "FromStr for %s" % ENUM)
    if not arms or not re.fullmatch(r"[a-z_][a-z0-9_]*\s*=>\s*bail!\(.*\)", arms[-1], flags=re.S):
        raise Bad("FromStr for %s: the last arm is not a catch-all `bail!`" % ENUM)
    frm = []
    for arm in arms[:-1]:
        am = re.fullmatch(r"\"([^\"\\]*)\"\s*=>\s*((?:%s|Self)::[A-Za-z]+)" % ENUM, arm)
        if not am:
            raise Bad("FromStr for %s: cannot parse arm %r" % (ENUM, arm))
        frm.append((am.group(1), variant_id(am.group(2))))
    if len(disp) == 0 or len(frm) == 0:
        raise Bad("empty Display / FromStr table for %s" % ENUM)
    if sorted(i for i, _ in disp) != sorted(IDS.values()):
        raise Bad("Display for %s does not have exactly one arm per variant" % ENUM)
    return disp, frm


def cps(s):
    return "[%s]" % ", ".join(str(ord(c)) for c in s)


def main():
    try:
        src = strip_comments(open(SRC, encoding="utf-8").read())
        variants = parse_enum(src)
        arms = parse_table(src)
        disp, frm = parse_strings(src)
    except (Bad, OSError) as e:
        sys.stderr.write("scope_to_lean.py: cannot translate %s: %s\n" % (SRC, e))
        return 1
    lines = []
    lines.append("/-! GENERATED by translate/scope_to_lean.py from maven_dependency_resolver/src/lib.rs — do not edit.")
    lines.append("Regenerated on every check run; holds what the Rust source says now.")
    lines.append("Scope ids (assigned by variant name): 0 Compile, 1 Runtime, 2 Test, 3 System, 4 Provided. -/")
    lines.append("")
    lines.append("namespace Gen.ScopeTable")
    lines.append("")
    lines.append("/-- one component of an arm's pattern: wildcard / binding, or an or-pattern of variants -/")
    lines.append("inductive Pat where")
    lines.append("  | any")
    lines.append("  | oneOf (ids : List Nat)")
    lines.append("")
    lines.append("/-- arm result: `None`, `Some(variant)`, `Some(left_column)`, `Some(top_row)` -/")
    lines.append("inductive Rhs where")
    lines.append("  | none")
    lines.append("  | const (id : Nat)")
    lines.append("  | left")
    lines.append("  | top")
    lines.append("")
    lines.append("/-- a match arm, patterns keyed by the *function parameter* they test (scrutinee order normalised) -/")
    lines.append("structure Arm where")
    lines.append("  left : Pat")
    lines.append("  top : Pat")
    lines.append("  rhs : Rhs")
    lines.append("")
    lines.append("/-- `enum DependencyScope` variants in declaration order -/")
    lines.append("def variants : List Nat := [%s]" % ", ".join(str(i) for i in variants))
    lines.append("")
    lines.append("/-- arms of `the_scope_table(left_column, top_row)`, first match wins -/")
    lines.append("def arms : List Arm := [")
    lines.append(",\n".join("  { left := %s, top := %s, rhs := %s }" % (lean_pat(l), lean_pat(t), r) for l, t, r in arms))
    lines.append("]")
    lines.append("")
    lines.append("/-- `impl Display for DependencyScope` -/")
    lines.append("def display : List (Nat × List Nat) := [")
    lines.append(",\n".join("  (%d, %s)" % (i, cps(s)) for i, s in disp))
    lines.append("]")
    lines.append("")
    lines.append("/-- `impl FromStr for DependencyScope` (literal arms in order; anything else is an error) -/")
    lines.append("def fromStr : List (List Nat × Nat) := [")
    lines.append(",\n".join("  (%s, %d)" % (cps(s), i) for s, i in frm))
    lines.append("]")
    lines.append("")
    lines.append("end Gen.ScopeTable")
    text = "\n".join(lines) + "\n"
    try:
        if open(OUT, encoding="utf-8").read() == text:
            return 0
    except OSError:
        pass
    os.makedirs(os.path.dirname(OUT), exist_ok=True)
    tmp = OUT + ".tmp%d" % os.getpid()
    with open(tmp, "w", encoding="utf-8") as f:
        f.write(text)
    os.replace(tmp, OUT)
    return 0


if __name__ == "__main__":
    sys.exit(main())
