#!/usr/bin/env python3
"""The reader half of insn_arms_to_lean.py: regenerates lean/FeatherModel/Gen/ReaderArms.lean only.

C01's theorems depend on the reader tables alone, so its check does not run (and cannot be broken by) the translation of
simple_class_writer.rs; C02 runs insn_arms_to_lean.py, which regenerates both files."""
import os, sys

sys.path.insert(0, os.path.dirname(os.path.abspath(__file__)))
import insn_arms_to_lean

if __name__ == "__main__":
    sys.exit(insn_arms_to_lean.main([sys.argv[0], "reader"]))
