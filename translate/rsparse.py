"""Small helpers shared by constants_to_lean.py and insn_arms_to_lean.py: a lexical view of Rust source that is just
good enough for the regular pieces those translators read (constant modules, flat `match` blocks).

Everything here is strict: what is not understood raises `Bad`, the translator then exits non-zero (= broken tie).
"""
import os, re

REPO = os.environ.get("VERIF_REPO", "/repo").rstrip("/")
VERIF = os.path.dirname(os.path.dirname(os.path.abspath(__file__)))
GEN = os.path.join(VERIF, "lean", "FeatherModel", "Gen")


class Bad(Exception):
    pass


def read(rel):
    path = os.path.join(REPO, rel)
    try:
        return open(path, encoding="utf-8").read()
    except OSError as e:
        raise Bad("cannot read %s: %s" % (path, e))


def _skip_string(src, i):
    """src[i] == '"': index just past the closing quote"""
    j, n = i + 1, len(src)
    while j < n and src[j] != '"':
        j += 2 if src[j] == "\\" else 1
    if j >= n:
        raise Bad("unterminated string literal")
    return j + 1


def _char_literal_end(src, i):
    """src[i] == "'": if a char / byte literal starts here return the index past it, else None (lifetime)"""
    m = re.compile(r"'(?:\\(?:x[0-9a-fA-F]{2}|u\{[0-9a-fA-F]{1,6}\}|.)|[^\\'])'").match(src, i)
    return m.end() if m else None


def strip_comments(src):
    """remove // line comments (incl. doc comments) and /* */ block comments; string and char literals stay intact"""
    out = []
    i, n = 0, len(src)
    while i < n:
        c = src[i]
        if c == '"':
            j = _skip_string(src, i)
            out.append(src[i:j])
            i = j
        elif c == "'":
            j = _char_literal_end(src, i)
            if j is None:
                out.append(c)
                i += 1
            else:
                out.append(src[i:j])
                i = j
        elif src.startswith("//", i):
            j = src.find("\n", i)
            i = n if j < 0 else j
        elif src.startswith("/*", i):
            depth, j = 1, i + 2
            while j < n and depth:
                if src.startswith("/*", j):
                    depth += 1
                    j += 2
                elif src.startswith("*/", j):
                    depth -= 1
                    j += 2
                else:
                    j += 1
            if depth:
                raise Bad("unterminated block comment")
            i = j
        else:
            out.append(c)
            i += 1
    return "".join(out)


OPEN = {"(": ")", "[": "]", "{": "}"}
CLOSE = {")", "]", "}"}


def matching(src, i):
    """src[i] is an opening bracket: index of the matching closing bracket (strings / char literals respected)"""
    want = [OPEN[src[i]]]
    j, n = i + 1, len(src)
    while j < n:
        c = src[j]
        if c == '"':
            j = _skip_string(src, j)
            continue
        if c == "'":
            k = _char_literal_end(src, j)
            if k is not None:
                j = k
                continue
        if c in OPEN:
            want.append(OPEN[c])
        elif c in CLOSE:
            if c != want[-1]:
                raise Bad("mismatched bracket %r" % c)
            want.pop()
            if not want:
                return j
        j += 1
    raise Bad("unbalanced brackets")


def block_after(src, start):
    """text between the first `{` at/after index start and its matching `}`; also the index past the `}`"""
    i = src.find("{", start)
    if i < 0:
        raise Bad("no `{` found")
    j = matching(src, i)
    return src[i + 1:j], j + 1


def split_top(s, sep):
    """split at separator characters that are not nested in () [] {} or strings; `=>` and `..=` never split on `=`/`.`"""
    parts, cur, i, n = [], [], 0, len(s)
    depth = 0
    while i < n:
        c = s[i]
        if c == '"':
            j = _skip_string(s, i)
            cur.append(s[i:j])
            i = j
            continue
        if c == "'":
            j = _char_literal_end(s, i)
            if j is not None:
                cur.append(s[i:j])
                i = j
                continue
        if c in OPEN:
            depth += 1
        elif c in CLOSE:
            depth -= 1
        if c == sep and depth == 0:
            parts.append("".join(cur))
            cur = []
        else:
            cur.append(c)
        i += 1
    parts.append("".join(cur))
    return parts


def match_arms(body):
    """the arms of a `match` body (text between its braces) as (pattern text, right-hand side text) pairs.

    An arm is `pattern => expr ,` or `pattern => { block }` with an optional comma. The pattern text may contain
    `|`, `..=`, `@`, parentheses and an `if` guard; it is returned verbatim (whitespace normalised)."""
    arms, i, n = [], 0, len(body)
    while True:
        while i < n and body[i] in " \t\r\n,":
            i += 1
        if i >= n:
            break
        # pattern: up to the top-level `=>`
        j, depth = i, 0
        while j < n:
            c = body[j]
            if c == '"':
                j = _skip_string(body, j)
                continue
            if c == "'":
                k = _char_literal_end(body, j)
                if k is not None:
                    j = k
                    continue
            if c in OPEN:
                depth += 1
            elif c in CLOSE:
                depth -= 1
            elif c == "=" and depth == 0 and body.startswith("=>", j):
                break
            j += 1
        if j >= n:
            raise Bad("match arm without `=>`: %r" % body[i:i + 80])
        pat = " ".join(body[i:j].split())
        j += 2
        while j < n and body[j] in " \t\r\n":
            j += 1
        if j < n and body[j] == "{":
            k = matching(body, j)
            rhs = body[j:k + 1]
            i = k + 1
            # a block arm may be followed by a comma, or by nothing
            t = i
            while t < n and body[t] in " \t\r\n":
                t += 1
            if t < n and body[t] == ",":
                i = t + 1
        else:
            k, depth = j, 0
            while k < n:
                c = body[k]
                if c == '"':
                    k = _skip_string(body, k)
                    continue
                if c == "'":
                    kk = _char_literal_end(body, k)
                    if kk is not None:
                        k = kk
                        continue
                if c in OPEN:
                    depth += 1
                elif c in CLOSE:
                    depth -= 1
                    if depth < 0:
                        raise Bad("unbalanced match arm")
                elif c == "," and depth == 0:
                    break
                k += 1
            rhs = body[j:k]
            i = k + 1
        arms.append((pat, " ".join(rhs.split())))
    return arms


def find_fn(src, name):
    """body (text between the braces) of `fn name` — the first one found; generics / where clauses allowed"""
    m = re.search(r"\bfn\s+%s\b" % re.escape(name), src)
    if not m:
        raise Bad("fn %s not found" % name)
    # the parameter list comes first: skip it, then the body is the next `{`
    p = src.find("(", m.end())
    if p < 0:
        raise Bad("fn %s: no parameter list" % name)
    q = matching(src, p)
    body, _ = block_after(src, q)
    return body


def find_match(src, scrutinee_re, start=0, what="match"):
    """body of the first `match <scrutinee> {` at/after start whose scrutinee text matches the regex; also its end index"""
    for m in re.finditer(r"\bmatch\s+(%s)\s*\{" % scrutinee_re, src[start:]):
        i = start + m.end() - 1
        j = matching(src, i)
        return src[i + 1:j], j + 1
    raise Bad("%s: `match %s {` not found" % (what, scrutinee_re))


def parse_int(tok):
    """Rust integer literal (underscores, 0x / 0o / 0b, optional type suffix)"""
    t = tok.strip()
    m = re.fullmatch(r"(0x[0-9a-fA-F_]+|0o[0-7_]+|0b[01_]+|[0-9][0-9_]*)((?:u|i)(?:8|16|32|64|128|size))?", t)
    if not m:
        raise Bad("not an integer literal: %r" % tok)
    lit = m.group(1).replace("_", "")
    if lit.startswith("0x"):
        return int(lit[2:], 16)
    if lit.startswith("0o"):
        return int(lit[2:], 8)
    if lit.startswith("0b"):
        return int(lit[2:], 2)
    return int(lit, 10)


def cps(s):
    return "[%s]" % ", ".join(str(ord(c)) for c in s)


def write_if_changed(path, text):
    try:
        if open(path, encoding="utf-8").read() == text:
            return False
    except OSError:
        pass
    os.makedirs(os.path.dirname(path), exist_ok=True)
    tmp = path + ".tmp%d" % os.getpid()
    with open(tmp, "w", encoding="utf-8") as f:
        f.write(text)
    os.replace(tmp, path)
    return True
