#!/usr/bin/env python3
"""Translator for C01 / C02: the opcode dispatch tables of duke's class reader and writer

    duke/src/class_reader.rs  (`read_code`, both passes; `read_stack_map_frame`; `read_verification_type_info`;
                               `read_element_values_named` / `read_element_value_unnamed`)
    duke/src/class_reader/pool.rs (`PoolRead::read`)                    ->  lean/FeatherModel/Gen/ReaderArms.lean
    duke/src/simple_class_writer.rs (`write_code`, `if_helper`, `write_verification_type_info`)
    duke/src/simple_class_writer/pool.rs (`PoolWrite::write`)           ->  lean/FeatherModel/Gen/WriterArms.lean

Opcodes and pool tags are written as their numeric values (resolved through duke/src/class_constants.rs), an
`Instruction` constructor as its declaration index in `enum Instruction` (duke/src/tree/method/code.rs); the table
index -> constructor name (code points) is generated into BOTH files. The opcode dispatches are emitted as DENSE tables
keyed by position - one entry per opcode byte 0..255 (reader) resp. per constructor index (writer) - so that a theorem
over the whole table is one linear pass for the kernel; an opcode without an arm gets the entry "no arm".

What is translated mechanically
  * pass 1: every arm, by what it does with the operand bytes (nothing / `r.skip(n)` / 16- or 32-bit branch target /
    `wide` sub-match / switches / `bail!`), opcode ranges `A..=B` expanded;
  * pass 2: every "straight" arm `opcode::X => Instruction::Y(args)` and every straight-line block arm
    (`let a = <read>; ..; Instruction::Y(a, ..)`): opcode, constructor, the reader primitives called in order and the
    resolver applied; the `*load_<n>` / `*store_<n>` range arms: the arithmetic constants and the inner opcode ->
    constructor match; the `wide` sub-match;
  * writer: unit arms, straight-line block arms (opcode, the `write_*` widths in order, the `pool.put_*` used),
    `if_helper` arms (opcode, opposite opcode), `goto_helper` arms (opcode, wide opcode), the local-variable family
    arms (inner constructor -> opcode match and the arithmetic constants), the opcodes of the form-choosing arms
    (`Ldc`, `IInc`, `Ret`) and of the switches.
What is only PINNED (the statement text, whitespace-normalised, string literals blanked, must equal the text this
translator was written against - their behaviour is hand-modelled and tied by the correspondence run): the bodies of
the switch arms of both passes and of the writer, the form-choosing writer arms `Ldc` / `IInc` / `Ret`.

Usage: insn_arms_to_lean.py [reader|writer]   (default: both parts). Anything not understood = exit status 1.
"""
import os, re, sys

sys.path.insert(0, os.path.dirname(os.path.abspath(__file__)))
from rsparse import (Bad, REPO, GEN, read, strip_comments, block_after, matching, split_top, match_arms, find_fn,
                     find_match, parse_int, cps, write_if_changed)
import constants_to_lean as K

OUT_R = os.path.join(GEN, "ReaderArms.lean")
OUT_W = os.path.join(GEN, "WriterArms.lean")


def norm(s):
    """whitespace-normalised text with the contents of string literals blanked"""
    s = re.sub(r'"(?:[^"\\]|\\.)*"', '""', s)
    s = " ".join(s.split())
    s = re.sub(r"\s*([(){}\[\],;])\s*", r"\1", s)
    return s


# ------------------------------------------------------------------ constants and the Instruction enum

def load_constants():
    src = K.strip_attrs(strip_comments(read(K.SRC)))
    numeric, strings, modules = {}, {}, []
    K.parse_items(src, [], numeric, strings, modules)
    def table(path):
        if tuple(path) not in numeric:
            raise Bad("class_constants.rs has no numeric module %s" % "::".join(path))
        return {nm: v for nm, v, _ in numeric[tuple(path)]}
    return {"opcode": table(["opcode"]), "pool": table(["pool"]), "mh": table(["pool", "method_handle_reference"]),
            "atype": table(["atype"])}


def parse_enum(src, name):
    """variants of `enum name` in declaration order: (variant, kind 0 unit / 1 tuple / 2 struct, number of fields)"""
    m = re.search(r"\benum\s+%s\s*\{" % name, src)
    if not m:
        raise Bad("enum %s not found" % name)
    body, _ = block_after(src, m.end() - 1)
    body = K.strip_attrs(body)
    out = []
    for v in split_top(body, ","):
        v = " ".join(v.split())
        if not v:
            continue
        g = re.fullmatch(r"([A-Z][A-Za-z0-9]*)\s*(\(.*\)|\{.*\})?", v)
        if not g:
            raise Bad("enum %s: cannot parse variant %r" % (name, v))
        if g.group(2) is None:
            out.append((g.group(1), 0, 0))
        else:
            inner = g.group(2)[1:-1]
            nf = len([x for x in split_top(inner, ",") if x.strip()])
            out.append((g.group(1), 1 if g.group(2)[0] == "(" else 2, nf))
    if len({v[0] for v in out}) != len(out):
        raise Bad("enum %s has duplicate variants" % name)
    return out


class Ctx:
    def __init__(self):
        self.c = load_constants()
        self.variants = parse_enum(strip_comments(read("duke/src/tree/method/code.rs")), "Instruction")
        self.ctor = {v[0]: i for i, v in enumerate(self.variants)}

    def op(self, name):
        if name not in self.c["opcode"]:
            raise Bad("unknown opcode constant opcode::%s" % name)
        return self.c["opcode"][name]

    def ctor_idx(self, name):
        if name not in self.ctor:
            raise Bad("unknown Instruction constructor %s" % name)
        return self.ctor[name]


def expand_pattern(ctx, pat, module="opcode"):
    """-> (list of numeric values | None for a catch-all, binding name or None). Alternatives `|`, ranges `A..=B`,
    `x @ A..=B`, a bare identifier / `_` (catch-all)."""
    tbl = ctx.c[module]
    pfx = {"opcode": "opcode", "pool": "pool", "mh": "method_handle_reference", "atype": "atype"}[module]
    def val(tok):
        tok = tok.strip()
        g = re.fullmatch(r"%s::([A-Z_][A-Z0-9_]*)" % pfx, tok)
        if g:
            if g.group(1) not in tbl:
                raise Bad("unknown constant %s" % tok)
            return tbl[g.group(1)]
        return parse_int(tok)
    pat = pat.strip()
    if re.fullmatch(r"_|[a-z_][a-z0-9_]*", pat):
        return None, (None if pat == "_" else pat)
    bind = None
    g = re.fullmatch(r"([a-z_][a-z0-9_]*)\s*@\s*(.*)", pat)
    if g:
        bind, pat = g.group(1), g.group(2).strip()
        if pat.startswith("(") and pat.endswith(")"):
            pat = pat[1:-1]
    vals = []
    for alt in split_top(pat, "|"):
        alt = alt.strip()
        r = re.fullmatch(r"(.+?)\s*\.\.=\s*(.+)", alt)
        if r:
            lo, hi = val(r.group(1)), val(r.group(2))
            if lo > hi:
                raise Bad("empty range pattern %r" % alt)
            vals.extend(range(lo, hi + 1))
        else:
            vals.append(val(alt))
    return vals, bind


# ------------------------------------------------------------------ reader: primitives

# reader primitives: code, bytes consumed
READS = {
    "read_u8": (1, 1), "read_i8": (2, 1), "read_u16": (3, 2), "read_i16": (4, 2), "read_i32": (5, 4),
    "read_u8_as_local_variable": (6, 1), "read_u16_as_local_variable": (7, 2),
    "read_i16_as_branch_target_label": (8, 2), "read_i32_as_branch_target_label": (9, 4),
}
# what the value read is passed through
RESOLVERS = {
    None: 0, "pool.get_loadable": 1, "pool.get_field_ref": 2, "pool.get_method_ref": 3,
    "pool.get_method_ref_or_interface_method_ref": 4, "pool.get_interface_method_ref": 5, "pool.get_invoke_dynamic": 6,
    "pool.get_class": 7, "ArrayType::from_atype": 8, "labels.try_get": 9,
}


def operand_expr(e):
    """one operand expression of a straight arm -> (list of read codes, resolver code).
    Grammar: READ | RESOLVER(READ [as u16] [, bootstrap_methods])? | labels.try_get(READ(opcode_pos)?)?  with
    READ = r.read_xxx()? or r.read_xxx_as_branch_target_label(opcode_pos)?"""
    e = norm(e)
    rd = r"r\.(read_[a-z0-9_]+)\((opcode_pos)?\)\?"
    g = re.fullmatch(rd, e)
    if g:
        return [read_code_of(g.group(1), g.group(2))], 0
    g = re.fullmatch(r"((?:pool|labels)\.[a-z_]+|ArrayType::from_atype)\(%s( as u16)?(,bootstrap_methods)?\)\?" % rd, e)
    if g:
        fn = g.group(1)
        if fn not in RESOLVERS:
            raise Bad("unknown resolver %s" % fn)
        if bool(g.group(5)) != (fn in ("pool.get_loadable", "pool.get_invoke_dynamic")):
            raise Bad("unexpected argument list in %r" % e)
        if g.group(4) and g.group(2) != "read_u8":
            raise Bad("unexpected cast in %r" % e)
        return [read_code_of(g.group(2), g.group(3))], RESOLVERS[fn]
    raise Bad("cannot parse operand expression %r" % e)


def read_code_of(fn, arg):
    if fn not in READS:
        raise Bad("unknown reader primitive r.%s" % fn)
    if bool(arg) != fn.endswith("_as_branch_target_label"):
        raise Bad("unexpected argument of r.%s" % fn)
    return READS[fn][0]


def straight_arm(ctx, rhs):
    """`Instruction::Y`, `Instruction::Y(e1, ..)` or `{ let p = e; ..; Instruction::Y(a, ..) }` ->
    (constructor index, read codes, resolver code) or None if the arm has another shape"""
    r = rhs.strip()
    lets = []
    if r.startswith("{"):
        inner = r[1:-1].strip()
        stmts = [s.strip() for s in split_top(inner, ";")]
        for s in stmts[:-1]:
            g = re.fullmatch(r"let\s+(\(?[a-z_][a-z_0-9, ]*\)?)\s*=\s*(.+)", s, flags=re.S)
            if not g:
                return None
            lets.append((g.group(1), g.group(2)))
        r = stmts[-1]
    g = re.fullmatch(r"Instruction::([A-Z][A-Za-z0-9]*)\s*(?:\((.*)\))?", r, flags=re.S)
    if not g:
        return None
    ctor = ctx.ctor_idx(g.group(1))
    reads, resolver = [], 0
    if lets:
        # every let is one operand expression; the constructor arguments must be exactly the bound names, in order
        bound = []
        for p, e in lets:
            rs, rv = operand_expr(e)
            reads += rs
            if rv:
                if resolver:
                    raise Bad("two resolvers in one arm: %r" % rhs)
                resolver = rv
            bound += [x.strip() for x in p.strip("()").split(",") if not x.strip().startswith("_")]
        args = [a.strip() for a in split_top(g.group(2) or "", ",") if a.strip()]
        if [re.sub(r"\s+as\s+i16$", "", a) for a in args] != bound:
            raise Bad("block arm does not pass its bindings %s to the constructor: %r" % (bound, rhs))
    elif g.group(2) is not None:
        for a in split_top(g.group(2), ","):
            rs, rv = operand_expr(a)
            reads += rs
            if rv:
                if resolver:
                    raise Bad("two resolvers in one arm: %r" % rhs)
                resolver = rv
    kind, nf = ctx.variants[ctor][1], ctx.variants[ctor][2]
    nargs = 0 if g.group(2) is None else len([a for a in split_top(g.group(2), ",") if a.strip()])
    if kind == 2 or nargs != nf:
        raise Bad("constructor %s applied to %d arguments, declared with %d" % (g.group(1), nargs, nf))
    return ctor, reads, resolver


PIN = {
    "p1_tableswitch": '{align_to_4_byte_boundary(&mut r)?;labels.create(r.read_i32_as_branch_target_label(opcode_pos)?)?;let low = r.read_i32()?;let high = r.read_i32()?;if low > high{bail!("");}let n = high.checked_sub(low).and_then(|n| n.checked_add(1)).with_context(|| anyhow!(""))? as u32;for _ in 0..n{labels.create(r.read_i32_as_branch_target_label(opcode_pos)?)?;}}',
    "p1_lookupswitch": '{align_to_4_byte_boundary(&mut r)?;labels.create(r.read_i32_as_branch_target_label(opcode_pos)?)?;let n = r.read_i32()?;if n < 0{bail!("");}let n = n as u32;for _ in 0..n{let _key = r.read_i32()?;labels.create(r.read_i32_as_branch_target_label(opcode_pos)?)?;}}',
    "p2_tableswitch": '{align_to_4_byte_boundary(&mut r)?;let default = labels.try_get(r.read_i32_as_branch_target_label(opcode_pos)?)?;let low = r.read_i32()?;let high = r.read_i32()?;if low > high{bail!("");}let n = high.checked_sub(low).and_then(|n| n.checked_add(1)).with_context(|| anyhow!(""))? as u32;let mut table = Vec::with_capacity(n as usize);for _ in 0..n{let entry = labels.try_get(r.read_i32_as_branch_target_label(opcode_pos)?)?;table.push(entry);}Instruction::TableSwitch{default,low,high,table}}',
    "p2_lookupswitch": '{align_to_4_byte_boundary(&mut r)?;let default = labels.try_get(r.read_i32_as_branch_target_label(opcode_pos)?)?;let n = r.read_i32()?;if n < 0{bail!("");}let n = n as u32;let mut pairs = Vec::with_capacity(n as usize);for _ in 0..n{let key = r.read_i32()?;let value = labels.try_get(r.read_i32_as_branch_target_label(opcode_pos)?)?;pairs.push((key,value));}Instruction::LookupSwitch{default,pairs}}',
    "w_ldc": '{let is_long_or_double = match loadable{Loadable::Double(_)| Loadable::Long(_)=> true,Loadable::Dynamic(x)=> x.descriptor.as_inner().starts_with(\'D\')|| x.descriptor.as_inner().starts_with(\'J\'),_ => false,};let index = pool.put_loadable(loadable)?;if is_long_or_double{w.write_u8(opcode::@0)?;w.write_u16(index)?;}else if let Ok(index)= u8::try_from(index){w.write_u8(opcode::@1)?;w.write_u8(index)?;}else{w.write_u8(opcode::@2)?;w.write_u16(index)?;}}',
    "w_iinc": '{if let(Ok(index),Ok(value))=(u8::try_from(index.index),i8::try_from(value)){w.write_u8(opcode::@0)?;w.write_u8(index)?;w.write_i8(value)?;}else{w.write_u8(opcode::@1)?;w.write_u8(opcode::@2)?;w.write_u16(index.index)?;w.write_i16(value)?;}}',
    "w_ret": '{if let Ok(index)= u8::try_from(index.index){w.write_u8(opcode::@0)?;w.write_u8(index)?;}else{w.write_u8(opcode::@1)?;w.write_u8(opcode::@2)?;w.write_u16(index.index)?;}}',
    "w_tableswitch": '{w.write_u8(opcode::@0)?;align_to_4_byte_boundary(&mut w)?;switch_helper(&mut w,&labels,&mut unwritten,opcode_pos,instruction_index,default)?;if low > high{bail!("");}let n = high.checked_sub(low).and_then(|x| x.checked_add(1)).with_context(|| anyhow!(""))? as usize;if table.len()!= n{bail!("",table.len());}w.write_i32(low)?;w.write_i32(high)?;for entry in table{switch_helper(&mut w,&labels,&mut unwritten,opcode_pos,instruction_index,entry)?;}}',
    "w_lookupswitch": '{w.write_u8(opcode::@0)?;align_to_4_byte_boundary(&mut w)?;let sorted = pairs.windows(2).all(|x| x[0].0.partial_cmp(&x[1].0).map_or(false,std::cmp::Ordering::is_le));if !sorted{bail!("");}switch_helper(&mut w,&labels,&mut unwritten,opcode_pos,instruction_index,default)?;let n = i32::try_from(pairs.len()).with_context(|| anyhow!("",pairs.len()))?;w.write_i32(n)?;for &(key,ref value)in pairs{w.write_i32(key)?;switch_helper(&mut w,&labels,&mut unwritten,opcode_pos,instruction_index,value)?;}}',
}


def pinned(what, text, ctx=None):
    """compare with the pinned text; `opcode::@k` in the pin stands for an opcode constant, returned by position"""
    got = norm(text)
    pin = PIN[what]
    rx = re.escape(pin)
    n = pin.count("opcode::@")
    for k in range(n):
        rx = rx.replace(re.escape("opcode::@%d" % k), r"opcode::([A-Z_][A-Z0-9_]*)")
    g = re.fullmatch(rx, got)
    if not g:
        raise Bad("the %s arm no longer has the text this translator was written against (its behaviour is "
                  "hand-modelled: re-read it, then update PIN[%r]).\n  expected: %s\n  found   : %s" % (what, what, pin, got))
    return [ctx.op(x) for x in g.groups()]


# ------------------------------------------------------------------ reader: read_code

def is_bail(t):
    return bool(re.fullmatch(r"bail!\(.*\)", t) or re.fullmatch(r"\{bail!\(.*\);?\}", t))


P1_SKIP0, P1_BR16, P1_BR32, P1_TABLE, P1_LOOKUP, P1_WIDE, P1_BAIL = 0, 16, 17, 18, 19, 20, 21


def p1_class(ctx, rhs):
    t = norm(rhs)
    if t == "{}":
        return 0
    g = re.fullmatch(r"\{r\.skip\((\d+)\)\?;\}", t)
    if g:
        n = int(g.group(1))
        if not 1 <= n <= 15:
            raise Bad("pass 1: unexpected skip length %d" % n)
        return n
    if t == "{labels.create(r.read_i16_as_branch_target_label(opcode_pos)?)?;}":
        return P1_BR16
    if t == "{labels.create(r.read_i32_as_branch_target_label(opcode_pos)?)?;}":
        return P1_BR32
    if is_bail(t):
        return P1_BAIL
    if t.startswith("{align_to_4_byte_boundary"):
        for what, code in (("p1_tableswitch", P1_TABLE), ("p1_lookupswitch", P1_LOOKUP)):
            if t == PIN[what]:
                return code
        # neither: report against the closer one
        pinned("p1_tableswitch" if "low" in t else "p1_lookupswitch", rhs, ctx)
    raise Bad("pass 1: cannot classify arm body %r" % t[:200])


def claim(table, seen, vals, entry, what):
    """first matching arm wins (Rust `match`): later arms do not override"""
    for v in vals:
        if v not in seen:
            seen.add(v)
            table.append((v,) + entry)


def reader_part(ctx):
    src = strip_comments(read("duke/src/class_reader.rs"))
    body = find_fn(src, "read_code")
    p1_body, p1_end = find_match(body, r"r\.read_u8\(\)\?", 0, "read_code pass 1")
    p2_body, _ = find_match(body, r"r\.read_u8\(\)\?", p1_end, "read_code pass 2")

    # ---- pass 1
    p1, p1_wide, seen = [], [], set()
    p1_catch = None
    arms = match_arms(p1_body)
    for k, (pat, rhs) in enumerate(arms):
        vals, bind = expand_pattern(ctx, pat)
        if vals is None:
            if k != len(arms) - 1:
                raise Bad("pass 1: catch-all arm is not the last arm")
            p1_catch = p1_class(ctx, rhs)
            continue
        t = norm(rhs)
        if t.startswith("{match r.read_u8()?{"):
            wbody, wend = find_match(rhs, r"r\.read_u8\(\)\?", 0, "pass 1 wide")
            if norm(rhs[wend:]) != "}":
                raise Bad("pass 1: statements after the wide sub-match")
            wseen = set()
            warms = match_arms(wbody)
            for j, (wp, wr) in enumerate(warms):
                wv, _ = expand_pattern(ctx, wp)
                cls = p1_class(ctx, wr)
                if wv is None:
                    if j != len(warms) - 1 or cls != P1_BAIL:
                        raise Bad("pass 1 wide: the catch-all must be the last arm and bail")
                    continue
                if cls > 15:
                    raise Bad("pass 1 wide: unexpected arm class %d" % cls)
                claim(p1_wide, wseen, wv, (cls,), "pass 1 wide")
            claim(p1, seen, vals, (P1_WIDE,), "pass 1")
            continue
        claim(p1, seen, vals, (p1_class(ctx, rhs),), "pass 1")
    if p1_catch != P1_BAIL:
        raise Bad("pass 1: no catch-all `bail!` arm at the end")

    # ---- pass 2
    p2, p2_wide, p2_switch, p2_bail, localn, seen = [], [], [], [], [], set()
    wide_op = None
    arms = match_arms(p2_body)
    p2_catch = False
    for k, (pat, rhs) in enumerate(arms):
        vals, bind = expand_pattern(ctx, pat)
        t = norm(rhs)
        if vals is None:
            if k != len(arms) - 1 or not is_bail(t):
                raise Bad("pass 2: the catch-all must be the last arm and bail")
            p2_catch = True
            continue
        if is_bail(t):
            claim(p2_bail, seen, vals, (), "pass 2")
            continue
        if t.startswith("{match r.read_u8()?{"):
            wbody, wend = find_match(rhs, r"r\.read_u8\(\)\?", 0, "pass 2 wide")
            if norm(rhs[wend:]) != "}":
                raise Bad("pass 2: statements after the wide sub-match")
            wseen = set()
            warms = match_arms(wbody)
            for j, (wp, wr) in enumerate(warms):
                wv, _ = expand_pattern(ctx, wp)
                if wv is None:
                    if j != len(warms) - 1 or not is_bail(norm(wr)):
                        raise Bad("pass 2 wide: the catch-all must be the last arm and bail")
                    continue
                sa = straight_arm(ctx, wr)
                if sa is None:
                    raise Bad("pass 2 wide: cannot parse arm %r" % norm(wr)[:200])
                claim(p2_wide, wseen, wv, sa, "pass 2 wide")
            if len(vals) != 1:
                raise Bad("pass 2: the wide arm covers several opcodes")
            seen.add(vals[0])
            wide_op = vals[0]
            continue
        if t.startswith("{align_to_4_byte_boundary"):
            if len(vals) != 1:
                raise Bad("pass 2: a switch arm covers several opcodes")
            if t == PIN["p2_tableswitch"]:
                kind, ctor = 0, ctx.ctor_idx("TableSwitch")
            elif t == PIN["p2_lookupswitch"]:
                kind, ctor = 1, ctx.ctor_idx("LookupSwitch")
            else:
                pinned("p2_tableswitch" if "low" in t else "p2_lookupswitch", rhs, ctx)
            claim(p2_switch, seen, vals, (ctor, kind), "pass 2")
            continue
        g = re.fullmatch(r"\{let shifted = opcode - opcode::([A-Z0-9_]+);let index = shifted & (\w+);"
                         r"let opcode = opcode::([A-Z0-9_]+) \+\(shifted >> (\d+)\);let index = LvIndex\{index: index as u16\};"
                         r"match opcode\{(.*)\}\}", t)
        if g:
            if bind != "opcode":
                raise Bad("pass 2: the range arm does not bind `opcode`")
            inner = []
            iarms = match_arms(g.group(5))
            for j, (ip, ir) in enumerate(iarms):
                if ip == "_":
                    if j != len(iarms) - 1 or norm(ir) != "unreachable!()":
                        raise Bad("pass 2 range arm: `_` must be last and unreachable!()")
                    continue
                iv, _ = expand_pattern(ctx, ip)
                ig = re.fullmatch(r"Instruction::([A-Z][A-Za-z0-9]*)\(index\)", norm(ir))
                if iv is None or len(iv) != 1 or not ig:
                    raise Bad("pass 2 range arm: cannot parse inner arm %r => %r" % (ip, ir))
                inner.append((iv[0], ctx.ctor_idx(ig.group(1))))
            lo, hi = min(vals), max(vals)
            if vals != list(range(lo, hi + 1)):
                raise Bad("pass 2 range arm: pattern is not one range")
            for v in vals:
                if v in seen:
                    raise Bad("pass 2 range arm overlaps an earlier arm at opcode %d" % v)
                seen.add(v)
            localn.append((lo, hi, ctx.op(g.group(1)), parse_int(g.group(2)), int(g.group(4)), ctx.op(g.group(3)), inner))
            continue
        sa = straight_arm(ctx, rhs)
        if sa is None:
            raise Bad("pass 2: cannot parse arm %s => %s" % (pat, t[:300]))
        claim(p2, seen, vals, sa, "pass 2")
    if not p2_catch:
        raise Bad("pass 2: no catch-all `bail!` arm at the end")
    if wide_op is None:
        raise Bad("pass 2: no `wide` arm found")
    if len(p2_switch) != 2:
        raise Bad("pass 2: expected the two switch arms, found %d" % len(p2_switch))
    if len(localn) != 2:
        raise Bad("pass 2: expected the two range arms (*load_<n>, *store_<n>), found %d" % len(localn))

    # ---- stack map frames
    fbody = find_fn(src, "read_stack_map_frame")
    mbody, _ = find_match(fbody, r"reader\.read_u8\(\)\?", 0, "read_stack_map_frame")
    frames = []
    consts = {}
    for pat, rhs in match_arms(mbody):
        vals, bind = expand_pattern(ctx, pat)
        if vals is None:
            raise Bad("read_stack_map_frame: catch-all arm")
        lo, hi = min(vals), max(vals)
        if vals != list(range(lo, hi + 1)):
            raise Bad("read_stack_map_frame: pattern %r is not one range" % pat)
        t = norm(rhs)
        if is_bail(t):
            frames.append((lo, hi, "bail", 2, 0))
            continue
        vs = set(re.findall(r"StackMapData::([A-Za-z0-9]+)", t))
        if len(vs) != 1:
            raise Bad("read_stack_map_frame: arm %r names %d StackMapData variants" % (pat, len(vs)))
        variant = vs.pop()
        # offset_delta: the tag itself / tag - k / an explicit u16
        if bind and re.match(r"\(%s as u16," % re.escape(bind), t):
            form, base = 0, 0
        elif bind and re.match(r"\(\(%s - (\d+)\)as u16," % re.escape(bind), t):
            form, base = 0, int(re.match(r"\(\(%s - (\d+)\)as u16," % re.escape(bind), t).group(1))
        elif t.startswith("(reader.read_u16()?,") or t.startswith("{let offset_delta = reader.read_u16()?;"):
            form, base = 1, 0
        else:
            raise Bad("read_stack_map_frame: cannot see how arm %r computes offset_delta: %r" % (pat, t[:160]))
        g = re.search(r"k: (\d+) - %s\b" % re.escape(bind or "?"), t)
        if g:
            consts["chopFrom"] = int(g.group(1))
        g = re.search(r"let count = %s - (\d+);" % re.escape(bind or "?"), t)
        if g:
            consts["appendFrom"] = int(g.group(1))
        frames.append((lo, hi, variant, form, base))
    if set(consts) != {"chopFrom", "appendFrom"}:
        raise Bad("read_stack_map_frame: chop / append arithmetic not found")

    # ---- verification types
    vbody = find_fn(src, "read_verification_type_info")
    mbody, _ = find_match(vbody, r"reader\.read_u8\(\)\?", 0, "read_verification_type_info")
    vtypes = []
    arms = match_arms(mbody)
    for k, (pat, rhs) in enumerate(arms):
        vals, bind = expand_pattern(ctx, pat)
        t = norm(rhs)
        if vals is None:
            if k != len(arms) - 1 or not is_bail(t):
                raise Bad("read_verification_type_info: the catch-all must be last and bail")
            continue
        vs = set(re.findall(r"VerificationTypeInfo::([A-Za-z0-9]+)", t))
        if len(vs) != 1 or len(vals) != 1:
            raise Bad("read_verification_type_info: cannot parse arm %r" % pat)
        extra = sum(READS[f][1] for f in re.findall(r"reader\.(read_[a-z0-9_]+)\(\)", t))
        vtypes.append((vals[0], vs.pop(), extra))

    # ---- element values
    elems = {}
    for fn in ("read_element_values_named", "read_element_value_unnamed"):
        ebody = find_fn(src, fn)
        mbody, _ = find_match(ebody, r"reader\.read_u8\(\)\?", 0, fn)
        rows = []
        arms = match_arms(mbody)
        for k, (pat, rhs) in enumerate(arms):
            t = norm(rhs)
            if re.fullmatch(r"_|[a-z_]+", pat):
                if k != len(arms) - 1 or not is_bail(t):
                    raise Bad("%s: the catch-all must be last and bail" % fn)
                continue
            g = re.fullmatch(r"b'(.)'", pat)
            if not g:
                raise Bad("%s: cannot parse tag pattern %r" % (fn, pat))
            objs = set(re.findall(r"Object::([A-Za-z0-9]+)", t))
            visits = set(re.findall(r"outer\.visit_([a-z]+)\(", t))
            getters = re.findall(r"pool\.(get_[a-z_0-9]+)\(", t)
            if len(objs) == 1 and not visits and len(getters) == 1:
                rows.append((ord(g.group(1)), objs.pop(), getters[0]))
            elif not objs and len(visits) == 1:
                rows.append((ord(g.group(1)), visits.pop(), ""))
            else:
                raise Bad("%s: cannot classify arm %r" % (fn, pat))
        elems[fn] = rows

    # ---- constant pool
    psrc = strip_comments(read("duke/src/class_reader/pool.rs"))
    m = re.search(r"\bimpl\s+PoolRead\s*\{", psrc)
    if not m:
        raise Bad("impl PoolRead not found")
    ibody, _ = block_after(psrc, m.end() - 1)
    rbody = find_fn(ibody, "read")
    mbody, _ = find_match(rbody, r"reader\.read_u8\(\)\?", 0, "PoolRead::read")
    pool = []
    arms = match_arms(mbody)
    pwidth = {"read_u8": 1, "read_u16": 2, "read_i32": 4, "read_u32": 4, "read_i64": 8, "read_u64": 8}
    for k, (pat, rhs) in enumerate(arms):
        vals, bind = expand_pattern(ctx, pat, "pool")
        t = norm(rhs)
        if vals is None:
            if k != len(arms) - 1 or not is_bail(t):
                raise Bad("PoolRead::read: the catch-all must be last and bail")
            continue
        if len(vals) != 1:
            raise Bad("PoolRead::read: arm %r covers several tags" % pat)
        vs = set(re.findall(r"PoolEntry::([A-Za-z0-9]+)", t))
        if len(vs) != 1:
            raise Bad("PoolRead::read: arm %r names %d PoolEntry variants" % (pat, len(vs)))
        widths, variable = [], 0
        for f in re.findall(r"reader\.(read_[a-z0-9_]+)\(", t):
            if f == "read_u16_as_usize":
                widths.append(2)
            elif f == "read_u8_vec":
                variable = 1
            elif f in pwidth:
                widths.append(pwidth[f])
            else:
                raise Bad("PoolRead::read: unknown reader primitive %s" % f)
        slots = len(re.findall(r"pool\.push\(", t))
        if len(re.findall(r"pool\.push\(Some\(entry\)\)", t)) != 1 or slots not in (1, 2):
            raise Bad("PoolRead::read: arm %r does not push exactly one entry (and at most one None)" % pat)
        pool.append((vals[0], vs.pop(), widths, variable, slots))

    return dict(p1=p1, p1_wide=p1_wide, p2=p2, p2_wide=p2_wide, wide_op=wide_op, p2_switch=p2_switch, p2_bail=p2_bail,
                localn=localn, frames=frames, consts=consts, vtypes=vtypes, elems=elems, pool=pool)


# ------------------------------------------------------------------ writer

WRITES = {"write_u8": 1, "write_i8": 1, "write_u16": 2, "write_i16": 2, "write_i32": 4}
PUTS = {None: 0, "put_loadable": 1, "put_field_ref": 2, "put_method_ref": 3, "put_method_ref_or_interface_method_ref": 4,
        "put_interface_method_ref": 5, "put_invoke_dynamic": 6, "put_class": 7, "to_atype": 8}


def writer_pattern(ctx, pat):
    """-> list of constructor indices named by the pattern"""
    p = pat.strip()
    g = re.fullmatch(r"[a-z_]+\s*@\s*\((.*)\)", p)
    if g:
        p = g.group(1)
    out = []
    for alt in split_top(p, "|"):
        a = alt.strip().lstrip("&").strip()
        g = re.fullmatch(r"Instruction::([A-Z][A-Za-z0-9]*)\s*(\(.*\)|\{.*\})?", a, flags=re.S)
        if not g:
            raise Bad("write_code: cannot parse pattern %r" % pat)
        out.append(ctx.ctor_idx(g.group(1)))
    return out


def writer_part(ctx):
    src = strip_comments(read("duke/src/simple_class_writer.rs"))
    body = find_fn(src, "write_code")
    mbody, _ = find_match(body, r"&instruction\.instruction", 0, "write_code")
    unit, straight, ifs, gotos, families, forms, switches = [], [], [], [], [], [], []
    seen = set()
    helper_args = r"&mut w,&labels,&wide,&mut unwritten,opcode_pos,instruction_index,label,opcode::([A-Z0-9_]+),opcode::([A-Z0-9_]+)"
    for pat, rhs in match_arms(mbody):
        ctors = writer_pattern(ctx, pat)
        for c in ctors:
            if c in seen:
                raise Bad("write_code: constructor %s matched by two arms" % ctx.variants[c][0])
            seen.add(c)
        t = norm(rhs)
        g = re.fullmatch(r"w\.write_u8\(opcode::([A-Z0-9_]+)\)\?", t)
        if g:
            if len(ctors) != 1 or ctx.variants[ctors[0]][1] != 0:
                raise Bad("write_code: unit arm for a constructor with fields: %r" % pat)
            unit.append((ctors[0], ctx.op(g.group(1))))
            continue
        g = re.fullmatch(r"\{if_helper\(%s\)\?;\}" % helper_args, t)
        if g:
            ifs.append((ctors[0], ctx.op(g.group(1)), ctx.op(g.group(2))))
            continue
        g = re.fullmatch(r"\{goto_helper\(%s\)\?;\}" % helper_args, t)
        if g:
            gotos.append((ctors[0], ctx.op(g.group(1)), ctx.op(g.group(2))))
            continue
        if len(ctors) > 1:
            g = re.fullmatch(r"\{let\(opcode,index\)= match instruction\{(.*)\};let index = index\.index;"
                             r"if index < (\d+)\{let index = index as u8;let opcode =\(\(opcode - opcode::([A-Z0-9_]+)\)<< (\d+) \| index\)\+ opcode::([A-Z0-9_]+);"
                             r"w\.write_u8\(opcode\)\?;\}else if let Ok\(index\)= u8::try_from\(index\)\{w\.write_u8\(opcode\)\?;w\.write_u8\(index\)\?;\}"
                             r"else\{w\.write_u8\(opcode::([A-Z0-9_]+)\)\?;w\.write_u8\(opcode\)\?;w\.write_u16\(index\)\?;\}\}", t)
            if not g:
                raise Bad("write_code: the local-variable family arm %r no longer has the expected shape: %r" % (pat, t))
            inner = []
            iarms = match_arms(g.group(1))
            for j, (ip, ir) in enumerate(iarms):
                if ip == "_":
                    if j != len(iarms) - 1 or norm(ir) != "unreachable!()":
                        raise Bad("write_code family arm: `_` must be last and unreachable!()")
                    continue
                ig = re.fullmatch(r"Instruction::([A-Z][A-Za-z0-9]*)\(index\)", norm(ip))
                og = re.fullmatch(r"\(opcode::([A-Z0-9_]+),index\)", norm(ir))
                if not ig or not og:
                    raise Bad("write_code family arm: cannot parse inner arm %r => %r" % (ip, ir))
                inner.append((ctx.ctor_idx(ig.group(1)), ctx.op(og.group(1))))
            if sorted(c for c, _ in inner) != sorted(ctors):
                raise Bad("write_code family arm: inner match and outer pattern name different constructors")
            families.append((int(g.group(2)), ctx.op(g.group(3)), int(g.group(4)), ctx.op(g.group(5)), ctx.op(g.group(6)), inner))
            continue
        name = ctx.variants[ctors[0]][0]
        if name in ("Ldc", "IInc", "Ret"):
            ops = pinned({"Ldc": "w_ldc", "IInc": "w_iinc", "Ret": "w_ret"}[name], rhs, ctx)
            # the pinned text fixes what the positions mean: Ldc = (ldc2_w, ldc, ldc_w), all plain;
            # IInc / Ret = (narrow form, prefix, opcode after the prefix)
            if name == "Ldc":
                forms.append((ctors[0], ops, []))
            else:
                forms.append((ctors[0], [ops[0]], [(ops[1], ops[2])]))
            continue
        if name in ("TableSwitch", "LookupSwitch"):
            ops = pinned({"TableSwitch": "w_tableswitch", "LookupSwitch": "w_lookupswitch"}[name], rhs, ctx)
            switches.append((ctors[0], ops[0], 0 if name == "TableSwitch" else 1))
            continue
        # straight-line block: `w.write_u8(opcode::X)?; w.write_T(expr)?; ..`
        if not (t.startswith("{") and t.endswith("}")):
            raise Bad("write_code: cannot parse arm %r => %r" % (pat, t[:200]))
        stmts = [s for s in split_top(t[1:-1], ";") if s.strip()]
        g = re.fullmatch(r"w\.write_u8\(opcode::([A-Z0-9_]+)\)\?", stmts[0])
        if not g:
            raise Bad("write_code: block arm %r does not start with the opcode: %r" % (pat, t[:200]))
        widths, put = [], 0
        for s in stmts[1:]:
            sg = re.fullmatch(r"w\.(write_[a-z0-9]+)\((.*)\)\?", s)
            if not sg or sg.group(1) not in WRITES:
                raise Bad("write_code: block arm %r: cannot parse statement %r" % (pat, s))
            widths.append(WRITES[sg.group(1)])
            e = sg.group(2)
            pg = re.fullmatch(r"pool\.(put_[a-z_]+)\(.*\)\?", e)
            ag = re.fullmatch(r"[a-z_]+\.(to_atype)\(\)", e)
            if pg or ag:
                fn = (pg or ag).group(1)
                if fn not in PUTS:
                    raise Bad("write_code: unknown pool function %s" % fn)
                if put:
                    raise Bad("write_code: two pool puts in arm %r" % pat)
                put = PUTS[fn]
            elif not re.fullmatch(r"[a-z_]+|0|method_ref\.desc\.get_arguments_size\(\)\?", e):
                raise Bad("write_code: block arm %r: unexpected operand expression %r" % (pat, e))
        straight.append((ctors[0], ctx.op(g.group(1)), widths, put))
    missing = [v[0] for i, v in enumerate(ctx.variants) if i not in seen]
    if missing:
        raise Bad("write_code: no arm for %s" % missing)

    # if_helper: the trampoline opcode
    hb = find_fn(src, "if_helper")
    tramp = set(re.findall(r"opcode::([A-Z0-9_]+)", hb))
    if len(tramp) != 1:
        raise Bad("if_helper names the opcode constants %s, expected exactly one (GOTO_W)" % sorted(tramp))
    tramp = ctx.op(tramp.pop())
    if set(re.findall(r"opcode::([A-Z0-9_]+)", find_fn(src, "goto_helper"))):
        raise Bad("goto_helper names an opcode constant itself")

    # verification types
    vb = find_fn(src, "write_verification_type_info")
    mb, _ = find_match(vb, r"info", 0, "write_verification_type_info")
    vtypes = []
    for pat, rhs in match_arms(mb):
        pg = re.fullmatch(r"VerificationTypeInfo::([A-Za-z0-9]+)(?:\([a-z_]+\))?", pat)
        tg = re.match(r"\{?w\.write_u8\((\d+)\)", norm(rhs))
        if not pg or not tg:
            raise Bad("write_verification_type_info: cannot parse arm %r" % pat)
        extra = 2 * len(re.findall(r"w\.write_u16\(", rhs))
        vtypes.append((int(tg.group(1)), pg.group(1), extra))

    # constant pool
    psrc = strip_comments(read("duke/src/simple_class_writer/pool.rs"))
    wb = find_fn(psrc, "write")
    mb, _ = find_match(wb, r"entry", 0, "PoolWrite::write")
    pool = []
    pw = {"write_u8": 1, "write_u16": 2, "write_i32": 4, "write_u32": 4, "write_i64": 8, "write_u64": 8, "write_usize_as_u16": 2}
    for pat, rhs in match_arms(mb):
        pg = re.fullmatch(r"PoolEntry::([A-Za-z0-9]+)\s*\{.*\}", pat)
        stmts = [s for s in split_top(norm(rhs)[1:-1], ";") if s.strip()]
        tg = re.fullmatch(r"writer\.write_u8\(pool::([A-Z0-9_]+)\)\?", stmts[0]) if stmts else None
        if not pg or not tg or tg.group(1) not in ctx.c["pool"]:
            raise Bad("PoolWrite::write: cannot parse arm %r" % pat)
        widths, variable = [], 0
        for s in stmts[1:]:
            sg = re.match(r"writer\.(write_[a-z0-9_]+)\(", s)
            if sg and sg.group(1) == "write_u8_slice":
                variable = 1
            elif sg and sg.group(1) in pw:
                widths.append(pw[sg.group(1)])
            elif re.fullmatch(r"let vec = jstring::from_string_to_vec\(string\)", s):
                pass
            else:
                raise Bad("PoolWrite::write: arm %r: cannot parse statement %r" % (pat, s))
        pool.append((pg.group(1), ctx.c["pool"][tg.group(1)], widths, variable))

    return dict(unit=unit, straight=straight, ifs=ifs, gotos=gotos, families=families, forms=forms, switches=switches,
                tramp=tramp, vtypes=vtypes, pool=pool)


# ------------------------------------------------------------------ output

def nat_list(xs):
    return "[%s]" % ", ".join(str(x) for x in xs)


def emit_ctor_table(ctx, L):
    L.append("/-- `enum Instruction` (duke/src/tree/method/code.rs): constructor names in declaration order; the position is the")
    L.append("constructor index used in the tables below -/")
    L.append("def ctorNames : List (List Nat) := [")
    for i, (nm, kind, nf) in enumerate(ctx.variants):
        L.append("  %s%s  -- %d %s" % (cps(nm), "," if i + 1 < len(ctx.variants) else "", i, nm))
    L.append("]")
    L.append("")
    L.append("/-- per constructor: (kind 0 unit / 1 tuple / 2 struct, number of fields) -/")
    L.append("def ctorShape : List (Nat × Nat) := [")
    L.append("  " + ", ".join("(%d, %d)" % (k, n) for _, k, n in ctx.variants))
    L.append("]")
    L.append("")


def rows(L, name, ty, doc, entries, fmt, comment=None):
    L.append("/-- %s -/" % doc)
    L.append("def %s : List (%s) := [" % (name, ty))
    for i, e in enumerate(entries):
        c = ("  -- " + comment(e)) if comment else ""
        L.append("  %s%s%s" % (fmt(e), "," if i + 1 < len(entries) else "", c))
    L.append("]")
    L.append("")


def emit_reader(ctx, r):
    opname = {}
    for nm, v in ctx.c["opcode"].items():
        opname.setdefault(v, nm)
    cn = lambda i: ctx.variants[i][0]
    L = []
    L.append("/-! GENERATED by translate/insn_arms_to_lean.py from duke/src/class_reader.rs, class_reader/pool.rs, class_constants.rs and")
    L.append("tree/method/code.rs — do not edit. Regenerated on every check run; holds what the Rust source says now.")
    L.append("")
    L.append("Pass-1 classes: 0..15 = `r.skip(n)`, 16 = 16-bit branch target, 17 = 32-bit branch target, 18 = tableswitch,")
    L.append("19 = lookupswitch, 20 = `wide` sub-match, 21 = `bail!` (explicit arm, or no arm: the catch-all arm bails).")
    L.append("Reader primitives (pass 2): 1 read_u8, 2 read_i8, 3 read_u16, 4 read_i16, 5 read_i32, 6 read_u8_as_local_variable,")
    L.append("7 read_u16_as_local_variable, 8 read_i16_as_branch_target_label, 9 read_i32_as_branch_target_label.")
    L.append("Resolvers: 0 none, 1 pool.get_loadable, 2 pool.get_field_ref, 3 pool.get_method_ref,")
    L.append("4 pool.get_method_ref_or_interface_method_ref, 5 pool.get_interface_method_ref, 6 pool.get_invoke_dynamic, 7 pool.get_class,")
    L.append("8 ArrayType::from_atype, 9 labels.try_get. -/")
    L.append("")
    L.append("namespace Gen.ReaderArms")
    L.append("")
    emit_ctor_table(ctx, L)
    # dense tables: position = opcode byte
    p1 = dict((o, c) for o, c in r["p1"])
    L.append("/-- first loop of `read_code`: the class of the arm each opcode byte 0..255 takes (position = opcode) -/")
    L.append("def p1Dense : List Nat := [")
    for o in range(256):
        L.append("  %d%s  -- 0x%02x %s" % (p1.get(o, P1_BAIL), "," if o < 255 else "", o, opname.get(o, "(no arm)") if o in p1 else "(no arm)"))
    L.append("]")
    L.append("")
    p1w = dict((o, c) for o, c in r["p1_wide"])
    L.append("/-- the `wide` sub-match of the first loop: bytes skipped after the modified opcode, 21 = bails (position = opcode) -/")
    L.append("def p1WideDense : List Nat := [")
    for o in range(256):
        L.append("  %d%s  -- 0x%02x %s" % (p1w.get(o, P1_BAIL), "," if o < 255 else "", o, opname.get(o, "") if o in p1w else "(no arm)"))
    L.append("]")
    L.append("")
    L.append("/-- the opcode whose arm is the `wide` sub-match -/")
    L.append("def wideOpcode : Nat := 0x%02x" % r["wide_op"])
    L.append("")
    def dense2(name, doc, straight, families, switches, bails, wide_op):
        st = dict((e[0], e[1:]) for e in straight)
        sw = dict((e[0], e[1:]) for e in switches)
        bl = set(e[0] for e in bails)
        L.append("/-- %s -/" % doc)
        L.append("def %s : List (Nat × Nat × List Nat × Nat) := [" % name)
        for o in range(256):
            fam = [k for k, f in enumerate(families) if f[0] <= o <= f[1]]
            if o in st:
                c, rs, rv = st[o]
                e, cm = "(0, %d, %s, %d)" % (c, nat_list(rs), rv), "%s => %s" % (opname.get(o, "?"), cn(c))
            elif fam:
                e, cm = "(1, %d, [], 0)" % fam[0], "%s (range arm %d)" % (opname.get(o, "?"), fam[0])
            elif o in sw:
                e, cm = "(2, %d, [], %d)" % sw[o], "%s => %s" % (opname.get(o, "?"), cn(sw[o][0]))
            elif o == wide_op:
                e, cm = "(3, 0, [], 0)", "%s (sub-match)" % opname.get(o, "?")
            elif o in bl:
                e, cm = "(4, 0, [], 0)", "%s => bail!" % opname.get(o, "?")
            else:
                e, cm = "(5, 0, [], 0)", "(no arm)"
            L.append("  %s%s  -- 0x%02x %s" % (e, "," if o < 255 else "", o, cm))
        L.append("]")
        L.append("")
    dense2("p2Dense", "second loop of `read_code`, per opcode byte (position = opcode): (arm kind, a, reader primitives in order, b) with "
           "kind 0 = straight arm `opcode::X => Instruction::Y(args)` (a = constructor, b = resolver), 1 = range arm (a = index into `localN`), "
           "2 = switch arm, body pinned by the translator (a = constructor, b = 0 tableswitch / 1 lookupswitch), 3 = the `wide` sub-match, "
           "4 = explicit `bail!` arm, 5 = no arm (the catch-all arm bails)", r["p2"], r["localn"], r["p2_switch"], r["p2_bail"], r["wide_op"])
    dense2("p2WideDense", "the `wide` sub-match of the second loop, same format (kinds 0 and 5 only)", r["p2_wide"], [], [], [], None)
    L.append("/-- a range arm `opcode @ LO..=HI => { shifted = opcode - base; index = shifted & mask; opcode = base2 + (shifted >> shift);")
    L.append("match opcode { inner } }` -/")
    L.append("structure LocalN where")
    L.append("  lo : Nat")
    L.append("  hi : Nat")
    L.append("  base : Nat")
    L.append("  mask : Nat")
    L.append("  shift : Nat")
    L.append("  base2 : Nat")
    L.append("  /-- (opcode, constructor) of the inner match -/")
    L.append("  inner : List (Nat × Nat)")
    L.append("")
    L.append("/-- the `*load_<n>` and `*store_<n>` arms -/")
    L.append("def localN : List LocalN := [")
    L.append(",\n".join("  { lo := 0x%02x, hi := 0x%02x, base := 0x%02x, mask := %d, shift := %d, base2 := 0x%02x,\n    inner := [%s] }" % (
        lo, hi, base, mask, shift, base2, ", ".join("(0x%02x, %d)" % x for x in inner))
        for lo, hi, base, mask, shift, base2, inner in r["localn"]))
    L.append("]")
    L.append("")
    rows(L, "frameArms", "Nat × Nat × List Nat × Nat × Nat",
         "`read_stack_map_frame`: (first tag, last tag, `StackMapData` variant or `bail`, offset_delta 0 = tag - base / 1 = explicit u16 / 2 = none, base)",
         r["frames"], lambda e: "(%d, %d, %s, %d, %d)" % (e[0], e[1], cps(e[2]), e[3], e[4]), lambda e: e[2])
    L.append("/-- `Chop { k: chopFrom - frame_type }`, `count = frame_type - appendFrom` -/")
    L.append("def chopFrom : Nat := %d" % r["consts"]["chopFrom"])
    L.append("def appendFrom : Nat := %d" % r["consts"]["appendFrom"])
    L.append("")
    rows(L, "vtypeArms", "Nat × List Nat × Nat", "`read_verification_type_info`: (tag, variant, bytes read after the tag); other tags bail",
         r["vtypes"], lambda e: "(%d, %s, %d)" % (e[0], cps(e[1]), e[2]), lambda e: e[1])
    for fn, nm in (("read_element_values_named", "elementArmsNamed"), ("read_element_value_unnamed", "elementArmsUnnamed")):
        rows(L, nm, "Nat × List Nat × List Nat", "`%s`: (tag, `Object` variant or the `visit_*` method, pool getter); other tags bail" % fn,
             r["elems"][fn], lambda e: "(%d, %s, %s)" % (e[0], cps(e[1]), cps(e[2])), lambda e: "%s %s %s" % (chr(e[0]), e[1], e[2]))
    rows(L, "poolArms", "Nat × List Nat × List Nat × Nat × Nat",
         "`PoolRead::read`: (tag, `PoolEntry` variant, widths of the fixed reads after the tag, 1 if a byte vector follows, slots pushed); other tags bail",
         r["pool"], lambda e: "(%d, %s, %s, %d, %d)" % (e[0], cps(e[1]), nat_list(e[2]), e[3], e[4]), lambda e: e[1])
    L.append("end Gen.ReaderArms")
    return "\n".join(L) + "\n"


def emit_writer(ctx, w):
    opname = {}
    for nm, v in ctx.c["opcode"].items():
        opname.setdefault(v, nm)
    cn = lambda i: ctx.variants[i][0]
    L = []
    L.append("/-! GENERATED by translate/insn_arms_to_lean.py from duke/src/simple_class_writer.rs, simple_class_writer/pool.rs,")
    L.append("class_constants.rs and tree/method/code.rs — do not edit. Regenerated on every check run.")
    L.append("")
    L.append("Pool functions: 0 none, 1 put_loadable, 2 put_field_ref, 3 put_method_ref, 4 put_method_ref_or_interface_method_ref,")
    L.append("5 put_interface_method_ref, 6 put_invoke_dynamic, 7 put_class, 8 ArrayType::to_atype. -/")
    L.append("")
    L.append("namespace Gen.WriterArms")
    L.append("")
    emit_ctor_table(ctx, L)
    dense = {}
    for c, o in w["unit"]:
        dense[c] = ("(0, 0x%02x, 0, [])" % o, "%s: %s" % (cn(c), opname.get(o, "?")))
    for c, o, ws, put in w["straight"]:
        dense[c] = ("(1, 0x%02x, %d, %s)" % (o, put, nat_list(ws)), "%s: %s + operands" % (cn(c), opname.get(o, "?")))
    for c, o, opp in w["ifs"]:
        dense[c] = ("(2, 0x%02x, 0x%02x, [])" % (o, opp), "%s: if_helper %s / %s" % (cn(c), opname.get(o, "?"), opname.get(opp, "?")))
    for c, o, wo in w["gotos"]:
        dense[c] = ("(3, 0x%02x, 0x%02x, [])" % (o, wo), "%s: goto_helper %s / %s" % (cn(c), opname.get(o, "?"), opname.get(wo, "?")))
    for k, fam in enumerate(w["families"]):
        for c, o in fam[5]:
            dense[c] = ("(4, %d, 0x%02x, [])" % (k, o), "%s: family %d, %s" % (cn(c), k, opname.get(o, "?")))
    for k, fm in enumerate(w["forms"]):
        dense[fm[0]] = ("(5, %d, 0, [])" % k, "%s: form-choosing arm %d" % (cn(fm[0]), k))
    for c, o, kind in w["switches"]:
        dense[c] = ("(6, 0x%02x, %d, [])" % (o, kind), "%s: %s" % (cn(c), opname.get(o, "?")))
    if sorted(dense) != list(range(len(ctx.variants))):
        raise Bad("write_code: internal: arms do not cover the constructors exactly once")
    L.append("/-- `write_code`, the arm of every `Instruction` constructor (position = constructor index): (kind, a, b, widths) with")
    L.append("kind 0 = `Instruction::Y => w.write_u8(opcode::X)?` (a = opcode); 1 = straight-line block `w.write_u8(opcode::X)?; w.write_T(..)?; ..`")
    L.append("(a = opcode, b = pool function, widths = operand widths in bytes); 2 = `if_helper(.., opcode::X, opcode::OPPOSITE)` (a, b);")
    L.append("3 = `goto_helper(.., opcode::X, opcode::X_W)` (a, b); 4 = local-variable family arm (a = index into `families`, b = the opcode the")
    L.append("inner match gives this constructor); 5 = form-choosing arm, body pinned (a = index into `formArms`); 6 = switch arm, body pinned")
    L.append("(a = opcode, b = 0 tableswitch / 1 lookupswitch) -/")
    L.append("def wDense : List (Nat × Nat × Nat × List Nat) := [")
    n = len(ctx.variants)
    for c in range(n):
        L.append("  %s%s  -- %d %s" % (dense[c][0], "," if c + 1 < n else "", c, dense[c][1]))
    L.append("]")
    L.append("")
    L.append("/-- the only opcode `if_helper` writes itself: the jump of the trampoline `if<not c> +8; goto_w target` -/")
    L.append("def trampolineOpcode : Nat := 0x%02x" % w["tramp"])
    L.append("")
    L.append("/-- a local-variable family arm: `index < limit` → `((opcode - sub) << shift | index) + add`; an index that fits `u8` →")
    L.append("`opcode index`; otherwise `wide opcode index16`; `inner` = (constructor, opcode) of the inner match -/")
    L.append("structure Family where")
    L.append("  limit : Nat")
    L.append("  sub : Nat")
    L.append("  shift : Nat")
    L.append("  add : Nat")
    L.append("  wide : Nat")
    L.append("  inner : List (Nat × Nat)")
    L.append("")
    L.append("def families : List Family := [")
    L.append(",\n".join("  { limit := %d, sub := 0x%02x, shift := %d, add := 0x%02x, wide := 0x%02x,\n    inner := [%s] }" % (
        lim, sub, sh, add, wd, ", ".join("(%d, 0x%02x)" % x for x in inner)) for lim, sub, sh, add, wd, inner in w["families"]))
    L.append("]")
    L.append("")
    L.append("/-- form-choosing arms (bodies pinned): (constructor, opcodes written as the instruction's own opcode, [(prefix opcode, opcode after")
    L.append("the prefix)]): `Ldc` -> ldc2_w | ldc | ldc_w; `IInc` -> iinc | wide iinc; `Ret` -> ret | wide ret -/")
    L.append("def formArms : List (Nat × List Nat × List (Nat × Nat)) := [")
    for k, (c, plain, wide) in enumerate(w["forms"]):
        L.append("  (%d, [%s], [%s])%s  -- %s" % (c, ", ".join("0x%02x" % o for o in plain), ", ".join("(0x%02x, 0x%02x)" % x for x in wide),
                                            "," if k + 1 < len(w["forms"]) else "", cn(c)))
    L.append("]")
    L.append("")
    rows(L, "vtypeArms", "Nat × List Nat × Nat", "`write_verification_type_info`: (tag, variant, bytes written after the tag)", w["vtypes"],
         lambda e: "(%d, %s, %d)" % (e[0], cps(e[1]), e[2]), lambda e: e[1])
    rows(L, "poolArms", "List Nat × Nat × List Nat × Nat",
         "`PoolWrite::write`: (`PoolEntry` variant, tag, widths of the fixed writes after the tag, 1 if a byte slice follows)", w["pool"],
         lambda e: "(%s, %d, %s, %d)" % (cps(e[0]), e[1], nat_list(e[2]), e[3]), lambda e: e[0])
    L.append("end Gen.WriterArms")
    return "\n".join(L) + "\n"


def main(argv):
    """each part is translated independently and its file is (atomically) rewritten only when that part succeeded: a part
    that cannot be parsed leaves the file of its last successful translation in place and makes the exit status 1"""
    parts = argv[1:] or ["reader", "writer"]
    if any(p not in ("reader", "writer") for p in parts):
        sys.stderr.write(__doc__)
        return 2
    try:
        ctx = Ctx()
    except Exception as e:  # Bad, OSError, or anything unforeseen in the source text: a clean failure, nothing written
        sys.stderr.write("insn_arms_to_lean.py: cannot translate %s: %s: %s\n" % (REPO, type(e).__name__, e))
        return 1
    rc = 0
    for part, fn, emit, out in (("reader", reader_part, emit_reader, OUT_R), ("writer", writer_part, emit_writer, OUT_W)):
        if part not in parts:
            continue
        try:
            text = emit(ctx, fn(ctx))
        except Exception as e:
            sys.stderr.write("insn_arms_to_lean.py: cannot translate the %s part of %s: %s: %s\n" % (part, REPO, type(e).__name__, e))
            rc = 1
            continue
        write_if_changed(out, text)
    return rc


if __name__ == "__main__":
    sys.exit(main(sys.argv))
