#!/usr/bin/env python3
"""Translator for C01 / C02: duke's class-file constants  ->  lean/FeatherModel/Gen/Constants.lean

Reads, from the Rust source as it is *now* ($VERIF_REPO, default /repo):

  * `duke/src/class_constants.rs`: EVERY `const` of EVERY (nested) module - numeric constants (`NAME: u8 = 0x60;`) and
    attribute-name constants (`NAME: &JavaStr = JavaStr::from_str("Code");`);
  * `duke/src/tree/**/*.rs`: every `impl From<u16> for X` / `impl From<X> for u16` pair (the access-flag structs): the
    mask each `is_*` field is read with and written with.

and writes them as Lean data keyed by position, with all names as code-point lists (no `String` inside anything a
`decide` has to reduce). Nothing is skipped silently: an item of class_constants.rs that is not a `const` of one of
the two shapes, a `mod`, a `use` or an attribute, or a `From<u16>` impl whose body is not the regular flag table, makes
the translator exit non-zero (= broken tie). The output file is written only when its content changes.
"""
import os, re, sys

sys.path.insert(0, os.path.dirname(os.path.abspath(__file__)))
from rsparse import Bad, REPO, GEN, read, strip_comments, block_after, matching, split_top, parse_int, cps, write_if_changed

OUT = os.path.join(GEN, "Constants.lean")
SRC = "duke/src/class_constants.rs"
TREE = "duke/src/tree"

BITS = {"u8": 8, "u16": 16, "u32": 32, "u64": 64}


def strip_attrs(src):
    """remove `#[...]` / `#![...]` attributes (bracket-matched)"""
    out, i, n = [], 0, len(src)
    while i < n:
        if src[i] == "#" and re.match(r"#!?\[", src[i:i + 3]):
            j = src.index("[", i)
            i = matching(src, j) + 1
            continue
        out.append(src[i])
        i += 1
    return "".join(out)


def parse_items(src, path, numeric, strings, modules):
    """items of one module body; appends to numeric / strings: {path: [(name, value[, bits])]} in source order"""
    modules.append(path)
    i, n = 0, len(src)
    item = re.compile(r"\s*(?:pub(?:\s*\([^)]*\))?\s+)?(const|mod|use)\b")
    while True:
        m = re.compile(r"\s*").match(src, i)
        i = m.end()
        if i >= n:
            return
        m = item.match(src, i)
        if not m:
            raise Bad("%s, module %s: cannot parse item starting at %r" % (SRC, "::".join(path) or "<root>", src[i:i + 60]))
        kind = m.group(1)
        if kind == "use":
            j = src.find(";", m.end())
            if j < 0:
                raise Bad("unterminated `use`")
            i = j + 1
        elif kind == "mod":
            mm = re.compile(r"\s+([A-Za-z_][A-Za-z0-9_]*)\s*\{").match(src, m.end())
            if not mm:
                raise Bad("cannot parse `mod` header at %r (out-of-line modules are not supported)" % src[m.start():m.start() + 60])
            body, j = block_after(src, mm.end() - 1)
            parse_items(body, path + [mm.group(1)], numeric, strings, modules)
            i = j
        else:
            j = src.find(";", m.end())
            if j < 0:
                raise Bad("unterminated `const`")
            decl = " ".join(src[m.end():j].split())
            i = j + 1
            cm = re.fullmatch(r"([A-Z_][A-Z0-9_]*)\s*:\s*(.+?)\s*=\s*(.+)", decl)
            if not cm:
                raise Bad("cannot parse constant %r" % decl)
            name, ty, val = cm.group(1), cm.group(2), cm.group(3)
            if ty in BITS:
                v = parse_int(val)
                if v >= 1 << BITS[ty]:
                    raise Bad("constant %s = %s does not fit %s" % (name, val, ty))
                numeric.setdefault(tuple(path), []).append((name, v, BITS[ty]))
            elif re.fullmatch(r"&\s*(?:'static\s+)?JavaStr", ty):
                sm = re.fullmatch(r'JavaStr::from_str\(\s*"([^"\\]*)"\s*\)', val)
                if not sm:
                    raise Bad("cannot parse string constant %s = %s" % (name, val))
                strings.setdefault(tuple(path), []).append((name, sm.group(1)))
            else:
                raise Bad("constant %s has a type this translator does not know: %s" % (name, ty))


def parse_flags():
    """{struct: [(field, mask)]} for the read direction and for the write direction, in source order of the impls"""
    rd, wr = [], []
    files = []
    for root, _, fs in os.walk(os.path.join(REPO, TREE)):
        for fn in fs:
            if fn.endswith(".rs"):
                files.append(os.path.relpath(os.path.join(root, fn), REPO))
    for rel in sorted(files):
        src = strip_comments(read(rel))
        for m in re.finditer(r"\bimpl\s+From\s*<\s*u16\s*>\s*for\s+([A-Za-z_][A-Za-z0-9_]*)\s*\{", src):
            st = m.group(1)
            body, _ = block_after(src, m.end() - 1)
            fm = re.fullmatch(r"\s*fn\s+from\s*\(\s*value\s*:\s*u16\s*\)\s*->\s*Self\s*\{\s*%s\s*\{(.*)\}\s*\}\s*" % re.escape(st), body, flags=re.S)
            if not fm:
                raise Bad("%s: `impl From<u16> for %s` is not `fn from(value: u16) -> Self { %s { .. } }`" % (rel, st, st))
            fields = []
            for f in split_top(fm.group(1), ","):
                if not f.strip():
                    continue
                g = re.fullmatch(r"\s*is_([a-z_]+)\s*:\s*value\s*&\s*(\S+)\s*!=\s*0\s*", f)
                if not g:
                    raise Bad("%s: From<u16> for %s: cannot parse field %r" % (rel, st, f.strip()))
                fields.append((g.group(1), parse_int(g.group(2))))
            rd.append((st, fields))
        for m in re.finditer(r"\bimpl\s+From\s*<\s*([A-Za-z_][A-Za-z0-9_]*)\s*>\s*for\s+u16\s*\{", src):
            st = m.group(1)
            body, _ = block_after(src, m.end() - 1)
            fm = re.fullmatch(r"\s*fn\s+from\s*\(\s*value\s*:\s*%s\s*\)\s*->\s*Self\s*\{(.*)\}\s*" % re.escape(st), body, flags=re.S)
            if not fm:
                raise Bad("%s: `impl From<%s> for u16` is not `fn from(value: %s) -> Self { .. }`" % (rel, st, st))
            fields = []
            for f in split_top(fm.group(1), "|"):
                g = re.fullmatch(r"\s*\(\s*if\s+value\s*\.\s*is_([a-z_]+)\s*\{\s*(\S+)\s*\}\s*else\s*\{\s*0\s*\}\s*\)\s*", f)
                if not g:
                    raise Bad("%s: From<%s> for u16: cannot parse term %r" % (rel, st, f.strip()))
                fields.append((g.group(1), parse_int(g.group(2))))
            wr.append((st, fields))
    if not rd or not wr:
        raise Bad("no access-flag conversions found under %s" % TREE)
    return rd, wr


def listing(entries, indent="  "):
    """entries: (lean text, comment) -> lines, a comma after every text but the last, the comment behind it"""
    out = []
    for k, (t, c) in enumerate(entries):
        out.append("%s%s%s%s" % (indent, t, "," if k + 1 < len(entries) else "", ("  -- " + c) if c else ""))
    return out


def lean_ident(path):
    parts = [w for p in (path or ["root"]) for w in p.split("_") if w]
    return parts[0] + "".join(w.capitalize() for w in parts[1:]) + "Consts"


def main():
    try:
        src = strip_attrs(strip_comments(read(SRC)))
        numeric, strings, modules = {}, {}, []
        parse_items(src, [], numeric, strings, modules)
        if not numeric:
            raise Bad("no numeric constants found in %s" % SRC)
        for p, items in list(numeric.items()) + list(strings.items()):
            names = [it[0] for it in items]
            if len(set(names)) != len(names):
                raise Bad("duplicate constant name in module %s" % "::".join(p))
        both = set(numeric) & set(strings)
        if both:
            raise Bad("module(s) %s mix numeric and string constants" % sorted("::".join(p) for p in both))
        frd, fwr = parse_flags()
    except Exception as e:  # anything not understood: a clean failure, nothing written
        sys.stderr.write("constants_to_lean.py: cannot translate %s: %s\n" % (REPO, e))
        return 1

    L = []
    L.append("/-! GENERATED by translate/constants_to_lean.py from duke/src/class_constants.rs and duke/src/tree/**/*.rs — do not edit.")
    L.append("Regenerated on every check run; holds what the Rust source says now. Names are code-point lists. -/")
    L.append("")
    L.append("namespace Gen.Constants")
    L.append("")
    L.append("/-- every module of `class_constants.rs` (path segments joined by `::`; `[]` is the file itself), in source order -/")
    L.append("def modules : List (List Nat) := [")
    L.extend(listing([(cps("::".join(p)), "::".join(p) or "<root>") for p in modules]))
    L.append("]")
    L.append("")
    L.append("/-- every numeric constant: (module path, [(NAME, value, bit width of its Rust type)]) in source order -/")
    L.append("def numeric : List (List Nat × List (List Nat × Nat × Nat)) := [")
    blocks = []
    for p in modules:
        if tuple(p) in numeric:
            items = numeric[tuple(p)]
            body = ",\n".join("    (%s, %d, %d)" % (cps(nm), v, b) for nm, v, b in items)
            blocks.append("  (%s, [\n%s])" % (cps("::".join(p)), body))
    L.append(",\n".join(blocks))
    L.append("]")
    L.append("")
    L.append("/-- every string constant: (module path, [(NAME, text)]) in source order -/")
    L.append("def strings : List (List Nat × List (List Nat × List Nat)) := [")
    blocks = []
    for p in modules:
        if tuple(p) in strings:
            items = strings[tuple(p)]
            body = ",\n".join("    (%s, %s)" % (cps(nm), cps(s)) for nm, s in items)
            blocks.append("  (%s, [\n%s])" % (cps("::".join(p)), body))
    L.append(",\n".join(blocks))
    L.append("]")
    L.append("")
    L.append("/-! ## the same tables once more, one definition per module, (NAME, value) with the NAME readable in the comment -/")
    for p in modules:
        key = tuple(p)
        if key in numeric:
            L.append("")
            L.append("/-- `%s` -/" % ("::".join(["class_constants"] + p)))
            L.append("def %s : List (List Nat × Nat) := [" % lean_ident(p))
            L.extend(listing([("(%s, 0x%x)" % (cps(nm), v), nm) for nm, v, b in numeric[key]]))
            L.append("]")
        elif key in strings:
            L.append("")
            L.append("/-- `%s` -/" % ("::".join(["class_constants"] + p)))
            L.append("def %s : List (List Nat × List Nat) := [" % lean_ident(p))
            L.extend(listing([("(%s, %s)" % (cps(nm), cps(sv)), "%s = %s" % (nm, sv)) for nm, sv in strings[key]]))
            L.append("]")
    L.append("")
    L.append("/-! ## access-flag structs of `duke/src/tree`: (struct, [(field without `is_`, mask)]) -/")
    for nm, tbl, doc in (("flagsRead", frd, "`impl From<u16> for X`: `is_f: value & MASK != 0`"),
                         ("flagsWrite", fwr, "`impl From<X> for u16`: `(if value.is_f { MASK } else { 0 }) | ..`")):
        L.append("")
        L.append("/-- %s -/" % doc)
        L.append("def %s : List (List Nat × List (List Nat × Nat)) := [" % nm)
        blocks = []
        for st, fields in tbl:
            body = "\n".join(listing([("(%s, 0x%04x)" % (cps(f), v), f) for f, v in fields], "    "))
            blocks.append("  -- %s\n  (%s, [\n%s\n  ])" % (st, cps(st), body))
        L.append(",\n".join(blocks))
        L.append("]")
    L.append("")
    L.append("end Gen.Constants")
    write_if_changed(OUT, "\n".join(L) + "\n")
    return 0


if __name__ == "__main__":
    sys.exit(main())
