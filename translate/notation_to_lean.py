#!/usr/bin/env python3
"""Translator for property C20: raw_class_file/src/lib.rs  ->  Lean + Rust layout tables.

Parses every `notation!( struct|enum ... )` block of $VERIF_REPO/raw_class_file/src/lib.rs (default /repo) and writes

  /verif/lean/FeatherModel/Gen/RawLayouts.lean   the layouts as *data* for FeatherModel.Model.RawLayout
  /verif/harness/src/rawcodec_gen.rs             the same tables for the harness + conversions between the crate's
                                                 public structs/enums and the generic value type `Val`

Files are rewritten only when their content changes (temp file + rename).  Anything the translator does not
understand makes it exit non-zero with a message: it never guesses.

What is translated (see macros.rs for the expansion that FeatherModel/Model/RawLayout.lean interprets):
  struct N [this] { (const c: p = expr, | mut f: T [; Some(&f)],)* }     expr may contain pool_slots(&this.f), f: Vec<CpInfo>
  enum N [[pool]] { tag: p, ( V [this] { = wexpr => pat [if pool_has_utf8(pool, tag, b"..")?], (const.. | mut f: T [nowrite = rexpr],)* }, )*
                    [ _ { x => Err(..), }, ] }
  T ::= u8|u16|u32 | Name | Vec<E> [p] | Vec<E> {rexpr} | Vec<E> [p] {rexpr} (rejected: ambiguous in the macro)
      | Vec<CpInfo> {rexpr; slots}   items are read until their `.slots()` add up to rexpr (error when the last one ends past it)
Hand-written glue: `impl CpInfo { fn slots }` is *parsed* (which variants take two slots -> `wideVariants`); `pool_slots`,
`pool_get`, `pool_has_utf8` and `impl ClassFile` must have exactly the text the model was written against.
Expression typing: Rust arithmetic is done in the type of the operands (usize for `.len()`, u32 for `this._len()`,
the field's type for fields, the binding's type on the read side); the harness is built with overflow checks, so
the width is recorded (`bits`) and the Lean evaluator treats overflow / underflow as a panic; `as` casts truncate.
"""
import os, re, sys

REPO = os.environ.get("VERIF_REPO", "/repo").rstrip("/")
VERIF = os.path.dirname(os.path.dirname(os.path.abspath(__file__)))
SRC = os.path.join(REPO, "raw_class_file", "src", "lib.rs")
OUT_LEAN = os.path.join(VERIF, "lean", "FeatherModel", "Gen", "RawLayouts.lean")
OUT_RUST = os.path.join(VERIF, "harness", "src", "rawcodec_gen.rs")

PRIMS = {"u8": 8, "u16": 16, "u32": 32}


class Unsupported(Exception):
    pass


def die(msg, line=None):
    raise Unsupported("%s%s" % (("lib.rs:%d: " % line) if line else "", msg))


# ------------------------------------------------------------------ tokenizer

TOK = re.compile(r"""
    (?P<ws>\s+)
  | (?P<lc>//[^\n]*)
  | (?P<bc>/\*)
  | (?P<bstr>b"(?:[^"\\]|\\.)*")
  | (?P<bchr>b'(?:[^'\\]|\\.)')
  | (?P<str>"(?:[^"\\]|\\.)*")
  | (?P<num>0x[0-9a-fA-F_]+(?:u8|u16|u32|u64|usize|i32)?|[0-9][0-9_]*(?:u8|u16|u32|u64|usize|i32)?)
  | (?P<id>[A-Za-z_][A-Za-z0-9_]*)
  | (?P<p>\.\.=|=>|[{}()\[\]<>,;:=@+\-*&.?!#/%|^~'"$\\])
""", re.X)


def tokenize(text, line0):
    """-> list of (kind, text, line).  `//` comments (incl. doc comments) carry no meaning in the DSL and are dropped."""
    out = []
    pos = 0
    line = line0
    while pos < len(text):
        m = TOK.match(text, pos)
        if not m:
            die("cannot tokenize %r" % text[pos:pos + 20], line)
        k = m.lastgroup
        s = m.group(0)
        if k == "bc":
            die("block comment inside notation! block", line)
        if k not in ("ws", "lc"):
            out.append((k, s, line))
        line += s.count("\n")
        pos = m.end()
    return out


def find_blocks(src):
    """every `notation!( ... )` invocation: (line, inner text). Parenthesis matching aware of byte/char literals and comments."""
    blocks = []
    for m in re.finditer(r"(?m)^notation!\(", src):
        start = m.end()
        depth = 1
        i = start
        while depth > 0:
            if i >= len(src):
                die("unbalanced notation!( block", src.count("\n", 0, m.start()) + 1)
            c = src[i]
            if src.startswith("//", i):
                i = src.index("\n", i)
                continue
            if src.startswith("b'", i):
                mm = re.compile(r"b'(?:[^'\\]|\\.)'").match(src, i)
                if not mm:
                    die("bad byte literal", src.count("\n", 0, i) + 1)
                i = mm.end()
                continue
            if src.startswith('b"', i):
                mm = re.compile(r'b"(?:[^"\\]|\\.)*"').match(src, i)
                i = mm.end()
                continue
            if c == '"':
                mm = re.compile(r'"(?:[^"\\]|\\.)*"').match(src, i)
                if not mm:
                    die("unterminated string literal", src.count("\n", 0, i) + 1)
                i = mm.end()
                continue
            if c == "'":
                die("char literal / lifetime in notation! block is not understood", src.count("\n", 0, i) + 1)
            if c == "(":
                depth += 1
            elif c == ")":
                depth -= 1
            i += 1
        blocks.append((src.count("\n", 0, start) + 1, src[start:i - 1]))
    # every use of the macro must have been found by the anchored regex
    if len(re.findall(r"notation!\s*[\(\[\{]", src)) != len(blocks):
        die("a notation! invocation that does not start a line with `notation!(` exists")
    return blocks


# ------------------------------------------------------------------ parser

class P:
    def __init__(self, toks):
        self.t = toks
        self.i = 0

    def peek(self, k=0):
        return self.t[self.i + k] if self.i + k < len(self.t) else ("eof", "", self.t[-1][2] if self.t else 0)

    def line(self):
        return self.peek()[2]

    def next(self):
        tok = self.peek()
        self.i += 1
        return tok

    def at(self, s):
        return self.peek()[1] == s and self.peek()[0] in ("p", "id")

    def eat(self, s):
        if self.at(s):
            self.i += 1
            return True
        return False

    def expect(self, s):
        if not self.eat(s):
            die("expected `%s`, found `%s`" % (s, self.peek()[1]), self.line())

    def ident(self):
        k, s, l = self.next()
        if k != "id":
            die("expected identifier, found `%s`" % s, l)
        return s

    def prim(self):
        s = self.ident()
        if s not in PRIMS:
            die("expected u8/u16/u32, found `%s`" % s, self.line())
        return s


def parse_int(s, line):
    m = re.fullmatch(r"(0x[0-9a-fA-F_]+?|[0-9][0-9_]*?)(u8|u16|u32|u64|usize|i32)?", s)
    if not m:
        die("bad integer literal %s" % s, line)
    body = m.group(1).replace("_", "")
    return (int(body, 16) if body.startswith("0x") else int(body)), m.group(2)


def parse_bchr(s, line):
    inner = s[2:-1]
    if len(inner) == 1:
        return ord(inner)
    esc = {"\\n": 10, "\\r": 13, "\\t": 9, "\\\\": 92, "\\0": 0, "\\'": 39, '\\"': 34}
    if inner in esc:
        return esc[inner]
    die("byte literal %s not understood" % s, line)


def parse_bstr(s, line):
    inner = s[2:-1]
    if "\\" in inner:
        die("escape in byte string %s not understood" % s, line)
    return [ord(c) for c in inner]


# expressions: ('lit', n, suffix|None, single_token) | ('var', x) | ('len', x) | ('slots', x) | ('thislen',) | ('add'|'sub'|'mul', a, b)

def parse_expr(p, this_alias, in_struct):
    def atom():
        k, s, l = p.peek()
        if k == "num":
            p.next()
            n, suf = parse_int(s, l)
            return ("lit", n, suf)
        if k == "bchr":
            p.next()
            return ("lit", parse_bchr(s, l), "u8")
        if s == "(":
            p.next()
            e = additive()
            p.expect(")")
            return e
        if s == "*":
            # deref of a reference binding: a plain value
            p.next()
            x = p.ident()
            if p.at("."):
                die("`*x.y` is not understood", l)
            return ("var", x)
        if k == "id" and s == "pool_slots":
            # exactly  pool_slots(&this.<field>)  : the sum of `.slots()` over a Vec<CpInfo> field
            p.next()
            p.expect("("); p.expect("&")
            a = p.ident()
            if this_alias is None or a != this_alias or not in_struct:
                die("`pool_slots(&%s..)`: only `pool_slots(&<this alias>.<field>)` in a struct is understood" % a, l)
            p.expect(".")
            y = p.ident()
            p.expect(")")
            return ("slots", y)
        if k == "id":
            p.next()
            x = s
            if this_alias is not None and x == this_alias:
                p.expect(".")
                y = p.ident()
                if y == "_len":
                    p.expect("("); p.expect(")")
                    return ("thislen",)
                if not in_struct:
                    die("`%s.%s` in an enum variant is not understood (fields are bound by name there)" % (x, y), l)
                if p.eat("."):
                    z = p.ident()
                    if z != "len":
                        die("method `.%s()` is not understood" % z, l)
                    p.expect("("); p.expect(")")
                    return ("len", y)
                return ("var", y)
            if p.eat("."):
                z = p.ident()
                if z != "len":
                    die("method `.%s()` is not understood" % z, l)
                p.expect("("); p.expect(")")
                return ("len", x)
            return ("var", x)
        die("expression token `%s` is not understood" % s, l)

    def mult():
        a = atom()
        while p.at("*"):
            p.next()
            a = ("mul", a, atom())
        return a

    def additive():
        a = mult()
        while p.at("+") or p.at("-"):
            op = p.next()[1]
            a = ("add" if op == "+" else "sub", a, mult())
        return a

    return additive()


def expr_is_single_literal(e):
    return e[0] == "lit"


def strip_lit(e):
    if e[0] == "lit":
        return ("lit", e[1])
    if e[0] in ("add", "sub", "mul"):
        return (e[0], strip_lit(e[1]), strip_lit(e[2]))
    return e


def operand_types(e, scope, side, line):
    """set of arithmetic types ('u8','u16','u32','usize') of the typed operands of e.
    scope: name -> ('prim', p) | ('vec',) | ('other',)"""
    k = e[0]
    if k == "lit":
        return {e[2]} if e[2] else set()
    if k == "thislen":
        if side != "w":
            die("`this._len()` in a read-side expression", line)
        return {"u32"}
    if k == "len":
        if side != "w":
            die("`.len()` in a read-side expression is not understood", line)
        if scope.get(e[1], ("none",))[0] != "vec":
            die("`.len()` of `%s`, which is not a Vec field in scope" % e[1], line)
        return {"usize"}
    if k == "slots":
        if side != "w":
            die("`pool_slots(..)` in a read-side expression is not understood", line)
        if scope.get(e[1]) != ("vec", ("ref", "CpInfo")):
            die("`pool_slots` of `%s`, which is not a Vec<CpInfo> field in scope" % e[1], line)
        return {"usize"}
    if k == "var":
        t = scope.get(e[1])
        if t is None or t[0] != "prim":
            die("`%s` is not a numeric %s in scope" % (e[1], "field" if side == "w" else "binding"), line)
        return {t[1]}
    return operand_types(e[1], scope, side, line) | operand_types(e[2], scope, side, line)


BITS = {"u8": 8, "u16": 16, "u32": 32, "usize": 64, "u64": 64}


def const_eval(e):
    k = e[0]
    if k == "lit":
        return e[1]
    if k in ("add", "sub", "mul"):
        a, b = const_eval(e[1]), const_eval(e[2])
        if a is None or b is None:
            return None
        return a + b if k == "add" else a * b if k == "mul" else a - b
    return None


def typed_expr(e, scope, side, target, line):
    """-> (bits, expr) ; target = prim the value is cast to / stored in (None for a `{len}` expression)"""
    tys = operand_types(e, scope, side, line)
    if len(tys) > 1:
        die("operands of different integer types %s in one expression" % sorted(tys), line)
    if tys:
        ty = next(iter(tys))
        if ty not in BITS:
            die("integer type %s is not understood" % ty, line)
        if side == "r" and target is not None and ty != target:
            die("read-side expression of type %s stored into a %s field" % (ty, target), line)
        bits = BITS[ty]
    else:
        # no typed operand: only literals
        if e[0] != "lit":
            die("compound expression of untyped literals: its Rust type (i32 fallback) is not modelled", line)
        if target is None:
            die("literal length expression is not understood", line)
        bits = PRIMS[target]
        if e[1] >= 2 ** 31:
            die("unsuffixed literal does not fit i32", line)
    # all literals must fit the arithmetic type (rustc rejects overflowing literals)
    def lits(x):
        if x[0] == "lit":
            yield x[1]
        elif x[0] in ("add", "sub", "mul"):
            yield from lits(x[1])
            yield from lits(x[2])
    for n in lits(e):
        if n >= 2 ** bits:
            die("literal %d does not fit %d bits" % (n, bits), line)
    return (bits, strip_lit(e))


def parse_type(p):
    """-> ('prim',p) | ('ref',name) | ('vec', elem_ty, cnt|None, len_expr|None, counts_slots)"""
    l = p.line()
    name = p.ident()
    if name == "Vec":
        p.expect("<")
        el = p.ident()
        p.expect(">")
        cnt = None
        if p.eat("["):
            cnt = p.prim()
            p.expect("]")
        lenexpr = None
        slots = False
        if p.eat("{"):
            lenexpr = parse_expr(p, None, False)
            if p.eat(";"):
                # the only marker the macro has a read rule for
                m = p.ident()
                if m != "slots":
                    die("length marker `; %s` is not understood (only `; slots`)" % m, l)
                slots = True
            p.expect("}")
        if cnt is not None and lenexpr is not None:
            die("Vec with both [count type] and {length}: the macro would define `len` twice; not understood", l)
        if cnt is None and lenexpr is None:
            die("Vec without [count type] and without {length}", l)
        elty = ("prim", el) if el in PRIMS else ("ref", el)
        if slots and elty != ("ref", "CpInfo"):
            die("`{..; slots}` on a Vec<%s>: `.slots()` is only known for CpInfo" % el, l)
        return ("vec", elty, cnt, lenexpr, slots)
    if p.at("<") or p.at("[") or p.at("{"):
        die("type parameters on `%s` are not understood" % name, l)
    return ("prim", name) if name in PRIMS else ("ref", name)


def parse_body_items(p, this_alias, in_struct, head_binds):
    """items up to the closing `}` of a struct / variant.
    head_binds: read-side bindings already in scope (enum: tag variable and pattern binding)."""
    pre, fields = [], []
    wscope_later = []  # (const, line) to type once all fields are known
    rscope = dict(head_binds)
    raw = []
    while not p.at("}"):
        l = p.line()
        if p.at("#"):
            die("attributes (#[...]) inside notation! are not understood", l)
        if p.eat("const"):
            name = p.ident()
            p.expect(":")
            ty = p.prim()
            p.expect("=")
            e = parse_expr(p, this_alias, in_struct)
            p.expect(",")
            raw.append(("const", name, ty, e, l))
        elif p.eat("mut"):
            name = p.ident()
            p.expect(":")
            ty = parse_type(p)
            sets_pool = False
            nowrite = None
            if p.eat(";"):
                if not in_struct:
                    die("`; pool` hand-over in an enum variant is not part of the macro", l)
                # exactly  Some(&<this field>)
                p.expect("Some"); p.expect("("); p.expect("&")
                x = p.ident()
                p.expect(")")
                if x != name:
                    die("pool hand-over `Some(&%s)` after field `%s` is not understood" % (x, name), l)
                sets_pool = True
            if p.at("nowrite") or (p.peek()[0] == "id" and p.peek(1)[1] == "="):
                if in_struct:
                    die("`nowrite` in a struct is not part of the macro", l)
                kw = p.ident()
                if kw != "nowrite":
                    # the macro accepts any identifier here; its meaning is the same, but refuse to guess
                    die("`%s = ..` after a field: only `nowrite` is understood" % kw, l)
                p.expect("=")
                nowrite = parse_expr(p, None, False)
            p.expect(",")
            raw.append(("mut", name, ty, sets_pool, nowrite, l))
        else:
            die("item starting with `%s` is not understood" % p.peek()[1], l)
    # write-side scope: all fields of the value
    wscope = {}
    for it in raw:
        if it[0] == "mut":
            ty = it[2]
            wscope[it[1]] = ("prim", ty[1]) if ty[0] == "prim" else ("vec", ty[1]) if ty[0] == "vec" else ("other",)
    names_seen = set()
    for it in raw:
        if it[0] == "const":
            _, name, ty, e, l = it
            lit = e[1] if expr_is_single_literal(e) else None
            if lit is not None and e[2] is not None and e[2] != ty:
                die("literal suffix %s on a %s constant" % (e[2], ty), l)
            te = typed_expr(e, wscope, "w", ty, l)
            if lit is not None and lit >= 2 ** PRIMS[ty]:
                die("literal constant does not fit its type", l)
            c = {"name": name, "p": ty, "e": te, "lit": lit, "line": l}
            (fields[-1]["post"] if fields else pre).append(c)
            rscope[name] = ("prim", ty)
        else:
            _, name, ty, sets_pool, nowrite, l = it
            if name in names_seen:
                die("duplicate field `%s`" % name, l)
            names_seen.add(name)
            f = {"name": name, "post": [], "line": l, "sets_pool": sets_pool}
            if nowrite is not None:
                if ty[0] != "prim":
                    die("nowrite field of non-primitive type is not understood", l)
                f["kind"] = "nowrite"
                f["p"] = ty[1]
                f["e"] = typed_expr(nowrite, rscope, "r", ty[1], l)
                f["rust_ty"] = ty
            else:
                f["kind"] = "field"
                if ty[0] == "vec":
                    _, elty, cnt, lenexpr, slots = ty
                    if lenexpr is not None:
                        f["ty"] = ("vecslots" if slots else "veclen", typed_expr(lenexpr, rscope, "r", None, l), elty)
                    else:
                        f["ty"] = ("veccnt", cnt, elty)
                else:
                    f["ty"] = ty
                f["rust_ty"] = ty
                if sets_pool and not (ty[0] == "vec" and ty[1] == ("ref", "CpInfo")):
                    die("pool hand-over after a field that is not Vec<CpInfo>", l)
            fields.append(f)
            rscope[name] = ("prim", ty[1]) if ty[0] == "prim" else ("other",)
    return {"pre": pre, "fields": fields}, wscope


def parse_block(text, line0):
    p = P(tokenize(text, line0))
    l = p.line()
    if p.at("#"):
        die("attributes on a notation! item are not understood", l)
    if p.eat("struct"):
        name = p.ident()
        this_alias = None
        if not p.at("{"):
            this_alias = p.ident()
        p.expect("{")
        body, _ = parse_body_items(p, this_alias, True, {})
        p.expect("}")
        if p.peek()[0] != "eof":
            die("trailing tokens after struct", p.line())
        return {"kind": "struct", "name": name, "body": body, "line": l}
    if p.eat("enum"):
        name = p.ident()
        pool_alias = None
        if p.eat("["):
            pool_alias = p.ident()
            p.expect("]")
        p.expect("{")
        tag_name = p.ident()
        p.expect(":")
        tag_ty = p.prim()
        p.expect(",")
        variants = []
        fallback = False
        while not p.at("}"):
            vl = p.line()
            if p.at("#"):
                die("attributes on variants are not understood", vl)
            if p.at("_"):
                p.next()
                p.expect("{")
                x = p.ident()
                p.expect("=>")
                p.expect("Err")
                p.expect("(")
                depth = 1
                while depth > 0:
                    k, s, _ = p.next()
                    if k == "eof":
                        die("unbalanced fallback arm", vl)
                    if s == "(":
                        depth += 1
                    elif s == ")":
                        depth -= 1
                p.expect(",")
                p.expect("}")
                p.expect(",")
                fallback = True
                if not p.at("}"):
                    die("items after the fallback arm", p.line())
                break
            vname = p.ident()
            this_alias = None
            if not p.at("{"):
                this_alias = p.ident()
            p.expect("{")
            p.expect("=")
            tag_write_raw = parse_expr(p, this_alias, False)
            p.expect("=>")
            # pattern:  lit | [x @] lo ..= hi | x
            bind = None
            k, s, pl = p.peek()
            if k == "id" and p.peek(1)[1] == "@":
                bind = p.ident()
                p.expect("@")
                k, s, pl = p.peek()
            if k in ("num", "bchr"):
                p.next()
                lo = parse_int(s, pl)[0] if k == "num" else parse_bchr(s, pl)
                if p.eat("..="):
                    k2, s2, l2 = p.next()
                    if k2 not in ("num", "bchr"):
                        die("range pattern end `%s` is not understood" % s2, l2)
                    hi = parse_int(s2, l2)[0] if k2 == "num" else parse_bchr(s2, l2)
                    pat = ("range", lo, hi)
                else:
                    if bind is not None:
                        die("`x @ literal` pattern is not understood", pl)
                    pat = ("lit", lo)
                for n in pat[1:]:
                    if n >= 2 ** PRIMS[tag_ty]:
                        die("pattern literal does not fit the tag type", pl)
            elif k == "id" and bind is None:
                bind = p.ident()
                if bind == "_":
                    bind = None
                pat = ("any",)
            else:
                die("pattern starting with `%s` is not understood" % s, pl)
            guard = None
            if p.eat("if"):
                gl = p.line()
                fn = p.ident()
                if fn != "pool_has_utf8":
                    die("guard function `%s` is not understood" % fn, gl)
                p.expect("(")
                a0 = p.ident()
                if pool_alias is None or a0 != pool_alias:
                    die("guard's pool argument `%s` is not the enum's pool alias" % a0, gl)
                p.expect(",")
                a1 = p.ident()
                if a1 != bind and a1 != tag_name:
                    die("guard's index argument `%s` is not the tag" % a1, gl)
                p.expect(",")
                k3, s3, l3 = p.next()
                if k3 != "bstr":
                    die("guard's name argument is not a byte string literal", l3)
                guard = parse_bstr(s3, l3)
                p.expect(")")
                p.expect("?")
            p.expect(",")
            head = {tag_name: ("prim", tag_ty)}
            if bind is not None:
                head[bind] = ("prim", tag_ty)
            body, wscope = parse_body_items(p, this_alias, False, head)
            p.expect("}")
            p.expect(",")
            if tag_write_raw[0] == "lit" and tag_write_raw[2] is not None and tag_write_raw[2] != tag_ty:
                die("tag literal with a suffix different from the tag type", vl)
            tag = typed_expr(tag_write_raw, wscope, "w", tag_ty, vl)
            if any(v["name"] == vname for v in variants):
                die("duplicate variant `%s`" % vname, vl)
            variants.append({"name": vname, "tag": tag, "pat": pat, "bind": bind, "guard": guard, "body": body, "line": vl})
        p.expect("}")
        if p.peek()[0] != "eof":
            die("trailing tokens after enum", p.line())
        return {"kind": "enum", "name": name, "tag_name": tag_name, "tag_ty": tag_ty, "variants": variants,
                "fallback": fallback, "line": l}
    die("notation! block is neither struct nor enum", l)


# the hand-written glue of lib.rs the model relies on (whitespace-normalised); a change there needs a look at the model
EXPECTED_GLUE = {
    "pool_slots": "fn pool_slots(pool: &[CpInfo]) -> usize { pool.iter().map(CpInfo::slots).sum() }",
    "pool_get": "fn pool_get(pool: &[CpInfo], index: u16) -> Option<&CpInfo> { "
                "let mut entry_index = 1; "
                "for entry in pool { if entry_index == index as usize { return Some(entry); } entry_index += entry.slots(); } "
                "None }",
    "pool_has_utf8": "fn pool_has_utf8(pool: Option<&Vec<CpInfo>>, index: u16, value: &[u8]) -> Result<bool, std::io::Error> { "
                     "let Some(pool) = pool else { return Err(std::io::Error::other(\"expected to have constant pool at this point of reading\")); }; "
                     "let Some(entry) = pool_get(pool, index) else { return Err(std::io::Error::other(format!(\"no constant pool entry at position {}\", index))); }; "
                     "let CpInfo::Utf8 { bytes } = entry else { return Err(std::io::Error::other(format!(\"expected constant pool entry `Utf8` at position {}, got {:?}\", index, entry))); }; "
                     "Ok(bytes.as_slice() == value) }",
    "impl ClassFile": "impl ClassFile { "
                      "pub fn to_bytes(&self) -> Vec<u8> { let mut vec = Vec::with_capacity(self.length()); self._write(&mut vec).expect(\"Writing to a Vec<u8> should never fail\"); vec } "
                      "pub fn write(&self, writer: &mut impl std::io::Write) -> std::io::Result<()> { self._write(writer) } "
                      "pub fn read(reader: &mut impl std::io::Read) -> std::io::Result<ClassFile> { ClassFile::_read(reader, None) } "
                      "pub fn length(&self) -> usize { self._len() as usize } }",
}
GLUE_START = {"pool_slots": r"^fn pool_slots\(", "pool_get": r"^fn pool_get\(", "pool_has_utf8": r"^fn pool_has_utf8\(",
              "impl ClassFile": r"^impl ClassFile \{"}


def glue_item(src, start_re):
    """the item starting at the line matching start_re, up to its closing brace, comments dropped, whitespace normalised"""
    def norm(s):
        s = re.sub(r"//[^\n]*", "", s)
        return re.sub(r"\s+", " ", s).strip()
    m = re.search(start_re, src, flags=re.M)
    if not m:
        die("glue item %s not found" % start_re)
    i = src.index("{", m.start())
    depth = 0
    j = i
    while True:
        if src[j] == "{":
            depth += 1
        elif src[j] == "}":
            depth -= 1
            if depth == 0:
                break
        j += 1
    return norm(src[m.start():j + 1])


def parse_slots(src):
    """`impl CpInfo { fn slots(&self) -> usize { match self { (CpInfo::V { .. } [| ..] => 1|2,)* _ => 1, } } }`
    -> set of variant names that take two slots.  This is *data* of the model (RawLayout.Env.wide), not fixed text:
    the model follows whatever table the code holds, and the JVMS comparison (Thm.C20.layouts_jvms) judges it."""
    text = glue_item(src, r"^impl CpInfo \{")
    m = re.fullmatch(r"impl CpInfo \{ fn slots\(&self\) -> usize \{ match self \{ (.*) \} \} \}", text)
    if not m:
        die("`impl CpInfo` is not `impl CpInfo { fn slots(&self) -> usize { match self { .. } } }`:\n  found: %s" % text)
    arms = [a.strip() for a in m.group(1).split(",")]
    if arms and arms[-1] == "":
        arms.pop()
    if not arms or arms[-1] != "_ => 1":
        die("CpInfo::slots: the last arm is not `_ => 1` (found `%s`)" % (arms[-1] if arms else ""))
    wide, seen = set(), set()
    for a in arms[:-1]:
        mm = re.fullmatch(r"((?:CpInfo::[A-Za-z0-9_]+ \{ \.\. \}(?: \| )?)+) => ([0-9]+)", a)
        if not mm:
            die("CpInfo::slots: arm `%s` is not understood" % a)
        n = int(mm.group(2))
        if n not in (1, 2):
            die("CpInfo::slots: an entry taking %d slots is not modelled (only 1 and 2)" % n)
        for v in re.findall(r"CpInfo::([A-Za-z0-9_]+) \{ \.\. \}", mm.group(1)):
            if v in seen:
                die("CpInfo::slots: variant `%s` occurs in two arms" % v)
            seen.add(v)
            if n == 2:
                wide.add(v)
    return wide


def check_glue(src):
    def norm(s):
        return re.sub(r"\s+", " ", s).strip()
    got = {k: glue_item(src, r) for k, r in GLUE_START.items()}
    for k, want in EXPECTED_GLUE.items():
        if got[k] != norm(want):
            die("hand-written item `%s` of lib.rs differs from the text the model was written against:\n  found   : %s\n  expected: %s"
                % (k, got[k], norm(want)))
    if len(re.findall(r"(?m)^impl\s", src)) != 2:
        die("`impl` blocks other than `impl ClassFile` and `impl CpInfo` in lib.rs are not understood")
    if len(re.findall(r"(?m)^(?:pub(?:\([a-z]+\))? )?fn\s", src)) != 3:
        die("free functions other than pool_slots, pool_get, pool_has_utf8 in lib.rs are not understood")


def translate(src):
    check_glue(src)
    wide = parse_slots(src)
    defs = [parse_block(text, line) for line, text in find_blocks(src)]
    names = {}
    for d in defs:
        if d["name"] in names:
            die("duplicate type `%s`" % d["name"], d["line"])
        names[d["name"]] = d
    # resolve refs
    def walk_fields(d):
        bodies = [d["body"]] if d["kind"] == "struct" else [v["body"] for v in d["variants"]]
        for b in bodies:
            for f in b["fields"]:
                yield f
    for d in defs:
        for f in walk_fields(d):
            if f["kind"] != "field":
                continue
            ty = f["ty"]
            elt = ty if ty[0] in ("prim", "ref") else ty[2]
            if elt[0] == "ref" and elt[1] not in names:
                die("type `%s` is not defined by a notation! block" % elt[1], f["line"])
    if "ClassFile" not in names or names["ClassFile"]["kind"] != "struct":
        die("struct ClassFile not found")
    if "CpInfo" not in names or names["CpInfo"]["kind"] != "enum" or not any(v["name"] == "Utf8" for v in names["CpInfo"]["variants"]):
        die("enum CpInfo with variant Utf8 not found (needed by pool_has_utf8)")
    utf8 = [v for v in names["CpInfo"]["variants"] if v["name"] == "Utf8"][0]
    fs = utf8["body"]["fields"]
    if not (len(fs) == 1 and fs[0]["kind"] == "field" and fs[0]["ty"][0] in ("veccnt", "veclen", "vecslots") and fs[0]["ty"][2] == ("prim", "u8") and fs[0]["name"] == "bytes"):
        die("CpInfo::Utf8 is not { bytes: Vec<u8> }")
    cpnames = [v["name"] for v in names["CpInfo"]["variants"]]
    for w in sorted(wide):
        if w not in cpnames:
            die("CpInfo::slots names the variant `%s`, which CpInfo does not have" % w)
    global WIDE
    WIDE = [i for i, n in enumerate(cpnames) if n in wide]
    return defs


# indices of the variants of CpInfo that take two constant-pool slots (from `CpInfo::slots`), set by translate()
WIDE = []

# ------------------------------------------------------------------ name table

class Names:
    def __init__(self):
        self.ids = {}
        self.list = []

    def id(self, s):
        if s not in self.ids:
            self.ids[s] = len(self.list)
            self.list.append(s)
        return self.ids[s]


# ------------------------------------------------------------------ Lean printer

def lean_expr(e, nm):
    k = e[0]
    if k == "lit":
        return "(.lit %d)" % e[1]
    if k == "var":
        return "(.var %d)" % nm.id(e[1])
    if k == "len":
        return "(.lenOf %d)" % nm.id(e[1])
    if k == "slots":
        return "(.slotsOf %d %s)" % (nm.id(e[1]), WIDE)
    if k == "thislen":
        return ".thisLen"
    return "(.%s %s %s)" % (k, lean_expr(e[1], nm), lean_expr(e[2], nm))


def lean_texpr(te, nm):
    return "⟨%d, %s⟩" % (te[0], lean_expr(te[1], nm))


def lean_ty(ty, tyid, nm):
    k = ty[0]
    if k == "prim":
        return "(.prim .%s)" % ty[1]
    if k == "ref":
        return "(.ref %d)" % tyid[ty[1]]
    if k == "veccnt":
        return "(.vecCnt .%s %s)" % (ty[1], lean_ty(ty[2], tyid, nm))
    if k == "veclen":
        return "(.vecLen %s %s)" % (lean_texpr(ty[1], nm), lean_ty(ty[2], tyid, nm))
    if k == "vecslots":
        return "(.vecSlots %s %s %s)" % (lean_texpr(ty[1], nm), WIDE, lean_ty(ty[2], tyid, nm))
    raise AssertionError(k)


def lean_const(c, nm):
    return "⟨%d, .%s, %s, %s⟩" % (nm.id(c["name"]), c["p"], lean_texpr(c["e"], nm), "some %d" % c["lit"] if c["lit"] is not None else "none")


def lean_body(b, tyid, nm, ind):
    pre = "[%s]" % ", ".join(lean_const(c, nm) for c in b["pre"])
    fl = []
    for f in b["fields"]:
        if f["kind"] == "field":
            kind = "(.field %s %s)" % (lean_ty(f["ty"], tyid, nm), "true" if f["sets_pool"] else "false")
        else:
            kind = "(.nowrite .%s %s)" % (f["p"], lean_texpr(f["e"], nm))
        post = "[%s]" % ", ".join(lean_const(c, nm) for c in f["post"])
        fl.append("%s⟨%d, %s, %s⟩" % (ind + "  ", nm.id(f["name"]), kind, post))
    fields = "[]" if not fl else "[\n" + ",\n".join(fl) + "]"
    return "⟨%s, %s⟩" % (pre, fields)


def lean_pat(pat):
    return {"lit": lambda: "(.lit %d)" % pat[1], "range": lambda: "(.range %d %d)" % (pat[1], pat[2]), "any": lambda: ".any"}[pat[0]]()


def emit_lean(defs):
    nm = Names()
    tyid = {d["name"]: i for i, d in enumerate(defs)}
    for d in defs:  # type names first: stable, readable ids
        nm.id(d["name"])
    out = []
    for d in defs:
        if d["kind"] == "struct":
            out.append("  -- %d %s\n  .struct %d %s" % (tyid[d["name"]], d["name"], nm.id(d["name"]), lean_body(d["body"], tyid, nm, "    ")))
        else:
            vs = []
            for i, v in enumerate(d["variants"]):
                guard = "none" if v["guard"] is None else "(some [%s])" % ", ".join(str(b) for b in v["guard"])
                bind = "none" if v["bind"] is None else "(some %d)" % nm.id(v["bind"])
                vs.append("    -- %s::%s (variant %d)\n    ⟨%d, %s, %s, %s, %s,\n      %s⟩" % (
                    d["name"], v["name"], i, nm.id(v["name"]), lean_texpr(v["tag"], nm), lean_pat(v["pat"]), bind, guard,
                    lean_body(v["body"], tyid, nm, "      ")))
            out.append("  -- %d %s\n  .enum %d %d .%s [\n%s] %s" % (tyid[d["name"]], d["name"], nm.id(d["name"]), nm.id(d["tag_name"]), d["tag_ty"],
                                                              ",\n".join(vs), "true" if d["fallback"] else "false"))
    cp = [d for d in defs if d["name"] == "CpInfo"][0]
    utf8_idx = [i for i, v in enumerate(cp["variants"]) if v["name"] == "Utf8"][0]
    special = []
    for nme in ("attribute_length", "constant_pool_count", "constant_pool", "attribute_name_index"):
        special.append("def n_%s : Nat := %d" % (nme, nm.id(nme)))
    text = """/-
GENERATED by /verif/translate/notation_to_lean.py from raw_class_file/src/lib.rs -- do not edit.
Regenerated on every check run; the copy in the tree only lets a fresh checkout build.
-/
import FeatherModel.Model.RawLayout

namespace Gen.RawLayouts
open RawLayout

/-- all layouts, in source order; `Ty.ref i` points into this list -/
def defs : List Def := [
%s
]

/-- index of `ClassFile` (the only type with public read/write entry points) -/
def classFileId : Nat := %d
/-- index of `CpInfo` and of its variant `Utf8` (what `pool_has_utf8` looks for) -/
def cpInfoId : Nat := %d
def utf8Variant : Nat := %d
/-- variants of `CpInfo` for which `CpInfo::slots` answers 2 (every other one: 1) -/
def wideVariants : List Nat := %s
/-- the layout environment interpreted by `FeatherModel.Model.RawLayout` -/
def env : Env := ⟨defs, utf8Variant, wideVariants⟩
/-- index of `AttributeInfo` -/
def attributeInfoId : Nat := %d
%s

/-- names of the ids used above (types first) -- for messages only -/
def names : List String := [
%s
]

/-- the same names as code points (kernel-reducible; compared with the JVMS names by `decide`) -/
def nameCodes : List (List Nat) := [
%s
]

end Gen.RawLayouts
""" % (",\n".join(out), tyid["ClassFile"], tyid["CpInfo"], utf8_idx, WIDE, tyid.get("AttributeInfo", 0), "\n".join(special),
       ",\n".join("  " + ", ".join('"%s"' % s for s in nm.list[i:i + 6]) for i in range(0, len(nm.list), 6)),
       ",\n".join("  [%s]" % ", ".join(str(ord(ch)) for ch in s) for s in nm.list))
    return text


# ------------------------------------------------------------------ Rust printer

def rust_expr(e):
    k = e[0]
    if k == "lit":
        return "E::Lit(%d)" % e[1]
    if k == "var":
        return 'E::Var("%s")' % e[1]
    if k == "len":
        return 'E::LenOf("%s")' % e[1]
    if k == "slots":
        return 'E::SlotsOf("%s", WIDE_VARIANTS)' % e[1]
    if k == "thislen":
        return "E::ThisLen"
    return "E::%s(&%s, &%s)" % (k.capitalize(), rust_expr(e[1]), rust_expr(e[2]))


def rust_texpr(te):
    return "TE { bits: %d, e: %s }" % (te[0], rust_expr(te[1]))


def rust_ty(ty, tyid):
    k = ty[0]
    if k == "prim":
        return "Ty::Prim(%d)" % (PRIMS[ty[1]] // 8)
    if k == "ref":
        return "Ty::Ref(%d)" % tyid[ty[1]]
    if k == "veccnt":
        return "Ty::VecCnt(%d, &%s)" % (PRIMS[ty[1]] // 8, rust_ty(ty[2], tyid))
    if k == "vecslots":
        return "Ty::VecSlots(%s, WIDE_VARIANTS, &%s)" % (rust_texpr(ty[1]), rust_ty(ty[2], tyid))
    return "Ty::VecLen(%s, &%s)" % (rust_texpr(ty[1]), rust_ty(ty[2], tyid))


def rust_const(c):
    return 'ConstD { name: "%s", bytes: %d, e: %s, lit: %s }' % (c["name"], PRIMS[c["p"]] // 8, rust_texpr(c["e"]),
                                                               "Some(%d)" % c["lit"] if c["lit"] is not None else "None")


def rust_body(b, tyid):
    fs = []
    for f in b["fields"]:
        if f["kind"] == "field":
            kind = "FieldKind::Field(%s, %s)" % (rust_ty(f["ty"], tyid), "true" if f["sets_pool"] else "false")
        else:
            kind = "FieldKind::NoWrite(%d, %s)" % (PRIMS[f["p"]] // 8, rust_texpr(f["e"]))
        fs.append('FieldD { name: "%s", kind: %s, post: &[%s] }' % (f["name"], kind, ", ".join(rust_const(c) for c in f["post"])))
    return "BodyD { pre: &[%s], fields: &[\n\t\t\t%s\n\t\t] }" % (", ".join(rust_const(c) for c in b["pre"]), ",\n\t\t\t".join(fs))


def rust_native_ty(rt):
    if rt[0] == "prim":
        return rt[1]
    if rt[0] == "ref":
        return "rc::" + rt[1]
    return "Vec<%s>" % rust_native_ty(rt[1])


def rust_to_val(expr, rt, deref):
    """expression (a reference or place `expr`) of Rust type rt -> Val"""
    if rt[0] == "prim":
        return "Val::Num(%s%s as u64)" % ("*" if deref else "", expr)
    if rt[0] == "ref":
        return "to_val_%s(%s%s)" % (rt[1], "" if deref else "&", expr)
    el = rt[1]
    if el[0] == "prim":
        return "Val::List(%s.iter().map(|x| Val::Num(*x as u64)).collect())" % expr
    return "Val::List(%s.iter().map(to_val_%s).collect())" % (expr, el[1])


def rust_from_val(idx, rt):
    if rt[0] == "prim":
        return "num_%s(fs.get(%d)?)?" % (rt[1], idx)
    if rt[0] == "ref":
        return "from_val_%s(fs.get(%d)?)?" % (rt[1], idx)
    el = rt[1]
    if el[0] == "prim":
        return "list(fs.get(%d)?)?.iter().map(num_%s).collect::<Option<Vec<_>>>()?" % (idx, el[1])
    return "list(fs.get(%d)?)?.iter().map(from_val_%s).collect::<Option<Vec<_>>>()?" % (idx, el[1])


def emit_rust(defs):
    tyid = {d["name"]: i for i, d in enumerate(defs)}
    tabs = []
    fns = []
    for d in defs:
        n = d["name"]
        if d["kind"] == "struct":
            tabs.append('\tDefD::Struct { name: "%s", body: %s },' % (n, rust_body(d["body"], tyid)))
            fields = d["body"]["fields"]
            fns.append("pub fn to_val_%s(x: &rc::%s) -> Val {\n\tVal::Node(0, vec![%s])\n}" % (
                n, n, ", ".join(rust_to_val("x." + f["name"], f["rust_ty"], False) for f in fields)))
            fns.append("pub fn from_val_%s(v: &Val) -> Option<rc::%s> {\n\tlet (k, fs) = node(v)?;\n\tif k != 0 || fs.len() != %d { return None; }\n\tSome(rc::%s { %s })\n}" % (
                n, n, len(fields), n, ", ".join("%s: %s" % (f["name"], rust_from_val(i, f["rust_ty"])) for i, f in enumerate(fields))))
        else:
            vs = []
            to_arms = []
            from_arms = []
            for i, v in enumerate(d["variants"]):
                pat = ("PatD::Lit(%d)" % v["pat"][1] if v["pat"][0] == "lit" else
                       "PatD::Range(%d, %d)" % (v["pat"][1], v["pat"][2]) if v["pat"][0] == "range" else "PatD::Any")
                guard = "None" if v["guard"] is None else 'Some(b"%s")' % "".join(chr(b) for b in v["guard"])
                bind = "None" if v["bind"] is None else 'Some("%s")' % v["bind"]
                vs.append('\t\tVariantD { name: "%s", tag: %s, pat: %s, bind: %s, guard: %s, body: %s },' % (
                    v["name"], rust_texpr(v["tag"]), pat, bind, guard, rust_body(v["body"], tyid)))
                fields = v["body"]["fields"]
                binders = ", ".join(f["name"] for f in fields)
                to_arms.append("\t\trc::%s::%s { %s } => Val::Node(%d, vec![%s])," % (
                    n, v["name"], binders, i, ", ".join(rust_to_val(f["name"], f["rust_ty"], True) for f in fields)))
                from_arms.append("\t\t%d => { if fs.len() != %d { return None; } Some(rc::%s::%s { %s }) }" % (
                    i, len(fields), n, v["name"], ", ".join("%s: %s" % (f["name"], rust_from_val(j, f["rust_ty"])) for j, f in enumerate(fields))))
            tabs.append('\tDefD::Enum { name: "%s", tag_name: "%s", tag_bytes: %d, fallback: %s, variants: &[\n%s\n\t] },' % (
                n, d["tag_name"], PRIMS[d["tag_ty"]] // 8, "true" if d["fallback"] else "false", "\n".join(vs)))
            fns.append("pub fn to_val_%s(x: &rc::%s) -> Val {\n\tmatch x {\n%s\n\t}\n}" % (n, n, "\n".join(to_arms)))
            fns.append("pub fn from_val_%s(v: &Val) -> Option<rc::%s> {\n\tlet (k, fs) = node(v)?;\n\tmatch k {\n%s\n\t\t_ => None,\n\t}\n}" % (
                n, n, "\n".join(from_arms)))
    cp = [d for d in defs if d["name"] == "CpInfo"][0]
    utf8_idx = [i for i, v in enumerate(cp["variants"]) if v["name"] == "Utf8"][0]
    return """// GENERATED by /verif/translate/notation_to_lean.py from raw_class_file/src/lib.rs -- do not edit.
//! Layout tables of raw_class_file (same data as lean/FeatherModel/Gen/RawLayouts.lean) and conversions between the
//! crate's public types and the generic value type `Val` of the line protocol.
#![allow(non_snake_case, clippy::all)]
use raw_class_file as rc;
pub use crate::rawval::*;

pub const CLASS_FILE_ID: usize = %d;
pub const CP_INFO_ID: usize = %d;
pub const UTF8_VARIANT: usize = %d;
/// variants of CpInfo for which `CpInfo::slots` answers 2
pub const WIDE_VARIANTS: &[usize] = &%s;
pub const ATTRIBUTE_INFO_ID: usize = %d;

pub static DEFS: &[DefD] = &[
%s
];

%s
""" % (tyid["ClassFile"], tyid["CpInfo"], utf8_idx, WIDE, tyid.get("AttributeInfo", 0), "\n".join(tabs), "\n\n".join(fns))


# ------------------------------------------------------------------ main

def write_if_changed(path, text):
    try:
        with open(path) as f:
            if f.read() == text:
                return False
    except OSError:
        pass
    os.makedirs(os.path.dirname(path), exist_ok=True)
    tmp = "%s.tmp%d" % (path, os.getpid())
    with open(tmp, "w") as f:
        f.write(text)
    os.replace(tmp, path)
    return True


def main():
    try:
        src = open(SRC).read()
    except OSError as e:
        print("notation_to_lean: cannot read %s: %s" % (SRC, e), file=sys.stderr)
        return 2
    try:
        defs = translate(src)
        lean = emit_lean(defs)
        rust = emit_rust(defs)
    except Unsupported as e:
        print("notation_to_lean: %s\n(the translator refuses to guess; extend translate/notation_to_lean.py and "
              "lean/FeatherModel/Model/RawLayout.lean together)" % e, file=sys.stderr)
        return 1
    a = write_if_changed(OUT_LEAN, lean)
    b = write_if_changed(OUT_RUST, rust)
    ns = sum(1 for d in defs if d["kind"] == "struct")
    nv = sum(len(d["variants"]) for d in defs if d["kind"] == "enum")
    print("notation_to_lean: %d blocks (%d structs, %d enums, %d variants) from %s; RawLayouts.lean %s, rawcodec_gen.rs %s" % (
        len(defs), ns, len(defs) - ns, nv, SRC, "rewritten" if a else "unchanged", "rewritten" if b else "unchanged"))
    return 0


if __name__ == "__main__":
    sys.exit(main())
