"""Per-property configuration of ./check, loaded from props.d/Cxx.json ({"props": {...}, "manifest": {...}})."""
import json, os, glob

_D = os.path.join(os.path.dirname(os.path.abspath(__file__)), "props.d")
try:
    READY = set(open(os.path.join(_D, "READY")).read().split())
except OSError:
    READY = set()
PROPS = {}
MANIFEST_TEXT = {}
for _f in sorted(glob.glob(os.path.join(_D, "C*.json"))):
    _pid = os.path.basename(_f)[:-5]
    _j = json.load(open(_f))
    PROPS[_pid] = _j.get("props", {})
    # a property is claimed in MANIFEST.json only once it is listed in props.d/READY (reviewed and committed)
    if _pid in READY:
        MANIFEST_TEXT[_pid] = _j["manifest"]
