"""Per-property configuration of ./check (bins, drivers, translators, which ops the property determines)."""

PROPS = {
    "C11": {
        "determined_ops": ["extend", "contract", "split", "join"],
        "determined_by": "extend_frame, extend_toplevel, extend_nested, extend_fails_missing_outer, contract_spec, split_join, join_split",
        "assumptions": [
            "model FeatherModel/Model/InnerNames.lean is hand written; tied to quill/src/action/extend_inner_class_names.rs and "
            "duke ObjClassNameSlice::split_inner_class_parent_and_name by the correspondence run",
            "strings are modelled as lists of code points; mapping sets fed to the implementation have consistent keys",
        ],
    },
}
