"""Per-property configuration of ./check, loaded from props.d/Cxx.json ({"props": {...}, "manifest": {...}})."""
import json, os, glob

_D = os.path.join(os.path.dirname(os.path.abspath(__file__)), "props.d")
PROPS = {}
MANIFEST_TEXT = {}
for _f in sorted(glob.glob(os.path.join(_D, "C*.json"))):
    _pid = os.path.basename(_f)[:-5]
    _j = json.load(open(_f))
    PROPS[_pid] = _j.get("props", {})
    MANIFEST_TEXT[_pid] = _j["manifest"]
