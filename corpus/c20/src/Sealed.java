/** PermittedSubclasses without nest mates: the permitted classes are top-level classes of the same file. */
public sealed interface Sealed permits SealedA, SealedB {}
final class SealedA implements Sealed {}
non-sealed class SealedB implements Sealed {}
