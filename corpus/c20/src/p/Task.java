package p;
public class Task implements Runnable { public void run() {} }
