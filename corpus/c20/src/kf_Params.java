/** compiled with -parameters: MethodParameters (known defect: parameters_count is u1 in the JVMS) */
public class kf_Params {
	public int add(final int left, int right) { return left + right; }
}
