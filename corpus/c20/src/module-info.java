/** Module attribute */
module c20.corpus {
	requires java.base;
	requires transitive java.logging;
	exports p;
	opens p to java.logging;
	uses java.lang.Runnable;
	provides java.lang.Runnable with p.Task;
}
