/** RuntimeVisible/InvisibleAnnotations on class, field, method; RuntimeVisible/InvisibleParameterAnnotations; abstract + native methods. */
@Marker(level = 9, tags = {"x"}, nested = @Deprecated)
@Hidden({1, 2, 3})
public abstract class Annotated {
	@Marker(text = "field") @Hidden
	static int field;

	@Marker(c = 'q', type = String.class)
	public abstract int work(@Marker(flag = false) int a, String b, @Hidden({7}) @Marker Object c);

	public static native void nothing(@Hidden int x);

}
