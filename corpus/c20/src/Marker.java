import java.lang.annotation.ElementType;
import java.lang.annotation.Retention;
import java.lang.annotation.RetentionPolicy;
import java.lang.annotation.Target;

/** AnnotationDefault with every kind of element value; RuntimeVisibleAnnotations on the annotation itself. */
@Retention(RetentionPolicy.RUNTIME)
@Target({ElementType.TYPE, ElementType.METHOD, ElementType.PARAMETER, ElementType.FIELD})
public @interface Marker {
	int level() default 3;
	byte b() default 1;
	char c() default 'x';
	short s() default 7;
	boolean flag() default true;
	float f() default 1.5f;
	String text() default "hello";
	Class<?> type() default Object.class;
	RetentionPolicy policy() default RetentionPolicy.CLASS;
	String[] tags() default {"a", "b"};
	Deprecated nested() default @Deprecated;
}
