/** record: Record attribute, BootstrapMethods (ObjectMethods), MethodParameters on the canonical constructor */
public record kf_Rec(int x, String name) {}
