/** long / double constants: two-slot constant pool entries (known defect: constant_pool_count) */
public class kf_LongConst {
	public static final long BIG = 123456789012L;
	public static final double HALF = 0.5;
	long twice(long x) { return 2 * x + BIG; }
}
