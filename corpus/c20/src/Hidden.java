import java.lang.annotation.Retention;
import java.lang.annotation.RetentionPolicy;

/** class-retention annotation: RuntimeInvisible(Parameter)Annotations at its uses */
@Retention(RetentionPolicy.CLASS)
@interface Hidden {
	int[] value() default {};
}
