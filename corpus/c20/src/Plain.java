import java.util.ArrayList;
import java.util.List;

/** Fields, constants, generics, branches, exceptions, a lambda: Code, LineNumberTable, LocalVariableTable,
 *  LocalVariableTypeTable (-g), StackMapTable, Exceptions, ConstantValue, Signature, Deprecated,
 *  RuntimeVisibleAnnotations, BootstrapMethods, InnerClasses (MethodHandles$Lookup), SourceFile. */
public class Plain<T extends Comparable<T>> implements Runnable {
	public static final int ANSWER = 42;
	public static final String NAME = "plain";
	private final List<T> items = new ArrayList<>();
	protected volatile int counter;

	@Deprecated
	public int old(int a, int b) { return a > b ? a - b : b - a; }

	public T max() throws IllegalStateException {
		if (items.isEmpty()) throw new IllegalStateException(NAME);
		T best = items.get(0);
		for (T x : items) {
			if (x.compareTo(best) > 0) best = x;
		}
		return best;
	}

	public int sum(int[] xs) {
		int s = 0;
		try {
			for (int i = 0; i < xs.length; i++) { s += xs[i]; }
		} catch (ArrayIndexOutOfBoundsException e) {
			s = -1;
		} finally {
			counter++;
		}
		return s;
	}

	public synchronized String describe(Object o) {
		switch (o == null ? 0 : o.hashCode() & 3) {
			case 0: return "zero";
			case 1: return "one";
			default: return "many" + o;
		}
	}

	@Override
	public void run() {
		Runnable r = () -> counter += ANSWER;
		r.run();
	}
}
