/** nest mates: NestMembers on the host (known defect: attribute_length), NestHost + InnerClasses + EnclosingMethod on the members */
public class kf_Outer {
	private int secret = 1;
	class Inner { int peek() { return secret; } }
	static class Nested {}
	Object local() {
		class Local {}
		return new Object() { @Override public String toString() { return "anon" + new Local(); } };
	}
}
