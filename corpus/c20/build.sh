#!/bin/sh
# Recompiles the C20 corpus (javac 17) into /verif/corpus/c20/*.class.  The compiled classes are vendored: the checks
# only read the .class files; this script documents how they were made.
set -e
here=$(cd "$(dirname "$0")" && pwd)
out=$(mktemp -d /var/tmp/c20corpus.XXXXXX)
trap 'rm -rf "$out"' EXIT
cd "$here/src"
javac -g -d "$out/a" Plain.java Marker.java Hidden.java Annotated.java Sealed.java kf_Outer.java kf_LongConst.java kf_Rec.java
javac -g -parameters -d "$out/b" kf_Params.java
javac -d "$out/m" module-info.java p/Task.java
rm -f "$here"/*.class
cp "$out"/a/*.class "$out"/b/*.class "$here"/
cp "$out/m/module-info.class" "$here/module-info.class"
cp "$out/m/p/Task.class" "$here/Task.class"
ls -la "$here"/*.class
