import subprocess, os, sys
binp = sys.argv[1] if len(sys.argv) > 1 else "/verif/harness/target/debug/c07"
def gen(kind):
    out = subprocess.run([binp, "gen"], env=dict(os.environ, C07_WITNESS=kind), stdout=subprocess.PIPE).stdout.decode().split("\n")[:-1]
    return out
reg_ids = ["C07-fixed-indy-descriptor", "C07-fixed-condy-descriptor", "C07-fixed-indy-descriptor-corpus",
  "C07-enum-constant", "C07-enum-constant-array", "C07-enum-constant-corpus", "C07-enum-constant-corpus-array",
  "C07-record-refs", "C07-record-shape", "C07-unknown-attributes", "C07-unknown-attributes-all-levels",
  "C07-module-data", "C07-module-data-refs", "C07-record-corpus", "C07-record-corpus-refs",
  "C07-inner-name", "C07-inner-name-nested", "C07-inner-name-local-class", "C07-inner-name-outer-class",
  "C07-code-unknown-attributes-written"]
open_ids = [("C07-signature-fixture","ok (fail signature)"), ("C07-signature-corpus","ok (fail signature)"),
  ("C07-annotation-element-name","ok (fail element-name)")]
reg = gen("regress"); op = gen("open")
assert len(reg)==len(reg_ids), (len(reg), len(reg_ids))
assert len(op)==len(open_ids), (len(op), len(open_ids))
with open("/verif/corpus/regress/C07.txt","w") as f:
    f.write("; C07 regression lines of the repaired findings; every run replays them, a failing oracle is a violation again.\n")
    f.write("; 45d38a4: invokedynamic / dynamic-constant descriptors are remapped. Branch c07fix: enum constants in annotations,\n")
    f.write("; record components, unknown attributes, module data, inner names. Format: ; <id>\\t<expected answer>, then the request line.\n")
    f.write("; regenerate with: python3 /verif/corpus/c07/regen.py (runs C07_WITNESS=regress|open harness/target/debug/c07 gen)\n")
    for i,l in zip(reg_ids, reg):
        f.write("; %s\tok pass\n%s\n" % (i,l))
with open("/verif/corpus/c07/witnesses.txt","w") as f:
    f.write("; C07 open findings: witness request lines (full-strength oracles, no domain). Each line is preceded by\n")
    f.write(";   ; <id>\\t<expected answer of implementation and model>\n")
    f.write("; regenerate with: python3 /verif/corpus/c07/regen.py\n")
    for (i,e),l in zip(open_ids, op):
        f.write("; %s\t%s\n%s\n" % (i,e,l))
