public class Consts {
    public static final long L = 0x123456789abcdefL; public static final double D = 3.141592653589793; public static final float F = 2.5f;
    public static final int I = 100000; public static final String S = "héllo wörld 世界"; public static final char C = 'c'; public static final boolean Z = true; public static final short SH = 300; public static final byte B = -3;
    public static final double NAN = Double.NaN; public static final float NEG0 = -0.0f;
    public static double math(long a, double b, float c, int d) {
        long x = a * 1000000007L + 12345678901234L; double y = b * 1e100 + 0.5; float z = c * 3.25f; int w = d + 70000 - 300 + 5;
        return x + y + z + w + (a << 3) + (a >>> 2) + (d % 7) + (long) b + (int) c + (float) a + (a > x ? 1 : 2) + Double.compare(y, b) + (b < y ? 1 : 0) + (c > z ? 1 : 0);
    }
    public static Object arrays(int n) { int[] a = new int[n]; long[][] b = new long[n][3]; String[] s = new String[2]; byte[] by = {1,2,3}; char[] ch = new char[1]; short[] sh = new short[1]; float[] f = new float[1]; double[] d = new double[1]; boolean[] z = new boolean[1];
        a[0] = by[0] + ch[0] + sh[0]; b[0][0] = a.length; s[0] = "x"; f[0] = (float) d[0]; z[0] = s instanceof Object[]; return new Object[][][]{ {{a, b}}, {{s}} }; }
    public native int nat(); public abstract static class Abs { abstract void a(); strictfp double sf(double q) { return q * 2; } }
}
