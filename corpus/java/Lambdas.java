import java.util.function.*;
import java.util.*;
public class Lambdas {
    interface Shape { double area(); default String name() { return "shape"; } }
    static int counter;
    public static Supplier<String> make(String s, int n) {
        Function<Integer, String> f = i -> s + i + n;
        Runnable r = () -> counter++;
        r.run();
        BiFunction<Long, Double, String> g = (a, b) -> String.valueOf(a + b);
        return () -> f.apply(3) + g.apply(5L, 2.5);
    }
    public static void refs(List<String> xs) {
        xs.forEach(System.out::println);
        Supplier<ArrayList<String>> c = ArrayList::new;
        Function<String, Integer> len = String::length;
        Shape sq = () -> 4.0;
        System.out.println(c.get().size() + len.apply("abc") + sq.area() + sq.name());
    }
    public static String concat(int a, long b, char c, Object o) { return "x" + a + b + c + o + "\u0000😀"; }
}
