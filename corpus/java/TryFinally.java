import java.io.*;
public class TryFinally {
    public static int f(int x) throws IOException, IllegalStateException {
        try { if (x > 3) throw new IOException("a"); return x; }
        catch (IllegalArgumentException | ArithmeticException e) { return -1; }
        finally { System.out.println("done"); }
    }
    public static String res(String p) throws Exception {
        try (BufferedReader r = new BufferedReader(new FileReader(p)); StringWriter w = new StringWriter()) {
            w.write(r.readLine()); return w.toString();
        }
    }
    public synchronized void sync(Object o) { synchronized (o) { o.notify(); } }
    public static void nested() { try { try { f(1); } finally { f(2); } } catch (Exception e) { throw new RuntimeException(e); } }
}
