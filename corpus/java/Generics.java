import java.util.*;
public class Generics<T extends Comparable<? super T> & java.io.Serializable, U> extends AbstractList<T> implements RandomAccess {
    private final List<? extends T> items; public Map<String, List<U>> map;
    public Generics(List<? extends T> items) { this.items = items; }
    public T get(int i) { return items.get(i); }
    public int size() { return items.size(); }
    public <V extends Number> V pick(V a, V b, Map<? super T, ? extends V[]> m) throws IllegalStateException { return a.intValue() > b.intValue() ? a : b; }
    public static <E> E[] arr(E... es) { return es; }
    @Deprecated public int compareFirst(T o) { T first = items.get(0); List<T> copy = new ArrayList<>(items); return first.compareTo(o) + copy.size(); }
}
