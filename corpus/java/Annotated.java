import java.util.*;
@Ann(name = "cls", ks = {1,2,3}, c = String.class, e = java.lang.annotation.RetentionPolicy.SOURCE, nested = @Deprecated(since = "9"))
public class Annotated {
    @Ann @Deprecated public int field;
    @Ann(name = "m") public String m(@Ann(name = "p") int p, @Deprecated String q) { List<@Ann String> l = new ArrayList<@Ann String>(); Object o = (@Ann Object) l; return o.toString() + p + q; }
    public void plain(final int a, String b) {}
}
