import java.lang.annotation.*;
@Retention(RetentionPolicy.RUNTIME) @Target({ElementType.TYPE, ElementType.FIELD, ElementType.METHOD, ElementType.PARAMETER, ElementType.RECORD_COMPONENT, ElementType.TYPE_USE})
public @interface Ann {
    String name() default "n"; int[] ks() default {}; Class<?> c() default Object.class; RetentionPolicy e() default RetentionPolicy.CLASS;
    byte b() default 1; char ch() default 'x'; short s() default 2; long l() default 3L; float f() default 1.5f; double d() default 2.5; boolean z() default true;
    Deprecated nested() default @Deprecated;
}
