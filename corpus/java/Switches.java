public class Switches {
    enum Color { RED, GREEN, BLUE }
    public static int dense(int x) {
        switch (x) { case 0: return 10; case 1: return 11; case 2: return 12; case 3: return 13; case 5: return 15; default: return -1; }
    }
    public static int sparse(int x) {
        switch (x) { case -1000: return 1; case 7: return 2; case 100000: return 3; case Integer.MAX_VALUE: return 4; default: return 0; }
    }
    public static int strings(String s) {
        switch (s) { case "alpha": return 1; case "beta": return 2; case "Aa": case "BB": return 3; default: return 0; }
    }
    public static String enums(Color c) {
        switch (c) { case RED: return "r"; case GREEN: return "g"; default: return "b"; }
    }
    public static int arrow(Object o, int k) {
        return switch (k) { case 1, 2, 3 -> 1; case 10 -> { int z = k * 2; yield z; } default -> o.hashCode(); };
    }
    public static int padded(int a) { int q = a + 1; switch (q) { case 1: return 1; case 2: return 2; default: return 3; } }
    public static int padded2(int a) { int q = a; q++; switch (q) { case 1: return 1; case 2: return 2; default: return 3; } }
    public static int padded3(int a) { int q = a; q++; q--; switch (q) { case 1: return 1; case 2: return 2; default: return 3; } }
}
