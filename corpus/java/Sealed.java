public sealed interface Sealed permits Sealed.A, Sealed.B, Sealed.C {
    record A(int v) implements Sealed {}
    final class B implements Sealed {}
    non-sealed class C implements Sealed {}
    static int test(Sealed s) { if (s instanceof A a && a.v() > 3) return a.v(); if (s instanceof B) return 1; return 0; }
}
