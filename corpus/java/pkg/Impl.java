package pkg;
public class Impl implements Runnable { public void run() {} }
