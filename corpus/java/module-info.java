module corpus.mod { requires java.base; requires transitive java.logging; exports pkg; opens pkg to java.logging; uses java.lang.Runnable; provides java.lang.Runnable with pkg.Impl; }
