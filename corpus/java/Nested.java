public class Nested {
    private int secret = 42;
    public static class StaticInner { int v; }
    public class Inner { int get() { return secret; } class Deep { int d() { return secret + 1; } } }
    interface Callback { void call(int x); }
    public Callback anon() {
        return new Callback() { public void call(int x) { secret += x; } };
    }
    public Object local(final int k) {
        class Local implements Callback { public void call(int x) { secret = x + k; } }
        return new Local();
    }
    private static int priv() { return 1; }
    static { System.out.println(priv()); }
}
