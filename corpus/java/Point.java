public record Point(int x, @Ann(name = "why", ks = {1, 2}) double y, java.util.List<String> tags) implements Comparable<Point> {
    public Point { if (x < 0) throw new IllegalArgumentException(); }
    public int compareTo(Point o) { return Integer.compare(x, o.x); }
    static Point origin() { return new Point(0, 0.0, java.util.List.of()); }
}
