#!/usr/bin/env python3
"""Writes MANIFEST.json from props.py + manifest_text.py (kept valid at all times)."""
import json, os
from props import PROPS
from manifest_text import CHECK_TEXT, NOT_APPLICABLE
HOOK = "b37bfee8da0246d1c9dc4a86980fb7412978eb04"

checks = []
for pid in sorted(CHECK_TEXT):
    t = CHECK_TEXT[pid]
    checks.append({
        "property_id": pid,
        "quick_cmd": "./check %s --tier quick" % pid,
        "thorough_cmd": "./check %s --tier thorough" % pid,
        "evidence_file": "/verif/evidence/%s.json" % pid,
        "replay_cmd_template": "./check replay {path}",
        "engine": "lean-proof+correspondence",
        "level_claimed": {"category": "proof", "text": t["text"], "design_ref": t.get("design_ref", "DESIGN.md §5 " + pid)},
        "level_note": t["note"],
        "technique": t.get("technique", "Lean 4 theorems about an executable model + differential correspondence of model and implementation"),
    })

manifest = {
    "version": 1,
    "setup_cmd": "./check --setup",
    "hooks": {
        "guard": "cargo feature `verif` of crate duke (duke/verif)",
        "enable": "harness/Cargo.toml depends on the /repo crates by path; harness binaries that need the hooks are built with `--features verif` (harness feature forwarding to duke/verif); all other checks build duke with the guard off",
        "baseline_off_cmd": "cd /repo && cargo test --workspace --no-fail-fast --offline",
        "source_commits": [HOOK],
        "add_only": True,
    },
    "engines": [
        {"name": "lean-proofs", "path": "lean/FeatherModel/Thm", "serves_properties": sorted(CHECK_TEXT), "kind_free_text": "Lean 4 theorems over executable models (lean/FeatherModel/Model), axiom audit, leanchecker"},
        {"name": "lean-driver", "path": "lean/FeatherModel/Driver", "serves_properties": sorted(CHECK_TEXT), "kind_free_text": "compiled lean_exe answering the line protocol with the model's executable definitions"},
        {"name": "translators", "path": "translate", "serves_properties": sorted(p for p in CHECK_TEXT if PROPS[p].get("translators")), "kind_free_text": "python translators regenerating lean/FeatherModel/Gen/*.lean from the Rust sources of /repo on every run (raw_class_file layouts, duke constants and instruction tables, Maven scope table, remap field table); a translator that cannot parse a restructured source falls back to the correspondence where props.d declares the ops tying the same content (NOTE line, evidence.assumptions)"},
        {"name": "rust-harness", "path": "harness", "serves_properties": sorted(CHECK_TEXT), "kind_free_text": "generators + executors linking the /repo crates by path (rebuilt from the working tree on every run)"},
    ],
    "checks": checks,
    "not_applicable": NOT_APPLICABLE,
    "notes": "Every check: (P) lake build of the property's theorem module + #print axioms audit, (T) correspondence of the Lean model with the implementation on generated requests, (S) property oracles evaluated on the implementation; see DESIGN.md §2.1. Every implementation run is watched: a request that does not come back is reported as a violation with that request as replay (DESIGN §11.1f). Lines starting with NOTE are informational (translator fallback, §11.1e).",
}
json.dump(manifest, open(os.path.join(os.path.dirname(os.path.abspath(__file__)), "MANIFEST.json"), "w"), indent=1)
print("wrote MANIFEST.json with %d checks, %d not_applicable" % (len(checks), len(NOT_APPLICABLE)))
