//! One splitmix64 stream; every random choice of a run derives from `VERIF_SEED`.
#[derive(Clone)]
pub struct Rng(pub u64);

impl Rng {
	/// the seed is mixed once (splitmix64 finaliser) so that neighbouring seeds give unrelated streams — a state that is
	/// linear in the seed makes seed n+1 the stream of seed n shifted by one draw
	pub fn new(seed: u64) -> Rng {
		let mut z = seed.wrapping_add(0x1234_5678_9abc_def1).wrapping_mul(0x9E3779B97F4A7C15);
		z = (z ^ (z >> 30)).wrapping_mul(0xBF58476D1CE4E5B9);
		z = (z ^ (z >> 27)).wrapping_mul(0x94D049BB133111EB);
		Rng(z ^ (z >> 31))
	}
	pub fn next(&mut self) -> u64 {
		self.0 = self.0.wrapping_add(0x9E3779B97F4A7C15);
		let mut z = self.0;
		z = (z ^ (z >> 30)).wrapping_mul(0xBF58476D1CE4E5B9);
		z = (z ^ (z >> 27)).wrapping_mul(0x94D049BB133111EB);
		z ^ (z >> 31)
	}
	/// uniform in 0..n (n > 0)
	pub fn below(&mut self, n: usize) -> usize { (self.next() % (n as u64)) as usize }
	pub fn range(&mut self, lo: usize, hi_incl: usize) -> usize { lo + self.below(hi_incl - lo + 1) }
	pub fn chance(&mut self, num: usize, den: usize) -> bool { self.below(den) < num }
	pub fn pick<'a, T>(&mut self, xs: &'a [T]) -> &'a T { &xs[self.below(xs.len())] }
	pub fn shuffle<T>(&mut self, xs: &mut [T]) {
		for i in (1..xs.len()).rev() { let j = self.below(i + 1); xs.swap(i, j); }
	}
	pub fn fork(&mut self) -> Rng { Rng(self.next()) }
}
