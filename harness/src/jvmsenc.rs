//! C20: independent encoder `Val` -> class-file bytes, driven by a transcription of the JVMS (SE 21 §4.1, §4.4 - §4.7) that
//! the harness carries itself (same data as `JvmsRaw.structs / enums / attrs` in lean/FeatherModel/Spec/JvmsRaw.lean).
//!
//! Nothing here comes from raw_class_file's layouts: widths, count widths, tags, `attribute_length` and
//! `constant_pool_count` are taken from the tables below.  From the translated tables (`rawcodec_gen::DEFS`) only *names*
//! are used: the name of a type, of the variant with index `k`, and of the field at position `i` of a generic value
//! (values are positional in the crate's field order).  So the bytes produced here are bytes the code under test did
//! not produce: reader ops get independent inputs, and `write(value) == encode(value)` is an oracle of its own.
//!
//! Item syntax: `u1|u2|u4 name` fixed-width item; `t1|t2|t4:EL name` table with a count item of that width;
//! `impl:EL name` table whose length is implied (by the tag); `slots:EL name` the constant pool (§4.1, §4.4.5);
//! `raw:EL name` elements whose count item is `attribute_length` itself; `one:TY name` one nested structure.
//! `EL` = `u1|u2|u4` or a type name.
use crate::rawcodec_gen::DEFS;
use crate::rawval::{DefD, Val};

type Items = &'static [&'static str];

const MEMBER: Items = &["u2 access_flags", "u2 name_index", "u2 descriptor_index", "t2:AttributeInfo attributes"];

pub const STRUCTS: &[(&str, Items)] = &[
	("ClassFile", &["u4 magic", "u2 minor_version", "u2 major_version", "u2 constant_pool_count", "slots:CpInfo constant_pool",
		"u2 access_flags", "u2 this_class", "u2 super_class", "t2:u2 interfaces", "t2:FieldInfo fields", "t2:MethodInfo methods",
		"t2:AttributeInfo attributes"]),
	("FieldInfo", MEMBER),
	("MethodInfo", MEMBER),
	("ExceptionTableEntry", &["u2 start_pc", "u2 end_pc", "u2 handler_pc", "u2 catch_type"]),
	("InnerClassesEntry", &["u2 inner_class_info_index", "u2 outer_class_info_index", "u2 inner_name_index", "u2 inner_class_access_flags"]),
	("LineNumberTableEntry", &["u2 start_pc", "u2 line_number"]),
	("LocalVariableTableEntry", &["u2 start_pc", "u2 length", "u2 name_index", "u2 descriptor_index", "u2 index"]),
	("LocalVariableTypeTableEntry", &["u2 start_pc", "u2 length", "u2 name_index", "u2 signature_index", "u2 index"]),
	("Annotation", &["u2 type_index", "t2:ElementValuePairsEntry element_value_pairs"]),
	("ElementValuePairsEntry", &["u2 element_name_index", "one:ElementValue value"]),
	("ParameterAnnotationEntry", &["t2:Annotation annotations"]),
	// JVMS: bootstrap_arguments; the crate spells the field `boostrap_arguments`
	("BootstrapMethodsEntry", &["u2 bootstrap_method_ref", "t2:u2 boostrap_arguments"]),
	("MethodParametersEntry", &["u2 name_index", "u2 access_flags"]),
	("ModuleRequiresEntry", &["u2 requires_index", "u2 requires_flags", "u2 requires_version_index"]),
	("ModuleExportsEntry", &["u2 exports_index", "u2 exports_flags", "t2:u2 exports_to_index"]),
	("ModuleOpensEntry", &["u2 opens_index", "u2 opens_flags", "t2:u2 opens_to_index"]),
	("ModuleProvidesEntry", &["u2 provides_index", "t2:u2 provides_with_index"]),
	("RecordComponentInfo", &["u2 name_index", "u2 descriptor_index", "t2:AttributeInfo attributes"]),
];

/// how the u1 tag of a union member is obtained
pub enum Tag {
	L(u64),
	/// `base + field`, must lie in `lo ..= hi` (the field is part of the tag and not written again)
	Add(&'static str, u64, u64, u64),
	/// `base - field`
	Sub(u64, &'static str, u64, u64),
	/// `base + number of elements of field`
	Len(&'static str, u64, u64, u64),
}
use Tag::*;

type Variants = &'static [(&'static str, Tag, Items)];
const REF2: Items = &["u2 class_index", "u2 name_and_type_index"];
const DYN: Items = &["u2 bootstrap_method_attr_index", "u2 name_and_type_index"];
const WIDE: Items = &["u4 high_bytes", "u4 low_bytes"];
const CV: Items = &["u2 const_value_index"];

/// tagged unions other than attribute_info, members by the crate's variant name
pub const ENUMS: &[(&str, Variants)] = &[
	// §4.4, table 4.4-B
	("CpInfo", &[
		("Utf8", L(1), &["t2:u1 bytes"]), ("Integer", L(3), &["u4 bytes"]), ("Float", L(4), &["u4 bytes"]), ("Long", L(5), WIDE),
		("Double", L(6), WIDE), ("Class", L(7), &["u2 name_index"]), ("String", L(8), &["u2 string_index"]), ("Fieldref", L(9), REF2),
		("Methodref", L(10), REF2), ("InterfaceMethodref", L(11), REF2), ("NameAndType", L(12), &["u2 name_index", "u2 descriptor_index"]),
		("MethodHandle", L(15), &["u1 reference_kind", "u2 reference_index"]), ("MethodType", L(16), &["u2 descriptor_index"]),
		("Dynamic", L(17), DYN), ("InvokeDynamic", L(18), DYN), ("Module", L(19), &["u2 name_index"]), ("Package", L(20), &["u2 name_index"]),
	]),
	// §4.7.4 verification_type_info (the crate's spellings `UnintializedThis`, `Unintialized`)
	("VerificationTypeInfo", &[
		("Top", L(0), &[]), ("Integer", L(1), &[]), ("Float", L(2), &[]), ("Double", L(3), &[]), ("Long", L(4), &[]), ("Null", L(5), &[]),
		("UnintializedThis", L(6), &[]), ("Object", L(7), &["u2 cpool_index"]), ("Unintialized", L(8), &["u2 offset"]),
	]),
	// §4.7.4 stack_map_frame
	("StackMapFrame", &[
		("SameFrame", Add("offset_delta", 0, 0, 63), &[]),
		("SameLocals1StackItemFrame", Add("offset_delta", 64, 64, 127), &["one:VerificationTypeInfo stack"]),
		("SameLocals1StackItemFrameExtended", L(247), &["u2 offset_delta", "one:VerificationTypeInfo stack"]),
		("ChopFrame", Sub(251, "k", 248, 250), &["u2 offset_delta"]),
		("SameFrameExtended", L(251), &["u2 offset_delta"]),
		("AppendFrame", Len("locals", 251, 252, 254), &["u2 offset_delta", "impl:VerificationTypeInfo locals"]),
		("FullFrame", L(255), &["u2 offset_delta", "t2:VerificationTypeInfo locals", "t2:VerificationTypeInfo stack"]),
	]),
	// §4.7.16.1 element_value: B C D F I J S Z s e c @ [
	("ElementValue", &[
		("Byte", L(66), CV), ("Char", L(67), CV), ("Double", L(68), CV), ("Float", L(70), CV), ("Integer", L(73), CV), ("Long", L(74), CV),
		("Short", L(83), CV), ("Boolean", L(90), CV), ("String", L(115), CV), ("Enum", L(101), &["u2 type_name_index", "u2 const_name_index"]),
		("Class", L(99), &["u2 class_info_index"]), ("Annotation", L(64), &["one:Annotation annotation_value"]), ("Array", L(91), &["t2:ElementValue values"]),
	]),
];

/// §4.7.2 - §4.7.31: the items after `attribute_name_index` and `attribute_length`
pub const ATTRS: &[(&str, Items)] = &[
	("ConstantValue", &["u2 constantvalue_index"]),
	("Code", &["u2 max_stack", "u2 max_locals", "t4:u1 code", "t2:ExceptionTableEntry exception_table", "t2:AttributeInfo attributes"]),
	("StackMapTable", &["t2:StackMapFrame entries"]),
	("Exceptions", &["t2:u2 exception_index_table"]),
	("InnerClasses", &["t2:InnerClassesEntry classes"]),
	("EnclosingMethod", &["u2 class_index", "u2 method_index"]),
	("Synthetic", &[]),
	("Signature", &["u2 signature_index"]),
	("SourceFile", &["u2 sourcefile_index"]),
	("SourceDebugExtension", &["raw:u1 debug_extension"]),
	("LineNumberTable", &["t2:LineNumberTableEntry line_number_table"]),
	("LocalVariableTable", &["t2:LocalVariableTableEntry local_variable_table"]),
	("LocalVariableTypeTable", &["t2:LocalVariableTypeTableEntry local_variable_type_table"]),
	("Deprecated", &[]),
	("RuntimeVisibleAnnotations", &["t2:Annotation annotations"]),
	("RuntimeInvisibleAnnotations", &["t2:Annotation annotations"]),
	("RuntimeVisibleParameterAnnotations", &["t1:ParameterAnnotationEntry parameter_annotations"]),
	("RuntimeInvisibleParameterAnnotations", &["t1:ParameterAnnotationEntry parameter_annotations"]),
	("AnnotationDefault", &["one:ElementValue default_value"]),
	("BootstrapMethods", &["t2:BootstrapMethodsEntry bootstrap_methods"]),
	("MethodParameters", &["t1:MethodParametersEntry parameters"]),
	("Module", &["u2 module_name_index", "u2 module_flags", "u2 module_version_index", "t2:ModuleRequiresEntry requires",
		"t2:ModuleExportsEntry exports", "t2:ModuleOpensEntry opens", "t2:u2 uses_index", "t2:ModuleProvidesEntry provides"]),
	("ModulePackages", &["t2:u2 package_index"]),
	("ModuleMainClass", &["u2 main_class_index"]),
	("NestHost", &["u2 host_class_index"]),
	("NestMembers", &["t2:u2 classes"]),
	("Record", &["t2:RecordComponentInfo components"]),
	("PermittedSubclasses", &["t2:u2 classes"]),
	// an attribute the format does not know: u1 info[attribute_length]
	("Other", &["raw:u1 info"]),
];

// ------------------------------------------------------------------ the interpreter

/// the encoding of a class and whether every attribute in it is named by the constant pool the way the reader needs it
/// (`attribute_name_index` is the index of a CONSTANT_Utf8 spelling the attribute's name; for an unknown attribute: of a
/// CONSTANT_Utf8 that spells none of the predefined names) - then reading the bytes must give the value back
pub struct Enc { pub bytes: Vec<u8>, pub names_resolve: bool }

struct Cx<'a> { pool: Option<&'a [Val]>, names_resolve: bool }

fn width(t: &str) -> Option<u32> { match t { "u1" => Some(1), "u2" => Some(2), "u4" => Some(4), _ => None } }
fn put(out: &mut Vec<u8>, w: u32, n: u64) -> Option<()> {
	if w < 8 && n >> (8 * w) != 0 { return None; }
	out.extend_from_slice(&n.to_be_bytes()[8 - w as usize..]);
	Some(())
}
fn variant_name(enum_ty: &str, v: &Val) -> Option<&'static str> {
	match (DEFS.iter().find(|d| d.name() == enum_ty)?, v) { (DefD::Enum { variants, .. }, Val::Node(k, _)) => Some(variants.get(*k)?.name), _ => None }
}
/// §4.4.5
fn pool_slots(e: &Val) -> u64 { if matches!(variant_name("CpInfo", e), Some("Long" | "Double")) { 2 } else { 1 } }

fn utf8_at<'a>(pool: &'a [Val], index: u64) -> Option<Vec<u8>> {
	let mut at = 1;
	for e in pool {
		if at == index {
			if variant_name("CpInfo", e) != Some("Utf8") { return None; }
			let Val::Node(_, fs) = e else { return None };
			let [Val::List(bs)] = fs.as_slice() else { return None };
			return bs.iter().map(|b| match b { Val::Num(n) => u8::try_from(*n).ok(), _ => None }).collect();
		}
		at += pool_slots(e);
	}
	None
}

impl<'a> Cx<'a> {
	fn elem(&mut self, el: &str, v: &'a Val, out: &mut Vec<u8>) -> Option<()> {
		match (width(el), v) { (Some(w), Val::Num(n)) => put(out, w, *n), (Some(_), _) => None, (None, _) => self.named(el, v, out) }
	}

	fn items(&mut self, items: Items, names: &[&'static str], fs: &'a [Val], used: &mut Vec<&'static str>, out: &mut Vec<u8>) -> Option<()> {
		for it in items {
			let (kind, name) = it.split_once(' ')?;
			let at = names.iter().position(|n| *n == name);
			let field = at.and_then(|i| fs.get(i));
			if let Some(i) = at { used.push(names[i]); }
			match (kind.split_once(':'), field) {
				(None, Some(Val::Num(n))) => put(out, width(kind)?, *n)?,
				// items of the format that are not fields of the value
				(None, None) if name == "magic" => put(out, 4, 0xCAFEBABE)?,
				(None, None) if name == "constant_pool_count" => {
					let Some(Val::List(es)) = names.iter().position(|n| *n == "constant_pool").and_then(|i| fs.get(i)) else { return None };
					put(out, 2, 1 + es.iter().map(pool_slots).sum::<u64>())?
				}
				(Some(("one", ty)), Some(v)) => self.named(ty, v, out)?,
				(Some((k, el)), Some(Val::List(vs))) => {
					match k { "t1" | "t2" | "t4" => put(out, width(&k.replace('t', "u"))?, vs.len() as u64)?, "impl" | "raw" => {}, "slots" => self.pool = Some(vs), _ => return None }
					for v in vs { self.elem(el, v, out)?; }
				}
				_ => return None,
			}
		}
		Some(())
	}

	fn named(&mut self, ty: &str, v: &'a Val, out: &mut Vec<u8>) -> Option<()> {
		let Val::Node(k, fs) = v else { return None };
		let def = DEFS.iter().find(|d| d.name() == ty)?;
		let (vname, fields) = match def {
			DefD::Struct { body, .. } => { if *k != 0 { return None; } ("", body.fields) }
			DefD::Enum { variants, .. } => { let var = variants.get(*k)?; (var.name, var.body.fields) }
		};
		if fields.len() != fs.len() { return None; }
		// only the names and positions of the value's fields are taken from the translated table
		let names: Vec<&'static str> = fields.iter().map(|f| f.name).collect();
		let mut used: Vec<&'static str> = Vec::new();
		let num = |n: &str| match names.iter().position(|x| *x == n).and_then(|i| fs.get(i)) { Some(Val::Num(x)) => Some(*x), _ => None };
		if ty == "AttributeInfo" {
			let items = ATTRS.iter().find(|(n, _)| *n == vname)?.1;
			let index = num("attribute_name_index")?;
			used.push("attribute_name_index");
			put(out, 2, index)?;
			let mut body = Vec::new();
			self.items(items, &names, fs, &mut used, &mut body)?;
			put(out, 4, body.len() as u64)?;
			out.extend_from_slice(&body);
			let spelled = self.pool.and_then(|p| utf8_at(p, index));
			self.names_resolve &= match spelled {
				Some(s) if vname == "Other" => ATTRS.iter().all(|(n, _)| n.as_bytes() != s.as_slice()),
				Some(s) => s == vname.as_bytes(),
				None => false,
			};
		} else if let DefD::Struct { .. } = def {
			self.items(STRUCTS.iter().find(|(n, _)| *n == ty)?.1, &names, fs, &mut used, out)?;
		} else {
			let (_, tag, items) = ENUMS.iter().find(|(n, _)| *n == ty)?.1.iter().find(|(n, _, _)| *n == vname)?;
			let (t, lo, hi) = match tag {
				L(n) => (*n, *n, *n),
				Add(f, base, lo, hi) => { used.push(*f); (base.checked_add(num(f)?)?, *lo, *hi) }
				Sub(base, f, lo, hi) => { used.push(*f); (base.checked_sub(num(f)?)?, *lo, *hi) }
				Len(f, base, lo, hi) => match names.iter().position(|x| x == f).and_then(|i| fs.get(i)) { Some(Val::List(vs)) => (base + vs.len() as u64, *lo, *hi), _ => return None },
			};
			if t < lo || t > hi { return None; }
			put(out, 1, t)?;
			self.items(items, &names, fs, &mut used, out)?;
		}
		// every field of the value went into the encoding exactly once
		used.sort(); let n = used.len(); used.dedup();
		if used.len() != n || n != names.len() { return None; }
		Some(())
	}
}

/// None: the value is outside the encoder's domain (a number or count does not fit its item, a tag outside its range, a
/// shape the tables do not know)
pub fn encode_class(v: &Val) -> Option<Enc> {
	let mut cx = Cx { pool: None, names_resolve: true };
	let mut bytes = Vec::new();
	cx.named("ClassFile", v, &mut bytes)?;
	Some(Enc { bytes, names_resolve: cx.names_resolve })
}
