//! C01: random semantic class descriptions (`GClass`) and byte-level mutators for the malformed stream.
use crate::c01model::*;
use crate::rng::Rng;
use crate::run::Stats;

#[derive(Clone, Debug)]
pub struct Cfg {
	pub max_insns: usize,
	pub max_members: usize,
	pub unicode: bool,
	pub annotations: bool,
	pub frames: bool,
	pub modern: bool,   // record / module / nest / sealed / type annotations
	pub big_locals: bool,
}

impl Cfg {
	pub fn random(r: &mut Rng) -> Cfg {
		Cfg { max_insns: *r.pick(&[1, 4, 12, 12, 40, 40, 200]), max_members: r.range(0, 4), unicode: r.chance(1, 3), annotations: r.chance(1, 2),
			frames: r.chance(1, 2), modern: r.chance(1, 2), big_locals: r.chance(1, 3) }
	}
}

fn ident(r: &mut Rng, cfg: &Cfg) -> Js {
	let n = r.range(1, 6);
	let mut v = Vec::new();
	for _ in 0..n {
		let c = if cfg.unicode && r.chance(1, 4) {
			*r.pick(&[0x00u32, 0x7f, 0x80, 0xe9, 0x7ff, 0x800, 0x20ac, 0xffff, 0x10000, 0x1f600, 0x10ffff, 0xd800, 0xdfff, 0x24])
		} else { *r.pick(&[b'a', b'b', b'c', b'x', b'y', b'Z', b'_', b'$', b'0', b'9']) as u32 };
		// a high surrogate directly followed by a low surrogate would be read back as one code point
		if let Some(&p) = v.last() { if (0xd800..0xdc00).contains(&p) && (0xdc00..0xe000).contains(&c) { continue; } }
		v.push(c);
	}
	if v.is_empty() { v.push('q' as u32); }
	v
}

pub fn class_name(r: &mut Rng, cfg: &Cfg) -> Js {
	let mut v = Vec::new();
	for k in 0..r.range(1, 3) { if k > 0 { v.push('/' as u32); } v.extend(ident(r, cfg)); }
	v
}

fn any_class_name(r: &mut Rng, cfg: &Cfg) -> Js {
	if r.chance(1, 6) { js(*r.pick(&["[I", "[[J", "[Ljava/lang/String;", "[[[Lx/Y;"])) } else { class_name(r, cfg) }
}

fn field_desc(r: &mut Rng, cfg: &Cfg) -> Js {
	match r.below(5) {
		0 => js("I"), 1 => js("J"), 2 => js("[D"),
		3 => { let mut v = js("L"); v.extend(class_name(r, cfg)); v.push(';' as u32); v }
		_ => js("Ljava/lang/Object;"),
	}
}

fn method_desc(r: &mut Rng, cfg: &Cfg) -> Js {
	let mut v = js("(");
	for _ in 0..r.below(3) { v.extend(field_desc(r, cfg)); }
	v.push(')' as u32);
	if r.chance(1, 2) { v.push('V' as u32); } else { v.extend(field_desc(r, cfg)); }
	v
}

fn method_name(r: &mut Rng, cfg: &Cfg) -> Js {
	match r.below(8) { 0 => js("<init>"), 1 => js("<clinit>"), _ => ident(r, cfg).into_iter().filter(|&c| c != '<' as u32 && c != '>' as u32).chain(std::iter::once('m' as u32)).collect() }
}

fn text(r: &mut Rng, cfg: &Cfg) -> Js {
	let n = r.below(8);
	let mut v = Vec::new();
	for _ in 0..n {
		let c = if cfg.unicode && r.chance(1, 3) { *r.pick(&[0u32, 0x80, 0x7ff, 0x800, 0xffff, 0x10000, 0x10ffff, 0xd83d, 0xde00, 9, 10]) } else { r.range(0x20, 0x7e) as u32 };
		if let Some(&p) = v.last() { if (0xd800..0xdc00).contains(&p) && (0xdc00..0xe000).contains(&c) { continue; } }
		v.push(c);
	}
	v
}

fn int32(r: &mut Rng) -> i32 { *r.pick(&[0, 1, -1, 127, 128, -128, -129, 255, 256, 32767, 32768, -32768, 65535, 65536, i32::MAX, i32::MIN, 0x12345678]) }
fn int64(r: &mut Rng) -> i64 { *r.pick(&[0, 1, -1, i32::MAX as i64 + 1, i64::MAX, i64::MIN, 0x0123_4567_89ab_cdef, -2]) }
fn f32bits(r: &mut Rng) -> u32 { *r.pick(&[0, 0x8000_0000, 0x3f80_0000, 0x7f80_0000, 0xff80_0000, 0x7fc0_0000, 0x7fc0_0001, 0xffc1_2345, 0x7f80_0001, 1, 0x4049_0fdb]) }
fn f64bits(r: &mut Rng) -> u64 { *r.pick(&[0, 0x8000_0000_0000_0000, 0x3ff0_0000_0000_0000, 0x7ff0_0000_0000_0000, 0x7ff8_0000_0000_0000, 0x7ff8_0000_0000_0001, 0xfff0_1234_5678_9abc, 1, 0x4009_21fb_5444_2d18]) }

fn member_ref(r: &mut Rng, cfg: &Cfg, field: bool) -> GRef {
	if field { GRef { cls: class_name(r, cfg), name: ident(r, cfg), desc: field_desc(r, cfg) } }
	else { GRef { cls: any_class_name(r, cfg), name: method_name(r, cfg), desc: method_desc(r, cfg) } }
}

fn handle(r: &mut Rng, cfg: &Cfg) -> GHandle {
	let kind = r.range(1, 9) as u8;
	let field = kind <= 4;
	GHandle { kind, r: member_ref(r, cfg, field), itf: (kind == 6 || kind == 7) && r.chance(1, 2) }
}

fn loadable(r: &mut Rng, cfg: &Cfg, depth: usize) -> GLoadable {
	match r.below(if depth < 2 { 10 } else { 8 }) {
		0 => GLoadable::Int(int32(r)), 1 => GLoadable::Float(f32bits(r)), 2 => GLoadable::Long(int64(r)), 3 => GLoadable::Double(f64bits(r)),
		4 => GLoadable::Cls(any_class_name(r, cfg)), 5 => GLoadable::Str(text(r, cfg)), 6 => GLoadable::Handle(handle(r, cfg)), 7 => GLoadable::MType(method_desc(r, cfg)),
		_ => GLoadable::Dyn { name: ident(r, cfg), desc: field_desc(r, cfg), handle: handle(r, cfg), args: (0..r.below(3)).map(|_| loadable(r, cfg, depth + 1)).collect() },
	}
}

fn elem(r: &mut Rng, cfg: &Cfg, depth: usize) -> GElem {
	match r.below(if depth < 3 { 14 } else { 11 }) {
		0 => GElem::Const(b'B', int32(r) as i8 as i64), 1 => GElem::Const(b'C', int32(r) as u16 as i64), 2 => GElem::Const(b'D', f64bits(r) as i64),
		3 => GElem::Const(b'F', f32bits(r) as i64), 4 => GElem::Const(b'I', int32(r) as i64), 5 => GElem::Const(b'J', int64(r)),
		6 => GElem::Const(b'S', int32(r) as i16 as i64), 7 => GElem::Const(b'Z', r.below(2) as i64), 8 => GElem::Str(text(r, cfg)),
		9 => GElem::Enum(field_desc(r, cfg), ident(r, cfg)), 10 => GElem::Cls(if r.chance(1, 3) { js("V") } else { field_desc(r, cfg) }),
		11 | 12 => GElem::Arr((0..r.below(4)).map(|_| elem(r, cfg, depth + 1)).collect()),
		_ => GElem::Anno(anno(r, cfg, depth + 1)),
	}
}

fn anno(r: &mut Rng, cfg: &Cfg, depth: usize) -> GAnno {
	GAnno { ty: field_desc(r, cfg), pairs: (0..r.below(4)).map(|_| (ident(r, cfg), elem(r, cfg, depth))).collect() }
}

fn annos(r: &mut Rng, cfg: &Cfg, st: &mut Stats, what: &str) -> Vec<GAnno> {
	if !cfg.annotations || !r.chance(1, 3) { return vec![]; }
	st.hit(&format!("attr:{what}"));
	(0..r.range(1, 3)).map(|_| anno(r, cfg, 0)).collect()
}

fn type_path(r: &mut Rng) -> Vec<(u8, u8)> {
	(0..r.below(4)).map(|_| { let k = r.below(4) as u8; (k, if k == 3 { r.below(256) as u8 } else { 0 }) }).collect()
}

fn type_annos(r: &mut Rng, cfg: &Cfg, st: &mut Stats, owner: u8, n_insns: usize) -> Vec<GTypeAnno> {
	if !cfg.annotations || !cfg.modern || !r.chance(1, 4) { return vec![]; }
	st.hit(&format!("attr:type-annotations:{}", ["class", "field", "method", "code"][owner as usize]));
	(0..r.range(1, 3)).map(|_| {
		let target = match owner {
			0 => match r.below(4) { 0 => GTarget::TypeParam(0, r.below(256) as u8), 1 => GTarget::Extends, 2 => GTarget::Implements(r.below(65535) as u16), _ => GTarget::TypeParamBound(0x11, r.below(256) as u8, r.below(256) as u8) },
			1 => GTarget::Field,
			2 => match r.below(6) { 0 => GTarget::TypeParam(1, r.below(256) as u8), 1 => GTarget::TypeParamBound(0x12, r.below(256) as u8, r.below(256) as u8), 2 => GTarget::Ret, 3 => GTarget::Receiver,
				4 => GTarget::FormalParam(r.below(256) as u8), _ => GTarget::Throws(r.below(65536) as u16) },
			_ => match r.below(4) {
				0 => GTarget::LocalVar(0x40 + r.below(2) as u8, (0..r.below(3)).map(|_| { let a = r.below(n_insns); let b = r.range(a, n_insns); (a, b, r.below(65536) as u16) }).collect()),
				1 => GTarget::ExceptionParam(r.below(65536) as u16),
				2 => GTarget::Offset(0x43 + r.below(4) as u8, r.below(n_insns)),
				_ => GTarget::OffsetArg(0x47 + r.below(5) as u8, r.below(n_insns), r.below(256) as u8),
			},
		};
		GTypeAnno { target, path: type_path(r), anno: anno(r, cfg, 1) }
	}).collect()
}

fn unknown_attrs(r: &mut Rng, st: &mut Stats) -> Vec<GAttr> {
	if !r.chance(1, 4) { return vec![]; }
	st.hit("attr:unknown");
	(0..r.range(1, 3)).map(|_| (js(*r.pick(&["Foo", "code", "Code2", "StackMapTabl", "org.example.Custom", "", "SourceFil", "Deprecated2"])), (0..r.below(9)).map(|_| r.below(256) as u8).collect())).collect()
}

const SIMPLE: &[(u8, u8)] = &[(0x00, 0x0f), (0x2e, 0x35), (0x4f, 0x83), (0x85, 0x98), (0xac, 0xb1), (0xbe, 0xbf), (0xc2, 0xc3)];
const COND: &[u8] = &[0x99, 0x9a, 0x9b, 0x9c, 0x9d, 0x9e, 0x9f, 0xa0, 0xa1, 0xa2, 0xa3, 0xa4, 0xa5, 0xa6, 0xc6, 0xc7];

fn lv_index(r: &mut Rng, cfg: &Cfg) -> u16 {
	if cfg.big_locals { *r.pick(&[0, 1, 3, 4, 255, 256, 257, 65535, 1000]) } else { r.below(6) as u16 }
}

fn vtype(r: &mut Rng, cfg: &Cfg, n: usize) -> GVType {
	match r.below(9) { 0 => GVType::Top, 1 => GVType::Int, 2 => GVType::Float, 3 => GVType::Double, 4 => GVType::Long, 5 => GVType::Null, 6 => GVType::UninitThis,
		7 => GVType::Object(any_class_name(r, cfg)), _ => GVType::Uninit(r.below(n)) }
}

pub fn code(r: &mut Rng, cfg: &Cfg, st: &mut Stats) -> GCode {
	let n = r.range(1, cfg.max_insns.max(1));
	let near = |r: &mut Rng, k: usize| -> usize { let lo = k.saturating_sub(40); let hi = (k + 40).min(n - 1); r.range(lo, hi) };
	let mut insns = Vec::new();
	for k in 0..n {
		let ins = match r.below(30) {
			0..=5 => { let (lo, hi) = *r.pick(SIMPLE); GInsn::Simple(r.range(lo as usize, hi as usize) as u8) }
			6 => GInsn::BiPush(int32(r) as i8),
			7 => GInsn::SiPush(int32(r) as i16),
			8 | 9 => GInsn::Ldc(loadable(r, cfg, 0)),
			10 => GInsn::Load(r.below(5) as u8, lv_index(r, cfg)),
			11 => GInsn::Store(r.below(5) as u8, lv_index(r, cfg)),
			12 => GInsn::IInc(lv_index(r, cfg), *r.pick(&[0, 1, -1, 127, 128, -128, -129, 32767, -32768])),
			13 | 14 => GInsn::Branch(*r.pick(COND), near(r, k)),
			15 => GInsn::Goto(r.below(n)),
			16 => if r.chance(1, 2) { GInsn::Jsr(r.below(n)) } else { GInsn::Ret(lv_index(r, cfg)) },
			17 => {
				let low = *r.pick(&[0, -1, 5, i32::MIN, i32::MAX - 3, -2]);
				let cnt = r.range(1, 4);
				GInsn::TableSwitch { dflt: r.below(n), low, high: low + (cnt as i32 - 1), table: (0..cnt).map(|_| r.below(n)).collect() }
			}
			18 => {
				let cnt = r.below(4);
				let mut keys: Vec<i32> = (0..cnt).map(|_| int32(r)).collect();
				keys.sort(); keys.dedup();
				GInsn::LookupSwitch { dflt: r.below(n), pairs: keys.into_iter().map(|k| (k, r.below(n))).collect() }
			}
			19 => GInsn::Field(0xb2 + r.below(4) as u8, member_ref(r, cfg, true)),
			20 => GInsn::InvokeVirtual(member_ref(r, cfg, false)),
			21 => if r.chance(1, 2) { GInsn::InvokeSpecial(member_ref(r, cfg, false), r.chance(1, 3)) } else { GInsn::InvokeStatic(member_ref(r, cfg, false), r.chance(1, 3)) },
			22 => GInsn::InvokeInterface(member_ref(r, cfg, false)),
			23 => GInsn::InvokeDynamic { name: method_name(r, cfg), desc: method_desc(r, cfg), handle: handle(r, cfg), args: (0..r.below(3)).map(|_| loadable(r, cfg, 1)).collect() },
			24 => GInsn::New(any_class_name(r, cfg)),
			25 => GInsn::NewArray(r.range(4, 11) as u8),
			26 => GInsn::ANewArray(any_class_name(r, cfg)),
			27 => GInsn::CheckCast(any_class_name(r, cfg)),
			28 => GInsn::InstanceOf(any_class_name(r, cfg)),
			_ => GInsn::MultiANewArray(any_class_name(r, cfg), r.below(256) as u8),
		};
		st.hit(&format!("insn:{}", insn_kind(&ins)));
		insns.push((None, ins));
	}
	let mut c = GCode { max_stack: r.below(65536) as u16, max_locals: r.below(65536) as u16, insns, ..Default::default() };
	if cfg.frames && r.chance(2, 3) {
		st.hit("attr:StackMapTable");
		for k in 0..n {
			if r.chance(1, 4) {
				let f = match r.below(5) {
					0 => GFrame::Same, 1 => GFrame::Same1(vtype(r, cfg, n)), 2 => GFrame::Chop(r.range(1, 3) as u8),
					3 => GFrame::Append((0..r.range(1, 3)).map(|_| vtype(r, cfg, n)).collect()),
					_ => GFrame::Full((0..r.below(3)).map(|_| vtype(r, cfg, n)).collect(), (0..r.below(3)).map(|_| vtype(r, cfg, n)).collect()),
				};
				st.hit(&format!("frame:{}", match &f { GFrame::Same => "same", GFrame::Same1(_) => "same1", GFrame::Chop(_) => "chop", GFrame::Append(_) => "append", GFrame::Full(..) => "full" }));
				c.insns[k].0 = Some(f);
			}
		}
	}
	for _ in 0..r.below(4) {
		let a = r.below(n); let b = r.range(a + 1, n);
		st.hit(if b == n { "exception:end=code_length" } else { "exception:inner" });
		c.exceptions.push((a, b, r.below(n), if r.chance(1, 3) { None } else { Some(any_class_name(r, cfg)) }));
	}
	if r.chance(1, 2) { st.hit("attr:LineNumberTable"); c.lines = Some((0..r.below(5)).map(|_| (r.below(n), r.below(65536) as u16)).collect()); }
	if r.chance(1, 2) {
		st.hit("attr:LocalVariableTable");
		c.locals = Some((0..r.below(5)).map(|_| {
			let a = r.below(n); let b = r.range(a, n);
			let ty = r.chance(1, 3);
			if b == n { st.hit("lv:end=code_length"); }
			GLv { start: a, end: b, name: ident(r, cfg), desc: if ty { None } else { Some(field_desc(r, cfg)) }, sig: if ty { Some(js("TT;")) } else { None }, index: lv_index(r, cfg) }
		}).collect());
	}
	c.rvta = type_annos(r, cfg, st, 3, n);
	c.ritva = type_annos(r, cfg, st, 3, n);
	c.attrs = unknown_attrs(r, st);
	c
}

pub fn insn_kind(i: &GInsn) -> &'static str {
	match i {
		GInsn::Simple(_) => "simple", GInsn::BiPush(_) => "bipush", GInsn::SiPush(_) => "sipush", GInsn::Ldc(_) => "ldc", GInsn::Load(..) => "load", GInsn::Store(..) => "store",
		GInsn::IInc(..) => "iinc", GInsn::Branch(..) => "branch", GInsn::Goto(_) => "goto", GInsn::Jsr(_) => "jsr", GInsn::Ret(_) => "ret", GInsn::TableSwitch { .. } => "tableswitch",
		GInsn::LookupSwitch { .. } => "lookupswitch", GInsn::Field(..) => "field", GInsn::InvokeVirtual(_) => "invokevirtual", GInsn::InvokeSpecial(..) => "invokespecial",
		GInsn::InvokeStatic(..) => "invokestatic", GInsn::InvokeInterface(_) => "invokeinterface", GInsn::InvokeDynamic { .. } => "invokedynamic", GInsn::New(_) => "new",
		GInsn::NewArray(_) => "newarray", GInsn::ANewArray(_) => "anewarray", GInsn::CheckCast(_) => "checkcast", GInsn::InstanceOf(_) => "instanceof", GInsn::MultiANewArray(..) => "multianewarray",
	}
}

pub fn class(r: &mut Rng, cfg: &Cfg, st: &mut Stats) -> GClass {
	let (major, minor) = match r.below(8) { 0 => (45, 3), 1 => (67, 0), 2 => (r.range(56, 66) as u16, 65535), 3 => (45, 0), _ => (r.range(45, 67) as u16, 0) };
	st.hit(&format!("version:{major}"));
	let mut g = GClass { minor, major, access: r.below(65536) as u16 & 0xF631, name: class_name(r, cfg), super_: if r.chance(1, 8) { None } else { Some(class_name(r, cfg)) },
		interfaces: (0..r.below(3)).map(|_| class_name(r, cfg)).collect(), ..Default::default() };
	g.deprecated = r.chance(1, 6); g.synthetic = r.chance(1, 6);
	if r.chance(1, 3) { g.signature = Some(text(r, cfg)); st.hit("attr:Signature"); }
	if r.chance(1, 2) { g.source_file = Some(text(r, cfg)); st.hit("attr:SourceFile"); }
	if r.chance(1, 8) { g.source_debug = Some(text(r, cfg)); st.hit("attr:SourceDebugExtension"); }
	if r.chance(1, 3) {
		st.hit("attr:InnerClasses");
		g.inner_classes = Some((0..r.below(4)).map(|_| (any_class_name(r, cfg), if r.chance(1, 2) { Some(class_name(r, cfg)) } else { None }, if r.chance(1, 2) { Some(ident(r, cfg)) } else { None }, r.below(65536) as u16 & 0x761F)).collect());
	}
	if r.chance(1, 5) { st.hit("attr:EnclosingMethod"); g.enclosing = Some((class_name(r, cfg), if r.chance(1, 2) { Some((method_name(r, cfg), method_desc(r, cfg))) } else { None })); }
	g.rva = annos(r, cfg, st, "RuntimeVisibleAnnotations"); g.ria = annos(r, cfg, st, "RuntimeInvisibleAnnotations");
	g.rvta = type_annos(r, cfg, st, 0, 0); g.rita = type_annos(r, cfg, st, 0, 0);
	if cfg.modern {
		if r.chance(1, 5) { st.hit("attr:NestHost"); g.nest_host = Some(class_name(r, cfg)); }
		if r.chance(1, 5) { st.hit("attr:NestMembers"); g.nest_members = Some((0..r.below(4)).map(|_| class_name(r, cfg)).collect()); }
		if r.chance(1, 5) { st.hit("attr:PermittedSubclasses"); g.permitted = Some((0..r.below(4)).map(|_| class_name(r, cfg)).collect()); }
		if r.chance(1, 5) {
			st.hit("attr:Record");
			g.records = (0..r.range(1, 3)).map(|_| GRecord { name: ident(r, cfg), desc: field_desc(r, cfg), signature: if r.chance(1, 3) { Some(text(r, cfg)) } else { None },
				rva: annos_no_nan(r, cfg), ria: annos_no_nan(r, cfg), rvta: type_annos_no_nan(r, cfg, st), rita: type_annos_no_nan(r, cfg, st), attrs: unknown_attrs(r, st) }).collect();
		}
		if r.chance(1, 8) {
			st.hit("attr:Module");
			g.module = Some(GModule { name: text(r, cfg), flags: r.below(65536) as u16 & 0x9020, version: if r.chance(1, 2) { Some(text(r, cfg)) } else { None },
				requires: (0..r.below(3)).map(|_| (text(r, cfg), r.below(65536) as u16 & 0x9060, if r.chance(1, 2) { Some(text(r, cfg)) } else { None })).collect(),
				exports: (0..r.below(3)).map(|_| (text(r, cfg), r.below(65536) as u16 & 0x9000, (0..r.below(3)).map(|_| text(r, cfg)).collect())).collect(),
				opens: (0..r.below(3)).map(|_| (text(r, cfg), r.below(65536) as u16 & 0x9000, (0..r.below(3)).map(|_| text(r, cfg)).collect())).collect(),
				uses: (0..r.below(3)).map(|_| class_name(r, cfg)).collect(),
				provides: (0..r.below(3)).map(|_| (class_name(r, cfg), (0..r.below(3)).map(|_| class_name(r, cfg)).collect())).collect() });
			if r.chance(1, 2) { st.hit("attr:ModulePackages"); g.module_packages = Some((0..r.below(3)).map(|_| text(r, cfg)).collect()); }
			if r.chance(1, 2) { st.hit("attr:ModuleMainClass"); g.module_main = Some(class_name(r, cfg)); }
		}
	}
	g.attrs = unknown_attrs(r, st);
	for _ in 0..r.below(cfg.max_members + 1) {
		let mut f = GField { access: r.below(65536) as u16 & 0x50DF, name: ident(r, cfg), desc: field_desc(r, cfg), deprecated: r.chance(1, 8), synthetic: r.chance(1, 8), ..Default::default() };
		if r.chance(1, 3) {
			st.hit("attr:ConstantValue");
			f.constant = Some(match r.below(5) { 0 => GConst::Int(int32(r)), 1 => GConst::Float(f32bits(r)), 2 => GConst::Long(int64(r)), 3 => GConst::Double(f64bits(r)), _ => GConst::Str(text(r, cfg)) });
		}
		if r.chance(1, 4) { f.signature = Some(text(r, cfg)); }
		f.rva = annos(r, cfg, st, "RuntimeVisibleAnnotations"); f.ria = annos(r, cfg, st, "RuntimeInvisibleAnnotations");
		f.rvta = type_annos(r, cfg, st, 1, 0); f.rita = type_annos(r, cfg, st, 1, 0);
		f.attrs = unknown_attrs(r, st);
		g.fields.push(f);
	}
	for _ in 0..r.below(cfg.max_members + 1) {
		let mut m = GMethod { access: r.below(65536) as u16 & 0x1DFF, name: method_name(r, cfg), desc: method_desc(r, cfg), deprecated: r.chance(1, 8), synthetic: r.chance(1, 8), ..Default::default() };
		if r.chance(4, 5) { st.hit("attr:Code"); m.code = Some(code(r, cfg, st)); }
		if r.chance(1, 4) { st.hit("attr:Exceptions"); m.exceptions = Some((0..r.below(3)).map(|_| class_name(r, cfg)).collect()); }
		if r.chance(1, 4) { m.signature = Some(text(r, cfg)); }
		m.rva = annos(r, cfg, st, "RuntimeVisibleAnnotations"); m.ria = annos(r, cfg, st, "RuntimeInvisibleAnnotations");
		m.rvta = type_annos(r, cfg, st, 2, 0); m.rita = type_annos(r, cfg, st, 2, 0);
		if cfg.annotations && r.chance(1, 6) { st.hit("attr:AnnotationDefault"); m.annotation_default = Some(elem(r, cfg, 0)); }
		if r.chance(1, 5) { st.hit("attr:MethodParameters"); m.params = Some((0..r.below(4)).map(|_| (if r.chance(1, 2) { Some(ident(r, cfg)) } else { None }, r.below(65536) as u16 & 0x9010)).collect()); }
		m.attrs = unknown_attrs(r, st);
		g.methods.push(m);
	}
	g
}

fn clean_nan(e: &mut GElem) {
	match e {
		GElem::Const(b'F', v) => { let f = f32::from_bits(*v as u32); if f.is_nan() { *v = f32::NAN.to_bits() as i64; } }
		GElem::Const(b'D', v) => { let f = f64::from_bits(*v as u64); if f.is_nan() { *v = f64::NAN.to_bits() as i64; } }
		GElem::Anno(a) => for (_, x) in &mut a.pairs { clean_nan(x); },
		GElem::Arr(v) => for x in v { clean_nan(x); },
		_ => {}
	}
}

/// type annotations of a record component (target: field), float payloads canonical like `annos_no_nan`
fn type_annos_no_nan(r: &mut Rng, cfg: &Cfg, st: &mut Stats) -> Vec<GTypeAnno> {
	let mut v = type_annos(r, cfg, st, 1, 0);
	for t in &mut v { for (_, x) in &mut t.anno.pairs { clean_nan(x); } }
	if !v.is_empty() { st.hit("attr:type-annotations:record-component"); }
	v
}

/// record component annotations are projected through `Debug`, which prints every NaN as `NaN`: keep float payloads canonical there
fn annos_no_nan(r: &mut Rng, cfg: &Cfg) -> Vec<GAnno> {
	if !cfg.annotations || !r.chance(1, 2) { return vec![]; }
	use clean_nan as clean;
	let mut v: Vec<GAnno> = (0..r.range(1, 2)).map(|_| anno(r, cfg, 1)).collect();
	for a in &mut v { for (_, x) in &mut a.pairs { clean(x); } }
	v
}

/// structure-unaware byte mutations of a valid class file
pub fn mutate(r: &mut Rng, bytes: &[u8], st: &mut Stats) -> Vec<u8> {
	let mut b = bytes.to_vec();
	match r.below(6) {
		0 => { st.hit("mutant:truncate"); let n = r.below(b.len()); b.truncate(n); }
		1 => { st.hit("mutant:byte"); let i = r.below(b.len()); b[i] = *r.pick(&[0u8, 1, 0xff, 0x7f, 0x80, b[i].wrapping_add(1), b[i].wrapping_sub(1)]); }
		2 => {
			st.hit("mutant:u16");
			if b.len() > 12 { let i = r.range(8, b.len() - 2); let v: u16 = *r.pick(&[0, 1, 0xffff, 0xfffe, 0x100, 0x7fff]); b[i] = (v >> 8) as u8; b[i + 1] = v as u8; }
		}
		3 => { st.hit("mutant:bitflip"); let i = r.below(b.len()); b[i] ^= 1 << r.below(8); }
		4 => { st.hit("mutant:delete"); let i = r.below(b.len()); b.remove(i); }
		_ => { st.hit("mutant:insert"); let i = r.below(b.len()); b.insert(i, r.below(256) as u8); }
	}
	b
}
