//! C01: the harness' own semantic description of a class file (`GClass`), independent of duke and raw_class_file:
//! * `to_sexp`   – the canonical S-expression (labels = instruction positions; same grammar as the projection of a
//!                 duke tree in `c01facts.rs` with `resolved = true`),
//! * `assemble`  – JVMS serialisation under explicit random *choices* (pool order, duplicates, unused entries,
//!                 attribute order, instruction forms, frame forms, split tables),
//! * `parse`     – an independent JVMS parser of the same bytes back into a `GClass`.
use std::collections::HashMap;
use crate::rng::Rng;
use crate::sexp::Sexp;

pub type Js = Vec<u32>;

pub fn js(s: &str) -> Js { s.chars().map(|c| c as u32).collect() }

#[derive(Clone, Debug, PartialEq, Eq, Hash)]
pub struct GRef { pub cls: Js, pub name: Js, pub desc: Js }

#[derive(Clone, Debug, PartialEq, Eq, Hash)]
pub struct GHandle { pub kind: u8, pub r: GRef, pub itf: bool }

#[derive(Clone, Debug, PartialEq, Eq, Hash)]
pub enum GLoadable {
	Int(i32), Float(u32), Long(i64), Double(u64), Cls(Js), Str(Js), Handle(GHandle), MType(Js),
	Dyn { name: Js, desc: Js, handle: GHandle, args: Vec<GLoadable> },
}

#[derive(Clone, Debug, PartialEq)]
pub enum GInsn {
	Simple(u8), BiPush(i8), SiPush(i16), Ldc(GLoadable), Load(u8, u16), Store(u8, u16), IInc(u16, i16),
	Branch(u8, usize), Goto(usize), Jsr(usize), Ret(u16),
	TableSwitch { dflt: usize, low: i32, high: i32, table: Vec<usize> },
	LookupSwitch { dflt: usize, pairs: Vec<(i32, usize)> },
	Field(u8, GRef), InvokeVirtual(GRef), InvokeSpecial(GRef, bool), InvokeStatic(GRef, bool), InvokeInterface(GRef),
	InvokeDynamic { name: Js, desc: Js, handle: GHandle, args: Vec<GLoadable> },
	New(Js), NewArray(u8), ANewArray(Js), CheckCast(Js), InstanceOf(Js), MultiANewArray(Js, u8),
}

#[derive(Clone, Debug, PartialEq)]
pub enum GVType { Top, Int, Float, Double, Long, Null, UninitThis, Object(Js), Uninit(usize) }

#[derive(Clone, Debug, PartialEq)]
pub enum GFrame { Same, Same1(GVType), Chop(u8), Append(Vec<GVType>), Full(Vec<GVType>, Vec<GVType>) }

#[derive(Clone, Debug, PartialEq)]
pub struct GLv { pub start: usize, pub end: usize, pub name: Js, pub desc: Option<Js>, pub sig: Option<Js>, pub index: u16 }

#[derive(Clone, Debug, PartialEq)]
pub enum GElem { Const(u8, i64), Str(Js), Enum(Js, Js), Cls(Js), Anno(GAnno), Arr(Vec<GElem>) }

#[derive(Clone, Debug, PartialEq)]
pub struct GAnno { pub ty: Js, pub pairs: Vec<(Js, GElem)> }

#[derive(Clone, Debug, PartialEq)]
pub enum GTarget {
	TypeParam(u8, u8), Extends, Implements(u16), TypeParamBound(u8, u8, u8), Field, Ret, Receiver, FormalParam(u8), Throws(u16),
	LocalVar(u8, Vec<(usize, usize, u16)>), ExceptionParam(u16), Offset(u8, usize), OffsetArg(u8, usize, u8),
}

#[derive(Clone, Debug, PartialEq)]
pub struct GTypeAnno { pub target: GTarget, pub path: Vec<(u8, u8)>, pub anno: GAnno }

pub type GAttr = (Js, Vec<u8>);

#[derive(Clone, Debug, PartialEq, Default)]
pub struct GCode {
	pub max_stack: u16, pub max_locals: u16,
	pub insns: Vec<(Option<GFrame>, GInsn)>,
	pub exceptions: Vec<(usize, usize, usize, Option<Js>)>,
	pub lines: Option<Vec<(usize, u16)>>,
	pub locals: Option<Vec<GLv>>,
	pub rvta: Vec<GTypeAnno>, pub ritva: Vec<GTypeAnno>,
	pub attrs: Vec<GAttr>,
}

#[derive(Clone, Debug, PartialEq)]
pub enum GConst { Int(i32), Float(u32), Long(i64), Double(u64), Str(Js) }

#[derive(Clone, Debug, PartialEq, Default)]
pub struct GField {
	pub access: u16, pub name: Js, pub desc: Js, pub deprecated: bool, pub synthetic: bool,
	pub constant: Option<GConst>, pub signature: Option<Js>,
	pub rva: Vec<GAnno>, pub ria: Vec<GAnno>, pub rvta: Vec<GTypeAnno>, pub rita: Vec<GTypeAnno>, pub attrs: Vec<GAttr>,
}

#[derive(Clone, Debug, PartialEq, Default)]
pub struct GMethod {
	pub access: u16, pub name: Js, pub desc: Js, pub deprecated: bool, pub synthetic: bool,
	pub code: Option<GCode>, pub exceptions: Option<Vec<Js>>, pub signature: Option<Js>,
	pub rva: Vec<GAnno>, pub ria: Vec<GAnno>, pub rvta: Vec<GTypeAnno>, pub rita: Vec<GTypeAnno>,
	pub annotation_default: Option<GElem>, pub params: Option<Vec<(Option<Js>, u16)>>, pub attrs: Vec<GAttr>,
	/// raw bodies of Runtime(In)VisibleParameterAnnotations attributes: written, expected to be *skipped* by duke
	pub param_annos: Vec<(bool, Vec<u8>)>,
}

#[derive(Clone, Debug, PartialEq, Default)]
pub struct GRecord {
	pub name: Js, pub desc: Js, pub signature: Option<Js>,
	pub rva: Vec<GAnno>, pub ria: Vec<GAnno>, pub rvta: Vec<GTypeAnno>, pub rita: Vec<GTypeAnno>, pub attrs: Vec<GAttr>,
}

#[derive(Clone, Debug, PartialEq, Default)]
pub struct GModule {
	pub name: Js, pub flags: u16, pub version: Option<Js>,
	pub requires: Vec<(Js, u16, Option<Js>)>, pub exports: Vec<(Js, u16, Vec<Js>)>, pub opens: Vec<(Js, u16, Vec<Js>)>,
	pub uses: Vec<Js>, pub provides: Vec<(Js, Vec<Js>)>,
}

#[derive(Clone, Debug, PartialEq, Default)]
pub struct GClass {
	pub minor: u16, pub major: u16, pub access: u16, pub name: Js, pub super_: Option<Js>, pub interfaces: Vec<Js>,
	pub fields: Vec<GField>, pub methods: Vec<GMethod>, pub deprecated: bool, pub synthetic: bool,
	pub inner_classes: Option<Vec<(Js, Option<Js>, Option<Js>, u16)>>,
	pub enclosing: Option<(Js, Option<(Js, Js)>)>,
	pub signature: Option<Js>, pub source_file: Option<Js>, pub source_debug: Option<Js>,
	pub rva: Vec<GAnno>, pub ria: Vec<GAnno>, pub rvta: Vec<GTypeAnno>, pub rita: Vec<GTypeAnno>,
	pub module: Option<GModule>, pub module_packages: Option<Vec<Js>>, pub module_main: Option<Js>,
	pub nest_host: Option<Js>, pub nest_members: Option<Vec<Js>>, pub permitted: Option<Vec<Js>>,
	pub records: Vec<GRecord>, pub attrs: Vec<GAttr>,
}

// ===================================================================================================== to_sexp

fn sx(tag: &str, mut rest: Vec<Sexp>) -> Sexp { let mut v = vec![Sexp::tag(tag)]; v.append(&mut rest); Sexp::list(v) }
fn s(x: &Js) -> Sexp { Sexp::cps(x) }
fn nat(n: u64) -> Sexp { Sexp::Atom(n.to_string()) }
fn int(n: i64) -> Sexp { Sexp::Atom(n.to_string()) }
fn none() -> Sexp { Sexp::list(vec![]) }
fn opt<T>(o: &Option<T>, f: impl FnOnce(&T) -> Sexp) -> Sexp { match o { None => none(), Some(x) => Sexp::list(vec![f(x)]) } }
fn lst<T>(v: &[T], f: impl FnMut(&T) -> Sexp) -> Sexp { Sexp::list(v.iter().map(f).collect()) }

impl GRef { pub fn to_sexp(&self) -> Sexp { Sexp::list(vec![s(&self.cls), s(&self.name), s(&self.desc)]) } }
impl GHandle { pub fn to_sexp(&self) -> Sexp { Sexp::list(vec![nat(self.kind as u64), self.r.to_sexp(), Sexp::bool(self.itf)]) } }
impl GLoadable {
	pub fn to_sexp(&self) -> Sexp {
		match self {
			GLoadable::Int(v) => sx("int", vec![int(*v as i64)]),
			GLoadable::Float(v) => sx("float", vec![nat(*v as u64)]),
			GLoadable::Long(v) => sx("long", vec![int(*v)]),
			GLoadable::Double(v) => sx("double", vec![nat(*v)]),
			GLoadable::Cls(c) => sx("cls", vec![s(c)]),
			GLoadable::Str(c) => sx("str", vec![s(c)]),
			GLoadable::Handle(h) => sx("handle", vec![h.to_sexp()]),
			GLoadable::MType(d) => sx("mtype", vec![s(d)]),
			GLoadable::Dyn { name, desc, handle, args } => sx("dyn", vec![s(name), s(desc), handle.to_sexp(), lst(args, |a| a.to_sexp())]),
		}
	}
}
impl GInsn {
	pub fn to_sexp(&self) -> Sexp {
		use GInsn::*;
		match self {
			Simple(op) => sx("simple", vec![nat(*op as u64)]),
			BiPush(v) => sx("bipush", vec![int(*v as i64)]),
			SiPush(v) => sx("sipush", vec![int(*v as i64)]),
			Ldc(l) => sx("ldc", vec![l.to_sexp()]),
			Load(k, i) => sx("load", vec![nat(*k as u64), nat(*i as u64)]),
			Store(k, i) => sx("store", vec![nat(*k as u64), nat(*i as u64)]),
			IInc(i, v) => sx("iinc", vec![nat(*i as u64), int(*v as i64)]),
			Branch(op, t) => sx("branch", vec![nat(*op as u64), nat(*t as u64)]),
			Goto(t) => sx("goto", vec![nat(*t as u64)]),
			Jsr(t) => sx("jsr", vec![nat(*t as u64)]),
			Ret(i) => sx("ret", vec![nat(*i as u64)]),
			TableSwitch { dflt, low, high, table } => sx("tableswitch", vec![nat(*dflt as u64), int(*low as i64), int(*high as i64), lst(table, |t| nat(*t as u64))]),
			LookupSwitch { dflt, pairs } => sx("lookupswitch", vec![nat(*dflt as u64), lst(pairs, |(k, t)| Sexp::list(vec![int(*k as i64), nat(*t as u64)]))]),
			Field(op, r) => sx("field", vec![nat(*op as u64), r.to_sexp()]),
			InvokeVirtual(r) => sx("invokevirtual", vec![r.to_sexp()]),
			InvokeSpecial(r, b) => sx("invokespecial", vec![r.to_sexp(), Sexp::bool(*b)]),
			InvokeStatic(r, b) => sx("invokestatic", vec![r.to_sexp(), Sexp::bool(*b)]),
			InvokeInterface(r) => sx("invokeinterface", vec![r.to_sexp()]),
			InvokeDynamic { name, desc, handle, args } => sx("invokedynamic", vec![s(name), s(desc), handle.to_sexp(), lst(args, |a| a.to_sexp())]),
			New(c) => sx("new", vec![s(c)]),
			NewArray(a) => sx("newarray", vec![nat(*a as u64)]),
			ANewArray(c) => sx("anewarray", vec![s(c)]),
			CheckCast(c) => sx("checkcast", vec![s(c)]),
			InstanceOf(c) => sx("instanceof", vec![s(c)]),
			MultiANewArray(c, d) => sx("multianewarray", vec![s(c), nat(*d as u64)]),
		}
	}
}
impl GVType {
	pub fn to_sexp(&self) -> Sexp {
		match self {
			GVType::Top => Sexp::tag("top"), GVType::Int => Sexp::tag("int"), GVType::Float => Sexp::tag("float"), GVType::Double => Sexp::tag("double"),
			GVType::Long => Sexp::tag("long"), GVType::Null => Sexp::tag("null"), GVType::UninitThis => Sexp::tag("uninit-this"),
			GVType::Object(c) => sx("object", vec![s(c)]), GVType::Uninit(l) => sx("uninit", vec![nat(*l as u64)]),
		}
	}
}
impl GFrame {
	pub fn to_sexp(&self) -> Sexp {
		match self {
			GFrame::Same => Sexp::tag("same"),
			GFrame::Same1(v) => sx("same1", vec![v.to_sexp()]),
			GFrame::Chop(k) => sx("chop", vec![nat(*k as u64)]),
			GFrame::Append(v) => sx("append", vec![lst(v, |x| x.to_sexp())]),
			GFrame::Full(l, st) => sx("full", vec![lst(l, |x| x.to_sexp()), lst(st, |x| x.to_sexp())]),
		}
	}
}
pub fn attr_sexp(a: &GAttr) -> Sexp { Sexp::list(vec![s(&a.0), Sexp::bytes(&a.1)]) }
impl GElem {
	pub fn to_sexp(&self) -> Sexp {
		match self {
			GElem::Const(t, v) => sx("const", vec![nat(*t as u64), if *t == b'D' { nat(*v as u64) } else { int(*v) }]),
			GElem::Str(x) => sx("str", vec![s(x)]),
			GElem::Enum(t, n) => sx("enum", vec![s(t), s(n)]),
			GElem::Cls(d) => sx("cls", vec![s(d)]),
			GElem::Anno(a) => sx("anno", vec![a.to_sexp()]),
			GElem::Arr(v) => sx("arr", vec![lst(v, |x| x.to_sexp())]),
		}
	}
}
impl GAnno {
	pub fn to_sexp(&self) -> Sexp { Sexp::list(vec![s(&self.ty), lst(&self.pairs, |(n, v)| Sexp::list(vec![s(n), v.to_sexp()]))]) }
}
impl GTarget {
	pub fn to_sexp(&self) -> Sexp {
		match self {
			GTarget::TypeParam(t, i) => sx("type-param", vec![nat(*t as u64), nat(*i as u64)]),
			GTarget::Extends => Sexp::tag("extends"),
			GTarget::Implements(i) => sx("implements", vec![nat(*i as u64)]),
			GTarget::TypeParamBound(t, a, b) => sx("type-param-bound", vec![nat(*t as u64), nat(*a as u64), nat(*b as u64)]),
			GTarget::Field => Sexp::tag("field"), GTarget::Ret => Sexp::tag("ret"), GTarget::Receiver => Sexp::tag("receiver"),
			GTarget::FormalParam(i) => sx("formal-param", vec![nat(*i as u64)]),
			GTarget::Throws(i) => sx("throws", vec![nat(*i as u64)]),
			GTarget::LocalVar(t, tbl) => sx("local-var", vec![nat(*t as u64), lst(tbl, |(a, b, i)| Sexp::list(vec![nat(*a as u64), nat(*b as u64), nat(*i as u64)]))]),
			GTarget::ExceptionParam(i) => sx("exception-param", vec![nat(*i as u64)]),
			GTarget::Offset(t, l) => sx("offset", vec![nat(*t as u64), nat(*l as u64)]),
			GTarget::OffsetArg(t, l, i) => sx("offset-arg", vec![nat(*t as u64), nat(*l as u64), nat(*i as u64)]),
		}
	}
}
impl GTypeAnno {
	pub fn to_sexp(&self) -> Sexp {
		Sexp::list(vec![self.target.to_sexp(), lst(&self.path, |(k, i)| Sexp::list(vec![nat(*k as u64), nat(*i as u64)])), self.anno.to_sexp()])
	}
}
impl GCode {
	pub fn to_sexp(&self) -> Sexp {
		sx("code", vec![
			nat(self.max_stack as u64), nat(self.max_locals as u64),
			lst(&self.insns, |(f, i)| Sexp::list(vec![none(), opt(f, |f| f.to_sexp()), i.to_sexp()])),
			lst(&self.exceptions, |(a, b, h, c)| Sexp::list(vec![nat(*a as u64), nat(*b as u64), nat(*h as u64), opt(c, s)])),
			none(),
			opt(&self.lines, |v| lst(v, |(l, n)| Sexp::list(vec![nat(*l as u64), nat(*n as u64)]))),
			opt(&self.locals, |v| lst(v, |lv| Sexp::list(vec![nat(lv.start as u64), nat(lv.end as u64), s(&lv.name), opt(&lv.desc, s), opt(&lv.sig, s), nat(lv.index as u64)]))),
			lst(&self.rvta, |a| a.to_sexp()), lst(&self.ritva, |a| a.to_sexp()), lst(&self.attrs, attr_sexp),
		])
	}
}
impl GConst {
	pub fn to_sexp(&self) -> Sexp {
		match self {
			GConst::Int(v) => sx("int", vec![int(*v as i64)]), GConst::Float(v) => sx("float", vec![nat(*v as u64)]),
			GConst::Long(v) => sx("long", vec![int(*v)]), GConst::Double(v) => sx("double", vec![nat(*v)]), GConst::Str(x) => sx("str", vec![s(x)]),
		}
	}
}
impl GField {
	pub fn to_sexp(&self) -> Sexp {
		sx("field", vec![nat(self.access as u64), s(&self.name), s(&self.desc), Sexp::bool(self.deprecated), Sexp::bool(self.synthetic),
			opt(&self.constant, |c| c.to_sexp()), opt(&self.signature, s),
			lst(&self.rva, |a| a.to_sexp()), lst(&self.ria, |a| a.to_sexp()), lst(&self.rvta, |a| a.to_sexp()), lst(&self.rita, |a| a.to_sexp()),
			lst(&self.attrs, attr_sexp)])
	}
}
impl GMethod {
	pub fn to_sexp(&self) -> Sexp {
		sx("method", vec![nat(self.access as u64), s(&self.name), s(&self.desc), Sexp::bool(self.deprecated), Sexp::bool(self.synthetic),
			opt(&self.code, |c| c.to_sexp()), opt(&self.exceptions, |v| lst(v, s)), opt(&self.signature, s),
			lst(&self.rva, |a| a.to_sexp()), lst(&self.ria, |a| a.to_sexp()), lst(&self.rvta, |a| a.to_sexp()), lst(&self.rita, |a| a.to_sexp()),
			opt(&self.annotation_default, |e| e.to_sexp()),
			opt(&self.params, |v| lst(v, |(n, f)| Sexp::list(vec![opt(n, s), nat(*f as u64)]))),
			lst(&self.attrs, attr_sexp)])
	}
}
impl GRecord {
	pub fn to_sexp(&self) -> Sexp {
		Sexp::list(vec![s(&self.name), s(&self.desc), opt(&self.signature, s),
			lst(&self.rva, |a| a.to_sexp()), lst(&self.ria, |a| a.to_sexp()), lst(&self.rvta, |a| a.to_sexp()), lst(&self.rita, |a| a.to_sexp()),
			lst(&self.attrs, attr_sexp)])
	}
}
impl GModule {
	pub fn to_sexp(&self) -> Sexp {
		Sexp::list(vec![s(&self.name), nat(self.flags as u64), opt(&self.version, s),
			lst(&self.requires, |(n, f, v)| Sexp::list(vec![s(n), nat(*f as u64), opt(v, s)])),
			lst(&self.exports, |(n, f, t)| Sexp::list(vec![s(n), nat(*f as u64), lst(t, s)])),
			lst(&self.opens, |(n, f, t)| Sexp::list(vec![s(n), nat(*f as u64), lst(t, s)])),
			lst(&self.uses, s),
			lst(&self.provides, |(n, w)| Sexp::list(vec![s(n), lst(w, s)]))])
	}
}
impl GClass {
	pub fn to_sexp(&self) -> Sexp {
		sx("class", vec![nat(self.minor as u64), nat(self.major as u64), nat(self.access as u64), s(&self.name), opt(&self.super_, s), lst(&self.interfaces, s),
			lst(&self.fields, |f| f.to_sexp()), lst(&self.methods, |m| m.to_sexp()), Sexp::bool(self.deprecated), Sexp::bool(self.synthetic),
			opt(&self.inner_classes, |v| lst(v, |(i, o, n, f)| Sexp::list(vec![s(i), opt(o, s), opt(n, s), nat(*f as u64)]))),
			opt(&self.enclosing, |(c, m)| Sexp::list(vec![s(c), opt(m, |(n, d)| Sexp::list(vec![s(n), s(d)]))])),
			opt(&self.signature, s), opt(&self.source_file, s), opt(&self.source_debug, s),
			lst(&self.rva, |a| a.to_sexp()), lst(&self.ria, |a| a.to_sexp()), lst(&self.rvta, |a| a.to_sexp()), lst(&self.rita, |a| a.to_sexp()),
			opt(&self.module, |m| m.to_sexp()), opt(&self.module_packages, |v| lst(v, s)), opt(&self.module_main, s),
			opt(&self.nest_host, s), opt(&self.nest_members, |v| lst(v, s)), opt(&self.permitted, |v| lst(v, s)),
			lst(&self.records, |r| r.to_sexp()), lst(&self.attrs, attr_sexp)])
	}
}

// ===================================================================================================== MUTF-8 (JVMS §4.4.7)

pub fn mutf8_encode(x: &Js) -> Vec<u8> {
	let mut out = Vec::new();
	for &c in x {
		if c == 0 { out.extend([0xc0, 0x80]); }
		else if c < 0x80 { out.push(c as u8); }
		else if c < 0x800 { out.extend([0xc0 | (c >> 6) as u8, 0x80 | (c & 0x3f) as u8]); }
		else if c < 0x10000 { out.extend([0xe0 | (c >> 12) as u8, 0x80 | ((c >> 6) & 0x3f) as u8, 0x80 | (c & 0x3f) as u8]); }
		else {
			let v = c - 0x10000;
			for half in [0xd800 + (v >> 10), 0xdc00 + (v & 0x3ff)] {
				out.extend([0xed, 0x80 | ((half >> 6) & 0x3f) as u8, 0x80 | (half & 0x3f) as u8]);
			}
		}
	}
	out
}

/// strict JVMS modified UTF-8 (no raw NUL, no 4-byte forms); surrogate pairs are combined
pub fn mutf8_decode(b: &[u8]) -> Result<Js, String> {
	let mut out: Js = Vec::new();
	let mut i = 0;
	while i < b.len() {
		let x = b[i] as u32;
		if x == 0 || x >= 0xf0 { return Err("bad mutf8 byte".into()); }
		if x < 0x80 { out.push(x); i += 1; continue; }
		if x & 0xe0 == 0xc0 {
			let y = *b.get(i + 1).ok_or("trunc")? as u32;
			if y & 0xc0 != 0x80 { return Err("bad cont".into()); }
			let c = ((x & 0x1f) << 6) | (y & 0x3f);
			if c != 0 && c < 0x80 { return Err("overlong".into()); }
			out.push(c); i += 2; continue;
		}
		if x & 0xf0 == 0xe0 {
			let y = *b.get(i + 1).ok_or("trunc")? as u32;
			let z = *b.get(i + 2).ok_or("trunc")? as u32;
			if y & 0xc0 != 0x80 || z & 0xc0 != 0x80 { return Err("bad cont".into()); }
			let c = ((x & 0x0f) << 12) | ((y & 0x3f) << 6) | (z & 0x3f);
			if c < 0x800 { return Err("overlong".into()); }
			if (0xdc00..0xe000).contains(&c) {
				if let Some(&p) = out.last() {
					if (0xd800..0xdc00).contains(&p) {
						out.pop();
						out.push(0x10000 + ((p - 0xd800) << 10) + (c - 0xdc00));
						i += 3; continue;
					}
				}
			}
			out.push(c); i += 3; continue;
		}
		return Err("bad lead".into());
	}
	Ok(out)
}

// ===================================================================================================== assembler

#[derive(Clone, Debug, PartialEq, Eq, Hash)]
pub enum Spec {
	Utf8(Js), Int(i32), Float(u32), Long(i64), Double(u64), Class(Js), Str(Js),
	FieldRef(GRef), MethodRef(GRef), IfaceMethodRef(GRef), NameAndType(Js, Js),
	Handle(GHandle), MType(Js), Dynamic(usize, Js, Js), InvokeDynamic(usize, Js, Js), Module(Js), Package(Js),
}

impl Spec {
	fn slots(&self) -> usize { if matches!(self, Spec::Long(_) | Spec::Double(_)) { 2 } else { 1 } }
	fn deps(&self) -> Vec<Spec> {
		match self {
			Spec::Class(n) | Spec::Str(n) | Spec::MType(n) | Spec::Module(n) | Spec::Package(n) => vec![Spec::Utf8(n.clone())],
			Spec::FieldRef(r) | Spec::MethodRef(r) | Spec::IfaceMethodRef(r) => vec![Spec::Class(r.cls.clone()), Spec::NameAndType(r.name.clone(), r.desc.clone())],
			Spec::NameAndType(n, d) => vec![Spec::Utf8(n.clone()), Spec::Utf8(d.clone())],
			Spec::Handle(h) => vec![handle_ref_spec(h)],
			Spec::Dynamic(_, n, d) | Spec::InvokeDynamic(_, n, d) => vec![Spec::NameAndType(n.clone(), d.clone())],
			_ => vec![],
		}
	}
}

fn handle_ref_spec(h: &GHandle) -> Spec {
	match h.kind {
		1..=4 => Spec::FieldRef(h.r.clone()),
		5 | 8 => Spec::MethodRef(h.r.clone()),
		6 | 7 => if h.itf { Spec::IfaceMethodRef(h.r.clone()) } else { Spec::MethodRef(h.r.clone()) },
		_ => Spec::IfaceMethodRef(h.r.clone()),
	}
}

/// random choices that do not change what the class file says
#[derive(Clone, Debug)]
pub struct Choices {
	pub dup_pct: usize,       // chance (per needed constant) of a duplicate pool entry
	pub junk: usize,          // number of unused pool entries
	pub shuffle_pool: bool,
	pub shuffle_attrs: bool,
	pub wide_pct: usize,      // chance of choosing the longer form where a shorter one is legal
	pub split_tables: bool,   // LineNumberTable / LocalVariable(Type)Table / annotations split over several attributes
	pub pad_byte: u8,         // switch padding bytes (JVMS: any value is ignored? duke ignores them)
}

impl Choices {
	pub fn plain() -> Choices { Choices { dup_pct: 0, junk: 0, shuffle_pool: false, shuffle_attrs: false, wide_pct: 0, split_tables: false, pad_byte: 0 } }
	pub fn random(r: &mut Rng) -> Choices {
		Choices { dup_pct: *r.pick(&[0, 10, 40]), junk: *r.pick(&[0, 0, 3, 20]), shuffle_pool: r.chance(3, 4), shuffle_attrs: r.chance(3, 4),
			wide_pct: *r.pick(&[0, 20, 50, 100]), split_tables: r.chance(1, 2), pad_byte: *r.pick(&[0, 0, 0xff, 0x5a]) }
	}
}

struct Asm<'a> {
	planning: bool,
	rng: &'a mut Rng,
	ch: Choices,
	needed: Vec<Spec>,
	needed_set: HashMap<Spec, ()>,
	index: HashMap<Spec, Vec<u16>>,
	bsms: Vec<(GHandle, Vec<GLoadable>)>,
	pub stats: Vec<String>,
}

pub struct W(pub Vec<u8>);
impl W {
	fn u8(&mut self, v: u8) { self.0.push(v); }
	fn u16(&mut self, v: u16) { self.0.extend(v.to_be_bytes()); }
	fn u32(&mut self, v: u32) { self.0.extend(v.to_be_bytes()); }
	fn bytes(&mut self, b: &[u8]) { self.0.extend_from_slice(b); }
}

type Attrs = Vec<(usize, Js, Vec<u8>)>; // (order group, name, body)

impl Asm<'_> {
	fn need(&mut self, sp: &Spec) {
		if self.needed_set.contains_key(sp) { return; }
		self.needed_set.insert(sp.clone(), ());
		for d in sp.deps() { self.need(&d); }
		self.needed.push(sp.clone());
	}
	fn idx(&mut self, sp: Spec) -> u16 {
		if self.planning { self.need(&sp); return 1; }
		let v = self.index.get(&sp).unwrap_or_else(|| panic!("spec not planned: {sp:?}"));
		v[self.rng.below(v.len())]
	}
	fn utf8(&mut self, x: &Js) -> u16 { self.idx(Spec::Utf8(x.clone())) }
	fn class(&mut self, x: &Js) -> u16 { self.idx(Spec::Class(x.clone())) }
	fn opt_utf8(&mut self, x: &Option<Js>) -> u16 { match x { None => 0, Some(x) => self.utf8(x) } }
	fn opt_class(&mut self, x: &Option<Js>) -> u16 { match x { None => 0, Some(x) => self.class(x) } }

	fn bsm_index(&mut self, h: &GHandle, args: &[GLoadable]) -> usize {
		if self.planning {
			// register the arguments first (their own bootstrap methods get smaller indices, irrelevant but deterministic)
			for a in args { let _ = self.loadable_spec(a); }
			if let Some(p) = self.bsms.iter().position(|(bh, ba)| bh == h && ba == args) {
				if !self.rng.chance(self.ch.dup_pct, 100) { return p; }
			}
			self.bsms.push((h.clone(), args.to_vec()));
			self.bsms.len() - 1
		} else {
			let c: Vec<usize> = self.bsms.iter().enumerate().filter(|(_, (bh, ba))| bh == h && ba == args).map(|(i, _)| i).collect();
			c[self.rng.below(c.len())]
		}
	}
	fn loadable_spec(&mut self, l: &GLoadable) -> Spec {
		match l {
			GLoadable::Int(v) => Spec::Int(*v), GLoadable::Float(v) => Spec::Float(*v), GLoadable::Long(v) => Spec::Long(*v), GLoadable::Double(v) => Spec::Double(*v),
			GLoadable::Cls(c) => Spec::Class(c.clone()), GLoadable::Str(c) => Spec::Str(c.clone()), GLoadable::Handle(h) => Spec::Handle(h.clone()),
			GLoadable::MType(d) => Spec::MType(d.clone()),
			GLoadable::Dyn { name, desc, handle, args } => { let b = self.bsm_index(handle, args); Spec::Dynamic(b, name.clone(), desc.clone()) }
		}
	}
	fn dyn_idx(&mut self, invoke: bool, h: &GHandle, args: &[GLoadable], name: &Js, desc: &Js) -> u16 {
		let b = self.bsm_index(h, args);
		self.idx(if invoke { Spec::InvokeDynamic(b, name.clone(), desc.clone()) } else { Spec::Dynamic(b, name.clone(), desc.clone()) })
	}
	fn loadable(&mut self, l: &GLoadable) -> u16 {
		if let GLoadable::Dyn { name, desc, handle, args } = l { return self.dyn_idx(false, handle, args, name, desc); }
		let sp = self.loadable_spec(l);
		self.idx(sp)
	}

	// ---- pool planning and serialisation
	fn plan(&mut self) {
		// the real run picks among *equal* bootstrap entries: plan the (Invoke)Dynamic constant for each of them
		for sp in self.needed.clone() {
			if let Spec::Dynamic(b, n, d) | Spec::InvokeDynamic(b, n, d) = &sp {
				for j in 0..self.bsms.len() {
					if self.bsms[j] == self.bsms[*b] {
						let x = if matches!(sp, Spec::Dynamic(..)) { Spec::Dynamic(j, n.clone(), d.clone()) } else { Spec::InvokeDynamic(j, n.clone(), d.clone()) };
						self.need(&x);
					}
				}
			}
		}
		let mut entries: Vec<Spec> = self.needed.clone();
		let n = entries.len();
		for i in 0..n { if self.rng.chance(self.ch.dup_pct, 100) { entries.push(entries[i].clone()); } }
		for k in 0..self.ch.junk {
			let j = match self.rng.below(6) {
				0 => Spec::Utf8(js(&format!("junk{k}"))), 1 => Spec::Int(k as i32 - 7), 2 => Spec::Long(k as i64 * 1_000_000_007),
				3 => Spec::Double(0x4000_0000_0000_0000 + k as u64), 4 => Spec::Class(js(&format!("junk/C{k}"))), _ => Spec::Str(js("junk")),
			};
			for d in j.deps() { if !entries.contains(&d) { entries.push(d); } }
			entries.push(j);
		}
		if self.ch.shuffle_pool { self.rng.shuffle(&mut entries); }
		let mut at = 1usize;
		self.index.clear();
		let mut order = Vec::new();
		for e in entries {
			assert!(at + e.slots() <= 65535, "pool too large");
			self.index.entry(e.clone()).or_default().push(at as u16);
			at += e.slots();
			order.push(e);
		}
		self.needed = order;
	}
	fn write_pool(&mut self, w: &mut W) {
		let entries = self.needed.clone();
		let count: usize = 1 + entries.iter().map(|e| e.slots()).sum::<usize>();
		w.u16(count as u16);
		for e in &entries {
			match e {
				Spec::Utf8(x) => { let b = mutf8_encode(x); assert!(b.len() < 65536); w.u8(1); w.u16(b.len() as u16); w.bytes(&b); }
				Spec::Int(v) => { w.u8(3); w.u32(*v as u32); }
				Spec::Float(v) => { w.u8(4); w.u32(*v); }
				Spec::Long(v) => { w.u8(5); w.bytes(&v.to_be_bytes()); }
				Spec::Double(v) => { w.u8(6); w.bytes(&v.to_be_bytes()); }
				Spec::Class(n) => { let i = self.utf8(n); w.u8(7); w.u16(i); }
				Spec::Str(n) => { let i = self.utf8(n); w.u8(8); w.u16(i); }
				Spec::FieldRef(r) | Spec::MethodRef(r) | Spec::IfaceMethodRef(r) => {
					let c = self.class(&r.cls);
					let nt = self.idx(Spec::NameAndType(r.name.clone(), r.desc.clone()));
					w.u8(match e { Spec::FieldRef(_) => 9, Spec::MethodRef(_) => 10, _ => 11 }); w.u16(c); w.u16(nt);
				}
				Spec::NameAndType(n, d) => { let a = self.utf8(n); let b = self.utf8(d); w.u8(12); w.u16(a); w.u16(b); }
				Spec::Handle(h) => { let i = self.idx(handle_ref_spec(h)); w.u8(15); w.u8(h.kind); w.u16(i); }
				Spec::MType(d) => { let i = self.utf8(d); w.u8(16); w.u16(i); }
				Spec::Dynamic(b, n, d) | Spec::InvokeDynamic(b, n, d) => {
					let nt = self.idx(Spec::NameAndType(n.clone(), d.clone()));
					w.u8(if matches!(e, Spec::Dynamic(..)) { 17 } else { 18 }); w.u16(*b as u16); w.u16(nt);
				}
				Spec::Module(n) => { let i = self.utf8(n); w.u8(19); w.u16(i); }
				Spec::Package(n) => { let i = self.utf8(n); w.u8(20); w.u16(i); }
			}
		}
	}

	// ---- attributes
	fn write_attrs(&mut self, w: &mut W, mut attrs: Attrs) {
		if self.ch.shuffle_attrs && !self.planning {
			// random interleaving that keeps the relative order inside every group
			let mut groups: Vec<usize> = attrs.iter().map(|a| a.0).collect();
			self.rng.shuffle(&mut groups);
			let mut by_group: HashMap<usize, std::collections::VecDeque<(usize, Js, Vec<u8>)>> = HashMap::new();
			for a in attrs.drain(..) { by_group.entry(a.0).or_default().push_back(a); }
			for g in groups { if let Some(a) = by_group.get_mut(&g).and_then(|q| q.pop_front()) { attrs.push(a); } }
		}
		w.u16(attrs.len() as u16);
		for (_, name, body) in attrs {
			let i = self.utf8(&name);
			w.u16(i); w.u32(body.len() as u32); w.bytes(&body);
		}
	}
	/// split a list into 1..k consecutive chunks (several attributes of the same kind)
	fn chunks<T: Clone>(&mut self, v: &[T]) -> Vec<Vec<T>> {
		if !self.ch.split_tables || v.len() < 2 || self.planning { return vec![v.to_vec()]; }
		let cut = self.rng.range(0, v.len());
		if cut == 0 || cut == v.len() { if self.rng.chance(1, 3) { return vec![v[..cut].to_vec(), v[cut..].to_vec()]; } return vec![v.to_vec()]; }
		vec![v[..cut].to_vec(), v[cut..].to_vec()]
	}

	fn elem(&mut self, w: &mut W, e: &GElem) {
		match e {
			GElem::Const(tag, v) => {
				w.u8(*tag);
				let i = match *tag {
					b'D' => self.idx(Spec::Double(*v as u64)),
					b'F' => self.idx(Spec::Float(*v as u32)),
					b'J' => self.idx(Spec::Long(*v)),
					b'B' => { let k = if self.ch.wide_pct > 0 && *v >= 0 { *v + 256 } else { *v }; self.idx(Spec::Int(k as i32)) }
					b'Z' => { let k = if self.ch.wide_pct > 50 && *v == 1 { 7 } else { *v }; self.idx(Spec::Int(k as i32)) }
					_ => self.idx(Spec::Int(*v as i32)),
				};
				w.u16(i);
			}
			GElem::Str(x) => { w.u8(b's'); let i = self.utf8(x); w.u16(i); }
			GElem::Enum(t, n) => { w.u8(b'e'); let a = self.utf8(t); let b = self.utf8(n); w.u16(a); w.u16(b); }
			GElem::Cls(d) => { w.u8(b'c'); let i = self.utf8(d); w.u16(i); }
			GElem::Anno(a) => { w.u8(b'@'); self.anno(w, a); }
			GElem::Arr(v) => { w.u8(b'['); w.u16(v.len() as u16); for x in v { self.elem(w, x); } }
		}
	}
	fn anno(&mut self, w: &mut W, a: &GAnno) {
		let t = self.utf8(&a.ty); w.u16(t); w.u16(a.pairs.len() as u16);
		for (n, v) in &a.pairs { let i = self.utf8(n); w.u16(i); self.elem(w, v); }
	}
	fn annos_attrs(&mut self, out: &mut Attrs, group: usize, name: &str, annos: &[GAnno]) {
		if annos.is_empty() { return; }
		for chunk in self.chunks(annos) {
			let mut w = W(Vec::new());
			w.u16(chunk.len() as u16);
			for a in &chunk { self.anno(&mut w, a); }
			out.push((group, js(name), w.0));
		}
	}
	fn target(&mut self, w: &mut W, t: &GTarget, pos: &[usize]) {
		match t {
			GTarget::TypeParam(tag, i) => { w.u8(*tag); w.u8(*i); }
			GTarget::Extends => { w.u8(0x10); w.u16(65535); }
			GTarget::Implements(i) => { w.u8(0x10); w.u16(*i); }
			GTarget::TypeParamBound(tag, a, b) => { w.u8(*tag); w.u8(*a); w.u8(*b); }
			GTarget::Field => w.u8(0x13), GTarget::Ret => w.u8(0x14), GTarget::Receiver => w.u8(0x15),
			GTarget::FormalParam(i) => { w.u8(0x16); w.u8(*i); }
			GTarget::Throws(i) => { w.u8(0x17); w.u16(*i); }
			GTarget::LocalVar(tag, tbl) => {
				w.u8(*tag); w.u16(tbl.len() as u16);
				for (a, b, i) in tbl { w.u16(pos[*a] as u16); w.u16((pos[*b] - pos[*a]) as u16); w.u16(*i); }
			}
			GTarget::ExceptionParam(i) => { w.u8(0x42); w.u16(*i); }
			GTarget::Offset(tag, l) => { w.u8(*tag); w.u16(pos[*l] as u16); }
			GTarget::OffsetArg(tag, l, i) => { w.u8(*tag); w.u16(pos[*l] as u16); w.u8(*i); }
		}
	}
	fn type_annos_attrs(&mut self, out: &mut Attrs, group: usize, name: &str, annos: &[GTypeAnno], pos: &[usize]) {
		if annos.is_empty() { return; }
		for chunk in self.chunks(annos) {
			let mut w = W(Vec::new());
			w.u16(chunk.len() as u16);
			for a in &chunk {
				self.target(&mut w, &a.target, pos);
				w.u8(a.path.len() as u8);
				for (k, i) in &a.path { w.u8(*k); w.u8(*i); }
				self.anno(&mut w, &a.anno);
			}
			out.push((group, js(name), w.0));
		}
	}
	fn unknown_attrs(&mut self, out: &mut Attrs, attrs: &[GAttr]) {
		for (n, b) in attrs { out.push((0, n.clone(), b.clone())); }
	}
	fn marker_attrs(&mut self, out: &mut Attrs, deprecated: bool, synthetic: bool) {
		if deprecated { out.push((1, js("Deprecated"), vec![])); if self.ch.dup_pct > 30 { out.push((1, js("Deprecated"), vec![])); } }
		if synthetic { out.push((2, js("Synthetic"), vec![])); }
	}
	fn sig_attr(&mut self, out: &mut Attrs, sig: &Option<Js>) {
		if let Some(x) = sig { let i = self.utf8(x); out.push((3, js("Signature"), i.to_be_bytes().to_vec())); }
	}

	// ---- code
	fn vtype(&mut self, w: &mut W, v: &GVType, pos: &[usize]) {
		match v {
			GVType::Top => w.u8(0), GVType::Int => w.u8(1), GVType::Float => w.u8(2), GVType::Double => w.u8(3), GVType::Long => w.u8(4),
			GVType::Null => w.u8(5), GVType::UninitThis => w.u8(6),
			GVType::Object(c) => { w.u8(7); let i = self.class(c); w.u16(i); }
			GVType::Uninit(l) => { w.u8(8); w.u16(pos[*l] as u16); }
		}
	}
	fn code(&mut self, c: &GCode) -> Vec<u8> {
		let n = c.insns.len();
		// 1. constant indices and forms
		#[derive(Clone, Copy, PartialEq)] enum Form { Short, Plain, Wide }
		let mut forms = vec![Form::Plain; n];
		let mut cidx = vec![0u16; n];
		let longer = |me: &mut Self| me.rng.chance(me.ch.wide_pct, 100);
		for (k, (_, ins)) in c.insns.iter().enumerate() {
			match ins {
				GInsn::Ldc(l) => {
					cidx[k] = self.loadable(l);
					forms[k] = if matches!(l, GLoadable::Long(_) | GLoadable::Double(_)) { Form::Wide }
						else if self.planning || cidx[k] > 255 || longer(self) { Form::Plain } else { Form::Short };
				}
				GInsn::Load(_, i) | GInsn::Store(_, i) => {
					forms[k] = if *i > 255 { Form::Wide } else if *i <= 3 && !longer(self) { Form::Short } else if longer(self) { Form::Wide } else { Form::Plain };
				}
				GInsn::Ret(i) => forms[k] = if *i > 255 || longer(self) { Form::Wide } else { Form::Plain },
				GInsn::IInc(i, v) => forms[k] = if *i > 255 || *v > 127 || *v < -128 || longer(self) { Form::Wide } else { Form::Plain },
				GInsn::Goto(_) | GInsn::Jsr(_) => forms[k] = if longer(self) { Form::Wide } else { Form::Plain },
				GInsn::Field(op, r) => { let _ = op; cidx[k] = self.idx(Spec::FieldRef(r.clone())); }
				GInsn::InvokeVirtual(r) => cidx[k] = self.idx(Spec::MethodRef(r.clone())),
				GInsn::InvokeSpecial(r, itf) | GInsn::InvokeStatic(r, itf) => cidx[k] = self.idx(if *itf { Spec::IfaceMethodRef(r.clone()) } else { Spec::MethodRef(r.clone()) }),
				GInsn::InvokeInterface(r) => cidx[k] = self.idx(Spec::IfaceMethodRef(r.clone())),
				GInsn::InvokeDynamic { name, desc, handle, args } => cidx[k] = self.dyn_idx(true, handle, args, name, desc),
				GInsn::New(x) | GInsn::ANewArray(x) | GInsn::CheckCast(x) | GInsn::InstanceOf(x) | GInsn::MultiANewArray(x, _) => cidx[k] = self.class(x),
				_ => {}
			}
		}
		// 2. positions (iterate: goto/jsr that do not fit become wide)
		let size = |k: usize, at: usize, forms: &[Form]| -> usize {
			match &c.insns[k].1 {
				GInsn::Simple(_) => 1, GInsn::BiPush(_) => 2, GInsn::SiPush(_) => 3,
				GInsn::Ldc(_) => if forms[k] == Form::Short { 2 } else { 3 },
				GInsn::Load(..) | GInsn::Store(..) => match forms[k] { Form::Short => 1, Form::Plain => 2, Form::Wide => 4 },
				GInsn::Ret(_) => if forms[k] == Form::Wide { 4 } else { 2 },
				GInsn::IInc(..) => if forms[k] == Form::Wide { 6 } else { 3 },
				GInsn::Branch(..) => 3,
				GInsn::Goto(_) | GInsn::Jsr(_) => if forms[k] == Form::Wide { 5 } else { 3 },
				GInsn::TableSwitch { table, .. } => 1 + (3 - at % 4) + 12 + 4 * table.len(),
				GInsn::LookupSwitch { pairs, .. } => 1 + (3 - at % 4) + 8 + 8 * pairs.len(),
				GInsn::Field(..) | GInsn::InvokeVirtual(_) | GInsn::InvokeSpecial(..) | GInsn::InvokeStatic(..) => 3,
				GInsn::InvokeInterface(_) | GInsn::InvokeDynamic { .. } => 5,
				GInsn::New(_) | GInsn::ANewArray(_) | GInsn::CheckCast(_) | GInsn::InstanceOf(_) => 3,
				GInsn::NewArray(_) => 2, GInsn::MultiANewArray(..) => 4,
			}
		};
		let mut pos = vec![0usize; n + 1];
		loop {
			for k in 0..n { pos[k + 1] = pos[k] + size(k, pos[k], &forms); }
			let mut changed = false;
			for k in 0..n {
				if let GInsn::Goto(t) | GInsn::Jsr(t) = &c.insns[k].1 {
					let off = pos[*t] as i64 - pos[k] as i64;
					if forms[k] != Form::Wide && !(-32768..=32767).contains(&off) { forms[k] = Form::Wide; changed = true; }
				}
			}
			if !changed { break; }
		}
		assert!(pos[n] > 0 && pos[n] < 65536, "code length {} out of range", pos[n]);
		// 3. bytes
		let mut w = W(Vec::new());
		for (k, (_, ins)) in c.insns.iter().enumerate() {
			let at = pos[k];
			let rel = |t: usize| -> i64 { pos[t] as i64 - at as i64 };
			debug_assert_eq!(w.0.len(), at);
			match ins {
				GInsn::Simple(op) => w.u8(*op),
				GInsn::BiPush(v) => { w.u8(0x10); w.u8(*v as u8); }
				GInsn::SiPush(v) => { w.u8(0x11); w.u16(*v as u16); }
				GInsn::Ldc(_) => match forms[k] {
					Form::Short => { w.u8(0x12); w.u8(cidx[k] as u8); }
					Form::Plain => { w.u8(0x13); w.u16(cidx[k]); }
					Form::Wide => { w.u8(0x14); w.u16(cidx[k]); }
				},
				GInsn::Load(kind, i) | GInsn::Store(kind, i) => {
					let (base, base_n) = if matches!(ins, GInsn::Load(..)) { (0x15u8, 0x1au8) } else { (0x36u8, 0x3bu8) };
					match forms[k] {
						Form::Short => w.u8(base_n + kind * 4 + *i as u8),
						Form::Plain => { w.u8(base + kind); w.u8(*i as u8); }
						Form::Wide => { w.u8(0xc4); w.u8(base + kind); w.u16(*i); }
					}
				}
				GInsn::Ret(i) => if forms[k] == Form::Wide { w.u8(0xc4); w.u8(0xa9); w.u16(*i); } else { w.u8(0xa9); w.u8(*i as u8); },
				GInsn::IInc(i, v) => if forms[k] == Form::Wide { w.u8(0xc4); w.u8(0x84); w.u16(*i); w.u16(*v as u16); } else { w.u8(0x84); w.u8(*i as u8); w.u8(*v as i8 as u8); },
				GInsn::Branch(op, t) => { let o = rel(*t); assert!((-32768..=32767).contains(&o), "conditional branch too far"); w.u8(*op); w.u16(o as i16 as u16); }
				GInsn::Goto(t) | GInsn::Jsr(t) => {
					let jsr = matches!(ins, GInsn::Jsr(_));
					if forms[k] == Form::Wide { w.u8(if jsr { 0xc9 } else { 0xc8 }); w.u32(rel(*t) as i32 as u32); }
					else { w.u8(if jsr { 0xa8 } else { 0xa7 }); w.u16(rel(*t) as i16 as u16); }
				}
				GInsn::TableSwitch { dflt, low, high, table } => {
					w.u8(0xaa);
					for _ in 0..(3 - at % 4) { w.u8(self.ch.pad_byte); }
					w.u32(rel(*dflt) as i32 as u32); w.u32(*low as u32); w.u32(*high as u32);
					for t in table { w.u32(rel(*t) as i32 as u32); }
				}
				GInsn::LookupSwitch { dflt, pairs } => {
					w.u8(0xab);
					for _ in 0..(3 - at % 4) { w.u8(self.ch.pad_byte); }
					w.u32(rel(*dflt) as i32 as u32); w.u32(pairs.len() as u32);
					for (key, t) in pairs { w.u32(*key as u32); w.u32(rel(*t) as i32 as u32); }
				}
				GInsn::Field(op, _) => { w.u8(*op); w.u16(cidx[k]); }
				GInsn::InvokeVirtual(_) => { w.u8(0xb6); w.u16(cidx[k]); }
				GInsn::InvokeSpecial(..) => { w.u8(0xb7); w.u16(cidx[k]); }
				GInsn::InvokeStatic(..) => { w.u8(0xb8); w.u16(cidx[k]); }
				GInsn::InvokeInterface(_) => { w.u8(0xb9); w.u16(cidx[k]); w.u8(1 + (k % 3) as u8); w.u8(0); }
				GInsn::InvokeDynamic { .. } => { w.u8(0xba); w.u16(cidx[k]); w.u8(0); w.u8(0); }
				GInsn::New(_) => { w.u8(0xbb); w.u16(cidx[k]); }
				GInsn::NewArray(a) => { w.u8(0xbc); w.u8(*a); }
				GInsn::ANewArray(_) => { w.u8(0xbd); w.u16(cidx[k]); }
				GInsn::CheckCast(_) => { w.u8(0xc0); w.u16(cidx[k]); }
				GInsn::InstanceOf(_) => { w.u8(0xc1); w.u16(cidx[k]); }
				GInsn::MultiANewArray(_, d) => { w.u8(0xc5); w.u16(cidx[k]); w.u8(*d); }
			}
		}
		let bytecode = w.0;
		assert_eq!(bytecode.len(), pos[n]);
		let mut out = W(Vec::new());
		out.u16(c.max_stack); out.u16(c.max_locals); out.u32(bytecode.len() as u32); out.bytes(&bytecode);
		out.u16(c.exceptions.len() as u16);
		for (a, b, h, ct) in &c.exceptions { out.u16(pos[*a] as u16); out.u16(pos[*b] as u16); out.u16(pos[*h] as u16); let i = self.opt_class(ct); out.u16(i); }
		// attributes of Code
		let mut attrs: Attrs = Vec::new();
		let framed: Vec<(usize, &GFrame)> = c.insns.iter().enumerate().filter_map(|(i, (f, _))| f.as_ref().map(|f| (i, f))).collect();
		if !framed.is_empty() {
			let mut w = W(Vec::new());
			w.u16(framed.len() as u16);
			let mut prev: Option<usize> = None;
			for (i, f) in framed {
				let delta = match prev { None => pos[i], Some(p) => pos[i] - pos[p] - 1 };
				prev = Some(i);
				let ext = self.rng.chance(self.ch.wide_pct, 100);
				match f {
					GFrame::Same => if delta <= 63 && !ext { w.u8(delta as u8); } else { w.u8(251); w.u16(delta as u16); },
					GFrame::Same1(v) => { if delta <= 63 && !ext { w.u8(64 + delta as u8); } else { w.u8(247); w.u16(delta as u16); } self.vtype(&mut w, v, &pos); }
					GFrame::Chop(k) => { w.u8(251 - k); w.u16(delta as u16); }
					GFrame::Append(vs) => { w.u8(251 + vs.len() as u8); w.u16(delta as u16); for v in vs { self.vtype(&mut w, v, &pos); } }
					GFrame::Full(l, st) => {
						w.u8(255); w.u16(delta as u16);
						w.u16(l.len() as u16); for v in l { self.vtype(&mut w, v, &pos); }
						w.u16(st.len() as u16); for v in st { self.vtype(&mut w, v, &pos); }
					}
				}
			}
			attrs.push((10, js("StackMapTable"), w.0));
		}
		if let Some(lines) = &c.lines {
			let chunks = if lines.is_empty() { vec![vec![]] } else { self.chunks(lines) };
			for chunk in chunks {
				let mut w = W(Vec::new());
				w.u16(chunk.len() as u16);
				for (l, n) in &chunk { w.u16(pos[*l] as u16); w.u16(*n); }
				attrs.push((11, js("LineNumberTable"), w.0));
			}
		}
		if let Some(locals) = &c.locals {
			// maximal runs of the same table kind, each run possibly split further
			let mut runs: Vec<(bool, Vec<GLv>)> = Vec::new();
			for lv in locals {
				let is_type = lv.sig.is_some();
				match runs.last_mut() { Some((k, v)) if *k == is_type => v.push(lv.clone()), _ => runs.push((is_type, vec![lv.clone()])) }
			}
			if runs.is_empty() { runs.push((false, vec![])); }
			for (is_type, run) in runs {
				let chunks = if run.is_empty() { vec![vec![]] } else { self.chunks(&run) };
				for chunk in chunks {
					let mut w = W(Vec::new());
					w.u16(chunk.len() as u16);
					for lv in &chunk {
						w.u16(pos[lv.start] as u16); w.u16((pos[lv.end] - pos[lv.start]) as u16);
						let ni = self.utf8(&lv.name); w.u16(ni);
						let di = self.utf8(if is_type { lv.sig.as_ref().unwrap() } else { lv.desc.as_ref().unwrap() }); w.u16(di);
						w.u16(lv.index);
					}
					attrs.push((12, js(if is_type { "LocalVariableTypeTable" } else { "LocalVariableTable" }), w.0));
				}
			}
		}
		self.type_annos_attrs(&mut attrs, 13, "RuntimeVisibleTypeAnnotations", &c.rvta, &pos);
		self.type_annos_attrs(&mut attrs, 14, "RuntimeInvisibleTypeAnnotations", &c.ritva, &pos);
		self.unknown_attrs(&mut attrs, &c.attrs);
		self.write_attrs(&mut out, attrs);
		out.0
	}

	fn field(&mut self, w: &mut W, f: &GField) {
		w.u16(f.access); let n = self.utf8(&f.name); w.u16(n); let d = self.utf8(&f.desc); w.u16(d);
		let mut attrs: Attrs = Vec::new();
		self.marker_attrs(&mut attrs, f.deprecated, f.synthetic);
		self.sig_attr(&mut attrs, &f.signature);
		if let Some(c) = &f.constant {
			let i = match c { GConst::Int(v) => self.idx(Spec::Int(*v)), GConst::Float(v) => self.idx(Spec::Float(*v)), GConst::Long(v) => self.idx(Spec::Long(*v)),
				GConst::Double(v) => self.idx(Spec::Double(*v)), GConst::Str(x) => self.idx(Spec::Str(x.clone())) };
			attrs.push((4, js("ConstantValue"), i.to_be_bytes().to_vec()));
		}
		self.annos_attrs(&mut attrs, 5, "RuntimeVisibleAnnotations", &f.rva);
		self.annos_attrs(&mut attrs, 6, "RuntimeInvisibleAnnotations", &f.ria);
		self.type_annos_attrs(&mut attrs, 7, "RuntimeVisibleTypeAnnotations", &f.rvta, &[]);
		self.type_annos_attrs(&mut attrs, 8, "RuntimeInvisibleTypeAnnotations", &f.rita, &[]);
		self.unknown_attrs(&mut attrs, &f.attrs);
		self.write_attrs(w, attrs);
	}
	fn method(&mut self, w: &mut W, m: &GMethod) {
		w.u16(m.access); let n = self.utf8(&m.name); w.u16(n); let d = self.utf8(&m.desc); w.u16(d);
		let mut attrs: Attrs = Vec::new();
		self.marker_attrs(&mut attrs, m.deprecated, m.synthetic);
		self.sig_attr(&mut attrs, &m.signature);
		if let Some(c) = &m.code { let b = self.code(c); attrs.push((4, js("Code"), b)); }
		if let Some(e) = &m.exceptions {
			let mut x = W(Vec::new()); x.u16(e.len() as u16); for c in e { let i = self.class(c); x.u16(i); }
			attrs.push((9, js("Exceptions"), x.0));
		}
		self.annos_attrs(&mut attrs, 5, "RuntimeVisibleAnnotations", &m.rva);
		self.annos_attrs(&mut attrs, 6, "RuntimeInvisibleAnnotations", &m.ria);
		self.type_annos_attrs(&mut attrs, 7, "RuntimeVisibleTypeAnnotations", &m.rvta, &[]);
		self.type_annos_attrs(&mut attrs, 8, "RuntimeInvisibleTypeAnnotations", &m.rita, &[]);
		if let Some(e) = &m.annotation_default { let mut x = W(Vec::new()); self.elem(&mut x, e); attrs.push((15, js("AnnotationDefault"), x.0)); }
		if let Some(ps) = &m.params {
			let mut x = W(Vec::new()); x.u8(ps.len() as u8);
			for (n, f) in ps { let i = self.opt_utf8(n); x.u16(i); x.u16(*f); }
			attrs.push((16, js("MethodParameters"), x.0));
		}
		for (visible, body) in &m.param_annos {
			attrs.push((17, js(if *visible { "RuntimeVisibleParameterAnnotations" } else { "RuntimeInvisibleParameterAnnotations" }), body.clone()));
		}
		self.unknown_attrs(&mut attrs, &m.attrs);
		self.write_attrs(w, attrs);
	}
	fn record(&mut self, w: &mut W, r: &GRecord) {
		let n = self.utf8(&r.name); w.u16(n); let d = self.utf8(&r.desc); w.u16(d);
		let mut attrs: Attrs = Vec::new();
		self.sig_attr(&mut attrs, &r.signature);
		self.annos_attrs(&mut attrs, 5, "RuntimeVisibleAnnotations", &r.rva);
		self.annos_attrs(&mut attrs, 6, "RuntimeInvisibleAnnotations", &r.ria);
		self.type_annos_attrs(&mut attrs, 7, "RuntimeVisibleTypeAnnotations", &r.rvta, &[]);
		self.type_annos_attrs(&mut attrs, 8, "RuntimeInvisibleTypeAnnotations", &r.rita, &[]);
		self.unknown_attrs(&mut attrs, &r.attrs);
		self.write_attrs(w, attrs);
	}
	fn module(&mut self, m: &GModule) -> Vec<u8> {
		let mut w = W(Vec::new());
		let i = self.idx(Spec::Module(m.name.clone())); w.u16(i); w.u16(m.flags); let v = self.opt_utf8(&m.version); w.u16(v);
		w.u16(m.requires.len() as u16);
		for (n, f, v) in &m.requires { let i = self.idx(Spec::Module(n.clone())); w.u16(i); w.u16(*f); let v = self.opt_utf8(v); w.u16(v); }
		for list in [&m.exports, &m.opens] {
			w.u16(list.len() as u16);
			for (n, f, to) in list {
				let i = self.idx(Spec::Package(n.clone())); w.u16(i); w.u16(*f); w.u16(to.len() as u16);
				for t in to { let i = self.idx(Spec::Module(t.clone())); w.u16(i); }
			}
		}
		w.u16(m.uses.len() as u16); for u in &m.uses { let i = self.class(u); w.u16(i); }
		w.u16(m.provides.len() as u16);
		for (n, with) in &m.provides { let i = self.class(n); w.u16(i); w.u16(with.len() as u16); for x in with { let i = self.class(x); w.u16(i); } }
		w.0
	}

	/// everything after the constant pool
	fn body(&mut self, g: &GClass) -> Vec<u8> {
		let mut w = W(Vec::new());
		w.u16(g.access); let t = self.class(&g.name); w.u16(t); let sp = self.opt_class(&g.super_); w.u16(sp);
		w.u16(g.interfaces.len() as u16); for i in &g.interfaces { let x = self.class(i); w.u16(x); }
		w.u16(g.fields.len() as u16); for f in &g.fields { self.field(&mut w, f); }
		w.u16(g.methods.len() as u16); for m in &g.methods { self.method(&mut w, m); }
		let mut attrs: Attrs = Vec::new();
		self.marker_attrs(&mut attrs, g.deprecated, g.synthetic);
		self.sig_attr(&mut attrs, &g.signature);
		if let Some(v) = &g.inner_classes {
			let mut x = W(Vec::new()); x.u16(v.len() as u16);
			for (i, o, n, f) in v { let a = self.class(i); x.u16(a); let b = self.opt_class(o); x.u16(b); let c = self.opt_utf8(n); x.u16(c); x.u16(*f); }
			attrs.push((20, js("InnerClasses"), x.0));
		}
		if let Some((c, m)) = &g.enclosing {
			let mut x = W(Vec::new()); let a = self.class(c); x.u16(a);
			let b = match m { None => 0, Some((n, d)) => self.idx(Spec::NameAndType(n.clone(), d.clone())) }; x.u16(b);
			attrs.push((21, js("EnclosingMethod"), x.0));
		}
		if let Some(x) = &g.source_file { let i = self.utf8(x); attrs.push((22, js("SourceFile"), i.to_be_bytes().to_vec())); }
		if let Some(x) = &g.source_debug { attrs.push((23, js("SourceDebugExtension"), mutf8_encode(x))); }
		self.annos_attrs(&mut attrs, 5, "RuntimeVisibleAnnotations", &g.rva);
		self.annos_attrs(&mut attrs, 6, "RuntimeInvisibleAnnotations", &g.ria);
		self.type_annos_attrs(&mut attrs, 7, "RuntimeVisibleTypeAnnotations", &g.rvta, &[]);
		self.type_annos_attrs(&mut attrs, 8, "RuntimeInvisibleTypeAnnotations", &g.rita, &[]);
		if let Some(m) = &g.module { let b = self.module(m); attrs.push((24, js("Module"), b)); }
		if let Some(v) = &g.module_packages { let mut x = W(Vec::new()); x.u16(v.len() as u16); for p in v { let i = self.idx(Spec::Package(p.clone())); x.u16(i); } attrs.push((25, js("ModulePackages"), x.0)); }
		if let Some(c) = &g.module_main { let i = self.class(c); attrs.push((26, js("ModuleMainClass"), i.to_be_bytes().to_vec())); }
		if let Some(c) = &g.nest_host { let i = self.class(c); attrs.push((27, js("NestHost"), i.to_be_bytes().to_vec())); }
		for (k, name, v) in [(28, "NestMembers", &g.nest_members), (29, "PermittedSubclasses", &g.permitted)] {
			if let Some(v) = v { let mut x = W(Vec::new()); x.u16(v.len() as u16); for c in v { let i = self.class(c); x.u16(i); } attrs.push((k, js(name), x.0)); }
		}
		if !g.records.is_empty() {
			let mut x = W(Vec::new()); x.u16(g.records.len() as u16); for r in &g.records { self.record(&mut x, r); }
			attrs.push((30, js("Record"), x.0));
		}
		// BootstrapMethods: only known after everything else was visited
		if !self.bsms.is_empty() {
			let bs = self.bsms.clone();
			let mut x = W(Vec::new()); x.u16(bs.len() as u16);
			for (h, args) in &bs {
				let i = self.idx(Spec::Handle(h.clone())); x.u16(i); x.u16(args.len() as u16);
				for a in args { let i = self.loadable(a); x.u16(i); }
			}
			attrs.push((31, js("BootstrapMethods"), x.0));
		}
		self.unknown_attrs(&mut attrs, &g.attrs);
		self.write_attrs(&mut w, attrs);
		w.0
	}
}

/// Serialise `g` under the choices `ch` (further random decisions are drawn from `rng`).
pub fn assemble(g: &GClass, ch: &Choices, rng: &mut Rng) -> Vec<u8> {
	let mut planner_rng = rng.fork();
	let mut a = Asm { planning: true, rng: &mut planner_rng, ch: ch.clone(), needed: vec![], needed_set: HashMap::new(), index: HashMap::new(), bsms: vec![], stats: vec![] };
	let _ = a.body(g);
	a.plan();
	a.planning = false;
	let mut w = W(Vec::new());
	w.u32(0xCAFEBABE); w.u16(g.minor); w.u16(g.major);
	a.write_pool(&mut w);
	let body = a.body(g);
	w.bytes(&body);
	w.0
}
