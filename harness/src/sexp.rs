//! Canonical S-expressions of the line protocol (DESIGN Appendix A); mirror of lean/FeatherModel/Base/Sexp.lean.
use java_string::{JavaCodePoint, JavaStr, JavaString};

#[derive(Debug, Clone, PartialEq, Eq, Hash)]
pub enum Sexp {
	Atom(String),
	List(Vec<Sexp>),
}

pub type R<T> = Result<T, String>;

impl Sexp {
	pub fn tag(s: &str) -> Sexp { Sexp::Atom(s.to_owned()) }
	pub fn nat(n: usize) -> Sexp { Sexp::Atom(n.to_string()) }
	pub fn int(n: i64) -> Sexp { Sexp::Atom(n.to_string()) }
	pub fn bool(b: bool) -> Sexp { Sexp::Atom(if b { "t" } else { "f" }.to_owned()) }
	pub fn list(v: Vec<Sexp>) -> Sexp { Sexp::List(v) }
	pub fn opt<T>(o: Option<T>, f: impl FnOnce(T) -> Sexp) -> Sexp {
		match o { None => Sexp::List(vec![]), Some(x) => Sexp::List(vec![f(x)]) }
	}
	pub fn jstr(s: &JavaStr) -> Sexp {
		let mut out = String::from("#");
		let mut first = true;
		for c in s.chars() {
			if !first { out.push('.'); }
			first = false;
			out.push_str(&format!("{:x}", c.as_u32()));
		}
		Sexp::Atom(out)
	}
	pub fn str(s: &str) -> Sexp { Sexp::jstr(JavaStr::from_str(s)) }
	pub fn cps(cps: &[u32]) -> Sexp {
		Sexp::Atom(format!("#{}", cps.iter().map(|c| format!("{:x}", c)).collect::<Vec<_>>().join(".")))
	}
	pub fn bytes(b: &[u8]) -> Sexp {
		let mut out = String::with_capacity(1 + 2 * b.len());
		out.push('x');
		for x in b { out.push_str(&format!("{:02x}", x)); }
		Sexp::Atom(out)
	}

	pub fn as_list(&self) -> R<&[Sexp]> {
		match self { Sexp::List(v) => Ok(v), _ => Err(format!("expected list, got {self}")) }
	}
	pub fn as_atom(&self) -> R<&str> {
		match self { Sexp::Atom(s) => Ok(s), _ => Err(format!("expected atom, got {self}")) }
	}
	pub fn as_nat(&self) -> R<usize> {
		self.as_atom()?.parse().map_err(|e| format!("bad nat {self}: {e}"))
	}
	pub fn as_int(&self) -> R<i64> {
		self.as_atom()?.parse().map_err(|e| format!("bad int {self}: {e}"))
	}
	pub fn as_bool(&self) -> R<bool> {
		match self.as_atom()? { "t" => Ok(true), "f" => Ok(false), o => Err(format!("bad bool {o}")) }
	}
	pub fn as_cps(&self) -> R<Vec<u32>> {
		let a = self.as_atom()?;
		let rest = a.strip_prefix('#').ok_or_else(|| format!("expected string atom, got {a}"))?;
		if rest.is_empty() { return Ok(vec![]); }
		rest.split('.').map(|h| u32::from_str_radix(h, 16).map_err(|e| format!("bad hex {h}: {e}"))).collect()
	}
	pub fn as_jstring(&self) -> R<JavaString> {
		let mut s = JavaString::new();
		for c in self.as_cps()? {
			s.push_java(JavaCodePoint::from_u32(c).ok_or_else(|| format!("bad code point {c:x}"))?);
		}
		Ok(s)
	}
	pub fn as_string(&self) -> R<String> {
		self.as_jstring()?.into_string().map_err(|e| format!("not utf8: {e}"))
	}
	pub fn as_bytes(&self) -> R<Vec<u8>> {
		let a = self.as_atom()?;
		let rest = a.strip_prefix('x').ok_or_else(|| format!("expected bytes atom, got {a}"))?;
		if rest.len() % 2 != 0 { return Err("odd hex".into()); }
		(0..rest.len() / 2).map(|i| u8::from_str_radix(&rest[2 * i..2 * i + 2], 16).map_err(|e| e.to_string())).collect()
	}
	pub fn as_opt(&self) -> R<Option<&Sexp>> {
		match self.as_list()? { [] => Ok(None), [x] => Ok(Some(x)), _ => Err(format!("expected option, got {self}")) }
	}
}

impl std::fmt::Display for Sexp {
	fn fmt(&self, f: &mut std::fmt::Formatter<'_>) -> std::fmt::Result {
		match self {
			Sexp::Atom(s) => f.write_str(s),
			Sexp::List(v) => {
				f.write_str("(")?;
				for (i, x) in v.iter().enumerate() {
					if i > 0 { f.write_str(" ")?; }
					x.fmt(f)?;
				}
				f.write_str(")")
			}
		}
	}
}

/// Parses one request line into its top-level items.
pub fn parse_line(line: &str) -> R<Vec<Sexp>> {
	let mut stack: Vec<Vec<Sexp>> = vec![vec![]];
	let mut cur = String::new();
	fn flush(cur: &mut String, stack: &mut Vec<Vec<Sexp>>) {
		if !cur.is_empty() {
			let a = std::mem::take(cur);
			if let Some(top) = stack.last_mut() { top.push(Sexp::Atom(a)); }
		}
	}
	for c in line.chars() {
		match c {
			'(' => { flush(&mut cur, &mut stack); stack.push(vec![]); }
			')' => {
				flush(&mut cur, &mut stack);
				let top = stack.pop().ok_or("unbalanced")?;
				let parent = stack.last_mut().ok_or("unbalanced")?;
				parent.push(Sexp::List(top));
			}
			' ' | '\n' | '\r' | '\t' => flush(&mut cur, &mut stack),
			c => cur.push(c),
		}
	}
	flush(&mut cur, &mut stack);
	if stack.len() != 1 { return Err("unbalanced".into()); }
	Ok(stack.pop().unwrap_or_default())
}
