//! quill `MappingsDiff` <-> S-expression, minimal codec owned by C10 (mirror of lean/FeatherModel/Model/DummyDiff.lean):
//!   action := (n) | (a x) | (r x) | (e x y)
//!   pdiff  := (kindex info doc)
//!   fdiff  := (kname kdesc info doc)
//!   mdiff  := (kname kdesc info doc (pdiff…))
//!   cdiff  := (key info doc (fdiff…) (mdiff…))
//!   diff   := (info doc (cdiff…))
//! Maps are printed in IndexMap order.
use indexmap::IndexMap;
use java_string::{JavaStr, JavaString};
use duke::tree::field::FieldNameAndDesc;
use duke::tree::method::MethodNameAndDesc;
use quill::tree::mappings::{JavadocMapping, ParameterKey};
use quill::tree::mappings_diff::*;
use crate::mapcodec::{cn, fdesc, fname, mdesc, mname, pname};
use crate::sexp::{R, Sexp};

pub fn action_to<T>(a: &Action<T>, f: impl Fn(&T) -> Sexp) -> Sexp {
	match a {
		Action::None => Sexp::list(vec![Sexp::tag("n")]),
		Action::Add(b) => Sexp::list(vec![Sexp::tag("a"), f(b)]),
		Action::Remove(a) => Sexp::list(vec![Sexp::tag("r"), f(a)]),
		Action::Edit(a, b) => Sexp::list(vec![Sexp::tag("e"), f(a), f(b)]),
	}
}

pub fn action_from<T>(s: &Sexp, mk: impl Fn(&Sexp) -> R<T>) -> R<Action<T>> {
	let items = s.as_list()?;
	let Some((head, rest)) = items.split_first() else { return Err("empty action".into()) };
	Ok(match (head.as_atom()?, rest) {
		("n", []) => Action::None,
		("a", [b]) => Action::Add(mk(b)?),
		("r", [a]) => Action::Remove(mk(a)?),
		("e", [a, b]) => Action::Edit(mk(a)?, mk(b)?),
		_ => return Err(format!("bad action {s}")),
	})
}

fn js<T: AsRef<JavaStr>>(t: &T) -> Sexp { Sexp::jstr(t.as_ref()) }
fn doc_to(a: &Action<JavadocMapping>) -> Sexp { action_to(a, |d| Sexp::str(&d.0)) }
fn doc_from(s: &Sexp) -> R<Action<JavadocMapping>> { action_from(s, |x| Ok(JavadocMapping(x.as_string()?))) }
fn named<T>(mk: fn(JavaString) -> T) -> impl Fn(&Sexp) -> R<T> { move |x| Ok(mk(x.as_jstring()?)) }

pub fn to_sexp(d: &MappingsDiff) -> Sexp {
	Sexp::list(vec![
		action_to(&d.info, |s| Sexp::str(s)),
		doc_to(&d.javadoc),
		Sexp::list(d.classes.iter().map(|(k, c)| Sexp::list(vec![
			Sexp::jstr(k.as_inner()),
			action_to(&c.info, js),
			doc_to(&c.javadoc),
			Sexp::list(c.fields.iter().map(|(k, f)| Sexp::list(vec![
				Sexp::jstr(k.name.as_inner()), Sexp::jstr(k.desc.as_inner()), action_to(&f.info, js), doc_to(&f.javadoc),
			])).collect()),
			Sexp::list(c.methods.iter().map(|(k, m)| Sexp::list(vec![
				Sexp::jstr(k.name.as_inner()), Sexp::jstr(k.desc.as_inner()), action_to(&m.info, js), doc_to(&m.javadoc),
				Sexp::list(m.parameters.iter().map(|(k, p)| Sexp::list(vec![
					Sexp::nat(k.index), action_to(&p.info, js), doc_to(&p.javadoc),
				])).collect()),
			])).collect()),
		])).collect()),
	])
}

pub fn from_sexp(s: &Sexp) -> R<MappingsDiff> {
	let [info, doc, classes] = s.as_list()? else { return Err("diff: expected 3 items".into()) };
	let mut cmap = IndexMap::new();
	for c in classes.as_list()? {
		let [k, info, doc, fields, methods] = c.as_list()? else { return Err("cdiff: expected 5 items".into()) };
		let mut fmap = IndexMap::new();
		for f in fields.as_list()? {
			let [kn, kd, info, doc] = f.as_list()? else { return Err("fdiff: expected 4 items".into()) };
			let key = FieldNameAndDesc { name: fname(kn.as_jstring()?), desc: fdesc(kd.as_jstring()?) };
			let node = FieldNowodeDiff { info: action_from(info, named(fname))?, javadoc: doc_from(doc)? };
			if fmap.insert(key, node).is_some() { return Err("duplicate field key in input".into()); }
		}
		let mut mmap = IndexMap::new();
		for m in methods.as_list()? {
			let [kn, kd, info, doc, params] = m.as_list()? else { return Err("mdiff: expected 5 items".into()) };
			let key = MethodNameAndDesc { name: mname(kn.as_jstring()?), desc: mdesc(kd.as_jstring()?) };
			let mut pmap = IndexMap::new();
			for p in params.as_list()? {
				let [ki, info, doc] = p.as_list()? else { return Err("pdiff: expected 3 items".into()) };
				let node = ParameterNowodeDiff { info: action_from(info, named(pname))?, javadoc: doc_from(doc)? };
				if pmap.insert(ParameterKey { index: ki.as_nat()? }, node).is_some() { return Err("duplicate param key in input".into()); }
			}
			let node = MethodNowodeDiff { info: action_from(info, named(mname))?, parameters: pmap, javadoc: doc_from(doc)? };
			if mmap.insert(key, node).is_some() { return Err("duplicate method key in input".into()); }
		}
		let node = ClassNowodeDiff { info: action_from(info, named(cn))?, fields: fmap, methods: mmap, javadoc: doc_from(doc)? };
		if cmap.insert(cn(k.as_jstring()?), node).is_some() { return Err("duplicate class key in input".into()); }
	}
	Ok(MappingsDiff { info: action_from(info, |x| x.as_string())?, classes: cmap, javadoc: doc_from(doc)? })
}
