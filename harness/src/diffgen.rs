//! Generator-side diff trees, the random diff generator and the independent S-expression specification of
//! `MappingsDiff::apply_to` with its domain predicates (twins of lean/FeatherModel/Model/DiffSpec.lean).
//! Moved verbatim out of `bin/c04.rs` so that C05 (version graph) can put the same kind of diffs on its edges; the
//! order in which the functions draw from the `Rng` is unchanged (the request stream of C04 is the same as before).
use std::collections::BTreeMap;
use crate::mapgen::{ident, GMappings, GMember, MapCfg};
use crate::rng::Rng;
use crate::run::Out;
use crate::sexp::Sexp;

// =================================================================== generator-side diff trees

#[derive(Clone, Debug, PartialEq)]
pub enum GA { None, Add(String), Remove(String), Edit(String, String) }
impl GA {
	pub fn to_sexp(&self) -> Sexp {
		match self {
			GA::None => Sexp::tag("none"),
			GA::Add(b) => Sexp::list(vec![Sexp::tag("add"), Sexp::str(b)]),
			GA::Remove(a) => Sexp::list(vec![Sexp::tag("remove"), Sexp::str(a)]),
			GA::Edit(a, b) => Sexp::list(vec![Sexp::tag("edit"), Sexp::str(a), Sexp::str(b)]),
		}
	}
	pub fn kind(&self) -> &'static str { match self { GA::None => "none", GA::Add(_) => "add", GA::Remove(_) => "remove", GA::Edit(..) => "edit" } }
}
#[derive(Clone, Debug)]
pub struct GDParam { pub index: usize, pub info: GA, pub doc: GA }
#[derive(Clone, Debug)]
pub struct GDMember { pub name: String, pub desc: String, pub info: GA, pub doc: GA, pub params: Vec<GDParam> }
#[derive(Clone, Debug)]
pub struct GDClass { pub key: String, pub info: GA, pub doc: GA, pub fields: Vec<GDMember>, pub methods: Vec<GDMember> }
#[derive(Clone, Debug)]
pub struct GDiff { pub info: GA, pub doc: GA, pub classes: Vec<GDClass> }

impl GDiff {
	pub fn to_sexp(&self) -> Sexp {
		Sexp::list(vec![self.info.to_sexp(), self.doc.to_sexp(), Sexp::list(self.classes.iter().map(|c| Sexp::list(vec![
			Sexp::str(&c.key), c.info.to_sexp(), c.doc.to_sexp(),
			Sexp::list(c.fields.iter().map(|f| Sexp::list(vec![Sexp::str(&f.name), Sexp::str(&f.desc), f.info.to_sexp(), f.doc.to_sexp()])).collect()),
			Sexp::list(c.methods.iter().map(|m| Sexp::list(vec![Sexp::str(&m.name), Sexp::str(&m.desc), m.info.to_sexp(), m.doc.to_sexp(),
				Sexp::list(m.params.iter().map(|p| Sexp::list(vec![Sexp::nat(p.index), p.info.to_sexp(), p.doc.to_sexp()])).collect())])).collect()),
		])).collect())])
	}
}

/// an action for a node whose current value is `cur` (`present` = the key exists); `bad` = make it inconsistent
pub fn gen_action(r: &mut Rng, present: bool, cur: &Option<String>, bad_pct: usize, fresh: &mut dyn FnMut(&mut Rng) -> String, st: &mut Out, lvl: &str) -> GA {
	let bad = r.chance(bad_pct, 100);
	let wrong = |r: &mut Rng, c: &str, fresh: &mut dyn FnMut(&mut Rng) -> String| { let mut w = fresh(r); if w == c { w.push('9'); } w };
	let a = if !present {
		if !bad { GA::Add(fresh(r)) } else { match r.below(3) { 0 => GA::None, 1 => GA::Remove(fresh(r)), _ => GA::Edit(fresh(r), fresh(r)) } }
	} else {
		match (cur, bad) {
			(Some(c), false) => match r.below(6) { 0 | 1 => GA::None, 2 | 3 => GA::Edit(c.clone(), fresh(r)), 4 => GA::Edit(c.clone(), c.clone()), _ => GA::Remove(c.clone()) },
			// an addition that collides with what is there — with another value, or with the IDENTICAL one (still a collision)
			(Some(c), true) => match r.below(4) { 0 => GA::Add(fresh(r)), 1 => GA::Add(c.clone()), 2 => GA::Remove(wrong(r, c, fresh)), _ => GA::Edit(wrong(r, c, fresh), fresh(r)) },
			(None, false) => if r.chance(1, 2) { GA::None } else { GA::Add(fresh(r)) },
			(None, true) => if r.chance(1, 2) { GA::Remove(fresh(r)) } else { GA::Edit(fresh(r), fresh(r)) },
		}
	};
	st.stats.hit(&format!("act:{lvl}:{}:{}:{}", a.kind(), if present { if cur.is_some() { "named" } else { "nameless" } } else { "absent" }, if bad { "inconsistent" } else { "consistent" }));
	a
}

pub struct DCfg { pub bad_pct: usize, pub touch_pct: usize, pub extra_pct: usize }

pub fn fresh_doc(r: &mut Rng) -> String { (*r.pick(&["new doc", "other", "line1\nline2", "x\\y", " d", "q", "a\\nb", "tab\there", "cr\r", "\\", "\\\\t", "end\\"])).to_owned() }

/// a diff aimed at target `t`, namespace index `ns`
pub fn gen_diff_for(r: &mut Rng, t: &GMappings, ns: usize, dc: &DCfg, cfg: &MapCfg, st: &mut Out) -> GDiff {
	let mut fresh_name = { let cfg = cfg.clone(); move |r: &mut Rng| ident(r, &cfg) };
	let mut fresh_cls = { let cfg = cfg.clone(); move |r: &mut Rng| format!("{}{}", r.pick(&["", "p/", "q/r/"]), ident(r, &cfg)) };
	let mut fresh_d = |r: &mut Rng| fresh_doc(r);
	let mut classes = Vec::new();
	for c in &t.classes {
		if !r.chance(dc.touch_pct, 100) { continue; }
		let info = gen_action(r, true, &c.names[ns], dc.bad_pct, &mut fresh_cls, st, "class");
		// inside a removed subtree the code checks nothing: be wild there
		let bp = if matches!(info, GA::Remove(_)) { 50 } else { dc.bad_pct };
		let doc = gen_action(r, true, &c.doc, bp, &mut fresh_d, st, "cdoc");
		let mut members = |r: &mut Rng, ms: &[GMember], is_method: bool, st: &mut Out| -> Vec<GDMember> {
			let mut out = Vec::new();
			for m in ms {
				if !r.chance(dc.touch_pct, 100) { continue; }
				let info = gen_action(r, true, &m.names[ns], bp, &mut fresh_name, st, if is_method { "method" } else { "field" });
				let bp2 = if matches!(info, GA::Remove(_)) { 50 } else { bp };
				let doc = gen_action(r, true, &m.doc, bp2, &mut fresh_d, st, if is_method { "mdoc" } else { "fdoc" });
				let mut params = Vec::new();
				if is_method {
					for p in &m.params {
						if !r.chance(dc.touch_pct, 100) { continue; }
						let info = gen_action(r, true, &p.names[ns], bp2, &mut fresh_name, st, "param");
						let bp3 = if matches!(info, GA::Remove(_)) { 50 } else { bp2 };
						params.push(GDParam { index: p.index, info, doc: gen_action(r, true, &p.doc, bp3, &mut fresh_d, st, "pdoc") });
					}
					if r.chance(dc.extra_pct, 100) {
						let index = r.below(6);
						if !m.params.iter().any(|p| p.index == index) {
							params.push(GDParam { index, info: gen_action(r, false, &None, bp2, &mut fresh_name, st, "param"),
								doc: gen_action(r, true, &None, bp2, &mut fresh_d, st, "pdoc") });
						}
					}
					r.shuffle(&mut params);
				}
				out.push(GDMember { name: m.names[0].clone().unwrap_or_default(), desc: m.desc.clone(), info, doc, params });
			}
			for _ in 0..2 {
				if !r.chance(dc.extra_pct, 100) { continue; }
				let name = fresh_name(r);
				let desc = if is_method { (*r.pick(&["()V", "(I)I", "(LFoo;)V"])).to_owned() } else { (*r.pick(&["I", "LFoo;", "[J"])).to_owned() };
				if ms.iter().any(|m| m.names[0].as_deref() == Some(&name) && m.desc == desc) || out.iter().any(|m| m.name == name && m.desc == desc) { continue; }
				let info = gen_action(r, false, &None, bp, &mut fresh_name, st, if is_method { "method" } else { "field" });
				let doc = gen_action(r, true, &None, bp, &mut fresh_d, st, if is_method { "mdoc" } else { "fdoc" });
				let mut params = Vec::new();
				if is_method && r.chance(1, 2) {
					params.push(GDParam { index: r.below(3), info: gen_action(r, false, &None, bp, &mut fresh_name, st, "param"),
						doc: gen_action(r, true, &None, bp, &mut fresh_d, st, "pdoc") });
				}
				out.push(GDMember { name, desc, info, doc, params });
			}
			r.shuffle(&mut out);
			out
		};
		let fields = members(r, &c.fields, false, st);
		let methods = members(r, &c.methods, true, st);
		classes.push(GDClass { key: c.key(), info, doc, fields, methods });
	}
	for _ in 0..2 {
		if !r.chance(dc.extra_pct, 100) { continue; }
		let key = fresh_cls(r);
		if t.classes.iter().any(|c| c.key() == key) || classes.iter().any(|c| c.key == key) { continue; }
		let info = gen_action(r, false, &None, dc.bad_pct, &mut fresh_cls, st, "class");
		let doc = gen_action(r, true, &None, dc.bad_pct, &mut fresh_d, st, "cdoc");
		let mut fields = Vec::new();
		let mut methods = Vec::new();
		if r.chance(1, 2) {
			fields.push(GDMember { name: fresh_name(r), desc: "I".into(), info: gen_action(r, false, &None, dc.bad_pct, &mut fresh_name, st, "field"),
				doc: gen_action(r, true, &None, dc.bad_pct, &mut fresh_d, st, "fdoc"), params: vec![] });
		}
		if r.chance(1, 2) {
			let params = if r.chance(1, 2) { vec![GDParam { index: r.below(3), info: gen_action(r, false, &None, dc.bad_pct, &mut fresh_name, st, "param"), doc: GA::None }] } else { vec![] };
			methods.push(GDMember { name: fresh_name(r), desc: "()V".into(), info: gen_action(r, false, &None, dc.bad_pct, &mut fresh_name, st, "method"),
				doc: gen_action(r, true, &None, dc.bad_pct, &mut fresh_d, st, "mdoc"), params });
		}
		classes.push(GDClass { key, info, doc, fields, methods });
	}
	r.shuffle(&mut classes);
	let info = if r.chance(1, 12) {
		let cur = t.ns[ns].clone();
		match r.below(4) { 0 => GA::Edit(cur, "renamed".into()), 1 => GA::Edit("wrong".into(), "renamed".into()), 2 => GA::Add("x".into()), _ => GA::Remove(cur) }
	} else { GA::None };
	let doc = if r.chance(1, 4) { gen_action(r, true, &t.doc, dc.bad_pct, &mut fresh_d, st, "topdoc") } else { GA::None };
	GDiff { info, doc, classes }
}

// =================================================================== independent specification on S-expressions

#[derive(Clone, Copy, PartialEq)]
pub enum Lv { Class, Field, Method, Param }
impl Lv {
	pub fn key_len(self) -> usize { match self { Lv::Class | Lv::Param => 1, _ => 2 } }
	/// position of the names row in a target node after the key
	pub fn names_at(self) -> usize { if self == Lv::Class { 0 } else { 1 } }
}
pub type Canon = BTreeMap<String, Sexp>;

pub fn key_of(lv: Lv, node: &[Sexp]) -> String { node[..lv.key_len()].iter().map(|s| s.to_string()).collect::<Vec<_>>().join(" ") }
pub fn items(s: &Sexp) -> &[Sexp] { match s { Sexp::List(v) => v, _ => &[] } }
pub fn canon_sexp(c: Canon) -> Sexp { Sexp::List(c.into_values().collect()) }

/// a target node with its child maps sorted by key
pub fn canon_node(lv: Lv, node: &[Sexp]) -> Sexp {
	let mut v = node.to_vec();
	let k = lv.key_len();
	match lv {
		Lv::Class => { v[k + 2] = canon_sexp(canon_map(Lv::Field, items(&node[k + 2]))); v[k + 3] = canon_sexp(canon_map(Lv::Method, items(&node[k + 3]))); }
		Lv::Method => { v[k + 3] = canon_sexp(canon_map(Lv::Param, items(&node[k + 3]))); }
		_ => {}
	}
	Sexp::List(v)
}
pub fn canon_map(lv: Lv, nodes: &[Sexp]) -> Canon { nodes.iter().map(|n| (key_of(lv, items(n)), canon_node(lv, items(n)))).collect() }
pub fn canon_mappings(m: &Sexp) -> Sexp {
	let v = items(m);
	Sexp::List(vec![v[0].clone(), v[1].clone(), canon_sexp(canon_map(Lv::Class, items(&v[2])))])
}

pub enum Act<'a> { None, Add(&'a Sexp), Remove(&'a Sexp), Edit(&'a Sexp, &'a Sexp) }
pub fn act(s: &Sexp) -> Act<'_> {
	match s { Sexp::List(v) if v.len() == 2 && v[0] == Sexp::tag("add") => Act::Add(&v[1]),
		Sexp::List(v) if v.len() == 2 => Act::Remove(&v[1]),
		Sexp::List(v) if v.len() == 3 => Act::Edit(&v[1], &v[2]),
		_ => Act::None }
}
pub fn some(x: &Sexp) -> Sexp { Sexp::List(vec![x.clone()]) }
pub fn none() -> Sexp { Sexp::List(vec![]) }

/// the option table: Err = refused
pub fn spec_opt(a: &Sexp, cur: &Sexp) -> Result<Sexp, ()> {
	match act(a) {
		Act::None => Ok(cur.clone()),
		Act::Add(b) => if *cur == none() { Ok(some(b)) } else { Err(()) },
		Act::Remove(x) => if *cur == some(x) { Ok(none()) } else { Err(()) },
		Act::Edit(x, b) => if *cur == some(x) { Ok(some(b)) } else { Err(()) },
	}
}

pub fn set_name(node: &mut [Sexp], at: usize, ns: usize, v: Sexp) {
	if let Sexp::List(names) = &mut node[at] { names[ns] = v; }
}

/// children and javadoc of an entry that stays
pub fn spec_child(lv: Lv, d: &[Sexp], mut t: Vec<Sexp>, ns: usize, n: usize) -> Result<Sexp, ()> {
	let k = lv.key_len();
	let doc_at = k + lv.names_at() + 1;
	t[doc_at] = spec_opt(&d[k + 1], &t[doc_at])?;
	match lv {
		Lv::Class => {
			t[k + 2] = canon_sexp(spec_map(Lv::Field, items(&d[k + 2]), items(&t[k + 2]), ns, n)?);
			t[k + 3] = canon_sexp(spec_map(Lv::Method, items(&d[k + 3]), items(&t[k + 3]), ns, n)?);
		}
		Lv::Method => { t[k + 3] = canon_sexp(spec_map(Lv::Param, items(&d[k + 2]), items(&t[k + 3]), ns, n)?); }
		_ => {}
	}
	Ok(Sexp::List(t))
}

/// the 4 x 3 table of the property, per key; result sorted by key
pub fn spec_map(lv: Lv, diffs: &[Sexp], targets: &[Sexp], ns: usize, n: usize) -> Result<Canon, ()> {
	let k = lv.key_len();
	let dmap: BTreeMap<String, &[Sexp]> = diffs.iter().map(|d| (key_of(lv, items(d)), items(d))).collect();
	let mut out = Canon::new();
	let mut seen = std::collections::BTreeSet::new();
	for t in targets {
		let t = items(t);
		let key = key_of(lv, t);
		seen.insert(key.clone());
		let Some(d) = dmap.get(&key) else { out.insert(key, canon_node(lv, t)); continue };
		let names_at = k + lv.names_at();
		let cur = items(&t[names_at])[ns].clone();
		let mut t2 = t.to_vec();
		match act(&d[k]) {
			Act::None => {}
			Act::Add(b) => { if ns == 0 || cur != none() { return Err(()); } set_name(&mut t2, names_at, ns, some(b)); }
			Act::Remove(a) => { if ns == 0 || cur != some(a) { return Err(()); } continue; }
			Act::Edit(a, b) => { if ns == 0 || cur != some(a) { return Err(()); } set_name(&mut t2, names_at, ns, some(b)); }
		}
		out.insert(key, spec_child(lv, d, t2, ns, n)?);
	}
	for (key, d) in &dmap {
		if seen.contains(key) { continue; }
		let Act::Add(b) = act(&d[k]) else { return Err(()) };
		// the first namespace is kept in sync with the keys: nothing is ever added there
		if ns == 0 { return Err(()); }
		// created from the key
		let mut t: Vec<Sexp> = d[..k].to_vec();
		let mut names = vec![none(); n];
		match lv {
			Lv::Class => { names[0] = some(&d[0]); names[ns] = some(b); t.extend([Sexp::List(names), none(), none(), none()]); }
			Lv::Field => { names[0] = some(&d[0]); names[ns] = some(b); t.extend([d[1].clone(), Sexp::List(names), none()]); }
			Lv::Method => { names[0] = some(&d[0]); names[ns] = some(b); t.extend([d[1].clone(), Sexp::List(names), none(), none()]); }
			Lv::Param => { names[ns] = some(b); t.extend([d[0].clone(), Sexp::List(names), none()]); }
		}
		out.insert(key.clone(), spec_child(lv, d, t, ns, n)?);
	}
	Ok(out)
}

/// expected result of `apply d t ns` as a canonical S-expression; Err = must be refused
pub fn spec_apply(d: &Sexp, t: &Sexp, ns_name: &Sexp) -> Result<Sexp, ()> {
	let (d, t) = (items(d), items(t));
	let nss = items(&t[0]);
	let n = nss.len();
	let ns = nss.iter().position(|x| x == ns_name).ok_or(())?;
	let mut nss2 = nss.to_vec();
	match act(&d[0]) {
		Act::None => {}
		Act::Edit(a, b) => { if nss[ns] != *a { return Err(()); } nss2[ns] = b.clone(); }
		_ => return Err(()),
	}
	let doc = spec_opt(&d[1], &t[1])?;
	let classes = spec_map(Lv::Class, items(&d[2]), items(&t[2]), ns, n)?;
	Ok(Sexp::List(vec![Sexp::List(nss2), doc, canon_sexp(classes)]))
}

// =================================================================== domain predicates (twins of Model/DiffSpec.lean)

/// every entry is stored under the key its first name (+ descriptor / index) gives
pub fn wf(m: &Sexp) -> bool {
	keys_unique(m) && items(&items(m)[2]).iter().all(|c| {
		let c = items(c);
		items(&c[1])[0] == some(&c[0])
			&& items(&c[3]).iter().all(|f| { let f = items(f); f[2] == f[1] && items(&f[3])[0] == some(&f[0]) })
			&& items(&c[4]).iter().all(|m| { let m = items(m); m[2] == m[1] && items(&m[3])[0] == some(&m[0])
				&& items(&m[5]).iter().all(|p| { let p = items(p); p[1] == p[0] }) })
	})
}

pub fn param_srcless(a: &Sexp, b: &Sexp) -> bool {
	let find = |list: &Sexp, key: &[Sexp]| -> Option<Vec<Sexp>> { items(list).iter().map(|x| items(x).to_vec()).find(|x| x[..key.len()] == *key) };
	items(&items(b)[2]).iter().all(|c| {
		let c = items(c);
		let ca = find(&items(a)[2], &c[..1]);
		items(&c[4]).iter().all(|m| {
			let m = items(m);
			let ma = ca.as_ref().and_then(|ca| find(&ca[4], &m[..2]));
			items(&m[5]).iter().all(|p| {
				let p = items(p);
				let pa = ma.as_ref().and_then(|ma| find(&ma[5], &p[..1]));
				let expect = match pa { Some(pa) => items(&pa[2])[0].clone(), None => none() };
				items(&p[2])[0] == expect
			})
		})
	})
}

pub fn cps(s: &Sexp) -> Vec<u32> { s.as_cps().unwrap_or_default() }
/// a Unicode scalar value (the text goes through a UTF-8 file)
pub fn scalar(c: u32) -> bool { c < 0xD800 || (0xDFFF < c && c < 0x110000) }
pub fn plain_cell(s: &[u32]) -> bool { s.iter().all(|c| ![9, 10, 13].contains(c) && scalar(*c)) }
pub fn plain_doc(s: &[u32]) -> bool { !s.is_empty() && s.iter().all(|c| scalar(*c)) }
pub fn valid_unq(s: &[u32]) -> bool { !s.is_empty() && s.iter().all(|c| !['.' as u32, ';' as u32, '[' as u32, '/' as u32].contains(c)) }
pub fn valid_method(s: &[u32]) -> bool {
	let is = |t: &str| s.iter().copied().eq(t.chars().map(|c| c as u32));
	is("<init>") || is("<clinit>") || (valid_unq(s) && !s.contains(&('<' as u32)) && !s.contains(&('>' as u32)))
}
pub fn valid_class(s: &[u32]) -> bool { s.first() != Some(&('[' as u32)) && s.split(|c| *c == '/' as u32).all(valid_unq) }
pub fn action_all(a: &Sexp, p: &dyn Fn(&[u32]) -> bool) -> bool {
	match act(a) { Act::None => true, Act::Add(b) => p(&cps(b)), Act::Remove(a) => p(&cps(a)), Act::Edit(a, b) => p(&cps(a)) && p(&cps(b)) }
}
pub fn distinct(keys: impl Iterator<Item = String>) -> bool { let mut seen = std::collections::BTreeSet::new(); keys.into_iter().all(|k| seen.insert(k)) }
/// `Diff.WF`: keys unique at every level of a diff
pub fn diff_keys_unique(d: &Sexp) -> bool {
	let cs = items(&items(d)[2]);
	distinct(cs.iter().map(|c| key_of(Lv::Class, items(c)))) && cs.iter().all(|c| { let c = items(c);
		distinct(items(&c[3]).iter().map(|f| key_of(Lv::Field, items(f)))) && distinct(items(&c[4]).iter().map(|m| key_of(Lv::Method, items(m))))
			&& items(&c[4]).iter().all(|m| distinct(items(&items(m)[4]).iter().map(|p| key_of(Lv::Param, items(p))))) })
}
/// `KeysUnique`: keys unique at every level of a mapping set
pub fn keys_unique(m: &Sexp) -> bool {
	let cs = items(&items(m)[2]);
	distinct(cs.iter().map(|c| key_of(Lv::Class, items(c)))) && cs.iter().all(|c| { let c = items(c);
		distinct(items(&c[3]).iter().map(|f| key_of(Lv::Field, items(f)))) && distinct(items(&c[4]).iter().map(|m| key_of(Lv::Method, items(m))))
			&& items(&c[4]).iter().all(|m| distinct(items(&items(m)[5]).iter().map(|p| key_of(Lv::Param, items(p))))) })
}
/// top-level comment unchanged: `None` or `Edit(a, a)`
pub fn same_or_none(a: &Sexp) -> bool { match act(a) { Act::None => true, Act::Edit(x, y) => x == y, _ => false } }
pub fn writable(d: &Sexp) -> bool {
	let dd = items(d);
	let name = |valid: fn(&[u32]) -> bool| move |s: &[u32]| valid(s) && plain_cell(s);
	dd[0] == Sexp::tag("none") && same_or_none(&dd[1]) && diff_keys_unique(d) && items(&dd[2]).iter().all(|c| {
		let c = items(c);
		name(valid_class)(&cps(&c[0])) && action_all(&c[1], &name(valid_class)) && action_all(&c[2], &plain_doc)
			&& items(&c[3]).iter().all(|f| { let f = items(f);
				name(valid_unq)(&cps(&f[0])) && plain_cell(&cps(&f[1])) && action_all(&f[2], &name(valid_unq)) && action_all(&f[3], &plain_doc) })
			&& items(&c[4]).iter().all(|m| { let m = items(m);
				name(valid_method)(&cps(&m[0])) && plain_cell(&cps(&m[1])) && action_all(&m[2], &name(valid_method)) && action_all(&m[3], &plain_doc)
					&& items(&m[4]).iter().all(|p| { let p = items(p); action_all(&p[1], &name(valid_unq)) && action_all(&p[2], &plain_doc) }) })
	})
}
/// every class, field, method and parameter has a name in namespace 1
pub fn all_named(m: &Sexp) -> bool {
	let named = |names: &Sexp| items(names).get(1).is_some_and(|x| *x != none());
	items(&items(m)[2]).iter().all(|c| { let c = items(c);
		named(&c[1]) && items(&c[3]).iter().all(|f| named(&items(f)[3]))
			&& items(&c[4]).iter().all(|m| { let m = items(m); named(&m[3]) && items(&m[5]).iter().all(|p| named(&items(p)[2])) }) })
}

pub fn norm_action(a: &Sexp) -> Sexp { match act(a) { Act::Edit(x, y) if x == y => Sexp::tag("none"), _ => a.clone() } }
/// `Edit(a, a)` reads back as `None`
pub fn norm_diff(d: &Sexp) -> Sexp {
	let d = items(d);
	Sexp::List(vec![Sexp::tag("none"), Sexp::tag("none"), Sexp::List(items(&d[2]).iter().map(|c| { let c = items(c); Sexp::List(vec![
		c[0].clone(), norm_action(&c[1]), norm_action(&c[2]),
		Sexp::List(items(&c[3]).iter().map(|f| { let f = items(f); Sexp::List(vec![f[0].clone(), f[1].clone(), norm_action(&f[2]), norm_action(&f[3])]) }).collect()),
		Sexp::List(items(&c[4]).iter().map(|m| { let m = items(m); Sexp::List(vec![m[0].clone(), m[1].clone(), norm_action(&m[2]), norm_action(&m[3]),
			Sexp::List(items(&m[4]).iter().map(|p| { let p = items(p); Sexp::List(vec![p[0].clone(), norm_action(&p[1]), norm_action(&p[2])]) }).collect())]) }).collect()),
	]) }).collect())])
}
