//! C01: canonical S-expression of a `duke::tree::class::ClassFile` (mirror of
//! lean/FeatherModel/Model/ClassReadSexp.lean).  Public fields are read directly; crate-private ones
//! (`Label.id`, `LabelRange`, `Version`, `TypePath`, `Module`, the extras of `RecordComponent`) through their
//! derived `Debug` output, parsed by `dbg::parse`.  No hooks in /repo.
use std::collections::HashMap;
use duke::tree::annotation::{Annotation, ElementValue, Object};
use duke::tree::attribute::Attribute;
use duke::tree::class::ClassFile;
use duke::tree::field::{ConstantValue, Field, FieldRef};
use duke::tree::method::code::{ArrayType, Code, Handle, Instruction, Label, LabelRange, Loadable};
use duke::tree::method::{Method, MethodRef};
use duke::tree::type_annotation::{TargetInfoClass, TargetInfoCode, TargetInfoField, TargetInfoMethod, TypeAnnotation, TypePath};
use duke::visitor::method::code::{StackMapData, VerificationTypeInfo};
use java_string::JavaStr;
use crate::sexp::Sexp;

pub mod dbg {
	//! Parser for the output of `#[derive(Debug)]` (`{:?}`), plus the two hand-written shapes used by duke:
	//! flag sets `Name { word word }` and annotations `@Type{"name": value, ..}`.
	#[derive(Debug, Clone, PartialEq)]
	pub enum Dbg {
		/// bare identifier or number: `None`, `Field`, `true`, `12`, `-1.5`, `NaN`
		Word(String),
		Str(Vec<u32>),
		/// `Name(a, b)`
		Tuple(String, Vec<Dbg>),
		/// `Name { f: v, .. }`
		Struct(String, Vec<(String, Dbg)>),
		/// `Name { word word }`
		Flags(String, Vec<String>),
		List(Vec<Dbg>),
		/// `@<type>{k: v, ..}`
		Anno(Box<Dbg>, Vec<(Dbg, Dbg)>),
	}

	pub struct P<'a> { s: &'a [u8], i: usize }

	pub fn parse(s: &str) -> Result<Dbg, String> {
		let mut p = P { s: s.as_bytes(), i: 0 };
		let v = p.value()?;
		p.ws();
		if p.i != p.s.len() { return Err(format!("trailing input at {}", p.i)); }
		Ok(v)
	}

	impl P<'_> {
		fn ws(&mut self) { while self.i < self.s.len() && self.s[self.i] == b' ' { self.i += 1; } }
		fn peek(&self) -> Option<u8> { self.s.get(self.i).copied() }
		fn eat(&mut self, c: u8) -> Result<(), String> {
			self.ws();
			if self.peek() == Some(c) { self.i += 1; Ok(()) } else { Err(format!("expected {:?} at {}", c as char, self.i)) }
		}
		fn word(&mut self) -> String {
			let st = self.i;
			while self.i < self.s.len() && (self.s[self.i].is_ascii_alphanumeric() || matches!(self.s[self.i], b'_' | b'-' | b'.' | b'+')) { self.i += 1; }
			String::from_utf8_lossy(&self.s[st..self.i]).into_owned()
		}
		fn string(&mut self) -> Result<Vec<u32>, String> {
			// after the opening quote
			let rest = std::str::from_utf8(&self.s[self.i..]).map_err(|e| e.to_string())?;
			let mut out = Vec::new();
			let mut it = rest.char_indices();
			while let Some((k, c)) = it.next() {
				match c {
					'"' => { self.i += k + 1; return Ok(out); }
					'\\' => {
						let (_, e) = it.next().ok_or("bad escape")?;
						match e {
							'0' => out.push(0), 't' => out.push(9), 'r' => out.push(13), 'n' => out.push(10),
							'"' => out.push(34), '\\' => out.push(92), '\'' => out.push(39),
							'u' => {
								let mut hex = String::new();
								let (_, b) = it.next().ok_or("bad \\u")?;
								if b != '{' { return Err("bad \\u".into()); }
								loop {
									let (_, h) = it.next().ok_or("bad \\u")?;
									if h == '}' { break; }
									hex.push(h);
								}
								out.push(u32::from_str_radix(&hex, 16).map_err(|e| e.to_string())?);
							}
							o => return Err(format!("unknown escape {o}")),
						}
					}
					c => out.push(c as u32),
				}
			}
			Err("unterminated string".into())
		}
		fn entries(&mut self, close: u8) -> Result<Vec<(Dbg, Dbg)>, String> {
			let mut v = Vec::new();
			loop {
				self.ws();
				if self.peek() == Some(close) { self.i += 1; return Ok(v); }
				let k = self.value()?;
				self.eat(b':')?;
				let x = self.value()?;
				v.push((k, x));
				self.ws();
				if self.peek() == Some(b',') { self.i += 1; }
			}
		}
		pub fn value(&mut self) -> Result<Dbg, String> {
			self.ws();
			match self.peek().ok_or("eof")? {
				b'"' => { self.i += 1; Ok(Dbg::Str(self.string()?)) }
				b'[' => {
					self.i += 1;
					let mut v = Vec::new();
					loop {
						self.ws();
						if self.peek() == Some(b']') { self.i += 1; return Ok(Dbg::List(v)); }
						v.push(self.value()?);
						self.ws();
						if self.peek() == Some(b',') { self.i += 1; }
					}
				}
				b'@' => {
					self.i += 1;
					let ty = self.value()?;
					self.eat(b'{')?;
					Ok(Dbg::Anno(Box::new(ty), self.entries(b'}')?))
				}
				b'(' => {
					// anonymous tuple
					self.i += 1;
					let mut v = Vec::new();
					loop {
						self.ws();
						if self.peek() == Some(b')') { self.i += 1; return Ok(Dbg::Tuple(String::new(), v)); }
						v.push(self.value()?);
						self.ws();
						if self.peek() == Some(b',') { self.i += 1; }
					}
				}
				_ => {
					let w = self.word();
					if w.is_empty() { return Err(format!("unexpected {:?} at {}", self.peek().map(|c| c as char), self.i)); }
					if self.peek() == Some(b'(') {
						self.i += 1;
						let mut v = Vec::new();
						loop {
							self.ws();
							if self.peek() == Some(b')') { self.i += 1; return Ok(Dbg::Tuple(w, v)); }
							v.push(self.value()?);
							self.ws();
							if self.peek() == Some(b',') { self.i += 1; }
						}
					}
					let save = self.i;
					self.ws();
					if self.peek() == Some(b'{') {
						self.i += 1;
						self.ws();
						if self.peek() == Some(b'}') { self.i += 1; return Ok(Dbg::Flags(w, vec![])); }
						// struct field or flag word?
						let st = self.i;
						let first = self.word();
						if self.peek() == Some(b':') {
							self.i = st;
							let mut fields = Vec::new();
							loop {
								self.ws();
								if self.peek() == Some(b'}') { self.i += 1; return Ok(Dbg::Struct(w, fields)); }
								let name = self.word();
								self.eat(b':')?;
								let v = self.value()?;
								fields.push((name, v));
								self.ws();
								if self.peek() == Some(b',') { self.i += 1; }
							}
						}
						let mut words = vec![first];
						loop {
							self.ws();
							if self.peek() == Some(b'}') { self.i += 1; return Ok(Dbg::Flags(w, words)); }
							let x = self.word();
							if x.is_empty() { return Err(format!("bad flag word at {}", self.i)); }
							words.push(x);
						}
					}
					self.i = save;
					Ok(Dbg::Word(w))
				}
			}
		}
	}

	impl Dbg {
		pub fn field(&self, name: &str) -> Result<&Dbg, String> {
			match self {
				Dbg::Struct(_, fs) => fs.iter().find(|(n, _)| n == name).map(|(_, v)| v).ok_or_else(|| format!("no field {name}")),
				o => Err(format!("not a struct: {o:?}")),
			}
		}
		pub fn list(&self) -> Result<&[Dbg], String> {
			match self { Dbg::List(v) => Ok(v), o => Err(format!("not a list: {o:?}")) }
		}
		pub fn num(&self) -> Result<i128, String> {
			match self { Dbg::Word(w) => w.parse().map_err(|e| format!("{w}: {e}")), o => Err(format!("not a number: {o:?}")) }
		}
		/// `Some(x)` / `None`
		pub fn option(&self) -> Result<Option<&Dbg>, String> {
			match self {
				Dbg::Word(w) if w == "None" => Ok(None),
				Dbg::Tuple(n, v) if n == "Some" && v.len() == 1 => Ok(Some(&v[0])),
				o => Err(format!("not an option: {o:?}")),
			}
		}
		/// the string inside a newtype `Name("..")` or a bare string
		pub fn text(&self) -> Result<&[u32], String> {
			match self {
				Dbg::Str(s) => Ok(s),
				Dbg::Tuple(_, v) if v.len() == 1 => v[0].text(),
				o => Err(format!("not a string: {o:?}")),
			}
		}
		pub fn flags(&self, table: &[(&str, u16)]) -> Result<u16, String> {
			match self {
				Dbg::Flags(_, ws) => {
					let mut r = 0;
					for w in ws { r |= table.iter().find(|(n, _)| n == w).ok_or_else(|| format!("unknown flag {w}"))?.1; }
					Ok(r)
				}
				o => Err(format!("not flags: {o:?}")),
			}
		}
	}
}

use dbg::Dbg;

fn sx(tag: &str, mut rest: Vec<Sexp>) -> Sexp { let mut v = vec![Sexp::tag(tag)]; v.append(&mut rest); Sexp::list(v) }
fn js<T: AsRef<JavaStr> + ?Sized>(x: &T) -> Sexp { Sexp::jstr(x.as_ref()) }
fn nat(n: u64) -> Sexp { Sexp::Atom(n.to_string()) }
fn int(n: i64) -> Sexp { Sexp::Atom(n.to_string()) }
fn opt<T>(o: &Option<T>, f: impl FnOnce(&T) -> Sexp) -> Sexp { match o { None => Sexp::list(vec![]), Some(x) => Sexp::list(vec![f(x)]) } }
fn lst<T>(v: &[T], f: impl FnMut(&T) -> Sexp) -> Sexp { Sexp::list(v.iter().map(f).collect()) }
fn cps(c: &[u32]) -> Sexp { Sexp::cps(c) }

fn numbers_in(s: &str) -> Vec<u64> {
	let mut out = Vec::new();
	let mut cur: Option<u64> = None;
	for c in s.chars() {
		if let Some(d) = c.to_digit(10) { cur = Some(cur.unwrap_or(0) * 10 + d as u64); }
		else if let Some(n) = cur.take() { out.push(n); }
	}
	if let Some(n) = cur { out.push(n); }
	out
}

/// `Label { id: N }` -> N
pub fn label_id(l: &Label) -> u64 { numbers_in(&format!("{l:?}"))[0] }
/// `LabelRange { start: Label { id: A }, end: Label { id: B } }` -> (A, B)
pub fn range_ids(r: &LabelRange) -> (u64, u64) { let n = numbers_in(&format!("{r:?}")); (n[0], n[1]) }

/// How labels are printed: raw ids, or resolved to the index of the instruction entry carrying the label.
pub struct LabelMap { map: Option<HashMap<u64, u64>> }
impl LabelMap {
	pub fn raw() -> LabelMap { LabelMap { map: None } }
	pub fn resolved(code: &Code) -> LabelMap {
		let mut m = HashMap::new();
		for (i, e) in code.instructions.iter().enumerate() {
			if let Some(l) = &e.label { m.entry(label_id(l)).or_insert(i as u64); }
		}
		if let Some(l) = &code.last_label { m.entry(label_id(l)).or_insert(code.instructions.len() as u64); }
		LabelMap { map: Some(m) }
	}
	fn id(&self, id: u64) -> Result<Sexp, String> {
		match &self.map {
			None => Ok(nat(id)),
			Some(m) => m.get(&id).map(|i| nat(*i)).ok_or_else(|| format!("dangling label {id}")),
		}
	}
	fn l(&self, l: &Label) -> Result<Sexp, String> { self.id(label_id(l)) }
	fn is_raw(&self) -> bool { self.map.is_none() }
}

fn field_ref(r: &FieldRef) -> Sexp { Sexp::list(vec![js(&r.class), js(&r.name), js(&r.desc)]) }
fn method_ref(r: &MethodRef) -> Sexp { Sexp::list(vec![js(&r.class), js(&r.name), js(&r.desc)]) }

fn handle(h: &Handle) -> Sexp {
	let (k, r, itf) = match h {
		Handle::GetField(r) => (1, field_ref(r), false),
		Handle::GetStatic(r) => (2, field_ref(r), false),
		Handle::PutField(r) => (3, field_ref(r), false),
		Handle::PutStatic(r) => (4, field_ref(r), false),
		Handle::InvokeVirtual(m) => (5, method_ref(m), false),
		Handle::InvokeStatic(m, i) => (6, method_ref(m), *i),
		Handle::InvokeSpecial(m, i) => (7, method_ref(m), *i),
		Handle::NewInvokeSpecial(m) => (8, method_ref(m), false),
		Handle::InvokeInterface(m) => (9, method_ref(m), false),
	};
	Sexp::list(vec![nat(k), r, Sexp::bool(itf)])
}

fn loadable(l: &Loadable) -> Sexp {
	match l {
		Loadable::Integer(v) => sx("int", vec![int(*v as i64)]),
		Loadable::Float(v) => sx("float", vec![nat(v.to_bits() as u64)]),
		Loadable::Long(v) => sx("long", vec![int(*v)]),
		Loadable::Double(v) => sx("double", vec![nat(v.to_bits())]),
		Loadable::Class(c) => sx("cls", vec![js(c)]),
		Loadable::String(s) => sx("str", vec![js(s)]),
		Loadable::MethodHandle(h) => sx("handle", vec![handle(h)]),
		Loadable::MethodType(d) => sx("mtype", vec![js(d)]),
		Loadable::Dynamic(d) => sx("dyn", vec![js(&d.name), js(&d.descriptor), handle(&d.handle), lst(&d.arguments, loadable)]),
	}
}

/// opcode of an operand-less instruction: transcription of JVMS §6.5 / §7, independent of duke's constants
fn simple_opcode(i: &Instruction) -> Option<u64> {
	use Instruction::*;
	Some(match i {
		Nop => 0x00, AConstNull => 0x01, IConstM1 => 0x02, IConst0 => 0x03, IConst1 => 0x04, IConst2 => 0x05, IConst3 => 0x06,
		IConst4 => 0x07, IConst5 => 0x08, LConst0 => 0x09, LConst1 => 0x0a, FConst0 => 0x0b, FConst1 => 0x0c, FConst2 => 0x0d,
		DConst0 => 0x0e, DConst1 => 0x0f,
		IALoad => 0x2e, LALoad => 0x2f, FALoad => 0x30, DALoad => 0x31, AALoad => 0x32, BALoad => 0x33, CALoad => 0x34, SALoad => 0x35,
		IAStore => 0x4f, LAStore => 0x50, FAStore => 0x51, DAStore => 0x52, AAStore => 0x53, BAStore => 0x54, CAStore => 0x55, SAStore => 0x56,
		Pop => 0x57, Pop2 => 0x58, Dup => 0x59, DupX1 => 0x5a, DupX2 => 0x5b, Dup2 => 0x5c, Dup2X1 => 0x5d, Dup2X2 => 0x5e, Swap => 0x5f,
		IAdd => 0x60, LAdd => 0x61, FAdd => 0x62, DAdd => 0x63, ISub => 0x64, LSub => 0x65, FSub => 0x66, DSub => 0x67,
		IMul => 0x68, LMul => 0x69, FMul => 0x6a, DMul => 0x6b, IDiv => 0x6c, LDiv => 0x6d, FDiv => 0x6e, DDiv => 0x6f,
		IRem => 0x70, LRem => 0x71, FRem => 0x72, DRem => 0x73, INeg => 0x74, LNeg => 0x75, FNeg => 0x76, DNeg => 0x77,
		IShl => 0x78, LShl => 0x79, IShr => 0x7a, LShr => 0x7b, IUShr => 0x7c, LUShr => 0x7d,
		IAnd => 0x7e, LAnd => 0x7f, IOr => 0x80, LOr => 0x81, IXor => 0x82, LXor => 0x83,
		I2L => 0x85, I2F => 0x86, I2D => 0x87, L2I => 0x88, L2F => 0x89, L2D => 0x8a, F2I => 0x8b, F2L => 0x8c, F2D => 0x8d,
		D2I => 0x8e, D2L => 0x8f, D2F => 0x90, I2B => 0x91, I2C => 0x92, I2S => 0x93,
		LCmp => 0x94, FCmpL => 0x95, FCmpG => 0x96, DCmpL => 0x97, DCmpG => 0x98,
		IReturn => 0xac, LReturn => 0xad, FReturn => 0xae, DReturn => 0xaf, AReturn => 0xb0, Return => 0xb1,
		ArrayLength => 0xbe, AThrow => 0xbf, MonitorEnter => 0xc2, MonitorExit => 0xc3,
		_ => return None,
	})
}

fn instruction(i: &Instruction, lm: &LabelMap) -> Result<Sexp, String> {
	use Instruction::*;
	if let Some(op) = simple_opcode(i) { return Ok(sx("simple", vec![nat(op)])); }
	let br = |op: u64, l: &Label| -> Result<Sexp, String> { Ok(sx("branch", vec![nat(op), lm.l(l)?])) };
	Ok(match i {
		BiPush(v) => sx("bipush", vec![int(*v as i64)]),
		SiPush(v) => sx("sipush", vec![int(*v as i64)]),
		Ldc(l) => sx("ldc", vec![loadable(l)]),
		ILoad(x) => sx("load", vec![nat(0), nat(x.index as u64)]),
		LLoad(x) => sx("load", vec![nat(1), nat(x.index as u64)]),
		FLoad(x) => sx("load", vec![nat(2), nat(x.index as u64)]),
		DLoad(x) => sx("load", vec![nat(3), nat(x.index as u64)]),
		ALoad(x) => sx("load", vec![nat(4), nat(x.index as u64)]),
		IStore(x) => sx("store", vec![nat(0), nat(x.index as u64)]),
		LStore(x) => sx("store", vec![nat(1), nat(x.index as u64)]),
		FStore(x) => sx("store", vec![nat(2), nat(x.index as u64)]),
		DStore(x) => sx("store", vec![nat(3), nat(x.index as u64)]),
		AStore(x) => sx("store", vec![nat(4), nat(x.index as u64)]),
		IInc(x, v) => sx("iinc", vec![nat(x.index as u64), int(*v as i64)]),
		IfEq(l) => br(0x99, l)?, IfNe(l) => br(0x9a, l)?, IfLt(l) => br(0x9b, l)?, IfGe(l) => br(0x9c, l)?,
		IfGt(l) => br(0x9d, l)?, IfLe(l) => br(0x9e, l)?,
		IfICmpEq(l) => br(0x9f, l)?, IfICmpNe(l) => br(0xa0, l)?, IfICmpLt(l) => br(0xa1, l)?, IfICmpGe(l) => br(0xa2, l)?,
		IfICmpGt(l) => br(0xa3, l)?, IfICmpLe(l) => br(0xa4, l)?, IfACmpEq(l) => br(0xa5, l)?, IfACmpNe(l) => br(0xa6, l)?,
		IfNull(l) => br(0xc6, l)?, IfNonNull(l) => br(0xc7, l)?,
		Goto(l) => sx("goto", vec![lm.l(l)?]),
		Jsr(l) => sx("jsr", vec![lm.l(l)?]),
		Ret(x) => sx("ret", vec![nat(x.index as u64)]),
		TableSwitch { default, low, high, table } => {
			let mut t = Vec::new();
			for l in table { t.push(lm.l(l)?); }
			sx("tableswitch", vec![lm.l(default)?, int(*low as i64), int(*high as i64), Sexp::list(t)])
		}
		LookupSwitch { default, pairs } => {
			let mut t = Vec::new();
			for (k, l) in pairs { t.push(Sexp::list(vec![int(*k as i64), lm.l(l)?])); }
			sx("lookupswitch", vec![lm.l(default)?, Sexp::list(t)])
		}
		GetStatic(r) => sx("field", vec![nat(0xb2), field_ref(r)]),
		PutStatic(r) => sx("field", vec![nat(0xb3), field_ref(r)]),
		GetField(r) => sx("field", vec![nat(0xb4), field_ref(r)]),
		PutField(r) => sx("field", vec![nat(0xb5), field_ref(r)]),
		InvokeVirtual(m) => sx("invokevirtual", vec![method_ref(m)]),
		InvokeSpecial(m, b) => sx("invokespecial", vec![method_ref(m), Sexp::bool(*b)]),
		InvokeStatic(m, b) => sx("invokestatic", vec![method_ref(m), Sexp::bool(*b)]),
		InvokeInterface(m) => sx("invokeinterface", vec![method_ref(m)]),
		InvokeDynamic(d) => sx("invokedynamic", vec![js(&d.name), js(&d.descriptor), handle(&d.handle), lst(&d.arguments, loadable)]),
		New(c) => sx("new", vec![js(c)]),
		NewArray(a) => sx("newarray", vec![nat(match a {
			ArrayType::Boolean => 4, ArrayType::Char => 5, ArrayType::Float => 6, ArrayType::Double => 7,
			ArrayType::Byte => 8, ArrayType::Short => 9, ArrayType::Int => 10, ArrayType::Long => 11 })]),
		ANewArray(c) => sx("anewarray", vec![js(c)]),
		CheckCast(c) => sx("checkcast", vec![js(c)]),
		InstanceOf(c) => sx("instanceof", vec![js(c)]),
		MultiANewArray(c, d) => sx("multianewarray", vec![js(c), nat(*d as u64)]),
		other => return Err(format!("unprojected instruction {other:?}")),
	})
}

fn vtype(v: &VerificationTypeInfo, lm: &LabelMap) -> Result<Sexp, String> {
	Ok(match v {
		VerificationTypeInfo::Top => Sexp::tag("top"),
		VerificationTypeInfo::Integer => Sexp::tag("int"),
		VerificationTypeInfo::Float => Sexp::tag("float"),
		VerificationTypeInfo::Long => Sexp::tag("long"),
		VerificationTypeInfo::Double => Sexp::tag("double"),
		VerificationTypeInfo::Null => Sexp::tag("null"),
		VerificationTypeInfo::UninitializedThis => Sexp::tag("uninit-this"),
		VerificationTypeInfo::Object(c) => sx("object", vec![js(c)]),
		VerificationTypeInfo::Uninitialized(l) => sx("uninit", vec![lm.l(l)?]),
	})
}

fn vtypes(v: &[VerificationTypeInfo], lm: &LabelMap) -> Result<Sexp, String> {
	Ok(Sexp::list(v.iter().map(|x| vtype(x, lm)).collect::<Result<_, _>>()?))
}

fn frame(f: &StackMapData, lm: &LabelMap) -> Result<Sexp, String> {
	Ok(match f {
		StackMapData::Same => Sexp::tag("same"),
		StackMapData::SameLocals1StackItem { stack } => sx("same1", vec![vtype(stack, lm)?]),
		StackMapData::Chop { k } => sx("chop", vec![nat(*k as u64)]),
		StackMapData::Append { locals } => sx("append", vec![vtypes(locals, lm)?]),
		StackMapData::Full { locals, stack } => sx("full", vec![vtypes(locals, lm)?, vtypes(stack, lm)?]),
	})
}

fn attr(a: &Attribute) -> Sexp { Sexp::list(vec![js(&a.name), Sexp::bytes(&a.bytes)]) }

fn element(v: &ElementValue) -> Sexp {
	match v {
		ElementValue::Object(o) => match o {
			Object::Byte(x) => sx("const", vec![nat(66), int(*x as i64)]),
			Object::Char(x) => sx("const", vec![nat(67), int(*x as i64)]),
			Object::Double(x) => sx("const", vec![nat(68), nat(x.to_bits())]),
			Object::Float(x) => sx("const", vec![nat(70), nat(x.to_bits() as u64)]),
			Object::Integer(x) => sx("const", vec![nat(73), int(*x as i64)]),
			Object::Long(x) => sx("const", vec![nat(74), int(*x)]),
			Object::Short(x) => sx("const", vec![nat(83), int(*x as i64)]),
			Object::Boolean(x) => sx("const", vec![nat(90), int(*x as i64)]),
			Object::String(s) => sx("str", vec![js(s)]),
		},
		ElementValue::Enum { type_name, const_name } => sx("enum", vec![js(type_name), js(const_name)]),
		ElementValue::Class(c) => sx("cls", vec![js(c)]),
		ElementValue::AnnotationInterface(a) => sx("anno", vec![annotation(a)]),
		ElementValue::ArrayType(vs) => sx("arr", vec![lst(vs, element)]),
	}
}

fn annotation(a: &Annotation) -> Sexp {
	Sexp::list(vec![js(&a.annotation_type), lst(&a.element_value_pairs, |p| Sexp::list(vec![js(&p.name), element(&p.value)]))])
}

/// `TypePath { path: [ArrayDeeper, TypeArgument { index: 3 }] }`
fn type_path(p: &TypePath) -> Result<Sexp, String> {
	let d = dbg::parse(&format!("{p:?}"))?;
	type_path_dbg(&d)
}

fn type_path_dbg(d: &Dbg) -> Result<Sexp, String> {
	let mut out = Vec::new();
	for k in d.field("path")?.list()? {
		out.push(match k {
			Dbg::Word(w) if w == "ArrayDeeper" => Sexp::list(vec![nat(0), nat(0)]),
			Dbg::Word(w) if w == "NestedDeeper" => Sexp::list(vec![nat(1), nat(0)]),
			Dbg::Word(w) if w == "WildcardBound" => Sexp::list(vec![nat(2), nat(0)]),
			Dbg::Struct(n, _) if n == "TypeArgument" => Sexp::list(vec![nat(3), nat(k.field("index")?.num()? as u64)]),
			o => return Err(format!("unknown type path kind {o:?}")),
		});
	}
	Ok(Sexp::list(out))
}

fn target_class(t: &TargetInfoClass) -> Sexp {
	match t {
		TargetInfoClass::ClassTypeParameter { index } => sx("type-param", vec![nat(0), nat(*index as u64)]),
		TargetInfoClass::Extends => Sexp::tag("extends"),
		TargetInfoClass::Implements { index } => sx("implements", vec![nat(*index as u64)]),
		TargetInfoClass::ClassTypeParameterBound { type_parameter_index, bound_index } =>
			sx("type-param-bound", vec![nat(0x11), nat(*type_parameter_index as u64), nat(*bound_index as u64)]),
	}
}
fn target_field(t: &TargetInfoField) -> Sexp { match t { TargetInfoField::Field => Sexp::tag("field") } }
fn target_method(t: &TargetInfoMethod) -> Sexp {
	match t {
		TargetInfoMethod::MethodTypeParameter { index } => sx("type-param", vec![nat(1), nat(*index as u64)]),
		TargetInfoMethod::MethodTypeParameterBound { type_parameter_index, bound_index } =>
			sx("type-param-bound", vec![nat(0x12), nat(*type_parameter_index as u64), nat(*bound_index as u64)]),
		TargetInfoMethod::Return => Sexp::tag("ret"),
		TargetInfoMethod::Receiver => Sexp::tag("receiver"),
		TargetInfoMethod::FormalParameter { index } => sx("formal-param", vec![nat(*index as u64)]),
		TargetInfoMethod::Throws { index } => sx("throws", vec![nat(*index as u64)]),
	}
}
fn target_code(t: &TargetInfoCode, lm: &LabelMap) -> Result<Sexp, String> {
	let table = |tag: u64, table: &Vec<(LabelRange, duke::tree::method::code::LvIndex)>| -> Result<Sexp, String> {
		let mut v = Vec::new();
		for (r, i) in table {
			let (a, b) = range_ids(r);
			v.push(Sexp::list(vec![lm.id(a)?, lm.id(b)?, nat(i.index as u64)]));
		}
		Ok(sx("local-var", vec![nat(tag), Sexp::list(v)]))
	};
	Ok(match t {
		TargetInfoCode::LocalVariable { table: t } => table(0x40, t)?,
		TargetInfoCode::ResourceVariable { table: t } => table(0x41, t)?,
		TargetInfoCode::ExceptionParameter { index } => sx("exception-param", vec![nat(*index as u64)]),
		TargetInfoCode::InstanceOf(l) => sx("offset", vec![nat(0x43), lm.l(l)?]),
		TargetInfoCode::New(l) => sx("offset", vec![nat(0x44), lm.l(l)?]),
		TargetInfoCode::ConstructorReference(l) => sx("offset", vec![nat(0x45), lm.l(l)?]),
		TargetInfoCode::MethodReference(l) => sx("offset", vec![nat(0x46), lm.l(l)?]),
		TargetInfoCode::Cast { label, index } => sx("offset-arg", vec![nat(0x47), lm.l(label)?, nat(*index as u64)]),
		TargetInfoCode::ConstructorInvocationTypeArgument { label, index } => sx("offset-arg", vec![nat(0x48), lm.l(label)?, nat(*index as u64)]),
		TargetInfoCode::MethodInvocationTypeArgument { label, index } => sx("offset-arg", vec![nat(0x49), lm.l(label)?, nat(*index as u64)]),
		TargetInfoCode::ConstructorReferenceTypeArgument { label, index } => sx("offset-arg", vec![nat(0x4a), lm.l(label)?, nat(*index as u64)]),
		TargetInfoCode::MethodReferenceTypeArgument { label, index } => sx("offset-arg", vec![nat(0x4b), lm.l(label)?, nat(*index as u64)]),
	})
}

fn type_annos<T>(v: &[TypeAnnotation<T>], mut target: impl FnMut(&T) -> Result<Sexp, String>) -> Result<Sexp, String> {
	let mut out = Vec::new();
	for a in v {
		out.push(Sexp::list(vec![target(&a.type_reference)?, type_path(&a.type_path)?, annotation(&a.annotation)]));
	}
	Ok(Sexp::list(out))
}

pub fn code(c: &Code, resolved: bool) -> Result<Sexp, String> {
	let lm = if resolved { LabelMap::resolved(c) } else { LabelMap::raw() };
	let mut insns = Vec::with_capacity(c.instructions.len());
	for e in &c.instructions {
		let label = if lm.is_raw() { opt(&e.label, |l| nat(label_id(l))) } else { Sexp::list(vec![]) };
		let fr = match &e.frame { None => Sexp::list(vec![]), Some(f) => Sexp::list(vec![frame(f, &lm)?]) };
		insns.push(Sexp::list(vec![label, fr, instruction(&e.instruction, &lm)?]));
	}
	let mut exc = Vec::new();
	for e in &c.exception_table {
		exc.push(Sexp::list(vec![lm.l(&e.start)?, lm.l(&e.end)?, lm.l(&e.handler)?, opt(&e.catch, |c| js(c))]));
	}
	let last = if lm.is_raw() { opt(&c.last_label, |l| nat(label_id(l))) } else { Sexp::list(vec![]) };
	let lines = match &c.line_numbers {
		None => Sexp::list(vec![]),
		Some(v) => {
			let mut o = Vec::new();
			for (l, n) in v { o.push(Sexp::list(vec![lm.l(l)?, nat(*n as u64)])); }
			Sexp::list(vec![Sexp::list(o)])
		}
	};
	let locals = match &c.local_variables {
		None => Sexp::list(vec![]),
		Some(v) => {
			let mut o = Vec::new();
			for lv in v {
				let (a, b) = range_ids(&lv.range);
				o.push(Sexp::list(vec![lm.id(a)?, lm.id(b)?, js(&lv.name), opt(&lv.descriptor, |d| js(d)), opt(&lv.signature, |d| js(d)), nat(lv.index.index as u64)]));
			}
			Sexp::list(vec![Sexp::list(o)])
		}
	};
	Ok(sx("code", vec![
		nat(c.max_stack.unwrap_or(0) as u64), nat(c.max_locals.unwrap_or(0) as u64), Sexp::list(insns), Sexp::list(exc), last, lines, locals,
		type_annos(&c.runtime_visible_type_annotations, |t| target_code(t, &lm))?,
		type_annos(&c.runtime_invisible_type_annotations, |t| target_code(t, &lm))?,
		lst(&c.attributes, attr),
	]))
}

fn constant(c: &ConstantValue) -> Sexp {
	match c {
		ConstantValue::Integer(v) => sx("int", vec![int(*v as i64)]),
		ConstantValue::Float(v) => sx("float", vec![nat(v.to_bits() as u64)]),
		ConstantValue::Long(v) => sx("long", vec![int(*v)]),
		ConstantValue::Double(v) => sx("double", vec![nat(v.to_bits())]),
		ConstantValue::String(s) => sx("str", vec![js(s)]),
	}
}

fn field(f: &Field) -> Result<Sexp, String> {
	Ok(sx("field", vec![
		nat(u16::from(f.access) as u64), js(&f.name), js(&f.descriptor), Sexp::bool(f.has_deprecated_attribute), Sexp::bool(f.has_synthetic_attribute),
		opt(&f.constant_value, constant), opt(&f.signature, |s| js(s)),
		lst(&f.runtime_visible_annotations, annotation), lst(&f.runtime_invisible_annotations, annotation),
		type_annos(&f.runtime_visible_type_annotations, |t| Ok(target_field(t)))?,
		type_annos(&f.runtime_invisible_type_annotations, |t| Ok(target_field(t)))?,
		lst(&f.attributes, attr),
	]))
}

fn method(m: &Method, resolved: bool) -> Result<Sexp, String> {
	let c = match &m.code { None => Sexp::list(vec![]), Some(c) => Sexp::list(vec![code(c, resolved)?]) };
	Ok(sx("method", vec![
		nat(u16::from(m.access) as u64), js(&m.name), js(&m.descriptor), Sexp::bool(m.has_deprecated_attribute), Sexp::bool(m.has_synthetic_attribute),
		c, opt(&m.exceptions, |v| lst(v, |c| js(c))), opt(&m.signature, |s| js(s)),
		lst(&m.runtime_visible_annotations, annotation), lst(&m.runtime_invisible_annotations, annotation),
		type_annos(&m.runtime_visible_type_annotations, |t| Ok(target_method(t)))?,
		type_annos(&m.runtime_invisible_type_annotations, |t| Ok(target_method(t)))?,
		opt(&m.annotation_default, element),
		opt(&m.method_parameters, |v| lst(v, |p| Sexp::list(vec![opt(&p.name, |n| js(n)), nat(u16::from(p.flags) as u64)]))),
		lst(&m.attributes, attr),
	]))
}

// ---- crate-private parts, through Debug -------------------------------------------------------------------------

fn dopt(d: &Dbg, f: impl FnOnce(&Dbg) -> Result<Sexp, String>) -> Result<Sexp, String> {
	Ok(match d.option()? { None => Sexp::list(vec![]), Some(x) => Sexp::list(vec![f(x)?]) })
}
fn dlist(d: &Dbg, mut f: impl FnMut(&Dbg) -> Result<Sexp, String>) -> Result<Sexp, String> {
	Ok(Sexp::list(d.list()?.iter().map(|x| f(x)).collect::<Result<_, _>>()?))
}
fn dtext(d: &Dbg) -> Result<Sexp, String> { Ok(cps(d.text()?)) }

fn float_bits32(w: &str) -> Result<u64, String> {
	Ok(match w { "NaN" => f32::NAN.to_bits() as u64, "inf" => f32::INFINITY.to_bits() as u64, "-inf" => f32::NEG_INFINITY.to_bits() as u64,
		_ => w.parse::<f32>().map_err(|e| format!("{w}: {e}"))?.to_bits() as u64 })
}
fn float_bits64(w: &str) -> Result<u64, String> {
	Ok(match w { "NaN" => f64::NAN.to_bits(), "inf" => f64::INFINITY.to_bits(), "-inf" => f64::NEG_INFINITY.to_bits(),
		_ => w.parse::<f64>().map_err(|e| format!("{w}: {e}"))?.to_bits() })
}

fn element_dbg(d: &Dbg) -> Result<Sexp, String> {
	match d {
		Dbg::Tuple(n, v) if n == "Object" && v.len() == 1 => match &v[0] {
			Dbg::Tuple(k, x) if x.len() == 1 => {
				let word = |x: &Dbg| -> Result<String, String> { match x { Dbg::Word(w) => Ok(w.clone()), o => Err(format!("{o:?}")) } };
				Ok(match k.as_str() {
					"Byte" => sx("const", vec![nat(66), int(x[0].num()? as i64)]),
					"Char" => sx("const", vec![nat(67), int(x[0].num()? as i64)]),
					"Double" => sx("const", vec![nat(68), nat(float_bits64(&word(&x[0])?)?)]),
					"Float" => sx("const", vec![nat(70), nat(float_bits32(&word(&x[0])?)?)]),
					"Integer" => sx("const", vec![nat(73), int(x[0].num()? as i64)]),
					"Long" => sx("const", vec![nat(74), int(x[0].num()? as i64)]),
					"Short" => sx("const", vec![nat(83), int(x[0].num()? as i64)]),
					"Boolean" => sx("const", vec![nat(90), int(if word(&x[0])? == "true" { 1 } else { 0 })]),
					"String" => sx("str", vec![dtext(&x[0])?]),
					o => return Err(format!("unknown Object kind {o}")),
				})
			}
			o => Err(format!("bad Object {o:?}")),
		},
		Dbg::Struct(n, _) if n == "Enum" => Ok(sx("enum", vec![dtext(d.field("type_name")?)?, dtext(d.field("const_name")?)?])),
		Dbg::Tuple(n, v) if n == "Class" && v.len() == 1 => Ok(sx("cls", vec![dtext(&v[0])?])),
		Dbg::Tuple(n, v) if n == "AnnotationInterface" && v.len() == 1 => Ok(sx("anno", vec![annotation_dbg(&v[0])?])),
		Dbg::Tuple(n, v) if n == "ArrayType" && v.len() == 1 => Ok(sx("arr", vec![dlist(&v[0], element_dbg)?])),
		o => Err(format!("unknown element value {o:?}")),
	}
}

fn annotation_dbg(d: &Dbg) -> Result<Sexp, String> {
	match d {
		Dbg::Anno(ty, pairs) => {
			let mut ps = Vec::new();
			for (k, v) in pairs { ps.push(Sexp::list(vec![dtext(k)?, element_dbg(v)?])); }
			Ok(Sexp::list(vec![dtext(ty)?, Sexp::list(ps)]))
		}
		o => Err(format!("not an annotation: {o:?}")),
	}
}

fn type_anno_field_dbg(d: &Dbg) -> Result<Sexp, String> {
	let t = match d.field("type_reference")? { Dbg::Word(w) if w == "Field" => Sexp::tag("field"), o => return Err(format!("bad target {o:?}")) };
	Ok(Sexp::list(vec![t, type_path_dbg(d.field("type_path")?)?, annotation_dbg(d.field("annotation")?)?]))
}

fn attr_dbg(d: &Dbg) -> Result<Sexp, String> {
	let bytes: Vec<u8> = d.field("bytes")?.list()?.iter().map(|b| b.num().map(|n| n as u8)).collect::<Result<_, _>>()?;
	Ok(Sexp::list(vec![dtext(d.field("name")?)?, Sexp::bytes(&bytes)]))
}

/// the fields of `RecordComponent` are public since /repo commit 8214c43: read directly (the `Debug` detour printed every NaN
/// as `NaN` and lost the payload of float constants in component annotations)
fn record_component(r: &duke::tree::record::RecordComponent) -> Result<Sexp, String> {
	Ok(Sexp::list(vec![
		js(&r.name), js(&r.descriptor),
		opt(&r.signature, |s| js(s)),
		lst(&r.runtime_visible_annotations, annotation),
		lst(&r.runtime_invisible_annotations, annotation),
		type_annos(&r.runtime_visible_type_annotations, |t| Ok(target_field(t)))?,
		type_annos(&r.runtime_invisible_type_annotations, |t| Ok(target_field(t)))?,
		lst(&r.attributes, attr),
	]))
}

fn module(m: &duke::tree::module::Module) -> Result<Sexp, String> {
	let d = dbg::parse(&format!("{m:?}"))?;
	let mflags: &[(&str, u16)] = &[("open", 0x0020), ("synthetic", 0x1000), ("mandated", 0x8000)];
	let rflags: &[(&str, u16)] = &[("transitive", 0x0020), ("static_phase", 0x0040), ("static-phase", 0x0040), ("static", 0x0040), ("synthetic", 0x1000), ("mandated", 0x8000)];
	let eflags: &[(&str, u16)] = &[("synthetic", 0x1000), ("mandated", 0x8000)];
	let exports = |x: &Dbg, to: &str| -> Result<Sexp, String> {
		Ok(Sexp::list(vec![dtext(x.field("name")?)?, nat(x.field("flags")?.flags(eflags)? as u64), dlist(x.field(to)?, dtext)?]))
	};
	Ok(Sexp::list(vec![
		dtext(d.field("name")?)?, nat(d.field("flags")?.flags(mflags)? as u64), dopt(d.field("version")?, dtext)?,
		dlist(d.field("requires")?, |x| Ok(Sexp::list(vec![dtext(x.field("name")?)?, nat(x.field("flags")?.flags(rflags)? as u64), dopt(x.field("version")?, dtext)?])))?,
		dlist(d.field("exports")?, |x| exports(x, "exports_to"))?,
		dlist(d.field("opens")?, |x| exports(x, "opens_to"))?,
		dlist(d.field("uses")?, dtext)?,
		dlist(d.field("provides")?, |x| Ok(Sexp::list(vec![dtext(x.field("name")?)?, dlist(x.field("provides_with")?, dtext)?])))?,
	]))
}

/// `Version { major: M, minor: N }` -> (minor, major)
fn version(c: &ClassFile) -> (u64, u64) { let n = numbers_in(&format!("{:?}", c.version)); (n[1], n[0]) }

pub fn class(c: &ClassFile, resolved: bool) -> Result<Sexp, String> {
	let (minor, major) = version(c);
	let mut fields = Vec::new();
	for f in &c.fields { fields.push(field(f)?); }
	let mut methods = Vec::new();
	for m in &c.methods { methods.push(method(m, resolved)?); }
	let mut records = Vec::new();
	for r in &c.record_components { records.push(record_component(r)?); }
	Ok(sx("class", vec![
		nat(minor), nat(major), nat(u16::from(c.access) as u64), js(&c.name), opt(&c.super_class, |s| js(s)), lst(&c.interfaces, |i| js(i)),
		Sexp::list(fields), Sexp::list(methods), Sexp::bool(c.has_deprecated_attribute), Sexp::bool(c.has_synthetic_attribute),
		opt(&c.inner_classes, |v| lst(v, |i| Sexp::list(vec![js(&i.inner_class), opt(&i.outer_class, |o| js(o)), opt(&i.inner_name, |o| js(o)), nat(u16::from(i.flags) as u64)]))),
		opt(&c.enclosing_method, |e| Sexp::list(vec![js(&e.class), opt(&e.method, |m| Sexp::list(vec![js(&m.name), js(&m.desc)]))])),
		opt(&c.signature, |s| js(s)), opt(&c.source_file, |s| js(s)), opt(&c.source_debug_extension, |s| js(s)),
		lst(&c.runtime_visible_annotations, annotation), lst(&c.runtime_invisible_annotations, annotation),
		type_annos(&c.runtime_visible_type_annotations, |t| Ok(target_class(t)))?,
		type_annos(&c.runtime_invisible_type_annotations, |t| Ok(target_class(t)))?,
		match &c.module { None => Sexp::list(vec![]), Some(m) => Sexp::list(vec![module(m)?]) },
		opt(&c.module_packages, |v| lst(v, |p| js(p))), opt(&c.module_main_class, |s| js(s)),
		opt(&c.nest_host_class, |s| js(s)), opt(&c.nest_members, |v| lst(v, |p| js(p))), opt(&c.permitted_subclasses, |v| lst(v, |p| js(p))),
		Sexp::list(records), lst(&c.attributes, attr),
	]))
}
