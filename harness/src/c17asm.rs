//! C17: hand assembler of synthetic class files that exercise every attribute arm of duke's reader at every level
//! (known kinds, kinds that are foreign to a level, unknown names, `Record`, `Module`, `Code` with all its attribute kinds,
//! repeated tables, padded attributes). The bytes are valid input for duke; their framing is recomputed by `c17frame`.
use std::collections::HashMap;
use crate::rng::Rng;

pub struct Pool { pub bytes: Vec<u8>, pub count: u16, memo: HashMap<String, u16> }

fn p2(v: &mut Vec<u8>, x: u16) { v.extend_from_slice(&x.to_be_bytes()); }
fn p4(v: &mut Vec<u8>, x: u32) { v.extend_from_slice(&x.to_be_bytes()); }

impl Pool {
	pub fn new() -> Pool { Pool { bytes: Vec::new(), count: 1, memo: HashMap::new() } }
	fn add(&mut self, key: String, body: Vec<u8>) -> u16 {
		if let Some(i) = self.memo.get(&key) { return *i; }
		let i = self.count;
		self.count += 1;
		self.bytes.extend_from_slice(&body);
		self.memo.insert(key, i);
		i
	}
	pub fn utf8(&mut self, s: &str) -> u16 {
		let mut b = vec![1u8];
		p2(&mut b, s.len() as u16);
		b.extend_from_slice(s.as_bytes());
		self.add(format!("u:{s}"), b)
	}
	fn tagged(&mut self, tag: u8, key: &str, s: &str) -> u16 {
		let u = self.utf8(s);
		let mut b = vec![tag];
		p2(&mut b, u);
		self.add(format!("{key}:{s}"), b)
	}
	pub fn class(&mut self, s: &str) -> u16 { self.tagged(7, "c", s) }
	pub fn module(&mut self, s: &str) -> u16 { self.tagged(19, "m", s) }
	pub fn package(&mut self, s: &str) -> u16 { self.tagged(20, "p", s) }
	pub fn int(&mut self, v: i32) -> u16 {
		let mut b = vec![3u8];
		b.extend_from_slice(&v.to_be_bytes());
		self.add(format!("i:{v}"), b)
	}
	pub fn nat(&mut self, n: &str, d: &str) -> u16 {
		let (a, c) = (self.utf8(n), self.utf8(d));
		let mut b = vec![12u8];
		p2(&mut b, a); p2(&mut b, c);
		self.add(format!("nt:{n}:{d}"), b)
	}
	pub fn method_handle(&mut self) -> u16 {
		let c = self.class("H");
		let nt = self.nat("bsm", "()V");
		let mut b = vec![10u8];
		p2(&mut b, c); p2(&mut b, nt);
		let mref = self.add("mref:H.bsm".into(), b);
		let mut b = vec![15u8, 6];
		p2(&mut b, mref);
		self.add("mh:H.bsm".into(), b)
	}
}

#[derive(Default, Clone)]
pub struct Opts {
	/// class-level attributes of this kind get trailing bytes inside their declared length
	pub pad_class: Option<&'static str>,
	/// a second stack map attribute in the first `Code` (the reader refuses it when it parses both)
	pub dup_frames: bool,
	/// a second `Record` attribute
	pub dup_record: bool,
	pub rich: bool,
	/// no class-level attribute at all (`attributes_count = 0`): the file ends with the methods, and a reader that declines
	/// the class finishes on a plain two-byte read, not on a seek
	pub bare: bool,
}

struct Asm<'a> { pool: Pool, r: &'a mut Rng, opts: Opts, stats: Vec<String> }

fn attr(out: &mut Vec<u8>, pool: &mut Pool, name: &str, body: &[u8]) {
	p2(out, pool.utf8(name));
	p4(out, body.len() as u32);
	out.extend_from_slice(body);
}

impl Asm<'_> {
	fn hit(&mut self, s: &str) { self.stats.push(s.to_owned()); }

	fn element_value(&mut self, depth: usize) -> Vec<u8> {
		let mut b = Vec::new();
		match self.r.below(if depth > 1 { 4 } else { 6 }) {
			0 => { b.push(b'I'); let i = self.pool.int(self.r.below(100) as i32); p2(&mut b, i); }
			1 => { b.push(b's'); let i = self.pool.utf8("str"); p2(&mut b, i); }
			2 => { b.push(b'e'); let t = self.pool.utf8("LE;"); let c = self.pool.utf8("A"); p2(&mut b, t); p2(&mut b, c); }
			3 => { b.push(b'c'); let t = self.pool.utf8("I"); p2(&mut b, t); }
			4 => { b.push(b'['); let n = self.r.below(3); p2(&mut b, n as u16); for _ in 0..n { let e = self.element_value(depth + 1); b.extend(e); } }
			_ => { b.push(b'@'); let a = self.annotation(depth + 1); b.extend(a); }
		}
		b
	}

	fn annotation(&mut self, depth: usize) -> Vec<u8> {
		let mut b = Vec::new();
		let t = self.pool.utf8(["LAnn;", "LB;"][self.r.below(2)]);
		p2(&mut b, t);
		let n = self.r.below(3);
		p2(&mut b, n as u16);
		for i in 0..n {
			let nm = self.pool.utf8(["v", "w", "x"][i]);
			p2(&mut b, nm);
			let e = self.element_value(depth);
			b.extend(e);
		}
		b
	}

	fn annotations(&mut self) -> Vec<u8> {
		let n = self.r.below(3);
		let mut b = Vec::new();
		p2(&mut b, n as u16);
		for _ in 0..n { let a = self.annotation(0); b.extend(a); }
		b
	}

	fn type_path(&mut self) -> Vec<u8> {
		let n = self.r.below(3);
		let mut b = vec![n as u8];
		for _ in 0..n {
			let k = self.r.below(4) as u8;
			b.push(k);
			b.push(if k == 3 { self.r.below(4) as u8 } else { 0 });
		}
		b
	}

	/// level: 0 class, 1 field / record component, 2 method, 3 code (needs instruction starts and code length)
	fn type_annotations(&mut self, level: usize, starts: &[usize], code_len: usize) -> Vec<u8> {
		let n = self.r.below(3);
		let mut b = Vec::new();
		p2(&mut b, n as u16);
		for _ in 0..n {
			match level {
				0 => match self.r.below(3) {
					0 => { b.push(0x00); b.push(self.r.below(3) as u8); }
					1 => { b.push(0x10); p2(&mut b, if self.r.chance(1, 2) { 0xFFFF } else { self.r.below(3) as u16 }); }
					_ => { b.push(0x11); b.push(0); b.push(1); }
				},
				1 => b.push(0x13),
				2 => match self.r.below(6) {
					0 => { b.push(0x01); b.push(0); }
					1 => { b.push(0x12); b.push(0); b.push(0); }
					2 => b.push(0x14),
					3 => b.push(0x15),
					4 => { b.push(0x16); b.push(self.r.below(2) as u8); }
					_ => { b.push(0x17); p2(&mut b, 0); }
				},
				_ => match self.r.below(5) {
					0 => {
						b.push(if self.r.chance(1, 2) { 0x40 } else { 0x41 });
						let t = self.r.range(1, 2);
						p2(&mut b, t as u16);
						for _ in 0..t {
							let s = *self.r.pick(starts);
							p2(&mut b, s as u16); p2(&mut b, (code_len - s) as u16); p2(&mut b, self.r.below(3) as u16);
						}
					}
					1 => { b.push(0x42); p2(&mut b, 0); }
					2 => { b.push([0x43u8, 0x44, 0x45, 0x46][self.r.below(4)]); p2(&mut b, *self.r.pick(starts) as u16); }
					_ => { b.push([0x47u8, 0x48, 0x49, 0x4A, 0x4B][self.r.below(5)]); p2(&mut b, *self.r.pick(starts) as u16); b.push(self.r.below(2) as u8); }
				},
			}
			let tp = self.type_path();
			b.extend(tp);
			let a = self.annotation(0);
			b.extend(a);
		}
		b
	}

	fn unknown(&mut self, out: &mut Vec<u8>) {
		let name = ["Foo", "org.example.Custom", "X"][self.r.below(3)];
		let n = self.r.below(6);
		let body: Vec<u8> = (0..n).map(|_| self.r.below(256) as u8).collect();
		attr(out, &mut self.pool, name, &body);
		self.hit("attr:unknown-name");
	}

	/// attributes common to class / field / method / record component (kinds: annotations, signature, flags, unknown, foreign)
	fn common(&mut self, out: &mut Vec<u8>, level: usize, foreign: &[&str]) -> usize {
		let mut n = 0;
		if self.r.chance(1, 3) { let i = self.pool.utf8("TT;"); attr(out, &mut self.pool, "Signature", &i.to_be_bytes()); n += 1; }
		if self.r.chance(1, 4) { attr(out, &mut self.pool, "Deprecated", &[]); n += 1; self.hit(&format!("attr:deprecated@{level}")); }
		if self.r.chance(1, 5) { attr(out, &mut self.pool, "Synthetic", &[]); n += 1; }
		for name in ["RuntimeVisibleAnnotations", "RuntimeInvisibleAnnotations"] {
			if self.r.chance(1, 3) { let b = self.annotations(); attr(out, &mut self.pool, name, &b); n += 1; }
		}
		for name in ["RuntimeVisibleTypeAnnotations", "RuntimeInvisibleTypeAnnotations"] {
			if self.r.chance(1, 4) { let b = self.type_annotations(level, &[], 0); attr(out, &mut self.pool, name, &b); n += 1; }
		}
		if self.r.chance(1, 4) { self.unknown(out); n += 1; }
		if self.r.chance(1, 5) && !foreign.is_empty() {
			// a name another level knows: opaque here
			let name = *self.r.pick(foreign);
			let body: Vec<u8> = (0..self.r.below(5)).map(|_| 0u8).collect();
			attr(out, &mut self.pool, name, &body);
			n += 1;
			self.hit("attr:foreign-name");
		}
		n
	}

	fn code_bytes(&mut self) -> Vec<u8> {
		match self.r.below(7) {
			0 => vec![0xb1],
			1 => vec![0x03, 0x99, 0x00, 0x04, 0x00, 0xb1],                       // iconst_0 ifeq+4 nop return
			2 => vec![0x10, 0x07, 0x3c, 0x84, 0x01, 0x02, 0xa7, 0x00, 0x03, 0xb1], // bipush istore_1 iinc goto+3 return
			3 => {
				// iconst_0 tableswitch(pad 2) default=+24 low=0 high=1 offsets +24 +25 ; nop ; return  (switch at pc 1)
				let mut c = vec![0x03, 0xaa, 0, 0];
				for v in [24i32, 0, 1, 23, 24] { c.extend_from_slice(&v.to_be_bytes()); }
				c.push(0x00); c.push(0xb1);
				c
			}
			4 => {
				// iconst_1 lookupswitch(pad 2) default=+20 npairs=1 (5 -> +19) ; return at 20 ; nop return
				let mut c = vec![0x04, 0xab, 0, 0];
				for v in [20i32, 1, 5, 19] { c.extend_from_slice(&v.to_be_bytes()); }
				c.push(0xb1); c.push(0xb1);
				c
			}
			5 => vec![0xc4, 0x84, 0x01, 0x00, 0x00, 0x05, 0xc4, 0x15, 0x01, 0x00, 0x57, 0x01, 0xc6, 0x00, 0x03, 0xb1], // wide iinc, wide iload, pop, aconst_null, ifnull+3, return
			_ => { let i = self.pool.int(77) as u8; vec![0x12, i, 0x57, 0x11, 0x01, 0x00, 0x57, 0xc8, 0, 0, 0, 5, 0xb1] } // ldc pop sipush pop goto_w+5 return
		}
	}

	fn code(&mut self, first: bool) -> Vec<u8> {
		let code = self.code_bytes();
		let starts = crate::c17frame::insn_starts(&code).expect("template decodes");
		let cl = code.len();
		let mut b = Vec::new();
		p2(&mut b, self.r.below(5) as u16);
		p2(&mut b, self.r.below(5) as u16 + 2);
		p4(&mut b, cl as u32);
		b.extend_from_slice(&code);
		let ne = self.r.below(3);
		p2(&mut b, ne as u16);
		for _ in 0..ne {
			let s = *self.r.pick(&starts);
			let e = if self.r.chance(1, 3) { cl } else { *self.r.pick(&starts) };
			p2(&mut b, s as u16); p2(&mut b, e as u16); p2(&mut b, *self.r.pick(&starts) as u16);
			let c = if self.r.chance(1, 2) { 0 } else { self.pool.class("java/lang/Exception") };
			p2(&mut b, c);
		}
		let mut attrs = Vec::new();
		let mut n = 0u16;
		let mut kinds: Vec<usize> = Vec::new();
		for k in 0..9 { if self.r.chance(if self.opts.rich { 2 } else { 1 }, 3) { kinds.push(k); } }
		if self.r.chance(1, 3) { kinds.push(1); } // a second LineNumberTable
		if self.r.chance(1, 5) { kinds.push(2); }
		self.r.shuffle(&mut kinds);
		let mut have_frames = false;
		for k in kinds {
			match k {
				0 => {
					if have_frames && !(first && self.opts.dup_frames) { continue; }
					if have_frames { self.hit("code:second-stack-map"); }
					have_frames = true;
					if self.r.chance(3, 4) {
						// StackMapTable: frames at instruction starts (offset_delta encodes start - previous - 1)
						let mut fr = Vec::new();
						let cnt = self.r.below(starts.len().min(3) + 1);
						let mut picks: Vec<usize> = starts.clone();
						self.r.shuffle(&mut picks);
						let mut picks: Vec<usize> = picks.into_iter().take(cnt).collect();
						picks.sort();
						let mut prev: Option<usize> = None;
						for pc in &picks {
							let delta = match prev { None => *pc, Some(p) => pc - p - 1 };
							prev = Some(*pc);
							match self.r.below(6) {
								0 if delta < 64 => fr.push(delta as u8),
								1 if delta < 64 => { fr.push(64 + delta as u8); fr.push(1); }
								2 => { fr.push(247); p2(&mut fr, delta as u16); fr.push(7); let c = self.pool.class("java/lang/Object"); p2(&mut fr, c); }
								3 => { fr.push(248 + self.r.below(3) as u8); p2(&mut fr, delta as u16); }
								4 => { let k = self.r.range(1, 3); fr.push(251 + k as u8); p2(&mut fr, delta as u16); for _ in 0..k { fr.push(self.r.below(6) as u8); } }
								_ => {
									fr.push(255); p2(&mut fr, delta as u16);
									p2(&mut fr, 1); fr.push(8); p2(&mut fr, *self.r.pick(&starts) as u16);
									p2(&mut fr, 1); fr.push(2);
								}
							}
						}
						let mut body = Vec::new();
						p2(&mut body, picks.len() as u16);
						body.extend(fr);
						attr(&mut attrs, &mut self.pool, "StackMapTable", &body);
						self.hit("code:StackMapTable");
					} else {
						// distinct offsets: a second frame for the same offset would never be handed out
						let mut picks: Vec<usize> = starts.clone();
						self.r.shuffle(&mut picks);
						// (in any order: the reader sorts them by offset — 69346bc)
						let cnt = self.r.below(4).min(picks.len());
						let mut body = Vec::new();
						p2(&mut body, cnt as u16);
						for pc in picks.into_iter().take(cnt) {
							p2(&mut body, pc as u16);
							p2(&mut body, 1); body.push(1);
							p2(&mut body, 0);
						}
						attr(&mut attrs, &mut self.pool, "StackMap", &body);
						self.hit("code:StackMap");
					}
				}
				1 => {
					let cnt = self.r.range(1, 3);
					let mut body = Vec::new();
					p2(&mut body, cnt as u16);
					for i in 0..cnt { p2(&mut body, *self.r.pick(&starts) as u16); p2(&mut body, 10 + i as u16); }
					attr(&mut attrs, &mut self.pool, "LineNumberTable", &body);
				}
				2 | 3 => {
					// now and then a table without entries (the tree then holds `Some(vec![])` and cannot tell which table it was)
					let cnt = if self.r.chance(1, 6) { self.hit("code:local-variable-table-without-entries"); 0 } else { self.r.range(1, 2) };
					let mut body = Vec::new();
					p2(&mut body, cnt as u16);
					for i in 0..cnt {
						let s = *self.r.pick(&starts);
						let e = if self.r.chance(1, 2) { cl } else { *starts.iter().filter(|x| **x >= s).last().unwrap() };
						p2(&mut body, s as u16); p2(&mut body, (e - s) as u16);
						let nm = self.pool.utf8(["a", "b"][i]);
						let d = self.pool.utf8(if k == 2 { "I" } else { "TT;" });
						p2(&mut body, nm); p2(&mut body, d); p2(&mut body, i as u16);
					}
					attr(&mut attrs, &mut self.pool, if k == 2 { "LocalVariableTable" } else { "LocalVariableTypeTable" }, &body);
				}
				4 | 5 => {
					let body = self.type_annotations(3, &starts, cl);
					attr(&mut attrs, &mut self.pool, if k == 4 { "RuntimeVisibleTypeAnnotations" } else { "RuntimeInvisibleTypeAnnotations" }, &body);
					self.hit("code:type-annotations");
				}
				6 => self.unknown(&mut attrs),
				7 => { attr(&mut attrs, &mut self.pool, ["Signature", "Deprecated", "Code", "SourceFile"][self.r.below(4)], &[0, 0]); self.hit("code:foreign-name"); }
				_ => continue,
			}
			n += 1;
		}
		p2(&mut b, n);
		b.extend(attrs);
		b
	}

	fn field(&mut self, out: &mut Vec<u8>, i: usize) {
		p2(out, [0x0001u16, 0x0019, 0x1002, 0x4019][self.r.below(4)]);
		p2(out, self.pool.utf8(&format!("f{i}")));
		p2(out, self.pool.utf8("I"));
		let mut a = Vec::new();
		let mut n = 0;
		if self.r.chance(1, 3) { let c = self.pool.int(42); attr(&mut a, &mut self.pool, "ConstantValue", &c.to_be_bytes()); n += 1; }
		n += self.common(&mut a, 1, &["Exceptions", "SourceFile", "Code", "Record", "MethodParameters"]);
		p2(out, n as u16);
		out.extend(a);
	}

	fn method(&mut self, out: &mut Vec<u8>, i: usize, first: bool) {
		p2(out, [0x0001u16, 0x0009, 0x0401, 0x1041][self.r.below(4)]);
		p2(out, self.pool.utf8(&if i == 0 { "<init>".to_owned() } else { format!("m{i}") }));
		p2(out, self.pool.utf8("(II)V"));
		let mut items: Vec<usize> = Vec::new();
		if self.r.chance(3, 4) { items.push(0); }
		if self.r.chance(1, 12) { items.push(0); self.hit("method:two-Code"); }
		for k in 1..7 { if self.r.chance(1, 3) { items.push(k); } }
		self.r.shuffle(&mut items);
		let mut a = Vec::new();
		let mut n = 0;
		let mut first_code = first;
		for k in items {
			match k {
				0 => { let c = self.code(first_code); first_code = false; attr(&mut a, &mut self.pool, "Code", &c); }
				1 => { let mut b = Vec::new(); let cnt = self.r.below(3); p2(&mut b, cnt as u16); for _ in 0..cnt { let c = self.pool.class("java/io/IOException"); p2(&mut b, c); } attr(&mut a, &mut self.pool, "Exceptions", &b); }
				2 => {
					// parameter annotations: skipped by the reader whatever the interest
					let mut b = vec![2u8];
					for _ in 0..2 { let x = self.annotations(); b.extend(x); }
					attr(&mut a, &mut self.pool, if self.r.chance(1, 2) { "RuntimeVisibleParameterAnnotations" } else { "RuntimeInvisibleParameterAnnotations" }, &b);
					self.hit("method:parameter-annotations");
				}
				3 => { let e = self.element_value(0); attr(&mut a, &mut self.pool, "AnnotationDefault", &e); }
				4 => {
					let cnt = self.r.below(3);
					let mut b = vec![cnt as u8];
					for j in 0..cnt { let nm = if self.r.chance(1, 3) { 0 } else { self.pool.utf8(["p", "q"][j]) }; p2(&mut b, nm); p2(&mut b, [0u16, 0x10, 0x1000][self.r.below(3)]); }
					attr(&mut a, &mut self.pool, "MethodParameters", &b);
				}
				_ => continue,
			}
			n += 1;
		}
		n += self.common(&mut a, 2, &["ConstantValue", "SourceFile", "InnerClasses", "Record", "LineNumberTable", "StackMapTable"]);
		p2(out, n as u16);
		out.extend(a);
	}

	fn record(&mut self) -> Vec<u8> {
		let nc = self.r.below(4);
		let mut b = Vec::new();
		p2(&mut b, nc as u16);
		for i in 0..nc {
			p2(&mut b, self.pool.utf8(&format!("comp{i}")));
			p2(&mut b, self.pool.utf8("I"));
			let mut a = Vec::new();
			let n = self.common(&mut a, 1, &["ConstantValue", "Code", "Record"]);
			p2(&mut b, n as u16);
			b.extend(a);
		}
		b
	}

	fn class_attrs(&mut self, out: &mut Vec<u8>) {
		if self.opts.bare { p2(out, 0); self.hit("class:no-attributes"); return; }
		let mut items: Vec<usize> = Vec::new();
		for k in 0..12 { if self.r.chance(if self.opts.rich { 1 } else { 1 }, if self.opts.rich { 2 } else { 4 }) { items.push(k); } }
		if self.opts.dup_record { items.push(9); items.push(9); }
		self.r.shuffle(&mut items);
		let mut a = Vec::new();
		let mut n = 0;
		let mut have_bsm = false;
		for k in items {
			let mut body = Vec::new();
			let name = match k {
				0 => { p2(&mut body, self.pool.utf8("Syn.java")); "SourceFile" }
				1 => {
					let cnt = self.r.below(3);
					p2(&mut body, cnt as u16);
					for _ in 0..cnt {
						let (i, o, nm) = (self.pool.class("Syn$I"), if self.r.chance(1, 2) { 0 } else { self.pool.class("Syn") }, if self.r.chance(1, 2) { 0 } else { self.pool.utf8("I") });
						p2(&mut body, i); p2(&mut body, o); p2(&mut body, nm); p2(&mut body, 0x0008);
					}
					"InnerClasses"
				}
				2 => { let c = self.pool.class("Outer"); let m = if self.r.chance(1, 2) { 0 } else { self.pool.nat("m", "()V") }; p2(&mut body, c); p2(&mut body, m); "EnclosingMethod" }
				3 => { body.extend_from_slice(b"SMAP\nx.java\nJava\n*E\n"); self.hit("class:SourceDebugExtension"); "SourceDebugExtension" }
				4 => {
					p2(&mut body, self.pool.module("mod.a")); p2(&mut body, 0x0020); p2(&mut body, 0);
					p2(&mut body, 1); p2(&mut body, self.pool.module("java.base")); p2(&mut body, 0x8000); p2(&mut body, 0);
					p2(&mut body, 1); p2(&mut body, self.pool.package("pk")); p2(&mut body, 0); p2(&mut body, 1); p2(&mut body, self.pool.module("mod.b"));
					p2(&mut body, 0);
					p2(&mut body, 1); p2(&mut body, self.pool.class("Svc"));
					p2(&mut body, 1); p2(&mut body, self.pool.class("Svc")); p2(&mut body, 1); p2(&mut body, self.pool.class("Impl"));
					self.hit("class:Module");
					"Module"
				}
				5 => { let cnt = self.r.below(3); p2(&mut body, cnt as u16); for _ in 0..cnt { let p = self.pool.package("pk"); p2(&mut body, p); } self.hit("class:ModulePackages"); "ModulePackages" }
				6 => { p2(&mut body, self.pool.class("Main")); self.hit("class:ModuleMainClass"); "ModuleMainClass" }
				7 => { p2(&mut body, self.pool.class("Host")); "NestHost" }
				8 => {
					let cnt = self.r.below(3); p2(&mut body, cnt as u16);
					for _ in 0..cnt { let c = self.pool.class("Syn$I"); p2(&mut body, c); }
					if self.r.chance(1, 2) { "NestMembers" } else { "PermittedSubclasses" }
				}
				9 => { body = self.record(); self.hit("class:Record"); "Record" }
				10 => {
					if have_bsm { continue; }
					have_bsm = true;
					p2(&mut body, 1); p2(&mut body, self.pool.method_handle()); p2(&mut body, 1); p2(&mut body, self.pool.int(3));
					"BootstrapMethods"
				}
				_ => continue,
			};
			if self.opts.pad_class == Some(crate::c17frame::kind_of(name.as_bytes())) {
				for _ in 0..self.r.range(1, 3) { body.push(0); }
				self.hit("class:padded-attribute");
			}
			attr(&mut a, &mut self.pool, name, &body);
			n += 1;
		}
		n += self.common(&mut a, 0, &["ConstantValue", "Code", "Exceptions", "LineNumberTable", "MethodParameters"]);
		p2(out, n as u16);
		out.extend(a);
	}
}

/// a synthetic class file and what it contains (for the distribution statistics)
pub fn gen_class(r: &mut Rng, opts: &Opts) -> (Vec<u8>, Vec<String>) {
	let mut a = Asm { pool: Pool::new(), r, opts: opts.clone(), stats: Vec::new() };
	let this = a.pool.class("Syn");
	let sup = a.pool.class("java/lang/Object");
	let nif = a.r.below(3);
	let ifs: Vec<u16> = (0..nif).map(|i| a.pool.class(&format!("If{i}"))).collect();
	let mut body = Vec::new();
	p2(&mut body, [0x0021u16, 0x0601, 0x8000, 0x0031][a.r.below(4)]);
	p2(&mut body, this); p2(&mut body, sup);
	p2(&mut body, nif as u16);
	for i in ifs { p2(&mut body, i); }
	let nf = a.r.below(4);
	p2(&mut body, nf as u16);
	for i in 0..nf { a.field(&mut body, i); }
	let nm = a.r.below(4);
	p2(&mut body, nm as u16);
	for i in 0..nm { a.method(&mut body, i, i == 0); }
	a.class_attrs(&mut body);
	let mut out = Vec::new();
	p4(&mut out, 0xCAFEBABE);
	p2(&mut out, 0);
	p2(&mut out, [52u16, 55, 61, 65][a.r.below(4)]);
	p2(&mut out, a.pool.count);
	out.extend_from_slice(&a.pool.bytes);
	out.extend(body);
	(out, a.stats)
}
