//! C07: a reader for the output of Rust's derived `Debug` (`{:?}`, not pretty), as far as duke's class tree produces it.
//!
//! `duke::tree::record::RecordComponent` and `duke::tree::module::Module` keep (part of) their fields crate-private in
//! trees older than the repair of `remap.rs` for records and modules; their derived `Debug` output is public and
//! complete. Reading it keeps the harness compilable against both kinds of tree. Grammar:
//!
//!     value  := string | '[' (value ',')* ']' | '@' value '{' (string ':' value ',')* '}'      (duke's `Annotation`)
//!             | word | word '(' (value ',')* ')' | word '{' (word ':' value ',')* '}' | word '{' word* '}'   (flag sets)
//!     word   := [A-Za-z0-9_.+-]+                       string := '"' … '"' with the escapes of `char::escape_debug`
//!
//! Every node remembers the text it was read from (`raw`), which serves as an opaque value for what need not be understood.
use java_string::{JavaCodePoint, JavaString};

#[derive(Clone, Debug, PartialEq)]
pub enum K<'a> {
	Str(JavaString),
	List(Vec<D<'a>>),
	/// `word` alone, or `word(args)`
	Ctor(&'a str, Vec<D<'a>>),
	Struct(&'a str, Vec<(&'a str, D<'a>)>),
	/// `Name { flag flag }` (hand-written `Debug` of duke's flag structs)
	Flags(&'a str),
	/// `@type{"name": value, …}`
	Ann(Box<D<'a>>, Vec<(JavaString, D<'a>)>),
}
#[derive(Clone, Debug, PartialEq)]
pub struct D<'a> { pub raw: &'a str, pub k: K<'a> }

struct P<'a> { s: &'a str, i: usize }

impl<'a> P<'a> {
	fn peek(&self) -> Option<u8> { self.s.as_bytes().get(self.i).copied() }
	fn ws(&mut self) { while self.peek() == Some(b' ') { self.i += 1; } }
	fn eat(&mut self, c: u8) -> Result<(), String> {
		self.ws();
		if self.peek() == Some(c) { self.i += 1; Ok(()) } else { Err(format!("expected {:?} at {}", c as char, self.i)) }
	}
	fn word(&mut self) -> &'a str {
		let a = self.i;
		while let Some(c) = self.peek() { if c.is_ascii_alphanumeric() || matches!(c, b'_' | b'.' | b'+' | b'-') { self.i += 1; } else { break; } }
		&self.s[a..self.i]
	}
	fn string(&mut self) -> Result<JavaString, String> {
		self.eat(b'"')?;
		let mut out = JavaString::new();
		loop {
			let rest = &self.s[self.i..];
			let mut it = rest.chars();
			let c = it.next().ok_or("unterminated string")?;
			self.i += c.len_utf8();
			match c {
				'"' => return Ok(out),
				'\\' => {
					let e = it.next().ok_or("dangling backslash")?;
					self.i += e.len_utf8();
					match e {
						'0' => out.push('\0'), 't' => out.push('\t'), 'r' => out.push('\r'), 'n' => out.push('\n'),
						'\\' => out.push('\\'), '"' => out.push('"'), '\'' => out.push('\''),
						'u' => {
							self.eat(b'{')?;
							let a = self.i;
							while self.peek().map_or(false, |c| c != b'}') { self.i += 1; }
							let cp = u32::from_str_radix(&self.s[a..self.i], 16).map_err(|e| e.to_string())?;
							self.eat(b'}')?;
							out.push_java(JavaCodePoint::from_u32(cp).ok_or("code point")?);
						}
						o => return Err(format!("unknown escape \\{o}")),
					}
				}
				c => out.push(c),
			}
		}
	}
	fn seq(&mut self, close: u8) -> Result<Vec<D<'a>>, String> {
		let mut v = Vec::new();
		loop {
			self.ws();
			if self.peek() == Some(close) { self.i += 1; return Ok(v); }
			v.push(self.value()?);
			self.ws();
			if self.peek() == Some(b',') { self.i += 1; }
		}
	}
	fn value(&mut self) -> Result<D<'a>, String> {
		self.ws();
		let a = self.i;
		let k = match self.peek().ok_or("unexpected end")? {
			b'"' => K::Str(self.string()?),
			b'[' => { self.i += 1; K::List(self.seq(b']')?) }
			b'@' => {
				self.i += 1;
				let ty = self.value_no_struct()?;
				self.eat(b'{')?;
				let mut pairs = Vec::new();
				loop {
					self.ws();
					if self.peek() == Some(b'}') { self.i += 1; break; }
					let n = self.string()?;
					self.eat(b':')?;
					pairs.push((n, self.value()?));
					self.ws();
					if self.peek() == Some(b',') { self.i += 1; }
				}
				K::Ann(Box::new(ty), pairs)
			}
			_ => return self.named(a, true),
		};
		Ok(D { raw: &self.s[a..self.i], k })
	}
	/// the type of an annotation is directly followed by the `{` of its element map
	fn value_no_struct(&mut self) -> Result<D<'a>, String> { self.ws(); let a = self.i; self.named(a, false) }
	fn named(&mut self, a: usize, may_struct: bool) -> Result<D<'a>, String> {
		let w = self.word();
		if w.is_empty() { return Err(format!("unexpected {:?} at {}", self.peek().map(|c| c as char), self.i)); }
		let k = if self.peek() == Some(b'(') {
			self.i += 1;
			K::Ctor(w, self.seq(b')')?)
		} else if may_struct && self.s[self.i..].starts_with(" {") {
			self.i += 2;
			self.ws();
			if self.peek() == Some(b'}') { self.i += 1; K::Flags(w) } else {
				let save = self.i;
				let first = self.word();
				if self.peek() == Some(b':') {
					self.i = save;
					let mut fields = Vec::new();
					loop {
						self.ws();
						if self.peek() == Some(b'}') { self.i += 1; break; }
						let f = self.word();
						self.eat(b':')?;
						fields.push((f, self.value()?));
						self.ws();
						if self.peek() == Some(b',') { self.i += 1; }
					}
					K::Struct(w, fields)
				} else {
					let _ = first;
					while self.peek().ok_or("unterminated flag set")? != b'}' { self.i += 1; }
					self.i += 1;
					K::Flags(w)
				}
			}
		} else { K::Ctor(w, vec![]) };
		Ok(D { raw: &self.s[a..self.i], k })
	}
}

pub fn parse(s: &str) -> Result<D<'_>, String> {
	let mut p = P { s, i: 0 };
	let d = p.value()?;
	p.ws();
	if p.i != s.len() { return Err(format!("trailing text at {}", p.i)); }
	Ok(d)
}

impl<'a> D<'a> {
	pub fn field(&self, name: &str) -> Result<&D<'a>, String> {
		match &self.k { K::Struct(_, fs) => fs.iter().find(|(n, _)| *n == name).map(|(_, v)| v).ok_or_else(|| format!("no field {name}")), _ => Err(format!("not a struct: {}", self.raw)) }
	}
	pub fn list(&self) -> Result<&[D<'a>], String> { match &self.k { K::List(v) => Ok(v), _ => Err(format!("not a list: {}", self.raw)) } }
	/// `Some(x)` / `None`
	pub fn opt(&self) -> Result<Option<&D<'a>>, String> {
		match &self.k { K::Ctor("None", v) if v.is_empty() => Ok(None), K::Ctor("Some", v) if v.len() == 1 => Ok(Some(&v[0])), _ => Err(format!("not an option: {}", self.raw)) }
	}
	/// the string inside a newtype `Name("…")`, or a bare string
	pub fn text(&self) -> Result<JavaString, String> {
		match &self.k { K::Str(s) => Ok(s.clone()), K::Ctor(_, v) if v.len() == 1 => v[0].text(), _ => Err(format!("not a string: {}", self.raw)) }
	}
}
