//! Structured generator of mapping sets (DESIGN Appendix C), producing the S-expression encoding of `mapcodec`.
//! Keys are consistent with the first-namespace names; entries are emitted in a random insertion order.
use crate::rng::Rng;
use crate::sexp::Sexp;

#[derive(Clone)]
pub struct MapCfg {
	pub n: usize,
	pub max_classes: usize,
	pub max_members: usize,
	pub max_params: usize,
	pub nest_depth: usize,
	/// chance (percent) that a non-source column is absent
	pub absent_pct: usize,
	pub doc_pct: usize,
	pub unicode: bool,
	/// use placeholder-like names (`C_`, `f_`, `m_`, `p_`, `<init>` …) and near-misses
	pub dummy_names: bool,
	/// nested target names follow the nesting (`X$Y`), otherwise plain simple names
	pub extended_targets: bool,
	pub multiline_docs: bool,
	/// parameters may carry a first-namespace name
	pub param_src_names: bool,
	/// target class names may contain `$` at top level
	pub dollar_targets: bool,
	/// all nested classes have their parent in the set
	pub closed_nesting: bool,
	/// chance (percent) that the mapping set itself carries a comment (the header section of a tiny v2 file)
	pub top_doc_pct: usize,
}

impl MapCfg {
	pub fn basic(n: usize) -> MapCfg {
		MapCfg { n, max_classes: 4, max_members: 3, max_params: 2, nest_depth: 2, absent_pct: 20, doc_pct: 25,
			unicode: false, dummy_names: false, extended_targets: false, multiline_docs: true, param_src_names: true,
			dollar_targets: false, closed_nesting: true, top_doc_pct: 0 }
	}
}

const IDS: &[&str] = &["a", "b", "c", "Foo", "Bar", "x1", "Q", "zz", "L", "LL", "V", "I"];
const PKGS: &[&str] = &["", "", "p/", "net/mc/", "a/b/c/", "L/"];
const UNI: &[&str] = &["é", "日本", "\u{1f600}", "ß", "\u{10000}x"];
const DUMMY_CLASS: &[&str] = &["C_1", "C_", "C_22", "net/minecraft/unmapped/C_3", "net/minecraft/unmapped/C_", "aC_1", "net/minecraft/C_4", "c_1", "X"];
const DUMMY_FIELD: &[&str] = &["f_1", "f_", "f_22", "af_1", "F_1", "field", "f"];
const DUMMY_METHOD: &[&str] = &["m_1", "m_", "m_22", "am_1", "<init>", "<clinit>", "method", "M_1", "m"];
const DUMMY_PARAM: &[&str] = &["p_1", "p_", "p_0", "ap_1", "P_1", "param", "p"];

pub fn ident(r: &mut Rng, cfg: &MapCfg) -> String {
	if cfg.unicode && r.chance(1, 4) {
		let mut s = (*r.pick(UNI)).to_owned();
		if r.chance(1, 2) { s.push_str(*r.pick(IDS)); }
		s
	} else {
		let mut s = (*r.pick(IDS)).to_owned();
		if r.chance(1, 3) { s.push_str(&r.below(10).to_string()); }
		s
	}
}

pub fn s(x: &str) -> Sexp { Sexp::str(x) }
pub fn opt_s(x: &Option<String>) -> Sexp { Sexp::opt(x.as_ref(), |x| s(x)) }

pub fn doc(r: &mut Rng, cfg: &MapCfg) -> Option<String> {
	if !r.chance(cfg.doc_pct, 100) { return None; }
	let words = ["doc", "a comment", " leading space", "# hash", "x\\y", "tab less", "{@link Foo}", ""];
	let mut d = (*r.pick(&words)).to_owned();
	if cfg.multiline_docs && r.chance(1, 3) {
		for _ in 0..r.range(1, 2) { d.push('\n'); d.push_str(*r.pick(&words)); }
	}
	Some(d)
}

#[derive(Clone, Debug)]
pub struct GParam { pub index: usize, pub names: Vec<Option<String>>, pub doc: Option<String> }
#[derive(Clone, Debug)]
pub struct GMember { pub desc: String, pub names: Vec<Option<String>>, pub doc: Option<String>, pub params: Vec<GParam> }
#[derive(Clone, Debug)]
pub struct GClass { pub names: Vec<Option<String>>, pub doc: Option<String>, pub fields: Vec<GMember>, pub methods: Vec<GMember> }
#[derive(Clone, Debug)]
pub struct GMappings { pub ns: Vec<String>, pub doc: Option<String>, pub classes: Vec<GClass> }

fn names_sexp(n: &[Option<String>]) -> Sexp { Sexp::list(n.iter().map(opt_s).collect()) }

impl GMappings {
	pub fn to_sexp(&self) -> Sexp {
		Sexp::list(vec![
			Sexp::list(self.ns.iter().map(|x| s(x)).collect()),
			opt_s(&self.doc),
			Sexp::list(self.classes.iter().map(|c| c.to_sexp()).collect()),
		])
	}
}
impl GClass {
	pub fn key(&self) -> String { self.names[0].clone().unwrap_or_default() }
	pub fn to_sexp(&self) -> Sexp {
		Sexp::list(vec![
			s(&self.key()), names_sexp(&self.names), opt_s(&self.doc),
			Sexp::list(self.fields.iter().map(|f| Sexp::list(vec![
				s(f.names[0].as_deref().unwrap_or("")), s(&f.desc), s(&f.desc), names_sexp(&f.names), opt_s(&f.doc)])).collect()),
			Sexp::list(self.methods.iter().map(|m| Sexp::list(vec![
				s(m.names[0].as_deref().unwrap_or("")), s(&m.desc), s(&m.desc), names_sexp(&m.names), opt_s(&m.doc),
				Sexp::list(m.params.iter().map(|p| Sexp::list(vec![
					Sexp::nat(p.index), Sexp::nat(p.index), names_sexp(&p.names), opt_s(&p.doc)])).collect())])).collect()),
		])
	}
}

pub fn field_desc(r: &mut Rng, classes: &[String], depth: usize) -> String {
	match r.below(if depth > 2 { 2 } else { 4 }) {
		0 => (*r.pick(&["I", "J", "Z", "B", "C", "S", "F", "D"])).to_owned(),
		1 | 2 => {
			let c = if !classes.is_empty() && r.chance(3, 4) { r.pick(classes).clone() } else { (*r.pick(&["java/lang/Object", "X", "un/mapped", "L", "a"])).to_owned() };
			format!("L{c};")
		}
		_ => format!("[{}", field_desc(r, classes, depth + 1)),
	}
}

pub fn method_desc(r: &mut Rng, classes: &[String]) -> String {
	let mut d = String::from("(");
	for _ in 0..r.below(3) { d.push_str(&field_desc(r, classes, 0)); }
	d.push(')');
	if r.chance(1, 3) { d.push('V'); } else { d.push_str(&field_desc(r, classes, 0)); }
	d
}

fn row(r: &mut Rng, cfg: &MapCfg, src: String, mut other: impl FnMut(&mut Rng) -> String) -> Vec<Option<String>> {
	let mut v = vec![Some(src)];
	for _ in 1..cfg.n {
		v.push(if r.chance(cfg.absent_pct, 100) { None } else { Some(other(r)) });
	}
	v
}

pub fn gen_mappings(r: &mut Rng, cfg: &MapCfg) -> GMappings {
	let all_ns = ["official", "intermediary", "named", "extra"];
	let ns: Vec<String> = all_ns[..cfg.n].iter().map(|x| (*x).to_owned()).collect();
	let nclasses = r.below(cfg.max_classes + 1);
	let mut srcs: Vec<String> = Vec::new();
	for _ in 0..nclasses {
		for _try in 0..8 {
			let name = if cfg.dummy_names && r.chance(2, 3) {
				let mut n = (*r.pick(DUMMY_CLASS)).to_owned();
				if r.chance(1, 3) { n.push_str(&r.below(5).to_string()); }
				n
			} else if !srcs.is_empty() && cfg.nest_depth > 0 && r.chance(2, 5) {
				let parent = r.pick(&srcs).clone();
				if parent.matches('$').count() >= cfg.nest_depth { continue; }
				let inner = if cfg.dummy_names && r.chance(1, 2) { (*r.pick(DUMMY_CLASS)).rsplit('/').next().unwrap_or("C_1").to_owned() } else { ident(r, cfg) };
				format!("{parent}${inner}")
			} else if !cfg.closed_nesting && r.chance(1, 6) {
				format!("{}{}${}", r.pick(PKGS), ident(r, cfg), ident(r, cfg))
			} else {
				format!("{}{}", r.pick(PKGS), ident(r, cfg))
			};
			if !srcs.contains(&name) { srcs.push(name); break; }
		}
	}
	let mut classes: Vec<GClass> = Vec::new();
	for src in &srcs {
		let nested = src.contains('$');
		let cfg2 = cfg.clone();
		let src2 = src.clone();
		let names = row(r, cfg, src.clone(), |r| {
			if cfg2.dummy_names && r.chance(2, 3) {
				let mut n = (*r.pick(DUMMY_CLASS)).to_owned();
				if r.chance(1, 3) { n.push_str(&r.below(5).to_string()); }
				n
			} else if nested && cfg2.extended_targets {
				let depth = src2.matches('$').count();
				let mut n = format!("{}{}", r.pick(PKGS), ident(r, &cfg2));
				for _ in 0..depth { n.push('$'); n.push_str(&ident(r, &cfg2)); }
				n
			} else if cfg2.dollar_targets && r.chance(1, 4) {
				format!("{}${}", ident(r, &cfg2), ident(r, &cfg2))
			} else if nested {
				ident(r, &cfg2)
			} else {
				format!("{}{}", r.pick(PKGS), ident(r, &cfg2))
			}
		});
		let mut fields: Vec<GMember> = Vec::new();
		for _ in 0..r.below(cfg.max_members + 1) {
			let name = if cfg.dummy_names && r.chance(2, 3) { (*r.pick(DUMMY_FIELD)).to_owned() } else { ident(r, cfg) };
			let desc = field_desc(r, &srcs, 0);
			if fields.iter().any(|f| f.desc == desc && f.names[0].as_deref() == Some(&name)) { continue; }
			let cfg2 = cfg.clone();
			let names = row(r, cfg, name, |r| if cfg2.dummy_names && r.chance(2, 3) { (*r.pick(DUMMY_FIELD)).to_owned() } else { ident(r, &cfg2) });
			fields.push(GMember { desc, names, doc: doc(r, cfg), params: vec![] });
		}
		let mut methods: Vec<GMember> = Vec::new();
		for _ in 0..r.below(cfg.max_members + 1) {
			let name = if cfg.dummy_names && r.chance(2, 3) { (*r.pick(DUMMY_METHOD)).to_owned() } else if r.chance(1, 8) { "<init>".to_owned() } else { ident(r, cfg) };
			let desc = method_desc(r, &srcs);
			if methods.iter().any(|f| f.desc == desc && f.names[0].as_deref() == Some(&name)) { continue; }
			let cfg2 = cfg.clone();
			let names = row(r, cfg, name, |r| if cfg2.dummy_names && r.chance(2, 3) { (*r.pick(DUMMY_METHOD)).to_owned() } else { ident(r, &cfg2) });
			let mut params: Vec<GParam> = Vec::new();
			for _ in 0..r.below(cfg.max_params + 1) {
				let index = r.below(4);
				if params.iter().any(|p| p.index == index) { continue; }
				let mut names: Vec<Option<String>> = Vec::new();
				for i in 0..cfg.n {
					let present = if i == 0 { cfg.param_src_names && r.chance(1, 3) } else { !r.chance(cfg.absent_pct, 100) };
					names.push(if present {
						Some(if cfg.dummy_names && r.chance(2, 3) { (*r.pick(DUMMY_PARAM)).to_owned() } else { ident(r, cfg) })
					} else { None });
				}
				params.push(GParam { index, names, doc: doc(r, cfg) });
			}
			methods.push(GMember { desc, names, doc: doc(r, cfg), params });
		}
		classes.push(GClass { names, doc: doc(r, cfg), fields, methods });
	}
	r.shuffle(&mut classes);
	// (drawn last so that the streams of generators that leave `top_doc_pct` at 0 are unchanged)
	let top = if cfg.top_doc_pct > 0 && r.chance(cfg.top_doc_pct, 100) { Some((*r.pick(&["set doc", "two\nlines", "", "tab\there \\ backslash"])).to_owned()) } else { None };
	GMappings { ns, doc: top, classes }
}
