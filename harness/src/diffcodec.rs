//! quill `MappingsDiff` <-> S-expression (mirror of `DiffCodec` in lean/FeatherModel/Model/Diff.lean) and the
//! specification writer of `.tinydiff` text (mirror of `TinyDiff.writeSpec` in lean/FeatherModel/Model/TinyDiff.lean;
//! the repo has a reader only).
//!   action := none | (add x) | (remove x) | (edit a b)
//!   diff   := (info doc (class…))          class := (key info doc (field…) (method…))
//!   field  := (kname kdesc info doc)       method := (kname kdesc info doc (param…))      param := (kindex info doc)
//! Maps are printed in IndexMap order.
use indexmap::IndexMap;
use java_string::JavaStr;
use duke::tree::field::FieldNameAndDesc;
use duke::tree::method::MethodNameAndDesc;
use quill::tree::mappings::{JavadocMapping, ParameterKey};
use quill::tree::mappings_diff::*;
use crate::mapcodec::{cn, fdesc, fname, mdesc, mname, pname};
use crate::sexp::{R, Sexp};

pub fn action_to<T>(a: &Action<T>, f: impl Fn(&T) -> Sexp) -> Sexp {
	match a {
		Action::None => Sexp::tag("none"),
		Action::Add(b) => Sexp::list(vec![Sexp::tag("add"), f(b)]),
		Action::Remove(a) => Sexp::list(vec![Sexp::tag("remove"), f(a)]),
		Action::Edit(a, b) => Sexp::list(vec![Sexp::tag("edit"), f(a), f(b)]),
	}
}

pub fn action_from<T>(s: &Sexp, f: impl Fn(&Sexp) -> R<T>) -> R<Action<T>> {
	match s {
		Sexp::Atom(a) if a == "none" => Ok(Action::None),
		Sexp::List(v) => match (v.first().map(|x| x.as_atom()).transpose()?, v.len()) {
			(Some("add"), 2) => Ok(Action::Add(f(&v[1])?)),
			(Some("remove"), 2) => Ok(Action::Remove(f(&v[1])?)),
			(Some("edit"), 3) => Ok(Action::Edit(f(&v[1])?, f(&v[2])?)),
			_ => Err(format!("bad action {s}")),
		},
		_ => Err(format!("bad action {s}")),
	}
}

fn doc_to(a: &Action<JavadocMapping>) -> Sexp { action_to(a, |d| Sexp::str(&d.0)) }
fn doc_from(s: &Sexp) -> R<Action<JavadocMapping>> { action_from(s, |x| Ok(JavadocMapping(x.as_string()?))) }
fn js<T: AsRef<JavaStr>>(t: &T) -> Sexp { Sexp::jstr(t.as_ref()) }

pub fn diff_to(d: &MappingsDiff) -> Sexp {
	Sexp::list(vec![
		action_to(&d.info, |s| Sexp::str(s)),
		doc_to(&d.javadoc),
		Sexp::list(d.classes.iter().map(|(k, c)| Sexp::list(vec![
			Sexp::jstr(k.as_inner()), action_to(&c.info, js), doc_to(&c.javadoc),
			Sexp::list(c.fields.iter().map(|(k, f)| Sexp::list(vec![
				Sexp::jstr(k.name.as_inner()), Sexp::jstr(k.desc.as_inner()), action_to(&f.info, js), doc_to(&f.javadoc),
			])).collect()),
			Sexp::list(c.methods.iter().map(|(k, m)| Sexp::list(vec![
				Sexp::jstr(k.name.as_inner()), Sexp::jstr(k.desc.as_inner()), action_to(&m.info, js), doc_to(&m.javadoc),
				Sexp::list(m.parameters.iter().map(|(k, p)| Sexp::list(vec![
					Sexp::nat(k.index), action_to(&p.info, js), doc_to(&p.javadoc),
				])).collect()),
			])).collect()),
		])).collect()),
	])
}

pub fn diff_from(s: &Sexp) -> R<MappingsDiff> {
	let [info, doc, classes] = s.as_list()? else { return Err("diff: expected 3 items".into()) };
	let mut cmap = IndexMap::new();
	for c in classes.as_list()? {
		let [k, info, doc, fields, methods] = c.as_list()? else { return Err("class diff: expected 5 items".into()) };
		let mut fmap = IndexMap::new();
		for f in fields.as_list()? {
			let [kn, kd, info, doc] = f.as_list()? else { return Err("field diff: expected 4 items".into()) };
			let key = FieldNameAndDesc { name: fname(kn.as_jstring()?), desc: fdesc(kd.as_jstring()?) };
			let node = FieldNowodeDiff { info: action_from(info, |x| Ok(fname(x.as_jstring()?)))?, javadoc: doc_from(doc)? };
			if fmap.insert(key, node).is_some() { return Err("duplicate field key in diff".into()); }
		}
		let mut mmap = IndexMap::new();
		for m in methods.as_list()? {
			let [kn, kd, info, doc, params] = m.as_list()? else { return Err("method diff: expected 5 items".into()) };
			let key = MethodNameAndDesc { name: mname(kn.as_jstring()?), desc: mdesc(kd.as_jstring()?) };
			let mut pmap = IndexMap::new();
			for p in params.as_list()? {
				let [ki, info, doc] = p.as_list()? else { return Err("param diff: expected 3 items".into()) };
				let node = ParameterNowodeDiff { info: action_from(info, |x| Ok(pname(x.as_jstring()?)))?, javadoc: doc_from(doc)? };
				if pmap.insert(ParameterKey { index: ki.as_nat()? }, node).is_some() { return Err("duplicate param key in diff".into()); }
			}
			let node = MethodNowodeDiff { info: action_from(info, |x| Ok(mname(x.as_jstring()?)))?, parameters: pmap, javadoc: doc_from(doc)? };
			if mmap.insert(key, node).is_some() { return Err("duplicate method key in diff".into()); }
		}
		let node = ClassNowodeDiff { info: action_from(info, |x| Ok(cn(x.as_jstring()?)))?, fields: fmap, methods: mmap, javadoc: doc_from(doc)? };
		if cmap.insert(cn(k.as_jstring()?), node).is_some() { return Err("duplicate class key in diff".into()); }
	}
	Ok(MappingsDiff { info: action_from(info, |x| x.as_string())?, classes: cmap, javadoc: doc_from(doc)? })
}

// ---------------------------------------------------------------- specification writer (code points)

fn cps<T: AsRef<JavaStr>>(t: &T) -> Vec<u32> { t.as_ref().chars().map(|c| c.as_u32()).collect() }
fn str_cps(s: &str) -> Vec<u32> { s.chars().map(|c| c as u32).collect() }

/// `escape` of quill/src/tiny_v2.rs: backslash, LF, CR and TAB become backslash-backslash, backslash-n, backslash-r, backslash-t
fn escape(s: &[u32]) -> Vec<u32> {
	let mut out = Vec::new();
	for &c in s {
		match c {
			92 => { out.push(92); out.push(92); }
			10 => { out.push(92); out.push(110); }
			13 => { out.push(92); out.push(114); }
			9 => { out.push(92); out.push(116); }
			_ => out.push(c),
		}
	}
	out
}

fn action_cells<T>(a: &Action<T>, f: impl Fn(&T) -> Vec<u32>) -> [Vec<u32>; 2] {
	match a {
		Action::None => [vec![], vec![]],
		Action::Add(b) => [vec![], f(b)],
		Action::Remove(a) => [f(a), vec![]],
		Action::Edit(a, b) => [f(a), f(b)],
	}
}

fn row(out: &mut Vec<u32>, idents: usize, cells: &[Vec<u32>]) {
	for _ in 0..idents { out.push(9); }
	for (i, c) in cells.iter().enumerate() {
		if i > 0 { out.push(9); }
		out.extend_from_slice(c);
	}
	out.push(10);
}

fn doc_row(out: &mut Vec<u32>, idents: usize, a: &Action<JavadocMapping>) {
	if matches!(a, Action::None) { return; }
	let [x, y] = action_cells(a, |d| escape(&str_cps(&d.0)));
	row(out, idents, &[str_cps("c"), x, y]);
}

/// Specification text of a diff as code points: header `tiny 2 0`; per class `c key a b`, its comment `c a b` one level
/// deeper (only when there is an action), then its fields `f desc name a b`, then its methods `m desc name a b` with
/// their parameters `p index <empty> a b`; an absent side of an action is an empty cell; comments are escaped.
pub fn write_spec(d: &MappingsDiff) -> Vec<u32> {
	let mut out = Vec::new();
	row(&mut out, 0, &[str_cps("tiny"), str_cps("2"), str_cps("0")]);
	for (k, c) in &d.classes {
		let [a, b] = action_cells(&c.info, cps);
		row(&mut out, 0, &[str_cps("c"), cps(k), a, b]);
		doc_row(&mut out, 1, &c.javadoc);
		for (k, f) in &c.fields {
			let [a, b] = action_cells(&f.info, cps);
			row(&mut out, 1, &[str_cps("f"), cps(&k.desc), cps(&k.name), a, b]);
			doc_row(&mut out, 2, &f.javadoc);
		}
		for (k, m) in &c.methods {
			let [a, b] = action_cells(&m.info, cps);
			row(&mut out, 1, &[str_cps("m"), cps(&k.desc), cps(&k.name), a, b]);
			doc_row(&mut out, 2, &m.javadoc);
			for (k, p) in &m.parameters {
				let [a, b] = action_cells(&p.info, cps);
				row(&mut out, 2, &[str_cps("p"), str_cps(&k.index.to_string()), vec![], a, b]);
				doc_row(&mut out, 3, &p.javadoc);
			}
		}
	}
	out
}
