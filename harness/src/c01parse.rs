//! C01: independent parser of class-file bytes into the harness' semantic description (`c01model::GClass`).
//! Written from JVMS §4 only; it shares no code with duke or raw_class_file.  Labels become instruction positions
//! directly (offset -> index of the instruction starting there, `n` for `code_length`); an offset that is not an
//! instruction boundary makes the file malformed (`Err`).  Known attributes must consume exactly their declared
//! length.
use std::collections::HashMap;
use crate::c01model::*;

type R<T> = Result<T, String>;

struct Rd<'a> { b: &'a [u8], i: usize }
impl<'a> Rd<'a> {
	fn take(&mut self, n: usize) -> R<&'a [u8]> {
		if self.i + n > self.b.len() { return Err("eof".into()); }
		let s = &self.b[self.i..self.i + n]; self.i += n; Ok(s)
	}
	fn u8(&mut self) -> R<u8> { Ok(self.take(1)?[0]) }
	fn u16(&mut self) -> R<u16> { let s = self.take(2)?; Ok(u16::from_be_bytes([s[0], s[1]])) }
	fn u32(&mut self) -> R<u32> { let s = self.take(4)?; Ok(u32::from_be_bytes([s[0], s[1], s[2], s[3]])) }
	fn i32(&mut self) -> R<i32> { Ok(self.u32()? as i32) }
	fn u64(&mut self) -> R<u64> { let s = self.take(8)?; Ok(u64::from_be_bytes(s.try_into().unwrap())) }
}

#[derive(Clone, Debug)]
enum Cp {
	Utf8(Js), Int(i32), Float(u32), Long(i64), Double(u64), Class(u16), Str(u16), FieldRef(u16, u16), MethodRef(u16, u16), IfaceMethodRef(u16, u16),
	NameAndType(u16, u16), Handle(u8, u16), MType(u16), Dynamic(u16, u16), InvokeDynamic(u16, u16), Module(u16), Package(u16), Hole,
}

pub struct Pool { e: Vec<Cp> }

fn unq(x: &Js) -> bool { !x.is_empty() && x.iter().all(|&c| c != '.' as u32 && c != ';' as u32 && c != '[' as u32 && c != '/' as u32) }
fn class_name_ok(x: &Js, allow_array: bool) -> bool {
	if x.first() == Some(&('[' as u32)) {
		// JVMS 4.2.1: an array class name is an array field descriptor (at most 255 dimensions)
		if !allow_array { return false; }
		let dims = x.iter().take_while(|&&c| c == '[' as u32).count();
		let rest = &x[dims..];
		if dims > 255 || rest.is_empty() { return false; }
		let c = char::from_u32(rest[0]).unwrap_or(' ');
		if "BCDFIJSZ".contains(c) { return rest.len() == 1; }
		if c != 'L' || *rest.last().unwrap() != ';' as u32 { return false; }
		let name = &rest[1..rest.len() - 1];
		return !name.contains(&(';' as u32)) && class_name_ok(&name.to_vec(), false);
	}
	x.split(|&c| c == '/' as u32).all(|seg| unq(&seg.to_vec()))
}
fn method_name_ok(x: &Js) -> bool {
	*x == js("<init>") || *x == js("<clinit>") || (unq(x) && x.iter().all(|&c| c != '<' as u32 && c != '>' as u32))
}

impl Pool {
	fn get(&self, i: u16) -> R<&Cp> { match self.e.get(i as usize) { Some(Cp::Hole) | None => Err(format!("bad pool index {i}")), Some(c) => Ok(c) } }
	fn utf8(&self, i: u16) -> R<Js> { match self.get(i)? { Cp::Utf8(s) => Ok(s.clone()), o => Err(format!("not utf8: {o:?}")) } }
	fn opt_utf8(&self, i: u16) -> R<Option<Js>> { if i == 0 { Ok(None) } else { Ok(Some(self.utf8(i)?)) } }
	fn class(&self, i: u16) -> R<Js> {
		match self.get(i)? { Cp::Class(n) => { let s = self.utf8(*n)?; if class_name_ok(&s, true) { Ok(s) } else { Err("bad class name".into()) } } o => Err(format!("not class: {o:?}")) }
	}
	fn obj_class(&self, i: u16) -> R<Js> { let s = self.class(i)?; if class_name_ok(&s, false) { Ok(s) } else { Err("array class name".into()) } }
	fn opt_class(&self, i: u16) -> R<Option<Js>> { if i == 0 { Ok(None) } else { Ok(Some(self.class(i)?)) } }
	fn module(&self, i: u16) -> R<Js> { match self.get(i)? { Cp::Module(n) => self.utf8(*n), o => Err(format!("not module: {o:?}")) } }
	fn package(&self, i: u16) -> R<Js> { match self.get(i)? { Cp::Package(n) => self.utf8(*n), o => Err(format!("not package: {o:?}")) } }
	fn nat(&self, i: u16) -> R<(Js, Js)> { match self.get(i)? { Cp::NameAndType(n, d) => Ok((self.utf8(*n)?, self.utf8(*d)?)), o => Err(format!("not nat: {o:?}")) } }
	fn field_ref(&self, i: u16) -> R<GRef> {
		match self.get(i)? {
			Cp::FieldRef(c, nt) => { let (name, desc) = self.nat(*nt)?; if !unq(&name) { return Err("bad field name".into()); } Ok(GRef { cls: self.obj_class(*c)?, name, desc }) }
			o => Err(format!("not fieldref: {o:?}")),
		}
	}
	/// (ref, is InterfaceMethodref)
	fn any_method_ref(&self, i: u16) -> R<(GRef, bool)> {
		let (c, nt, itf) = match self.get(i)? { Cp::MethodRef(c, nt) => (*c, *nt, false), Cp::IfaceMethodRef(c, nt) => (*c, *nt, true), o => return Err(format!("not methodref: {o:?}")) };
		let (name, desc) = self.nat(nt)?;
		if !method_name_ok(&name) { return Err("bad method name".into()); }
		Ok((GRef { cls: self.class(c)?, name, desc }, itf))
	}
	fn method_ref(&self, i: u16, want_itf: bool) -> R<GRef> { let (r, itf) = self.any_method_ref(i)?; if itf == want_itf { Ok(r) } else { Err("wrong methodref kind".into()) } }
	fn handle(&self, i: u16) -> R<GHandle> {
		match self.get(i)? {
			Cp::Handle(kind, r) => match kind {
				1..=4 => Ok(GHandle { kind: *kind, r: self.field_ref(*r)?, itf: false }),
				5 | 8 => Ok(GHandle { kind: *kind, r: self.method_ref(*r, false)?, itf: false }),
				6 | 7 => { let (r, itf) = self.any_method_ref(*r)?; Ok(GHandle { kind: *kind, r, itf }) }
				9 => Ok(GHandle { kind: *kind, r: self.method_ref(*r, true)?, itf: false }),
				_ => Err("bad handle kind".into()),
			},
			o => Err(format!("not handle: {o:?}")),
		}
	}
	fn loadable(&self, i: u16, bsms: &Option<Vec<(u16, Vec<u16>)>>, depth: usize) -> R<GLoadable> {
		// deliberate limit of the reader (duke cb2ce34): MAX_BOOTSTRAP_ARGUMENT_DEPTH = 16
		if depth > 16 { return Err("bootstrap arguments nested deeper than 16 levels (cyclic?)".into()); }
		Ok(match self.get(i)? {
			Cp::Int(v) => GLoadable::Int(*v), Cp::Float(v) => GLoadable::Float(*v), Cp::Long(v) => GLoadable::Long(*v), Cp::Double(v) => GLoadable::Double(*v),
			Cp::Class(_) => GLoadable::Cls(self.class(i)?), Cp::Str(n) => GLoadable::Str(self.utf8(*n)?), Cp::Handle(..) => GLoadable::Handle(self.handle(i)?),
			Cp::MType(d) => GLoadable::MType(self.utf8(*d)?),
			Cp::Dynamic(b, nt) => {
				let (name, desc) = self.nat(*nt)?;
				if !unq(&name) { return Err("bad dynamic name".into()); }
				let (h, args) = self.bsm(*b, bsms, depth)?;
				GLoadable::Dyn { name, desc, handle: h, args }
			}
			o => return Err(format!("not loadable: {o:?}")),
		})
	}
	fn bsm(&self, b: u16, bsms: &Option<Vec<(u16, Vec<u16>)>>, depth: usize) -> R<(GHandle, Vec<GLoadable>)> {
		let t = bsms.as_ref().ok_or("no BootstrapMethods")?;
		let (h, args) = t.get(b as usize).ok_or("bad bootstrap index")?;
		let mut a = Vec::new();
		for x in args { a.push(self.loadable(*x, bsms, depth + 1)?); }
		Ok((self.handle(*h)?, a))
	}
	/// true when some `Dynamic` constant reaches itself through bootstrap arguments (duke recurses without bound)
	pub fn has_dynamic_cycle(&self, bsms: &Option<Vec<(u16, Vec<u16>)>>) -> bool {
		let Some(t) = bsms else { return false };
		// colour DFS over Dynamic entries
		fn visit(p: &Pool, t: &[(u16, Vec<u16>)], i: usize, state: &mut HashMap<usize, u8>) -> bool {
			match state.get(&i) { Some(1) => return true, Some(2) => return false, _ => {} }
			state.insert(i, 1);
			if let Some(Cp::Dynamic(b, _)) = p.e.get(i) {
				if let Some((_, args)) = t.get(*b as usize) {
					for a in args { if matches!(p.e.get(*a as usize), Some(Cp::Dynamic(..))) && visit(p, t, *a as usize, state) { return true; } }
				}
			}
			state.insert(i, 2);
			false
		}
		let mut state = HashMap::new();
		(0..self.e.len()).any(|i| matches!(self.e[i], Cp::Dynamic(..)) && visit(self, t, i, &mut state))
	}
}

fn read_pool(r: &mut Rd) -> R<Pool> {
	let count = r.u16()? as usize;
	let mut e = vec![Cp::Hole];
	while e.len() < count {
		let tag = r.u8()?;
		let c = match tag {
			1 => { let n = r.u16()? as usize; Cp::Utf8(mutf8_decode(r.take(n)?)?) }
			3 => Cp::Int(r.i32()?), 4 => Cp::Float(r.u32()?), 5 => Cp::Long(r.u64()? as i64), 6 => Cp::Double(r.u64()?),
			7 => Cp::Class(r.u16()?), 8 => Cp::Str(r.u16()?),
			9 => Cp::FieldRef(r.u16()?, r.u16()?), 10 => Cp::MethodRef(r.u16()?, r.u16()?), 11 => Cp::IfaceMethodRef(r.u16()?, r.u16()?),
			12 => Cp::NameAndType(r.u16()?, r.u16()?), 15 => Cp::Handle(r.u8()?, r.u16()?), 16 => Cp::MType(r.u16()?),
			17 => Cp::Dynamic(r.u16()?, r.u16()?), 18 => Cp::InvokeDynamic(r.u16()?, r.u16()?), 19 => Cp::Module(r.u16()?), 20 => Cp::Package(r.u16()?),
			t => return Err(format!("bad tag {t}")),
		};
		let wide = matches!(c, Cp::Long(_) | Cp::Double(_));
		e.push(c);
		if wide { e.push(Cp::Hole); }
	}
	Ok(Pool { e })
}

struct Ctx<'a> { p: &'a Pool, bsms: Option<Vec<(u16, Vec<u16>)>> }

fn elem(r: &mut Rd, p: &Pool, depth: usize) -> R<GElem> {
	// deliberate limit of the reader (duke 835fdd2): MAX_ELEMENT_VALUE_DEPTH = 255, checked when a level is entered
	let enter = |d: usize| -> R<usize> { if d + 1 > 255 { Err("element values nested deeper than 255 levels".into()) } else { Ok(d + 1) } };
	let tag = r.u8()?;
	let int_at = |p: &Pool, i: u16| -> R<i32> { match p.get(i)? { Cp::Int(v) => Ok(*v), o => Err(format!("not int: {o:?}")) } };
	Ok(match tag {
		b'B' => GElem::Const(tag, int_at(p, r.u16()?)? as i8 as i64),
		b'C' => GElem::Const(tag, int_at(p, r.u16()?)? as u16 as i64),
		b'S' => GElem::Const(tag, int_at(p, r.u16()?)? as i16 as i64),
		b'I' => GElem::Const(tag, int_at(p, r.u16()?)? as i64),
		b'Z' => GElem::Const(tag, (int_at(p, r.u16()?)? != 0) as i64),
		b'D' => match p.get(r.u16()?)? { Cp::Double(v) => GElem::Const(tag, *v as i64), o => return Err(format!("not double: {o:?}")) },
		b'F' => match p.get(r.u16()?)? { Cp::Float(v) => GElem::Const(tag, *v as i64), o => return Err(format!("not float: {o:?}")) },
		b'J' => match p.get(r.u16()?)? { Cp::Long(v) => GElem::Const(tag, *v), o => return Err(format!("not long: {o:?}")) },
		b's' => GElem::Str(p.utf8(r.u16()?)?),
		b'e' => GElem::Enum(p.utf8(r.u16()?)?, p.utf8(r.u16()?)?),
		b'c' => GElem::Cls(p.utf8(r.u16()?)?),
		b'@' => { let ty = p.utf8(r.u16()?)?; let d = enter(depth)?; GElem::Anno(anno_pairs(r, p, ty, d)?) }
		b'[' => { let d = enter(depth)?; let n = r.u16()?; let mut v = Vec::new(); for _ in 0..n { v.push(elem(r, p, d)?); } GElem::Arr(v) }
		t => return Err(format!("bad element tag {t}")),
	})
}

fn anno(r: &mut Rd, p: &Pool, depth: usize) -> R<GAnno> {
	let ty = p.utf8(r.u16()?)?;
	anno_pairs(r, p, ty, depth)
}

fn anno_pairs(r: &mut Rd, p: &Pool, ty: Js, depth: usize) -> R<GAnno> {
	let n = r.u16()?;
	let mut pairs = Vec::new();
	for _ in 0..n { let name = p.utf8(r.u16()?)?; pairs.push((name, elem(r, p, depth)?)); }
	Ok(GAnno { ty, pairs })
}

fn annos(body: &[u8], p: &Pool) -> R<Vec<GAnno>> {
	let mut r = Rd { b: body, i: 0 };
	let n = r.u16()?;
	let mut v = Vec::new();
	for _ in 0..n { v.push(anno(&mut r, p, 0)?); }
	exact(&r)?;
	Ok(v)
}

fn exact(r: &Rd) -> R<()> { if r.i == r.b.len() { Ok(()) } else { Err(format!("attribute length mismatch: consumed {} of {}", r.i, r.b.len())) } }

#[derive(Clone, Copy, PartialEq)]
enum Owner { Class, Field, Method, Code }

fn type_annos(body: &[u8], p: &Pool, owner: Owner, at: &dyn Fn(u16) -> R<usize>) -> R<Vec<GTypeAnno>> {
	let mut r = Rd { b: body, i: 0 };
	let n = r.u16()?;
	let mut v = Vec::new();
	for _ in 0..n {
		let tag = r.u8()?;
		let target = match (owner, tag) {
			(Owner::Class, 0x00) | (Owner::Method, 0x01) => GTarget::TypeParam(tag, r.u8()?),
			(Owner::Class, 0x10) => { let i = r.u16()?; if i == 65535 { GTarget::Extends } else { GTarget::Implements(i) } }
			(Owner::Class, 0x11) | (Owner::Method, 0x12) => GTarget::TypeParamBound(tag, r.u8()?, r.u8()?),
			(Owner::Field, 0x13) => GTarget::Field,
			(Owner::Method, 0x14) => GTarget::Ret,
			(Owner::Method, 0x15) => GTarget::Receiver,
			(Owner::Method, 0x16) => GTarget::FormalParam(r.u8()?),
			(Owner::Method, 0x17) => GTarget::Throws(r.u16()?),
			(Owner::Code, 0x40) | (Owner::Code, 0x41) => {
				let n = r.u16()?;
				let mut t = Vec::new();
				for _ in 0..n {
					let start = r.u16()?; let len = r.u16()?; let idx = r.u16()?;
					let end = start.checked_add(len).ok_or("local var range overflow")?;
					t.push((at(start)?, at(end)?, idx));
				}
				GTarget::LocalVar(tag, t)
			}
			(Owner::Code, 0x42) => GTarget::ExceptionParam(r.u16()?),
			(Owner::Code, 0x43..=0x46) => GTarget::Offset(tag, at(r.u16()?)?),
			(Owner::Code, 0x47..=0x4b) => { let o = r.u16()?; GTarget::OffsetArg(tag, at(o)?, r.u8()?) }
			_ => return Err(format!("bad target_type {tag:#x}")),
		};
		let plen = r.u8()?;
		let mut path = Vec::new();
		for _ in 0..plen {
			let k = r.u8()?; let i = r.u8()?;
			if k > 3 || (k < 3 && i != 0) { return Err("bad type path".into()); }
			path.push((k, i));
		}
		v.push(GTypeAnno { target, path, anno: anno(&mut r, p, 0)? });
	}
	exact(&r)?;
	Ok(v)
}

fn vtype(r: &mut Rd, p: &Pool, at: &dyn Fn(u16) -> R<usize>) -> R<GVType> {
	Ok(match r.u8()? {
		0 => GVType::Top, 1 => GVType::Int, 2 => GVType::Float, 3 => GVType::Double, 4 => GVType::Long, 5 => GVType::Null, 6 => GVType::UninitThis,
		7 => GVType::Object(p.class(r.u16()?)?),
		8 => GVType::Uninit(at(r.u16()?)?),
		t => return Err(format!("bad verification type {t}")),
	})
}

fn simple_op(op: u8) -> bool {
	matches!(op, 0x00..=0x0f | 0x2e..=0x35 | 0x4f..=0x83 | 0x85..=0x98 | 0xac..=0xb1 | 0xbe | 0xbf | 0xc2 | 0xc3)
}

/// raw instruction with byte offsets as targets
enum Raw { I(GInsn), Br(u8, i64), Goto(i64), Jsr(i64), Table(i64, i32, i32, Vec<i64>), Lookup(i64, Vec<(i32, i64)>) }

fn code(body: &[u8], cx: &Ctx) -> R<GCode> {
	let p = cx.p;
	let mut r = Rd { b: body, i: 0 };
	let max_stack = r.u16()?; let max_locals = r.u16()?;
	let len = r.u32()? as usize;
	if len == 0 || len > 65535 { return Err("bad code_length".into()); }
	let bc = r.take(len)?;
	let mut c = Rd { b: bc, i: 0 };
	let mut raws: Vec<(usize, Raw)> = Vec::new();
	while c.i < len {
		let at = c.i;
		let op = c.u8()?;
		let abs = |off: i64| -> i64 { at as i64 + off };
		let raw = match op {
			_ if simple_op(op) => Raw::I(GInsn::Simple(op)),
			0x10 => Raw::I(GInsn::BiPush(c.u8()? as i8)),
			0x11 => Raw::I(GInsn::SiPush(c.u16()? as i16)),
			0x12 => { let i = c.u8()? as u16; Raw::I(GInsn::Ldc(p.loadable(i, &cx.bsms, 0)?)) }
			0x13 | 0x14 => { let i = c.u16()?; Raw::I(GInsn::Ldc(p.loadable(i, &cx.bsms, 0)?)) }
			0x15..=0x19 => Raw::I(GInsn::Load(op - 0x15, c.u8()? as u16)),
			0x1a..=0x2d => Raw::I(GInsn::Load((op - 0x1a) / 4, ((op - 0x1a) % 4) as u16)),
			0x36..=0x3a => Raw::I(GInsn::Store(op - 0x36, c.u8()? as u16)),
			0x3b..=0x4e => Raw::I(GInsn::Store((op - 0x3b) / 4, ((op - 0x3b) % 4) as u16)),
			0x84 => { let i = c.u8()? as u16; Raw::I(GInsn::IInc(i, c.u8()? as i8 as i16)) }
			0x99..=0xa6 | 0xc6 | 0xc7 => Raw::Br(op, abs(c.u16()? as i16 as i64)),
			0xa7 => Raw::Goto(abs(c.u16()? as i16 as i64)),
			0xa8 => Raw::Jsr(abs(c.u16()? as i16 as i64)),
			0xc8 => Raw::Goto(abs(c.i32()? as i64)),
			0xc9 => Raw::Jsr(abs(c.i32()? as i64)),
			0xa9 => Raw::I(GInsn::Ret(c.u8()? as u16)),
			0xaa => {
				while c.i % 4 != 0 { c.u8()?; }
				let d = abs(c.i32()? as i64); let low = c.i32()?; let high = c.i32()?;
				if low > high { return Err("tableswitch low > high".into()); }
				let n = high as i64 - low as i64 + 1;
				if n > 65536 { return Err("tableswitch too large".into()); }
				let mut t = Vec::new();
				for _ in 0..n { t.push(abs(c.i32()? as i64)); }
				Raw::Table(d, low, high, t)
			}
			0xab => {
				while c.i % 4 != 0 { c.u8()?; }
				let d = abs(c.i32()? as i64); let n = c.i32()?;
				if !(0..=65536).contains(&n) { return Err("lookupswitch npairs".into()); }
				let mut t = Vec::new();
				for _ in 0..n { let k = c.i32()?; t.push((k, abs(c.i32()? as i64))); }
				Raw::Lookup(d, t)
			}
			0xb2..=0xb5 => Raw::I(GInsn::Field(op, p.field_ref(c.u16()?)?)),
			0xb6 => Raw::I(GInsn::InvokeVirtual(p.method_ref(c.u16()?, false)?)),
			0xb7 => { let (m, itf) = p.any_method_ref(c.u16()?)?; Raw::I(GInsn::InvokeSpecial(m, itf)) }
			0xb8 => { let (m, itf) = p.any_method_ref(c.u16()?)?; Raw::I(GInsn::InvokeStatic(m, itf)) }
			0xb9 => { let m = p.method_ref(c.u16()?, true)?; c.u8()?; c.u8()?; Raw::I(GInsn::InvokeInterface(m)) }
			0xba => {
				let i = c.u16()?; c.u8()?; c.u8()?;
				match p.get(i)? {
					Cp::InvokeDynamic(b, nt) => {
						let (name, desc) = p.nat(*nt)?;
						if !method_name_ok(&name) { return Err("bad indy name".into()); }
						let (handle, args) = p.bsm(*b, &cx.bsms, 0)?;
						Raw::I(GInsn::InvokeDynamic { name, desc, handle, args })
					}
					o => return Err(format!("not invokedynamic: {o:?}")),
				}
			}
			0xbb => Raw::I(GInsn::New(p.class(c.u16()?)?)),
			0xbc => { let a = c.u8()?; if !(4..=11).contains(&a) { return Err("bad atype".into()); } Raw::I(GInsn::NewArray(a)) }
			0xbd => Raw::I(GInsn::ANewArray(p.class(c.u16()?)?)),
			0xc0 => Raw::I(GInsn::CheckCast(p.class(c.u16()?)?)),
			0xc1 => Raw::I(GInsn::InstanceOf(p.class(c.u16()?)?)),
			0xc4 => {
				let w = c.u8()?;
				match w {
					0x15..=0x19 => Raw::I(GInsn::Load(w - 0x15, c.u16()?)),
					0x36..=0x3a => Raw::I(GInsn::Store(w - 0x36, c.u16()?)),
					0xa9 => Raw::I(GInsn::Ret(c.u16()?)),
					0x84 => { let i = c.u16()?; Raw::I(GInsn::IInc(i, c.u16()? as i16)) }
					_ => return Err("bad wide".into()),
				}
			}
			0xc5 => { let k = p.class(c.u16()?)?; Raw::I(GInsn::MultiANewArray(k, c.u8()?)) }
			o => return Err(format!("bad opcode {o:#x}")),
		};
		raws.push((at, raw));
	}
	let n = raws.len();
	let mut index: HashMap<usize, usize> = raws.iter().enumerate().map(|(k, (at, _))| (*at, k)).collect();
	index.insert(len, n);
	let insn_at = |off: i64| -> R<usize> {
		if off < 0 { return Err("negative target".into()); }
		match index.get(&(off as usize)) { Some(k) if *k < n => Ok(*k), _ => Err(format!("offset {off} is not an instruction")) }
	};
	let at = |off: u16| -> R<usize> { insn_at(off as i64) };
	let at_or_end = |off: u16| -> R<usize> { index.get(&(off as usize)).copied().ok_or_else(|| format!("offset {off} is not a boundary")) };
	let mut insns: Vec<(Option<GFrame>, GInsn)> = Vec::new();
	for (_, raw) in raws.iter() {
		insns.push((None, match raw {
			Raw::I(i) => i.clone(),
			Raw::Br(op, t) => GInsn::Branch(*op, insn_at(*t)?),
			Raw::Goto(t) => GInsn::Goto(insn_at(*t)?),
			Raw::Jsr(t) => GInsn::Jsr(insn_at(*t)?),
			Raw::Table(d, low, high, t) => GInsn::TableSwitch { dflt: insn_at(*d)?, low: *low, high: *high, table: t.iter().map(|x| insn_at(*x)).collect::<R<_>>()? },
			Raw::Lookup(d, t) => GInsn::LookupSwitch { dflt: insn_at(*d)?, pairs: t.iter().map(|(k, x)| Ok((*k, insn_at(*x)?))).collect::<R<_>>()? },
		}));
	}
	let mut g = GCode { max_stack, max_locals, ..Default::default() };
	let ne = r.u16()?;
	for _ in 0..ne {
		let (a, b, h, ct) = (r.u16()?, r.u16()?, r.u16()?, r.u16()?);
		g.exceptions.push((at(a)?, at_or_end(b)?, at(h)?, p.opt_class(ct)?));
	}
	let na = r.u16()?;
	let mut had_frames = false;
	for _ in 0..na {
		let name = p.utf8(r.u16()?)?;
		let alen = r.u32()? as usize;
		let body = r.take(alen)?;
		let mut a = Rd { b: body, i: 0 };
		let nm: String = name.iter().filter_map(|c| char::from_u32(*c)).collect();
		match nm.as_str() {
			"StackMapTable" => {
				if had_frames { return Err("two StackMapTable".into()); }
				had_frames = true;
				let cnt = a.u16()?;
				let mut off: i64 = -1;
				for _ in 0..cnt {
					let t = a.u8()?;
					let (delta, fr) = match t {
						0..=63 => (t as u16, GFrame::Same),
						64..=127 => (t as u16 - 64, GFrame::Same1(vtype(&mut a, p, &at)?)),
						247 => { let d = a.u16()?; (d, GFrame::Same1(vtype(&mut a, p, &at)?)) }
						248..=250 => (a.u16()?, GFrame::Chop(251 - t)),
						251 => (a.u16()?, GFrame::Same),
						252..=254 => { let d = a.u16()?; let mut v = Vec::new(); for _ in 0..(t - 251) { v.push(vtype(&mut a, p, &at)?); } (d, GFrame::Append(v)) }
						255 => {
							let d = a.u16()?;
							let nl = a.u16()?; let mut l = Vec::new(); for _ in 0..nl { l.push(vtype(&mut a, p, &at)?); }
							let ns = a.u16()?; let mut st = Vec::new(); for _ in 0..ns { st.push(vtype(&mut a, p, &at)?); }
							(d, GFrame::Full(l, st))
						}
						_ => return Err(format!("bad frame type {t}")),
					};
					off += delta as i64 + 1;
					let k = insn_at(off)?;
					if insns[k].0.is_some() { return Err("two frames at one instruction".into()); }
					insns[k].0 = Some(fr);
				}
				exact(&a)?;
			}
			"LineNumberTable" => {
				let cnt = a.u16()?;
				let t = g.lines.get_or_insert_with(Vec::new);
				for _ in 0..cnt { let o = a.u16()?; t.push((at(o)?, a.u16()?)); }
				exact(&a)?;
			}
			"LocalVariableTable" | "LocalVariableTypeTable" => {
				let is_type = nm == "LocalVariableTypeTable";
				let cnt = a.u16()?;
				let t = g.locals.get_or_insert_with(Vec::new);
				for _ in 0..cnt {
					let start = a.u16()?; let l = a.u16()?;
					let end = start.checked_add(l).ok_or("local variable range overflow")?;
					let name = p.utf8(a.u16()?)?; let d = p.utf8(a.u16()?)?; let index = a.u16()?;
					if !unq(&name) { return Err("bad local variable name".into()); }
					t.push(GLv { start: at(start)?, end: at_or_end(end)?, name, desc: if is_type { None } else { Some(d.clone()) }, sig: if is_type { Some(d) } else { None }, index });
				}
				exact(&a)?;
			}
			"RuntimeVisibleTypeAnnotations" => g.rvta.extend(type_annos_code(body, p, &at, &at_or_end)?),
			"RuntimeInvisibleTypeAnnotations" => g.ritva.extend(type_annos_code(body, p, &at, &at_or_end)?),
			"StackMap" => return Err("CLDC StackMap attribute: outside the independent parser".into()),
			_ => g.attrs.push((name, body.to_vec())),
		}
	}
	exact(&r)?;
	g.insns = insns;
	Ok(g)
}

fn type_annos_code(body: &[u8], p: &Pool, at: &dyn Fn(u16) -> R<usize>, at_or_end: &dyn Fn(u16) -> R<usize>) -> R<Vec<GTypeAnno>> {
	// local variable ranges may end at code_length: resolve range ends with `at_or_end`
	// (type_annos() calls `at` for both ends, so give it the permissive resolver and re-check starts here)
	let v = type_annos(body, p, Owner::Code, at_or_end)?;
	let _ = at;
	Ok(v)
}

struct Member { access: u16, name: Js, desc: Js, attrs: Vec<(Js, Vec<u8>)> }

fn members(r: &mut Rd, p: &Pool) -> R<Vec<Member>> {
	let n = r.u16()?;
	let mut v = Vec::new();
	for _ in 0..n {
		let access = r.u16()?; let name = p.utf8(r.u16()?)?; let desc = p.utf8(r.u16()?)?;
		v.push(Member { access, name, desc, attrs: raw_attrs(r, p)? });
	}
	Ok(v)
}

fn raw_attrs(r: &mut Rd, p: &Pool) -> R<Vec<(Js, Vec<u8>)>> {
	let n = r.u16()?;
	let mut v = Vec::new();
	for _ in 0..n { let name = p.utf8(r.u16()?)?; let len = r.u32()? as usize; v.push((name, r.take(len)?.to_vec())); }
	Ok(v)
}

fn name_of(n: &Js) -> String { n.iter().filter_map(|c| char::from_u32(*c)).collect() }
fn set_once<T>(slot: &mut Option<T>, v: T, what: &str) -> R<()> { if slot.is_some() { Err(format!("two {what} attributes")) } else { *slot = Some(v); Ok(()) } }
fn u16_body(b: &[u8]) -> R<u16> { if b.len() == 2 { Ok(u16::from_be_bytes([b[0], b[1]])) } else { Err("attribute length must be 2".into()) } }
fn class_list(b: &[u8], p: &Pool) -> R<Vec<Js>> {
	let mut r = Rd { b, i: 0 };
	let n = r.u16()?;
	let mut v = Vec::new();
	for _ in 0..n { v.push(p.class(r.u16()?)?); }
	exact(&r)?;
	Ok(v)
}

fn module(b: &[u8], p: &Pool) -> R<GModule> {
	let mut r = Rd { b, i: 0 };
	let mut m = GModule { name: p.module(r.u16()?)?, flags: r.u16()? & 0x9020, version: p.opt_utf8(r.u16()?)?, ..Default::default() };
	for _ in 0..r.u16()? { let n = p.module(r.u16()?)?; let f = r.u16()? & 0x9060; m.requires.push((n, f, p.opt_utf8(r.u16()?)?)); }
	for which in 0..2 {
		for _ in 0..r.u16()? {
			let n = p.package(r.u16()?)?; let f = r.u16()? & 0x9000;
			let mut to = Vec::new();
			for _ in 0..r.u16()? { to.push(p.module(r.u16()?)?); }
			if which == 0 { m.exports.push((n, f, to)); } else { m.opens.push((n, f, to)); }
		}
	}
	for _ in 0..r.u16()? { m.uses.push(p.class(r.u16()?)?); }
	for _ in 0..r.u16()? {
		let n = p.class(r.u16()?)?;
		let mut w = Vec::new();
		for _ in 0..r.u16()? { w.push(p.class(r.u16()?)?); }
		m.provides.push((n, w));
	}
	exact(&r)?;
	Ok(m)
}

/// parse only far enough to know the pool and the bootstrap table (used to keep inputs that would make the
/// implementation recurse forever away from it)
pub fn dynamic_cycle(bytes: &[u8]) -> bool {
	let mut r = Rd { b: bytes, i: 0 };
	let inner = |r: &mut Rd| -> R<bool> {
		if r.u32()? != 0xCAFEBABE { return Ok(false); }
		r.u16()?; r.u16()?;
		let p = read_pool(r)?;
		r.u16()?; r.u16()?; r.u16()?;
		for _ in 0..r.u16()? { r.u16()?; }
		for _ in 0..2 { for _ in 0..r.u16()? { r.take(6)?; for _ in 0..r.u16()? { r.u16()?; let l = r.u32()? as usize; r.take(l)?; } } }
		let mut bsms = None;
		for _ in 0..r.u16()? {
			let ni = r.u16()?; let l = r.u32()? as usize; let body = r.take(l)?;
			if let Ok(n) = p.utf8(ni) {
				if name_of(&n) == "BootstrapMethods" {
					let mut a = Rd { b: body, i: 0 };
					let mut t = Vec::new();
					for _ in 0..a.u16()? { let h = a.u16()?; let mut args = Vec::new(); for _ in 0..a.u16()? { args.push(a.u16()?); } t.push((h, args)); }
					bsms = Some(t);
				}
			}
		}
		Ok(p.has_dynamic_cycle(&bsms))
	};
	inner(&mut r).unwrap_or(false)
}

pub fn parse(bytes: &[u8]) -> R<GClass> {
	let mut r = Rd { b: bytes, i: 0 };
	if r.u32()? != 0xCAFEBABE { return Err("magic".into()); }
	let minor = r.u16()?; let major = r.u16()?;
	if major > 67 || (major == 67 && minor > 0) { return Err("version".into()); }
	let p = read_pool(&mut r)?;
	let mut g = GClass { minor, major, access: r.u16()? & 0xF631, name: p.obj_class(r.u16()?)?, ..Default::default() };
	let sp = r.u16()?;
	g.super_ = if sp == 0 { None } else { Some(p.obj_class(sp)?) };
	for _ in 0..r.u16()? { g.interfaces.push(p.obj_class(r.u16()?)?); }
	let fields = members(&mut r, &p)?;
	let methods = members(&mut r, &p)?;
	let cattrs = raw_attrs(&mut r, &p)?;
	// class attributes first: BootstrapMethods is needed by members
	let mut bsms: Option<Vec<(u16, Vec<u16>)>> = None;
	let no_code = |_: u16| -> R<usize> { Err("code target outside Code".into()) };
	for (name, body) in &cattrs {
		let mut a = Rd { b: body, i: 0 };
		match name_of(name).as_str() {
			"Deprecated" => { g.deprecated = true; exact(&a)?; }
			"Synthetic" => { g.synthetic = true; exact(&a)?; }
			"InnerClasses" => {
				let mut v = Vec::new();
				for _ in 0..a.u16()? { v.push((p.class(a.u16()?)?, p.opt_class(a.u16()?)?, p.opt_utf8(a.u16()?)?, a.u16()? & 0x761F)); }
				exact(&a)?; set_once(&mut g.inner_classes, v, "InnerClasses")?;
			}
			"EnclosingMethod" => {
				let c = p.class(a.u16()?)?; let m = a.u16()?;
				let m = if m == 0 { None } else { let (n, d) = p.nat(m)?; if !method_name_ok(&n) { return Err("bad enclosing method name".into()); } Some((n, d)) };
				exact(&a)?; set_once(&mut g.enclosing, (c, m), "EnclosingMethod")?;
			}
			"Signature" => set_once(&mut g.signature, p.utf8(u16_body(body)?)?, "Signature")?,
			"SourceFile" => set_once(&mut g.source_file, p.utf8(u16_body(body)?)?, "SourceFile")?,
			"SourceDebugExtension" => set_once(&mut g.source_debug, mutf8_decode(body)?, "SourceDebugExtension")?,
			"RuntimeVisibleAnnotations" => g.rva.extend(annos(body, &p)?),
			"RuntimeInvisibleAnnotations" => g.ria.extend(annos(body, &p)?),
			"RuntimeVisibleTypeAnnotations" => g.rvta.extend(type_annos(body, &p, Owner::Class, &no_code)?),
			"RuntimeInvisibleTypeAnnotations" => g.rita.extend(type_annos(body, &p, Owner::Class, &no_code)?),
			"Module" => set_once(&mut g.module, module(body, &p)?, "Module")?,
			"ModulePackages" => {
				let mut v = Vec::new();
				for _ in 0..a.u16()? { v.push(p.package(a.u16()?)?); }
				exact(&a)?; set_once(&mut g.module_packages, v, "ModulePackages")?;
			}
			"ModuleMainClass" => set_once(&mut g.module_main, p.class(u16_body(body)?)?, "ModuleMainClass")?,
			"NestHost" => set_once(&mut g.nest_host, p.class(u16_body(body)?)?, "NestHost")?,
			"NestMembers" => set_once(&mut g.nest_members, class_list(body, &p)?, "NestMembers")?,
			"PermittedSubclasses" => set_once(&mut g.permitted, class_list(body, &p)?, "PermittedSubclasses")?,
			"Record" => {
				if !g.records.is_empty() { return Err("two Record attributes".into()); }
				let n = a.u16()?;
				for _ in 0..n {
					let mut rc = GRecord { name: p.utf8(a.u16()?)?, desc: p.utf8(a.u16()?)?, ..Default::default() };
					for (an, ab) in raw_attrs(&mut a, &p)? {
						match name_of(&an).as_str() {
							"Signature" => set_once(&mut rc.signature, p.utf8(u16_body(&ab)?)?, "Signature")?,
							"RuntimeVisibleAnnotations" => rc.rva.extend(annos(&ab, &p)?),
							"RuntimeInvisibleAnnotations" => rc.ria.extend(annos(&ab, &p)?),
							"RuntimeVisibleTypeAnnotations" => rc.rvta.extend(type_annos(&ab, &p, Owner::Field, &no_code)?),
							"RuntimeInvisibleTypeAnnotations" => rc.rita.extend(type_annos(&ab, &p, Owner::Field, &no_code)?),
							_ => rc.attrs.push((an, ab)),
						}
					}
					g.records.push(rc);
				}
				exact(&a)?;
			}
			"BootstrapMethods" => {
				let mut t = Vec::new();
				for _ in 0..a.u16()? { let h = a.u16()?; p.handle(h)?; let mut args = Vec::new(); for _ in 0..a.u16()? { args.push(a.u16()?); } t.push((h, args)); }
				exact(&a)?; set_once(&mut bsms, t, "BootstrapMethods")?;
			}
			_ => g.attrs.push((name.clone(), body.clone())),
		}
	}
	let cx = Ctx { p: &p, bsms };
	for f in fields {
		if !unq(&f.name) { return Err("bad field name".into()); }
		let mut gf = GField { access: f.access & 0x50DF, name: f.name, desc: f.desc, ..Default::default() };
		for (an, ab) in f.attrs {
			match name_of(&an).as_str() {
				"Deprecated" => { if !ab.is_empty() { return Err("Deprecated length".into()); } gf.deprecated = true; }
				"Synthetic" => { if !ab.is_empty() { return Err("Synthetic length".into()); } gf.synthetic = true; }
				"ConstantValue" => {
					let c = match p.get(u16_body(&ab)?)? { Cp::Int(v) => GConst::Int(*v), Cp::Float(v) => GConst::Float(*v), Cp::Long(v) => GConst::Long(*v), Cp::Double(v) => GConst::Double(*v),
						Cp::Str(n) => GConst::Str(p.utf8(*n)?), o => return Err(format!("bad ConstantValue {o:?}")) };
					set_once(&mut gf.constant, c, "ConstantValue")?;
				}
				"Signature" => set_once(&mut gf.signature, p.utf8(u16_body(&ab)?)?, "Signature")?,
				"RuntimeVisibleAnnotations" => gf.rva.extend(annos(&ab, &p)?),
				"RuntimeInvisibleAnnotations" => gf.ria.extend(annos(&ab, &p)?),
				"RuntimeVisibleTypeAnnotations" => gf.rvta.extend(type_annos(&ab, &p, Owner::Field, &no_code)?),
				"RuntimeInvisibleTypeAnnotations" => gf.rita.extend(type_annos(&ab, &p, Owner::Field, &no_code)?),
				_ => gf.attrs.push((an, ab)),
			}
		}
		g.fields.push(gf);
	}
	for m in methods {
		if !method_name_ok(&m.name) { return Err("bad method name".into()); }
		let mut gm = GMethod { access: m.access & 0x1DFF, name: m.name, desc: m.desc, ..Default::default() };
		for (an, ab) in m.attrs {
			match name_of(&an).as_str() {
				"Deprecated" => { if !ab.is_empty() { return Err("Deprecated length".into()); } gm.deprecated = true; }
				"Synthetic" => { if !ab.is_empty() { return Err("Synthetic length".into()); } gm.synthetic = true; }
				"Code" => set_once(&mut gm.code, code(&ab, &cx)?, "Code")?,
				"Exceptions" => set_once(&mut gm.exceptions, class_list(&ab, &p)?, "Exceptions")?,
				"Signature" => set_once(&mut gm.signature, p.utf8(u16_body(&ab)?)?, "Signature")?,
				"RuntimeVisibleAnnotations" => gm.rva.extend(annos(&ab, &p)?),
				"RuntimeInvisibleAnnotations" => gm.ria.extend(annos(&ab, &p)?),
				"RuntimeVisibleTypeAnnotations" => gm.rvta.extend(type_annos(&ab, &p, Owner::Method, &no_code)?),
				"RuntimeInvisibleTypeAnnotations" => gm.rita.extend(type_annos(&ab, &p, Owner::Method, &no_code)?),
				"RuntimeVisibleParameterAnnotations" => gm.param_annos.push((true, ab)),
				"RuntimeInvisibleParameterAnnotations" => gm.param_annos.push((false, ab)),
				"AnnotationDefault" => { let mut a = Rd { b: &ab, i: 0 }; let e = elem(&mut a, &p, 0)?; exact(&a)?; gm.annotation_default = Some(e); }
				"MethodParameters" => {
					let mut a = Rd { b: &ab, i: 0 };
					let mut v = Vec::new();
					for _ in 0..a.u8()? {
						let n = p.opt_utf8(a.u16()?)?;
						if let Some(n) = &n { if !unq(n) { return Err("bad parameter name".into()); } }
						v.push((n, a.u16()? & 0x9010));
					}
					exact(&a)?; set_once(&mut gm.params, v, "MethodParameters")?;
				}
				_ => gm.attrs.push((an, ab)),
			}
		}
		g.methods.push(gm);
	}
	Ok(g)
}
