//! Command line shared by every per-property binary:
//!   <bin> gen  --seed N --tier quick|thorough [--stats FILE]     request lines on stdout
//!   <bin> exec                                                   request lines on stdin, answers on stdout
use std::cell::RefCell;
use std::collections::BTreeMap;
use std::io::{BufRead, Write};
use std::panic::{catch_unwind, AssertUnwindSafe};
use crate::rng::Rng;
use crate::sexp::{parse_line, Sexp};

pub enum Ans {
	Ok(Sexp),
	Err(String),
	Skip(String),
	BadOp(String),
	/// the executor caught a panic of the implementation itself and names the site (printed as `panic <site>`)
	Panic(String),
}

impl Ans {
	pub fn ok_tag(s: &str) -> Ans { Ans::Ok(Sexp::tag(s)) }
	pub fn err() -> Ans { Ans::Err("e".into()) }
	/// oracle verdicts: `ok pass`, `ok (fail <detail>)`, `ok out-of-domain`
	pub fn pass() -> Ans { Ans::ok_tag("pass") }
	pub fn fail(detail: &str) -> Ans { Ans::Ok(Sexp::list(vec![Sexp::tag("fail"), Sexp::tag(&detail.replace(|c: char| !c.is_ascii_alphanumeric() && c != '-' && c != '_', "_"))])) }
	pub fn out_of_domain() -> Ans { Ans::ok_tag("out-of-domain") }
}

#[derive(Clone, Copy, PartialEq, Eq, Debug)]
pub enum Tier { Quick, Thorough }

#[derive(Default)]
pub struct Stats(pub BTreeMap<String, u64>);
impl Stats {
	pub fn hit(&mut self, k: &str) { *self.0.entry(k.to_owned()).or_insert(0) += 1; }
	pub fn add(&mut self, k: &str, n: u64) { *self.0.entry(k.to_owned()).or_insert(0) += n; }
}

pub struct Out<'a> {
	pub lines: Vec<String>,
	pub stats: &'a mut Stats,
}
impl Out<'_> {
	pub fn op(&mut self, op: &str, args: &[Sexp]) {
		let mut s = String::from(op);
		for a in args { s.push(' '); s.push_str(&a.to_string()); }
		self.stats.hit(&format!("op:{op}"));
		self.lines.push(s);
	}
}

thread_local! {
	static LAST_PANIC: RefCell<String> = const { RefCell::new(String::new()) };
}

pub fn answer_line(exec: &dyn Fn(&str, &[Sexp]) -> Ans, line: &str) -> String {
	let items = match parse_line(line) { Ok(i) => i, Err(_) => return "bad-op".into() };
	let (op, args) = match items.split_first() {
		Some((Sexp::Atom(op), args)) => (op.clone(), args.to_vec()),
		_ => return "bad-op".into(),
	};
	let r = catch_unwind(AssertUnwindSafe(|| exec(&op, &args)));
	match r {
		Ok(Ans::Ok(s)) => format!("ok {s}"),
		Ok(Ans::Err(c)) => format!("err {c}"),
		Ok(Ans::Skip(w)) => format!("skip {w}"),
		Ok(Ans::Panic(site)) => format!("panic {site}"),
		Ok(Ans::BadOp(why)) => { eprintln!("bad-op: {why}: {}", &line[..line.len().min(200)]); "bad-op".into() }
		Err(_) => format!("panic {}", LAST_PANIC.with(|l| l.borrow().clone())),
	}
}

pub fn main_for(
	gen: &dyn Fn(&mut Rng, Tier, &mut Out),
	exec: &dyn Fn(&str, &[Sexp]) -> Ans,
) {
	std::panic::set_hook(Box::new(|info| {
		let loc = info.location().map(|l| {
			let f = l.file();
			let f = f.strip_prefix("/repo/").unwrap_or(f);
			format!("{}:{}", f, l.line())
		}).unwrap_or_else(|| "unknown".into());
		LAST_PANIC.with(|l| *l.borrow_mut() = loc);
	}));
	let args: Vec<String> = std::env::args().collect();
	let mode = args.get(1).map(|s| s.as_str()).unwrap_or("");
	let mut seed: u64 = std::env::var("VERIF_SEED").ok().and_then(|s| s.parse().ok()).unwrap_or(0);
	let mut tier = Tier::Quick;
	let mut stats_file: Option<String> = None;
	let mut i = 2;
	while i < args.len() {
		match args[i].as_str() {
			"--seed" => { seed = args[i + 1].parse().expect("seed"); i += 2; }
			"--tier" => { tier = if args[i + 1] == "thorough" { Tier::Thorough } else { Tier::Quick }; i += 2; }
			"--stats" => { stats_file = Some(args[i + 1].clone()); i += 2; }
			o => panic!("unknown argument {o}"),
		}
	}
	let stdout = std::io::stdout();
	let mut w = std::io::BufWriter::new(stdout.lock());
	match mode {
		"gen" => {
			let mut stats = Stats::default();
			let mut out = Out { lines: Vec::new(), stats: &mut stats };
			let mut rng = Rng::new(seed);
			gen(&mut rng, tier, &mut out);
			for l in &out.lines { writeln!(w, "{l}").expect("write"); }
			if let Some(f) = stats_file {
				let body: Vec<String> = stats.0.iter().map(|(k, v)| format!("  {:?}: {}", k, v)).collect();
				std::fs::write(f, format!("{{\n{}\n}}\n", body.join(",\n"))).expect("stats");
			}
		}
		"exec" => {
			let stdin = std::io::stdin();
			// answers are flushed every 64 requests: `./check` watches the stream and stops an implementation that no longer answers
			// (a request that loops forever); the culprit is then among the few requests after the last answer that arrived
			for (k, line) in stdin.lock().lines().enumerate() {
				let line = line.expect("read");
				writeln!(w, "{}", answer_line(exec, &line)).expect("write");
				if k % 64 == 63 { w.flush().expect("flush"); }
			}
		}
		_ => { eprintln!("usage: gen|exec"); std::process::exit(2); }
	}
	w.flush().expect("flush");
}
