//! C07: the reference skeleton of a duke `ClassFile` (mirror of lean/FeatherModel/Model/RemapTree.lean), its projection
//! from the real tree (public fields; record components and module data by reading their derived `Debug` output,
//! `c07dbg.rs`, because their fields are crate-private in trees older than the repair of records / modules), its
//! S-expression (wire format: lean/FeatherModel/Driver/C07.lean), the independent reference traversal and the shape.
use java_string::{JavaStr, JavaString};
use duke::tree::annotation::{Annotation, ElementValue, Object};
use duke::tree::class::{ClassFile, EnclosingMethod, InnerClass};
use duke::tree::field::{ConstantValue, Field, FieldRef};
use duke::tree::method::{Method, MethodRef};
use duke::tree::method::code::{Code, ConstantDynamic, Handle, Instruction, InstructionListEntry, Loadable};
use duke::tree::record::RecordComponent;
use duke::tree::type_annotation::TypeAnnotation;
use duke::visitor::method::code::{StackMapData, VerificationTypeInfo};
use crate::c07dbg::{self, D, K};
use crate::sexp::Sexp;

pub type S = JavaString;

#[derive(Clone, Debug, PartialEq)] pub struct MRef { pub cls: S, pub name: S, pub desc: S }
#[derive(Clone, Debug, PartialEq)] pub enum Ev { Obj(Sexp), Enum(S, S), Cls(S), Ann(Box<Ann>), Arr(Vec<Ev>) }
#[derive(Clone, Debug, PartialEq)] pub struct Ann { pub ty: S, pub pairs: Vec<(S, Ev)> }
#[derive(Clone, Debug, PartialEq)] pub struct TAnn { pub target: Sexp, pub ann: Ann }
#[derive(Clone, Debug, PartialEq)] pub enum Hd { F(Sexp, MRef), M(Sexp, MRef) }
#[derive(Clone, Debug, PartialEq)] pub enum Ld { K(Sexp), C(S), H(Hd), Mt(S), D(S, S, Hd, Vec<Ld>) }
#[derive(Clone, Debug, PartialEq)] pub enum Vt { P(Sexp), O(S) }
#[derive(Clone, Debug, PartialEq)] pub enum Fr { P(Sexp), S1(Vt), Ap(Vec<Vt>), Fu(Vec<Vt>, Vec<Vt>) }
#[derive(Clone, Debug, PartialEq)] pub enum In { P(Sexp), Ldc(Ld), F(Sexp, MRef), M(Sexp, MRef), Indy(S, S, Hd, Vec<Ld>), C(Sexp, S) }
#[derive(Clone, Debug, PartialEq)] pub struct En { pub label: Sexp, pub frame: Option<Fr>, pub insn: In }
#[derive(Clone, Debug, PartialEq)] pub struct Ex { pub shape: Sexp, pub catch: Option<S> }
#[derive(Clone, Debug, PartialEq)] pub struct Lvm { pub shape: Sexp, pub name: S, pub desc: Option<S>, pub sig: Option<S> }
#[derive(Clone, Debug, PartialEq)] pub struct Co { pub shape: Sexp, pub insns: Vec<En>, pub excs: Vec<Ex>, pub lvs: Option<Vec<Lvm>>, pub rvta: Vec<TAnn>, pub rita: Vec<TAnn>, pub attrs: Vec<Sexp> }
#[derive(Clone, Debug, PartialEq)] pub struct Fi { pub shape: Sexp, pub name: S, pub desc: S, pub sig: Option<S>, pub rva: Vec<Ann>, pub ria: Vec<Ann>, pub rvta: Vec<TAnn>, pub rita: Vec<TAnn>, pub attrs: Vec<Sexp> }
#[derive(Clone, Debug, PartialEq)] pub struct Me { pub shape: Sexp, pub name: S, pub desc: S, pub code: Option<Co>, pub excs: Option<Vec<S>>, pub sig: Option<S>, pub rva: Vec<Ann>, pub ria: Vec<Ann>, pub rvta: Vec<TAnn>, pub rita: Vec<TAnn>, pub ad: Option<Ev>, pub params: Sexp, pub attrs: Vec<Sexp> }
#[derive(Clone, Debug, PartialEq)] pub struct Ic { pub inner: S, pub outer: Option<S>, pub name: Option<S>, pub flags: Sexp }
#[derive(Clone, Debug, PartialEq)] pub struct Enc { pub cls: S, pub method: Option<(S, S)> }
#[derive(Clone, Debug, PartialEq)] pub struct Rc { pub name: S, pub desc: S, pub sig: Option<S>, pub rva: Vec<Ann>, pub ria: Vec<Ann>, pub rvta: Vec<TAnn>, pub rita: Vec<TAnn>, pub attrs: Vec<Sexp> }
#[derive(Clone, Debug, PartialEq)] pub struct Prov { pub name: S, pub with: Vec<S> }
#[derive(Clone, Debug, PartialEq)] pub struct Mo { pub shape: Sexp, pub uses: Vec<S>, pub provides: Vec<Prov> }
#[derive(Clone, Debug, PartialEq)] pub struct Cl {
	pub shape: Sexp, pub name: S, pub sup: Option<S>, pub itfs: Vec<S>, pub fields: Vec<Fi>, pub methods: Vec<Me>,
	pub ics: Option<Vec<Ic>>, pub encl: Option<Enc>, pub sig: Option<S>, pub rva: Vec<Ann>, pub ria: Vec<Ann>, pub rvta: Vec<TAnn>, pub rita: Vec<TAnn>,
	pub module: Option<Mo>, pub mpk: Option<Vec<S>>, pub mmc: Option<S>, pub nh: Option<S>, pub nm: Option<Vec<S>>, pub ps: Option<Vec<S>>,
	pub rcs: Vec<Rc>, pub attrs: Vec<Sexp>,
}

// ------------------------------------------------------------------ projection duke -> mirror

fn dbg<T: std::fmt::Debug>(x: &T) -> Sexp { Sexp::str(&format!("{:?}", x)) }
fn tag(s: &str) -> Sexp { Sexp::tag(s) }
fn l(v: Vec<Sexp>) -> Sexp { Sexp::list(v) }
fn js(x: &JavaStr) -> S { x.to_owned() }
fn attr(a: &duke::tree::attribute::Attribute) -> Sexp { l(vec![Sexp::jstr(&a.name), Sexp::bytes(&a.bytes)]) }

fn p_obj(o: &Object) -> Sexp {
	match o {
		Object::Byte(x) => l(vec![tag("b"), Sexp::int(*x as i64)]),
		Object::Char(x) => l(vec![tag("c"), Sexp::int(*x as i64)]),
		Object::Double(x) => l(vec![tag("d"), u64a(x.to_bits())]),
		Object::Float(x) => l(vec![tag("f"), u64a(x.to_bits() as u64)]),
		Object::Integer(x) => l(vec![tag("i"), Sexp::int(*x as i64)]),
		Object::Long(x) => l(vec![tag("j"), Sexp::int(*x)]),
		Object::Short(x) => l(vec![tag("s"), Sexp::int(*x as i64)]),
		Object::Boolean(x) => l(vec![tag("z"), Sexp::bool(*x)]),
		Object::String(x) => l(vec![tag("str"), Sexp::jstr(x)]),
	}
}
pub fn p_ev(v: &ElementValue) -> Ev {
	match v {
		ElementValue::Object(o) => Ev::Obj(p_obj(o)),
		ElementValue::Enum { type_name, const_name } => Ev::Enum(js(type_name.as_inner()), const_name.clone()),
		ElementValue::Class(d) => Ev::Cls(js(d.as_inner())),
		ElementValue::AnnotationInterface(a) => Ev::Ann(Box::new(p_ann(a))),
		ElementValue::ArrayType(vs) => Ev::Arr(vs.iter().map(p_ev).collect()),
	}
}
pub fn p_ann(a: &Annotation) -> Ann {
	Ann { ty: js(a.annotation_type.as_inner()), pairs: a.element_value_pairs.iter().map(|p| (p.name.clone(), p_ev(&p.value))).collect() }
}
fn p_tann<T: std::fmt::Debug>(t: &TypeAnnotation<T>) -> TAnn {
	TAnn { target: l(vec![dbg(&t.type_reference), dbg(&t.type_path)]), ann: p_ann(&t.annotation) }
}
fn p_fref(f: &FieldRef) -> MRef { MRef { cls: js(f.class.as_inner()), name: js(f.name.as_inner()), desc: js(f.desc.as_inner()) } }
fn p_mref(m: &MethodRef) -> MRef { MRef { cls: js(m.class.as_inner()), name: js(m.name.as_inner()), desc: js(m.desc.as_inner()) } }
fn itf(s: &str, b: bool) -> Sexp { tag(&format!("{s}-{}", if b { "t" } else { "f" })) }
fn p_handle(h: &Handle) -> Hd {
	match h {
		Handle::GetField(f) => Hd::F(tag("getfield"), p_fref(f)),
		Handle::GetStatic(f) => Hd::F(tag("getstatic"), p_fref(f)),
		Handle::PutField(f) => Hd::F(tag("putfield"), p_fref(f)),
		Handle::PutStatic(f) => Hd::F(tag("putstatic"), p_fref(f)),
		Handle::InvokeVirtual(m) => Hd::M(tag("invokevirtual"), p_mref(m)),
		Handle::InvokeStatic(m, b) => Hd::M(itf("invokestatic", *b), p_mref(m)),
		Handle::InvokeSpecial(m, b) => Hd::M(itf("invokespecial", *b), p_mref(m)),
		Handle::NewInvokeSpecial(m) => Hd::M(tag("newinvokespecial"), p_mref(m)),
		Handle::InvokeInterface(m) => Hd::M(tag("invokeinterface"), p_mref(m)),
	}
}
fn p_condy(c: &ConstantDynamic) -> Ld {
	Ld::D(js(c.name.as_inner()), js(c.descriptor.as_inner()), p_handle(&c.handle), c.arguments.iter().map(p_ld).collect())
}
fn p_ld(x: &Loadable) -> Ld {
	match x {
		Loadable::Integer(v) => Ld::K(l(vec![tag("i"), Sexp::int(*v as i64)])),
		Loadable::Float(v) => Ld::K(l(vec![tag("f"), u64a(v.to_bits() as u64)])),
		Loadable::Long(v) => Ld::K(l(vec![tag("j"), Sexp::int(*v)])),
		Loadable::Double(v) => Ld::K(l(vec![tag("d"), u64a(v.to_bits())])),
		Loadable::String(s) => Ld::K(l(vec![tag("str"), Sexp::jstr(s)])),
		Loadable::Class(c) => Ld::C(js(c.as_inner())),
		Loadable::MethodHandle(h) => Ld::H(p_handle(h)),
		Loadable::MethodType(d) => Ld::Mt(js(d.as_inner())),
		Loadable::Dynamic(c) => p_condy(c),
	}
}
fn p_vt(v: &VerificationTypeInfo) -> Vt {
	match v { VerificationTypeInfo::Object(n) => Vt::O(js(n.as_inner())), o => Vt::P(dbg(o)) }
}
fn p_frame(f: &StackMapData) -> Fr {
	match f {
		StackMapData::Same | StackMapData::Chop { .. } => Fr::P(dbg(f)),
		StackMapData::SameLocals1StackItem { stack } => Fr::S1(p_vt(stack)),
		StackMapData::Append { locals } => Fr::Ap(locals.iter().map(p_vt).collect()),
		StackMapData::Full { locals, stack } => Fr::Fu(locals.iter().map(p_vt).collect(), stack.iter().map(p_vt).collect()),
	}
}
fn p_insn(i: &Instruction) -> In {
	use Instruction::*;
	match i {
		Ldc(x) => In::Ldc(p_ld(x)),
		GetStatic(f) => In::F(tag("getstatic"), p_fref(f)),
		PutStatic(f) => In::F(tag("putstatic"), p_fref(f)),
		GetField(f) => In::F(tag("getfield"), p_fref(f)),
		PutField(f) => In::F(tag("putfield"), p_fref(f)),
		InvokeVirtual(m) => In::M(tag("invokevirtual"), p_mref(m)),
		InvokeSpecial(m, b) => In::M(itf("invokespecial", *b), p_mref(m)),
		InvokeStatic(m, b) => In::M(itf("invokestatic", *b), p_mref(m)),
		InvokeInterface(m) => In::M(tag("invokeinterface"), p_mref(m)),
		InvokeDynamic(d) => In::Indy(js(d.name.as_inner()), js(d.descriptor.as_inner()), p_handle(&d.handle), d.arguments.iter().map(p_ld).collect()),
		New(c) => In::C(tag("new"), js(c.as_inner())),
		ANewArray(c) => In::C(tag("anewarray"), js(c.as_inner())),
		CheckCast(c) => In::C(tag("checkcast"), js(c.as_inner())),
		InstanceOf(c) => In::C(tag("instanceof"), js(c.as_inner())),
		MultiANewArray(c, n) => In::C(l(vec![tag("multianewarray"), Sexp::nat(*n as usize)]), js(c.as_inner())),
		o => In::P(dbg(o)),
	}
}
fn p_entry(e: &InstructionListEntry) -> En {
	En { label: Sexp::opt(e.label.as_ref(), |x| dbg(x)), frame: e.frame.as_ref().map(p_frame), insn: p_insn(&e.instruction) }
}
fn p_code(c: &Code) -> Co {
	Co {
		shape: l(vec![dbg(&c.max_stack), dbg(&c.max_locals), dbg(&c.last_label), dbg(&c.line_numbers)]),
		insns: c.instructions.iter().map(p_entry).collect(),
		excs: c.exception_table.iter().map(|e| Ex { shape: l(vec![dbg(&e.start), dbg(&e.end), dbg(&e.handler)]), catch: e.catch.as_ref().map(|x| js(x.as_inner())) }).collect(),
		lvs: c.local_variables.as_ref().map(|v| v.iter().map(|x| Lvm {
			shape: l(vec![dbg(&x.range), dbg(&x.index)]), name: js(x.name.as_inner()),
			desc: x.descriptor.as_ref().map(|d| js(d.as_inner())), sig: x.signature.as_ref().map(|d| js(d.as_inner())),
		}).collect()),
		rvta: c.runtime_visible_type_annotations.iter().map(p_tann).collect(),
		rita: c.runtime_invisible_type_annotations.iter().map(p_tann).collect(),
		attrs: c.attributes.iter().map(attr).collect(),
	}
}
fn p_const(c: &ConstantValue) -> Sexp {
	match c {
		ConstantValue::Integer(v) => l(vec![tag("i"), Sexp::int(*v as i64)]),
		ConstantValue::Float(v) => l(vec![tag("f"), u64a(v.to_bits() as u64)]),
		ConstantValue::Long(v) => l(vec![tag("j"), Sexp::int(*v)]),
		ConstantValue::Double(v) => l(vec![tag("d"), u64a(v.to_bits())]),
		ConstantValue::String(s) => l(vec![tag("str"), Sexp::jstr(s)]),
	}
}
fn p_field(f: &Field) -> Fi {
	Fi {
		shape: l(vec![Sexp::nat(u16::from(f.access) as usize), Sexp::bool(f.has_deprecated_attribute), Sexp::bool(f.has_synthetic_attribute),
			Sexp::opt(f.constant_value.as_ref(), p_const)]),
		name: js(f.name.as_inner()), desc: js(f.descriptor.as_inner()), sig: f.signature.as_ref().map(|s| js(s.as_inner())),
		rva: f.runtime_visible_annotations.iter().map(p_ann).collect(), ria: f.runtime_invisible_annotations.iter().map(p_ann).collect(),
		rvta: f.runtime_visible_type_annotations.iter().map(p_tann).collect(), rita: f.runtime_invisible_type_annotations.iter().map(p_tann).collect(),
		attrs: f.attributes.iter().map(attr).collect(),
	}
}
fn p_method(m: &Method) -> Me {
	Me {
		shape: l(vec![Sexp::nat(u16::from(m.access) as usize), Sexp::bool(m.has_deprecated_attribute), Sexp::bool(m.has_synthetic_attribute)]),
		name: js(m.name.as_inner()), desc: js(m.descriptor.as_inner()),
		code: m.code.as_ref().map(p_code),
		excs: m.exceptions.as_ref().map(|v| v.iter().map(|x| js(x.as_inner())).collect()),
		sig: m.signature.as_ref().map(|s| js(s.as_inner())),
		rva: m.runtime_visible_annotations.iter().map(p_ann).collect(), ria: m.runtime_invisible_annotations.iter().map(p_ann).collect(),
		rvta: m.runtime_visible_type_annotations.iter().map(p_tann).collect(), rita: m.runtime_invisible_type_annotations.iter().map(p_tann).collect(),
		ad: m.annotation_default.as_ref().map(p_ev),
		params: Sexp::opt(m.method_parameters.as_ref(), |v| l(v.iter().map(|p| l(vec![
			Sexp::opt(p.name.as_ref(), |n| Sexp::jstr(n.as_inner())), Sexp::nat(u16::from(p.flags) as usize)])).collect())),
		attrs: m.attributes.iter().map(attr).collect(),
	}
}
fn p_inner(i: &InnerClass) -> Ic {
	Ic { inner: js(i.inner_class.as_inner()), outer: i.outer_class.as_ref().map(|x| js(x.as_inner())), name: i.inner_name.clone(),
		flags: Sexp::nat(u16::from(i.flags) as usize) }
}
fn p_encl(e: &EnclosingMethod) -> Enc {
	Enc { cls: js(e.class.as_inner()), method: e.method.as_ref().map(|m| (js(m.name.as_inner()), js(m.desc.as_inner()))) }
}

// record components and module data: read from the derived `Debug` output
fn raw(d: &D) -> Sexp { Sexp::str(d.raw) }
fn d_ev(d: &D) -> Result<Ev, String> {
	Ok(match &d.k {
		K::Ctor("Object", v) if v.len() == 1 => Ev::Obj(raw(&v[0])),
		K::Struct("Enum", _) => Ev::Enum(d.field("type_name")?.text()?, d.field("const_name")?.text()?),
		K::Ctor("Class", v) if v.len() == 1 => Ev::Cls(v[0].text()?),
		K::Ctor("AnnotationInterface", v) if v.len() == 1 => Ev::Ann(Box::new(d_ann(&v[0])?)),
		K::Ctor("ArrayType", v) if v.len() == 1 => Ev::Arr(v[0].list()?.iter().map(d_ev).collect::<Result<_, _>>()?),
		_ => return Err(format!("element value: {}", d.raw)),
	})
}
fn d_ann(d: &D) -> Result<Ann, String> {
	match &d.k {
		K::Ann(ty, pairs) => Ok(Ann { ty: ty.text()?, pairs: pairs.iter().map(|(n, v)| Ok((n.clone(), d_ev(v)?))).collect::<Result<_, String>>()? }),
		_ => Err(format!("annotation: {}", d.raw)),
	}
}
fn d_tann(d: &D) -> Result<TAnn, String> {
	Ok(TAnn { target: l(vec![raw(d.field("type_reference")?), raw(d.field("type_path")?)]), ann: d_ann(d.field("annotation")?)? })
}
fn d_rc(d: &D) -> Result<Rc, String> {
	let anns = |f: &str| -> Result<Vec<Ann>, String> { d.field(f)?.list()?.iter().map(d_ann).collect() };
	let tanns = |f: &str| -> Result<Vec<TAnn>, String> { d.field(f)?.list()?.iter().map(d_tann).collect() };
	Ok(Rc {
		name: d.field("name")?.text()?, desc: d.field("descriptor")?.text()?,
		sig: match d.field("signature")?.opt()? { None => None, Some(x) => Some(x.text()?) },
		rva: anns("runtime_visible_annotations")?, ria: anns("runtime_invisible_annotations")?,
		rvta: tanns("runtime_visible_type_annotations")?, rita: tanns("runtime_invisible_type_annotations")?,
		attrs: d.field("attributes")?.list()?.iter().map(raw).collect(),
	})
}
fn p_rc(c: &RecordComponent) -> Rc {
	let text = format!("{:?}", c);
	let d = c07dbg::parse(&text).unwrap_or_else(|e| panic!("Debug output of a record component not understood ({e}): {text}"));
	let rc = d_rc(&d).unwrap_or_else(|e| panic!("Debug output of a record component not understood ({e}): {text}"));
	assert!(rc.name == *c.name.as_inner() && rc.desc == *c.descriptor.as_inner(), "Debug output of a record component misread: {text}");
	rc
}
fn d_module(d: &D) -> Result<Mo, String> {
	let names = |x: &D| -> Result<Vec<S>, String> { x.list()?.iter().map(|n| n.text()).collect() };
	Ok(Mo {
		shape: l(["name", "flags", "version", "requires", "exports", "opens"].iter().map(|f| d.field(f).map(raw)).collect::<Result<_, _>>()?),
		uses: names(d.field("uses")?)?,
		provides: d.field("provides")?.list()?.iter().map(|p| Ok(Prov { name: p.field("name")?.text()?, with: names(p.field("provides_with")?)? })).collect::<Result<_, String>>()?,
	})
}
fn p_module<T: std::fmt::Debug>(m: &T) -> Mo {
	let text = format!("{:?}", m);
	let d = c07dbg::parse(&text).unwrap_or_else(|e| panic!("Debug output of a module not understood ({e}): {text}"));
	d_module(&d).unwrap_or_else(|e| panic!("Debug output of a module not understood ({e}): {text}"))
}

/// the reference skeleton of a class
pub fn project(c: &ClassFile) -> Cl {
	Cl {
		shape: l(vec![dbg(&c.version), Sexp::nat(u16::from(c.access) as usize), Sexp::bool(c.has_deprecated_attribute), Sexp::bool(c.has_synthetic_attribute),
			Sexp::opt(c.source_file.as_ref(), |s| Sexp::jstr(s)), Sexp::opt(c.source_debug_extension.as_ref(), |s| Sexp::jstr(s))]),
		name: js(c.name.as_inner()), sup: c.super_class.as_ref().map(|x| js(x.as_inner())), itfs: c.interfaces.iter().map(|x| js(x.as_inner())).collect(),
		fields: c.fields.iter().map(p_field).collect(), methods: c.methods.iter().map(p_method).collect(),
		ics: c.inner_classes.as_ref().map(|v| v.iter().map(p_inner).collect()), encl: c.enclosing_method.as_ref().map(p_encl),
		sig: c.signature.as_ref().map(|s| js(s.as_inner())),
		rva: c.runtime_visible_annotations.iter().map(p_ann).collect(), ria: c.runtime_invisible_annotations.iter().map(p_ann).collect(),
		rvta: c.runtime_visible_type_annotations.iter().map(p_tann).collect(), rita: c.runtime_invisible_type_annotations.iter().map(p_tann).collect(),
		module: c.module.as_ref().map(p_module),
		mpk: c.module_packages.as_ref().map(|v| v.iter().map(|x| js(x.as_inner())).collect()),
		mmc: c.module_main_class.as_ref().map(|x| js(x.as_inner())),
		nh: c.nest_host_class.as_ref().map(|x| js(x.as_inner())),
		nm: c.nest_members.as_ref().map(|v| v.iter().map(|x| js(x.as_inner())).collect()),
		ps: c.permitted_subclasses.as_ref().map(|v| v.iter().map(|x| js(x.as_inner())).collect()),
		rcs: c.record_components.iter().map(p_rc).collect(),
		attrs: c.attributes.iter().map(attr).collect(),
	}
}
fn u64a(x: u64) -> Sexp { Sexp::Atom(x.to_string()) }

// ------------------------------------------------------------------ mirror -> S-expression (format: Driver/C07.lean)

fn es(s: &S) -> Sexp { Sexp::jstr(s) }
fn eo<T>(o: &Option<T>, f: impl Fn(&T) -> Sexp) -> Sexp { Sexp::opt(o.as_ref(), |x| f(x)) }
fn el<T>(v: &[T], f: impl Fn(&T) -> Sexp) -> Sexp { l(v.iter().map(f).collect()) }
fn e_ref(r: &MRef) -> Sexp { l(vec![es(&r.cls), es(&r.name), es(&r.desc)]) }
fn e_ev(v: &Ev) -> Sexp {
	match v {
		Ev::Obj(o) => l(vec![tag("o"), o.clone()]),
		Ev::Enum(t, c) => l(vec![tag("e"), es(t), es(c)]),
		Ev::Cls(d) => l(vec![tag("c"), es(d)]),
		Ev::Ann(a) => l(vec![tag("a"), e_ann(a)]),
		Ev::Arr(vs) => l(vec![tag("r"), el(vs, e_ev)]),
	}
}
fn e_ann(a: &Ann) -> Sexp { l(vec![es(&a.ty), el(&a.pairs, |(n, v)| l(vec![es(n), e_ev(v)]))]) }
fn e_tann(t: &TAnn) -> Sexp { l(vec![t.target.clone(), e_ann(&t.ann)]) }
fn e_hd(h: &Hd) -> Sexp {
	match h { Hd::F(k, r) => l(vec![tag("f"), k.clone(), e_ref(r)]), Hd::M(k, r) => l(vec![tag("m"), k.clone(), e_ref(r)]) }
}
fn e_ld(x: &Ld) -> Sexp {
	match x {
		Ld::K(o) => l(vec![tag("k"), o.clone()]),
		Ld::C(n) => l(vec![tag("c"), es(n)]),
		Ld::H(h) => l(vec![tag("h"), e_hd(h)]),
		Ld::Mt(d) => l(vec![tag("mt"), es(d)]),
		Ld::D(n, d, h, args) => l(vec![tag("d"), es(n), es(d), e_hd(h), el(args, e_ld)]),
	}
}
fn e_vt(v: &Vt) -> Sexp { match v { Vt::P(o) => l(vec![tag("p"), o.clone()]), Vt::O(n) => l(vec![tag("o"), es(n)]) } }
fn e_fr(f: &Fr) -> Sexp {
	match f {
		Fr::P(o) => l(vec![tag("p"), o.clone()]),
		Fr::S1(v) => l(vec![tag("s1"), e_vt(v)]),
		Fr::Ap(ls) => l(vec![tag("ap"), el(ls, e_vt)]),
		Fr::Fu(ls, ss) => l(vec![tag("fu"), el(ls, e_vt), el(ss, e_vt)]),
	}
}
fn e_insn(i: &In) -> Sexp {
	match i {
		In::P(o) => l(vec![tag("p"), o.clone()]),
		In::Ldc(x) => l(vec![tag("ldc"), e_ld(x)]),
		In::F(op, r) => l(vec![tag("f"), op.clone(), e_ref(r)]),
		In::M(op, r) => l(vec![tag("m"), op.clone(), e_ref(r)]),
		In::Indy(n, d, h, args) => l(vec![tag("indy"), es(n), es(d), e_hd(h), el(args, e_ld)]),
		In::C(op, n) => l(vec![tag("c"), op.clone(), es(n)]),
	}
}
fn e_code(c: &Co) -> Sexp {
	l(vec![c.shape.clone(), el(&c.insns, |e| l(vec![e.label.clone(), eo(&e.frame, e_fr), e_insn(&e.insn)])),
		el(&c.excs, |e| l(vec![e.shape.clone(), eo(&e.catch, es)])),
		eo(&c.lvs, |v| el(v, |x| l(vec![x.shape.clone(), es(&x.name), eo(&x.desc, es), eo(&x.sig, es)]))),
		el(&c.rvta, e_tann), el(&c.rita, e_tann), l(c.attrs.clone())])
}
fn e_field(f: &Fi) -> Sexp {
	l(vec![f.shape.clone(), es(&f.name), es(&f.desc), eo(&f.sig, es), el(&f.rva, e_ann), el(&f.ria, e_ann), el(&f.rvta, e_tann), el(&f.rita, e_tann),
		l(f.attrs.clone())])
}
fn e_method(m: &Me) -> Sexp {
	l(vec![m.shape.clone(), es(&m.name), es(&m.desc), eo(&m.code, e_code), eo(&m.excs, |v| el(v, es)), eo(&m.sig, es), el(&m.rva, e_ann), el(&m.ria, e_ann),
		el(&m.rvta, e_tann), el(&m.rita, e_tann), eo(&m.ad, e_ev), m.params.clone(), l(m.attrs.clone())])
}
pub fn class_to_sexp(c: &Cl) -> Sexp {
	l(vec![c.shape.clone(), es(&c.name), eo(&c.sup, es), el(&c.itfs, es), el(&c.fields, e_field), el(&c.methods, e_method),
		eo(&c.ics, |v| el(v, |i| l(vec![es(&i.inner), eo(&i.outer, es), eo(&i.name, es), i.flags.clone()]))),
		eo(&c.encl, |e| l(vec![es(&e.cls), eo(&e.method, |(n, d)| l(vec![es(n), es(d)]))])),
		eo(&c.sig, es), el(&c.rva, e_ann), el(&c.ria, e_ann), el(&c.rvta, e_tann), el(&c.rita, e_tann),
		eo(&c.module, |m| l(vec![m.shape.clone(), el(&m.uses, es), el(&m.provides, |p| l(vec![es(&p.name), el(&p.with, es)]))])), eo(&c.mpk, |v| el(v, es)), eo(&c.mmc, es), eo(&c.nh, es), eo(&c.nm, |v| el(v, es)), eo(&c.ps, |v| el(v, es)),
		el(&c.rcs, |r| l(vec![es(&r.name), es(&r.desc), eo(&r.sig, es), el(&r.rva, e_ann), el(&r.ria, e_ann), el(&r.rvta, e_tann), el(&r.rita, e_tann),
			l(r.attrs.clone())])), l(c.attrs.clone())])
}

// ------------------------------------------------------------------ the independent traversal (spec side; mirror of RemapSpec.lean)

#[derive(Clone, Debug, PartialEq)]
pub enum Ref { Cls(S), Any(S), Desc(S), Dyn(S), FieldDecl(S, S), MethodDecl(S, S), FieldRef(MRef), MethodRef(MRef), EnumConst(S, S), RecordDecl(S, S) }

pub fn ref_to_sexp(r: &Ref) -> Sexp {
	match r {
		Ref::Cls(n) => l(vec![tag("cls"), es(n)]),
		Ref::Any(n) => l(vec![tag("any"), es(n)]),
		Ref::Desc(d) => l(vec![tag("desc"), es(d)]),
		Ref::Dyn(d) => l(vec![tag("dyn"), es(d)]),
		Ref::FieldDecl(n, d) => l(vec![tag("fd"), es(n), es(d)]),
		Ref::MethodDecl(n, d) => l(vec![tag("md"), es(n), es(d)]),
		Ref::FieldRef(f) => l(vec![tag("fr"), e_ref(f)]),
		Ref::MethodRef(m) => l(vec![tag("mr"), e_ref(m)]),
		Ref::EnumConst(t, c) => l(vec![tag("ec"), es(t), es(c)]),
		Ref::RecordDecl(n, d) => l(vec![tag("rd"), es(n), es(d)]),
	}
}

fn r_ev(v: &Ev, out: &mut Vec<Ref>) {
	match v {
		Ev::Obj(_) => {}
		Ev::Enum(t, c) => out.push(Ref::EnumConst(t.clone(), c.clone())),
		Ev::Cls(d) => out.push(Ref::Desc(d.clone())),
		Ev::Ann(a) => r_ann(a, out),
		Ev::Arr(vs) => for v in vs { r_ev(v, out) },
	}
}
fn r_ann(a: &Ann, out: &mut Vec<Ref>) {
	out.push(Ref::Desc(a.ty.clone()));
	for (_, v) in &a.pairs { r_ev(v, out) }
}
fn r_hd(h: &Hd, out: &mut Vec<Ref>) {
	match h { Hd::F(_, f) => out.push(Ref::FieldRef(f.clone())), Hd::M(_, m) => out.push(Ref::MethodRef(m.clone())) }
}
fn r_ld(x: &Ld, out: &mut Vec<Ref>) {
	match x {
		Ld::K(_) => {}
		Ld::C(n) => out.push(Ref::Any(n.clone())),
		Ld::H(h) => r_hd(h, out),
		Ld::Mt(d) => out.push(Ref::Desc(d.clone())),
		Ld::D(_, d, h, args) => { out.push(Ref::Dyn(d.clone())); r_hd(h, out); for a in args { r_ld(a, out) } }
	}
}
fn r_vt(v: &Vt, out: &mut Vec<Ref>) { if let Vt::O(n) = v { out.push(Ref::Any(n.clone())) } }
fn r_code(c: &Co, out: &mut Vec<Ref>) {
	for e in &c.insns {
		match &e.frame {
			None | Some(Fr::P(_)) => {}
			Some(Fr::S1(v)) => r_vt(v, out),
			Some(Fr::Ap(ls)) => for v in ls { r_vt(v, out) },
			Some(Fr::Fu(ls, ss)) => { for v in ls { r_vt(v, out) } for v in ss { r_vt(v, out) } }
		}
		match &e.insn {
			In::P(_) => {}
			In::Ldc(x) => r_ld(x, out),
			In::F(_, f) => out.push(Ref::FieldRef(f.clone())),
			In::M(_, m) => out.push(Ref::MethodRef(m.clone())),
			In::Indy(_, d, h, args) => { out.push(Ref::Dyn(d.clone())); r_hd(h, out); for a in args { r_ld(a, out) } }
			In::C(_, n) => out.push(Ref::Any(n.clone())),
		}
	}
	for e in &c.excs { if let Some(n) = &e.catch { out.push(Ref::Any(n.clone())) } }
	if let Some(lvs) = &c.lvs { for x in lvs { if let Some(d) = &x.desc { out.push(Ref::Desc(d.clone())) } } }
	for t in &c.rvta { r_ann(&t.ann, out) }
	for t in &c.rita { r_ann(&t.ann, out) }
}

/// every reference position of the class, in document order
pub fn refs(c: &Cl) -> Vec<Ref> {
	let mut out = vec![Ref::Cls(c.name.clone())];
	if let Some(s) = &c.sup { out.push(Ref::Cls(s.clone())) }
	for i in &c.itfs { out.push(Ref::Cls(i.clone())) }
	for f in &c.fields {
		out.push(Ref::FieldDecl(f.name.clone(), f.desc.clone()));
		for a in &f.rva { r_ann(a, &mut out) } for a in &f.ria { r_ann(a, &mut out) }
		for t in &f.rvta { r_ann(&t.ann, &mut out) } for t in &f.rita { r_ann(&t.ann, &mut out) }
	}
	for m in &c.methods {
		out.push(Ref::MethodDecl(m.name.clone(), m.desc.clone()));
		if let Some(code) = &m.code { r_code(code, &mut out) }
		if let Some(es) = &m.excs { for e in es { out.push(Ref::Any(e.clone())) } }
		for a in &m.rva { r_ann(a, &mut out) } for a in &m.ria { r_ann(a, &mut out) }
		for t in &m.rvta { r_ann(&t.ann, &mut out) } for t in &m.rita { r_ann(&t.ann, &mut out) }
		if let Some(v) = &m.ad { r_ev(v, &mut out) }
	}
	if let Some(ics) = &c.ics { for i in ics { out.push(Ref::Any(i.inner.clone())); if let Some(o) = &i.outer { out.push(Ref::Any(o.clone())) } } }
	if let Some(e) = &c.encl {
		match &e.method {
			Some((n, d)) => out.push(Ref::MethodRef(MRef { cls: e.cls.clone(), name: n.clone(), desc: d.clone() })),
			None => out.push(Ref::Any(e.cls.clone())),
		}
	}
	for a in &c.rva { r_ann(a, &mut out) } for a in &c.ria { r_ann(a, &mut out) }
	for t in &c.rvta { r_ann(&t.ann, &mut out) } for t in &c.rita { r_ann(&t.ann, &mut out) }
	if let Some(m) = &c.module {
		for u in &m.uses { out.push(Ref::Any(u.clone())) }
		for p in &m.provides { out.push(Ref::Any(p.name.clone())); for w in &p.with { out.push(Ref::Any(w.clone())) } }
	}
	if let Some(n) = &c.mmc { out.push(Ref::Any(n.clone())) }
	if let Some(n) = &c.nh { out.push(Ref::Any(n.clone())) }
	if let Some(v) = &c.nm { for n in v { out.push(Ref::Any(n.clone())) } }
	if let Some(v) = &c.ps { for n in v { out.push(Ref::Any(n.clone())) } }
	for r in &c.rcs {
		out.push(Ref::RecordDecl(r.name.clone(), r.desc.clone()));
		for a in &r.rva { r_ann(a, &mut out) } for a in &r.ria { r_ann(a, &mut out) }
		for t in &r.rvta { r_ann(&t.ann, &mut out) } for t in &r.rita { r_ann(&t.ann, &mut out) }
	}
	out
}

// ------------------------------------------------------------------ shape: every reference position blanked

fn b() -> S { JavaString::new() }
fn b_ref() -> MRef { MRef { cls: b(), name: b(), desc: b() } }
fn x_ev(v: &Ev) -> Ev {
	match v {
		Ev::Obj(o) => Ev::Obj(o.clone()),
		Ev::Enum(..) => Ev::Enum(b(), b()),
		Ev::Cls(_) => Ev::Cls(b()),
		Ev::Ann(a) => Ev::Ann(Box::new(x_ann(a))),
		Ev::Arr(vs) => Ev::Arr(vs.iter().map(x_ev).collect()),
	}
}
fn x_ann(a: &Ann) -> Ann { Ann { ty: b(), pairs: a.pairs.iter().map(|(n, v)| (n.clone(), x_ev(v))).collect() } }
fn x_tann(t: &TAnn) -> TAnn { TAnn { target: t.target.clone(), ann: x_ann(&t.ann) } }
fn x_hd(h: &Hd) -> Hd { match h { Hd::F(k, _) => Hd::F(k.clone(), b_ref()), Hd::M(k, _) => Hd::M(k.clone(), b_ref()) } }
fn x_ld(x: &Ld) -> Ld {
	match x {
		Ld::K(o) => Ld::K(o.clone()), Ld::C(_) => Ld::C(b()), Ld::H(h) => Ld::H(x_hd(h)), Ld::Mt(_) => Ld::Mt(b()),
		Ld::D(n, _, h, args) => Ld::D(n.clone(), b(), x_hd(h), args.iter().map(x_ld).collect()),
	}
}
fn x_vt(v: &Vt) -> Vt { match v { Vt::P(o) => Vt::P(o.clone()), Vt::O(_) => Vt::O(b()) } }
fn x_code(c: &Co) -> Co {
	Co {
		shape: c.shape.clone(),
		insns: c.insns.iter().map(|e| En {
			label: e.label.clone(),
			frame: e.frame.as_ref().map(|f| match f {
				Fr::P(o) => Fr::P(o.clone()), Fr::S1(v) => Fr::S1(x_vt(v)), Fr::Ap(ls) => Fr::Ap(ls.iter().map(x_vt).collect()),
				Fr::Fu(ls, ss) => Fr::Fu(ls.iter().map(x_vt).collect(), ss.iter().map(x_vt).collect()),
			}),
			insn: match &e.insn {
				In::P(o) => In::P(o.clone()), In::Ldc(x) => In::Ldc(x_ld(x)), In::F(op, _) => In::F(op.clone(), b_ref()), In::M(op, _) => In::M(op.clone(), b_ref()),
				In::Indy(n, _, h, args) => In::Indy(n.clone(), b(), x_hd(h), args.iter().map(x_ld).collect()), In::C(op, _) => In::C(op.clone(), b()),
			},
		}).collect(),
		excs: c.excs.iter().map(|e| Ex { shape: e.shape.clone(), catch: e.catch.as_ref().map(|_| b()) }).collect(),
		lvs: c.lvs.as_ref().map(|v| v.iter().map(|x| Lvm { shape: x.shape.clone(), name: x.name.clone(), desc: x.desc.as_ref().map(|_| b()), sig: x.sig.clone() }).collect()),
		rvta: c.rvta.iter().map(x_tann).collect(), rita: c.rita.iter().map(x_tann).collect(), attrs: c.attrs.clone(),
	}
}
/// the class with every reference position blanked (mirror of `eraseClass`)
pub fn erase(c: &Cl) -> Cl {
	let bl = |v: &Option<Vec<S>>| v.as_ref().map(|v| v.iter().map(|_| b()).collect::<Vec<S>>());
	Cl {
		shape: c.shape.clone(), name: b(), sup: c.sup.as_ref().map(|_| b()), itfs: c.itfs.iter().map(|_| b()).collect(),
		fields: c.fields.iter().map(|f| Fi { shape: f.shape.clone(), name: b(), desc: b(), sig: f.sig.clone(), rva: f.rva.iter().map(x_ann).collect(),
			ria: f.ria.iter().map(x_ann).collect(), rvta: f.rvta.iter().map(x_tann).collect(), rita: f.rita.iter().map(x_tann).collect(), attrs: f.attrs.clone() }).collect(),
		methods: c.methods.iter().map(|m| Me { shape: m.shape.clone(), name: b(), desc: b(), code: m.code.as_ref().map(x_code), excs: bl(&m.excs), sig: m.sig.clone(),
			rva: m.rva.iter().map(x_ann).collect(), ria: m.ria.iter().map(x_ann).collect(), rvta: m.rvta.iter().map(x_tann).collect(),
			rita: m.rita.iter().map(x_tann).collect(), ad: m.ad.as_ref().map(x_ev), params: m.params.clone(), attrs: m.attrs.clone() }).collect(),
		ics: c.ics.as_ref().map(|v| v.iter().map(|i| Ic { inner: b(), outer: i.outer.as_ref().map(|_| b()), name: i.name.as_ref().map(|_| b()), flags: i.flags.clone() }).collect()),
		encl: c.encl.as_ref().map(|e| Enc { cls: b(), method: e.method.as_ref().map(|_| (b(), b())) }),
		sig: c.sig.clone(), rva: c.rva.iter().map(x_ann).collect(), ria: c.ria.iter().map(x_ann).collect(),
		rvta: c.rvta.iter().map(x_tann).collect(), rita: c.rita.iter().map(x_tann).collect(),
		module: c.module.as_ref().map(|m| Mo { shape: m.shape.clone(), uses: m.uses.iter().map(|_| b()).collect(),
			provides: m.provides.iter().map(|p| Prov { name: b(), with: p.with.iter().map(|_| b()).collect() }).collect() }),
		mpk: c.mpk.clone(), mmc: c.mmc.as_ref().map(|_| b()), nh: c.nh.as_ref().map(|_| b()), nm: bl(&c.nm), ps: bl(&c.ps),
		rcs: c.rcs.iter().map(|r| Rc { name: b(), desc: b(), sig: r.sig.clone(), rva: r.rva.iter().map(x_ann).collect(), ria: r.ria.iter().map(x_ann).collect(),
			rvta: r.rvta.iter().map(x_tann).collect(), rita: r.rita.iter().map(x_tann).collect(), attrs: r.attrs.clone() }).collect(), attrs: c.attrs.clone(),
	}
}
