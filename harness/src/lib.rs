//! `fvh`: correspondence harness. Generators write request lines, executors answer them with the real code of
//! /repo (path dependencies, rebuilt from the current working tree); the Lean driver answers the same lines.
pub mod sexp;
pub mod rng;
pub mod run;
pub mod mapcodec;
pub mod mapgen;
pub mod dummydiffcodec;
pub mod diffcodec;
pub mod rawval;
pub mod rawcodec_gen;
