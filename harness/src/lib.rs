//! `fvh`: correspondence harness. Generators write request lines, executors answer them with the real code of
//! /repo (path dependencies, rebuilt from the current working tree); the Lean driver answers the same lines.
pub mod sexp;
pub mod rng;
pub mod run;
pub mod mapcodec;
pub mod mapgen;
pub mod dummydiffcodec;
pub mod diffcodec;
pub mod diffgen;
pub mod rawval;
pub mod rawcodec_gen;
pub mod jvmsframe;
pub mod jvmsenc;
pub mod rawgolden;
pub mod c01facts;
pub mod c01model;
pub mod c01parse;
pub mod c01gen;
pub mod c07dbg;
pub mod c07tree;
pub mod c17frame;
pub mod c17asm;
