//! C14: dukenest — nests tables, nesting jars (in-memory `ParsedJar`), nesting / un-nesting mappings, translating tables.
use std::panic::{catch_unwind, AssertUnwindSafe};
use indexmap::IndexMap;
use java_string::{JavaStr, JavaString};
use duke::tree::class::{ClassAccess, ClassFile, ClassName, EnclosingMethod, InnerClass, InnerClassFlags, ObjClassName};
use duke::tree::field::{FieldDescriptor, FieldName, FieldNameAndDesc};
use duke::tree::method::{Method, MethodAccess, MethodNameAndDesc};
use duke::tree::version::Version;
use dukebox::storage::{BasicFileAttributes, ClassRepr, IsClass, JarEntryEnum, ParsedJar, ParsedJarEntry};
use dukenest::nest::{Nest, NestType, Nests};
use quill::remapper::{ARemapper, BRemapper, NoSuperClassProvider};
use quill::tree::mappings::{ClassMapping, ClassNowodeMapping, FieldMapping, FieldNowodeMapping, Mappings};
use fvh::mapcodec::{class_to as class_to_sexp, cn, from_sexp, mdesc, mname, to_sexp};
use fvh::mapgen::{field_desc, method_desc};
use fvh::rng::Rng;
use fvh::run::{main_for, Ans, Out, Tier};
use fvh::sexp::{Sexp, R};

pub struct NsA;
pub struct NsB;
type MM = Mappings<2, (NsA, NsB)>;
type NA = Nests<NsA>;
type PJ = ParsedJar<ClassRepr, Vec<u8>>;

const VERSIONS: &[Version] = &[
	Version::V1_1, Version::V1_2, Version::V1_3, Version::V1_4, Version::V1_5, Version::V1_6, Version::V1_7, Version::V1_8,
	Version::V9, Version::V10, Version::V11, Version::V12, Version::V13, Version::V14, Version::V15, Version::V16,
	Version::V17, Version::V18, Version::V19, Version::V20, Version::V21, Version::V22, Version::V23,
];
const PROBE: &str = "verif_probe/P";
const PROBE_DST: &str = "verif_probe/Q";

// ------------------------------------------------------------------------------------------------ codec

fn cname(s: JavaString) -> ClassName { unsafe { ClassName::from_inner_unchecked(s) } }

fn pair_to(m: &MethodNameAndDesc) -> Sexp { Sexp::list(vec![Sexp::jstr(m.name.as_inner()), Sexp::jstr(m.desc.as_inner())]) }
fn pair_from(s: &Sexp) -> R<MethodNameAndDesc> {
	let [n, d] = s.as_list()? else { return Err("pair".into()) };
	Ok(MethodNameAndDesc { name: mname(n.as_jstring()?), desc: mdesc(d.as_jstring()?) })
}

fn nest_to(n: &Nest) -> Sexp {
	Sexp::list(vec![
		Sexp::tag(match n.nest_type { NestType::Anonymous => "a", NestType::Inner => "i", NestType::Local => "l" }),
		Sexp::jstr(n.class_name.as_inner()), Sexp::jstr(n.encl_class_name.as_inner()),
		Sexp::opt(n.encl_method.as_ref(), pair_to), Sexp::jstr(n.inner_name.as_inner()),
		Sexp::nat(u16::from(n.inner_access) as usize),
	])
}
fn nests_to<X>(ns: &Nests<X>) -> Sexp { Sexp::list(ns.all.values().map(nest_to).collect()) }
fn nests_from(s: &Sexp) -> R<NA> {
	let mut ns = NA::default();
	for n in s.as_list()? {
		let [k, c, e, em, i, a] = n.as_list()? else { return Err("nest".into()) };
		let nest = Nest {
			nest_type: match k.as_atom()? { "a" => NestType::Anonymous, "i" => NestType::Inner, "l" => NestType::Local, o => return Err(format!("kind {o}")) },
			class_name: cn(c.as_jstring()?), encl_class_name: cn(e.as_jstring()?),
			encl_method: match em.as_opt()? { None => None, Some(p) => Some(pair_from(p)?) },
			inner_name: cn(i.as_jstring()?),
			inner_access: InnerClassFlags::from(a.as_nat()? as u16),
		};
		ns.all.insert(nest.class_name.clone(), nest);
	}
	Ok(ns)
}

fn version_idx(v: Version) -> usize { VERSIONS.iter().position(|x| *x == v).unwrap_or(999) }

fn class_to(c: &ClassFile) -> Sexp {
	Sexp::list(vec![
		Sexp::jstr(c.name.as_inner()), Sexp::nat(version_idx(c.version)), Sexp::bool(c.access.is_public),
		Sexp::opt(c.super_class.as_ref(), |s| Sexp::jstr(s.as_inner())),
		Sexp::list(c.interfaces.iter().map(|i| Sexp::jstr(i.as_inner())).collect()),
		Sexp::list(c.methods.iter().map(|m| Sexp::list(vec![Sexp::jstr(m.name.as_inner()), Sexp::jstr(m.descriptor.as_inner())])).collect()),
		Sexp::opt(c.inner_classes.as_ref(), |ics| Sexp::list(ics.iter().map(|ic| Sexp::list(vec![
			Sexp::jstr(ic.inner_class.as_inner()),
			Sexp::opt(ic.outer_class.as_ref(), |o| Sexp::jstr(o.as_inner())),
			Sexp::opt(ic.inner_name.as_ref(), |o| Sexp::jstr(o)),
			Sexp::nat(u16::from(ic.flags) as usize),
		])).collect())),
		Sexp::opt(c.enclosing_method.as_ref(), |em| Sexp::list(vec![Sexp::jstr(em.class.as_inner()), Sexp::opt(em.method.as_ref(), pair_to)])),
	])
}
fn class_from(s: &Sexp) -> R<ClassFile> {
	let [n, v, p, sup, is, ms, ics, em] = s.as_list()? else { return Err("class".into()) };
	let version = *VERSIONS.get(v.as_nat()?).ok_or("version index")?;
	let mut c = ClassFile::new(version, ClassAccess { is_public: p.as_bool()?, ..ClassAccess::default() }, cn(n.as_jstring()?),
		match sup.as_opt()? { None => None, Some(x) => Some(cn(x.as_jstring()?)) },
		is.as_list()?.iter().map(|x| Ok(cn(x.as_jstring()?))).collect::<R<_>>()?);
	for m in ms.as_list()? {
		let p = pair_from(m)?;
		c.methods.push(Method::new(MethodAccess::from(1u16), p.name, p.desc));
	}
	if let Some(ics) = ics.as_opt()? {
		let mut v = Vec::new();
		for ic in ics.as_list()? {
			let [i, o, n, f] = ic.as_list()? else { return Err("ic".into()) };
			v.push(InnerClass {
				inner_class: cname(i.as_jstring()?),
				outer_class: match o.as_opt()? { None => None, Some(x) => Some(cname(x.as_jstring()?)) },
				inner_name: match n.as_opt()? { None => None, Some(x) => Some(x.as_jstring()?) },
				flags: InnerClassFlags::from(f.as_nat()? as u16),
			});
		}
		c.inner_classes = Some(v);
	}
	if let Some(em) = em.as_opt()? {
		let [cl, m] = em.as_list()? else { return Err("em".into()) };
		c.enclosing_method = Some(EnclosingMethod { class: cname(cl.as_jstring()?), method: match m.as_opt()? { None => None, Some(p) => Some(pair_from(p)?) } });
	}
	Ok(c)
}

fn entry(content: JarEntryEnum<ClassRepr, Vec<u8>>) -> ParsedJarEntry<ClassRepr, Vec<u8>> {
	ParsedJarEntry { attr: BasicFileAttributes::default(), content }
}
fn jar_from(s: &Sexp) -> R<PJ> {
	let mut entries = IndexMap::new();
	for e in s.as_list()? {
		let l = e.as_list()?;
		let name = l.first().ok_or("entry")?.as_string()?;
		let content = match (l.get(1).ok_or("entry kind")?.as_atom()?, l.get(2)) {
			("d", None) => JarEntryEnum::Dir,
			("o", None) => JarEntryEnum::Other(vec![1, 2, 3]),
			("c", Some(c)) => JarEntryEnum::Class(ClassRepr::Parsed { class: class_from(c)? }),
			_ => return Err("entry shape".into()),
		};
		entries.insert(name, entry(content));
	}
	Ok(ParsedJar { entries })
}
fn jar_to(j: &PJ) -> R<Sexp> {
	let mut v = Vec::new();
	for (name, e) in &j.entries {
		v.push(match &e.content {
			JarEntryEnum::Dir => Sexp::list(vec![Sexp::str(name), Sexp::tag("d")]),
			JarEntryEnum::Other(_) => Sexp::list(vec![Sexp::str(name), Sexp::tag("o")]),
			JarEntryEnum::Class(c) => Sexp::list(vec![Sexp::str(name), Sexp::tag("c"), class_to(&c.read().map_err(|e| e.to_string())?)]),
		});
	}
	Ok(Sexp::list(v))
}
fn jar_classes(j: &PJ) -> Vec<ClassFile> {
	j.entries.values().filter_map(|e| match &e.content { JarEntryEnum::Class(c) => c.read().ok(), _ => None }).collect()
}

// ------------------------------------------------------------------------------------------------ helpers around the real code

/// the harness's own notion of a cyclic table (used by the oracles, never to guard a call of the real code): following
/// enclosing classes from some nest never leaves the table
fn cyclic<X>(ns: &Nests<X>) -> bool {
	let len = ns.all.len();
	ns.all.values().any(|n| {
		let mut c = &n.encl_class_name;
		for _ in 0..=len {
			match ns.all.get(c) { Some(e) => c = &e.encl_class_name, None => return false }
		}
		true
	})
}

enum Applied { Ok(MM), Err, Panic }

fn safe_apply(m: MM, ns: &NA) -> Applied {
	match catch_unwind(AssertUnwindSafe(|| dukenest::apply_nests_to_mappings(m, ns))) {
		Ok(Ok(r)) => Applied::Ok(r), Ok(Err(_)) => Applied::Err, Err(_) => Applied::Panic,
	}
}
fn safe_undo(m: MM, ns: &NA) -> Applied {
	match catch_unwind(AssertUnwindSafe(|| dukenest::undo_nests_to_mappings(m, ns))) {
		Ok(Ok(r)) => Applied::Ok(r), Ok(Err(_)) => Applied::Err, Err(_) => Applied::Panic,
	}
}
fn applied_ans(a: Applied) -> Ans {
	match a { Applied::Ok(m) => Ans::Ok(to_sexp(&m)), Applied::Err => Ans::err(), Applied::Panic => Ans::Err("panic".into()) }
}

fn js(s: &str) -> JavaString { JavaString::from(s.to_owned()) }

fn empty_mappings() -> MM {
	from_sexp::<2, (NsA, NsB)>(&Sexp::list(vec![Sexp::list(vec![Sexp::str("a"), Sexp::str("b")]), Sexp::list(vec![]), Sexp::list(vec![])])).expect("empty mappings")
}

/// a class `PROBE` with one field `f<i>` of type `L<name_i>;` per name
fn probe_class(names: &[JavaString]) -> (ObjClassName, ClassNowodeMapping<2>) {
	let mut fields = IndexMap::new();
	for (i, n) in names.iter().enumerate() {
		let mut d = js("L"); d.push_java_str(n); d.push(';');
		let desc = unsafe { FieldDescriptor::from_inner_unchecked(d) };
		let name = unsafe { FieldName::from_inner_unchecked(js(&format!("f{i}"))) };
		let names2: [Option<FieldName>; 2] = [Some(name.clone()), None];
		fields.insert(FieldNameAndDesc { name, desc: desc.clone() }, FieldNowodeMapping {
			info: FieldMapping { desc, names: names2.try_into().expect("names") }, javadoc: None });
	}
	let names2: [Option<ObjClassName>; 2] = [Some(cn(js(PROBE))), Some(cn(js(PROBE_DST)))];
	(cn(js(PROBE)), ClassNowodeMapping { info: ClassMapping { names: names2.try_into().expect("names") }, fields, methods: IndexMap::new(), javadoc: None })
}

/// read the translated names back from the probe class of an applied mapping set
fn probe_read(m: &MM, count: usize) -> Option<Vec<JavaString>> {
	let c = m.classes.get(&cn(js(PROBE)))?;
	let mut out = vec![None; count];
	for f in c.fields.values() {
		let names: &[Option<FieldName>; 2] = (&f.info.names).into();
		let idx: usize = names[0].as_ref()?.as_inner().as_str().ok()?.strip_prefix('f')?.parse().ok()?;
		let d = f.info.desc.as_inner();
		let inner = d.strip_prefix('L')?.strip_suffix(';')?;
		*out.get_mut(idx)? = Some(inner.to_owned());
	}
	out.into_iter().collect()
}

/// mappings-side names of `names` observed through `apply_nests_to_mappings` on `base` plus a probe class
fn map_names_via(base: MM, ns: &NA, names: &[JavaString]) -> Result<(Vec<JavaString>, MM), Applied> {
	let mut m = base;
	let (k, c) = probe_class(names);
	m.classes.insert(k, c);
	match safe_apply(m, ns) {
		Applied::Ok(mut r) => {
			let got = probe_read(&r, names.len()).ok_or(Applied::Err)?;
			r.classes.shift_remove(&cn(js(PROBE)));
			Ok((got, r))
		}
		other => Err(other),
	}
}

/// jar-side names of `names` observed as the interfaces of a probe class pushed through `nest_jar(remap = true)`
fn jar_names_via(jar: &PJ, ns: &NA, names: &[JavaString]) -> Option<Vec<JavaString>> {
	let mut entries = IndexMap::new();
	for (k, e) in &jar.entries {
		let content = match &e.content {
			JarEntryEnum::Dir => JarEntryEnum::Dir,
			JarEntryEnum::Other(o) => JarEntryEnum::Other(o.clone()),
			JarEntryEnum::Class(c) => JarEntryEnum::Class(ClassRepr::Parsed { class: c.read().ok()? }),
		};
		entries.insert(k.clone(), entry(content));
	}
	let probe = ClassFile::new(Version::V23, ClassAccess::default(), cn(js(PROBE)), None, names.iter().map(|n| cn(n.clone())).collect());
	entries.insert(format!("{PROBE}.class"), entry(JarEntryEnum::Class(ClassRepr::Parsed { class: probe })));
	let out = dukenest::nest_jar(true, &ParsedJar { entries }, clone_nests(ns)).ok()?;
	let e = out.entries.get(&format!("{PROBE}.class"))?;
	match &e.content {
		JarEntryEnum::Class(c) => Some(c.read().ok()?.interfaces.iter().map(|i| i.as_inner().to_owned()).collect()),
		_ => None,
	}
}

fn clone_nests(ns: &NA) -> NA { NA { phantom: std::marker::PhantomData, all: ns.all.clone() } }
fn table_of(nests: &[&Nest]) -> NA {
	let mut t = NA::default();
	for n in nests { t.all.insert(n.class_name.clone(), (*n).clone()); }
	t
}

fn clean(s: &JavaStr) -> bool { !s.is_empty() && !s.contains(';') }

fn desc_names(d: &JavaStr, out: &mut Vec<JavaString>) {
	let mut cur: Option<JavaString> = None;
	for c in d.chars() {
		match &mut cur {
			None => if c == 'L' { cur = Some(JavaString::new()); },
			Some(s) => if c == ';' { out.push(cur.take().unwrap_or_default()); } else { s.push_java(c); },
		}
	}
}
fn used_names(m: &MM) -> Vec<JavaString> {
	let mut v = Vec::new();
	for (k, c) in &m.classes {
		v.push(k.as_inner().to_owned());
		for f in c.fields.values() { desc_names(f.info.desc.as_inner(), &mut v); }
		for f in c.methods.values() { desc_names(f.info.desc.as_inner(), &mut v); }
	}
	dedup(v)
}
fn dedup(v: Vec<JavaString>) -> Vec<JavaString> {
	let mut out: Vec<JavaString> = Vec::new();
	for x in v { if !out.contains(&x) { out.push(x); } }
	out
}

/// everything but the second-namespace class names (those are not restored by design)
fn src_view(m: &MM) -> Sexp {
	Sexp::list(m.classes.iter().map(|(k, c)| {
		let names: &[Option<ObjClassName>; 2] = (&c.info.names).into();
		let full = class_to_sexp(k, c);
		let items = full.as_list().expect("class sexp");
		Sexp::list(vec![items[0].clone(), Sexp::opt(names[0].as_ref(), |n| Sexp::jstr(n.as_inner())), items[2].clone(), items[3].clone(), items[4].clone()])
	}).collect())
}

/// entries stored under the key derived from their info, second class names non-empty (key uniqueness is given by `IndexMap`)
fn wf_mappings(m: &MM) -> bool {
	m.classes.iter().all(|(k, c)| {
		let names: &[Option<ObjClassName>; 2] = (&c.info.names).into();
		names[0].as_ref() == Some(k)
			&& names[1].as_ref().map_or(true, |d| !d.as_inner().is_empty())
			&& c.fields.iter().all(|(fk, f)| { let n: &[Option<FieldName>; 2] = (&f.info.names).into(); n[0].as_ref() == Some(&fk.name) && fk.desc == f.info.desc })
			&& c.methods.iter().all(|(mk, f)| { let n: &[Option<duke::tree::method::MethodName>; 2] = (&f.info.names).into(); n[0].as_ref() == Some(&mk.name) && mk.desc == f.info.desc })
	})
}

// ------------------------------------------------------------------------------------------------ state-free specifications (for the oracles)

/// is `c` counted as present once the filter has looked at the nests `pre` (in table order)?
fn spec_present(names: &[JavaString], pre: &[&Nest], c: &JavaStr) -> bool {
	match pre.split_last() {
		None => names.iter().any(|n| n == c),
		Some((m, older)) => spec_present(names, older, c)
			|| (c == m.encl_class_name.as_inner() && spec_present(names, older, m.class_name.as_inner())),
	}
}

fn spec_has_encl_method(classes: &[ClassFile], n: &Nest) -> bool {
	let Some(m) = &n.encl_method else { return false };
	// the last class of that name wins (`methods_map.insert`)
	classes.iter().rev().find(|c| c.name == n.encl_class_name)
		.is_some_and(|c| c.methods.iter().any(|x| x.name == m.name && x.descriptor == m.desc))
}

fn spec_kind_rule(classes: &[ClassFile], n: &Nest) -> bool {
	match n.nest_type {
		NestType::Anonymous => n.inner_name.as_inner().as_str().ok().and_then(|s| s.parse::<i32>().ok()).is_some_and(|x| x >= 1),
		NestType::Inner => !spec_has_encl_method(classes, n),
		NestType::Local => spec_has_encl_method(classes, n),
	}
}

/// (applied nests, synthesised enclosing classes) as the property states them
fn spec_filter<'a>(classes: &[ClassFile], ns: &'a NA) -> (Vec<&'a Nest>, Vec<JavaString>) {
	let names: Vec<JavaString> = dedup(classes.iter().map(|c| c.name.as_inner().to_owned()).collect());
	let all: Vec<&Nest> = ns.all.values().collect();
	let (mut kept, mut created) = (Vec::new(), Vec::new());
	for (i, n) in all.iter().enumerate() {
		let pre = &all[..i];
		if !spec_present(&names, pre, n.class_name.as_inner()) { continue; }
		if !spec_present(&names, pre, n.encl_class_name.as_inner()) { created.push(n.encl_class_name.as_inner().to_owned()); }
		if spec_kind_rule(classes, n) { kept.push(*n); }
	}
	(kept, created)
}

fn strip_digits(s: &JavaStr) -> &JavaStr {
	let t = s.trim_start_matches(|c: java_string::JavaCodePoint| c.is_ascii_digit());
	if t.is_empty() { s } else { t }
}

/// the class with the attributes the property asks for
fn spec_add_attrs(kept: &[&Nest], mut c: ClassFile) -> ClassFile {
	if let Some(n) = kept.iter().find(|n| n.class_name == c.name) {
		let (inner, local, anon) = (matches!(n.nest_type, NestType::Inner), matches!(n.nest_type, NestType::Local), matches!(n.nest_type, NestType::Anonymous));
		if anon || local {
			c.enclosing_method = Some(EnclosingMethod { class: cname(n.encl_class_name.as_inner().to_owned()), method: n.encl_method.clone() });
		}
		let ic = InnerClass {
			inner_class: cname(n.class_name.as_inner().to_owned()),
			outer_class: if inner { Some(cname(n.encl_class_name.as_inner().to_owned())) } else { None },
			inner_name: if inner || local { Some(strip_digits(n.inner_name.as_inner()).to_owned()) } else { None },
			flags: n.inner_access,
		};
		c.inner_classes.get_or_insert_with(Vec::new).push(ic);
	}
	c
}

/// `Enclosing$Inner`, transitively (the table is acyclic)
fn spec_name(ns: &NA, c: &JavaStr) -> JavaString {
	match ns.all.get(&cn(c.to_owned())) {
		Some(n) => { let mut s = spec_name(ns, n.encl_class_name.as_inner()); s.push('$'); s.push_java_str(n.inner_name.as_inner()); s }
		None => c.to_owned(),
	}
}

/// descriptor with every `L<name>;` renamed; `None` on a descriptor `map_desc` rejects
fn spec_desc(ns: &NA, d: &JavaStr) -> Option<JavaString> {
	let mut out = JavaString::new();
	let mut cur: Option<JavaString> = None;
	for c in d.chars() {
		match &mut cur {
			None => { out.push_java(c); if c == 'L' { cur = Some(JavaString::new()); } }
			Some(name) => if c == ';' {
				if name.is_empty() { return None; }
				out.push_java_str(&spec_name(ns, name)); out.push(';'); cur = None;
			} else { name.push_java(c); },
		}
	}
	if cur.is_some() { None } else { Some(out) }
}

fn simple_name(s: &JavaStr) -> &JavaStr { s.rsplit_once('/').map_or(s, |(_, b)| b) }

/// the inner name of a translated nest as the property describes it; `None` = the nest cannot be translated
fn spec_inner_name(class: &JavaStr, inner: &JavaStr, mapped: &JavaStr) -> Option<JavaString> {
	let digits = inner.len() - inner.trim_start_matches(|c: java_string::JavaCodePoint| c.is_ascii_digit()).len();
	let (pre, rest) = inner.split_at(digits);
	if rest.is_empty() {
		match simple_name(mapped).strip_prefix("C_") {
			Some(num) => if num.chars().all(|c| c.is_ascii_digit()) { Some(num.to_owned()) } else { None },
			None => Some(inner.to_owned()),
		}
	} else if pre.is_empty() {
		Some(if class.ends_with(inner) { simple_name(mapped).to_owned() } else { inner.to_owned() })
	} else if class.ends_with(rest) {
		let mut s = pre.to_owned(); s.push_java_str(simple_name(mapped)); Some(s)
	} else { Some(inner.to_owned()) }
}

/// can the mappings-side names be read through `apply_nests_to_mappings` on a mapping set that only holds the probe class?
/// Decided from the request alone: the table must be translatable through a mapping set that maps every class to itself
/// (`__` splits as the property describes, anonymous `C_<n>` names numeric, enclosing-method descriptors well formed) and the
/// translated table must be acyclic too. Mirrors `observable` of Driver/C14.lean.
fn spec_observable(ns: &NA) -> bool {
	let none = NA::default();
	let mut mapped = NA::default();
	for n in ns.all.values() {
		let class = n.class_name.as_inner();
		let (encl, inner) = match class.rsplit_once("__") {
			Some((e, i)) => {
				if e.ends_with('/') || i.starts_with('/') { return false; }
				(e.to_owned(), i.to_owned())
			}
			None => match spec_inner_name(class, n.inner_name.as_inner(), class) {
				Some(i) => (n.encl_class_name.as_inner().to_owned(), i),
				None => return false,
			},
		};
		if let Some(m) = &n.encl_method { if spec_desc(&none, m.desc.as_inner()).is_none() { return false; } }
		let t = Nest { nest_type: n.nest_type, class_name: n.class_name.clone(), encl_class_name: cn(encl), encl_method: n.encl_method.clone(), inner_name: cn(inner), inner_access: n.inner_access };
		mapped.all.insert(t.class_name.clone(), t);
	}
	!cyclic(&mapped)
}

/// a SUFFICIENT condition, decided from the request, for `apply_nests_to_mappings(m, ns)` to succeed on an acyclic table: every
/// class has a second name, every descriptor is well formed, and the table translates without any of the special cases of
/// `map_nests` (no `__` in a translated nest name, no non-numeric `C_…` target of an anonymous class) into an acyclic table.
/// Inside, an error of `apply` is a failure of the round-trip oracle instead of "outside the domain".
fn spec_apply_must_succeed(m: &MM, ns: &NA) -> bool {
	let none = NA::default();
	let desc_ok = |d: &JavaStr| spec_desc(&none, d).is_some();
	let mut to: IndexMap<JavaString, JavaString> = IndexMap::new();
	for (k, c) in &m.classes {
		let names: &[Option<ObjClassName>; 2] = (&c.info.names).into();
		let Some(dst) = names[1].as_ref() else { return false };
		if !clean(dst.as_inner()) { return false; }
		to.insert(k.as_inner().to_owned(), dst.as_inner().to_owned());
		if !c.fields.values().all(|f| desc_ok(f.info.desc.as_inner())) || !c.methods.values().all(|f| desc_ok(f.info.desc.as_inner())) { return false; }
	}
	let tr = |c: &JavaStr| to.get(c).cloned().unwrap_or_else(|| c.to_owned());
	let mut mapped = NA::default();
	for n in ns.all.values() {
		let class = tr(n.class_name.as_inner());
		if class.contains("__") { return false; }
		let digits_only = n.inner_name.as_inner().chars().all(|c| c.is_ascii_digit());
		if digits_only && simple_name(&class).starts_with("C_") { return false; }
		if let Some(md) = &n.encl_method { if !desc_ok(md.desc.as_inner()) { return false; } }
		let t = Nest { nest_type: n.nest_type, class_name: cn(class), encl_class_name: cn(tr(n.encl_class_name.as_inner())), encl_method: None,
			inner_name: n.inner_name.clone(), inner_access: n.inner_access };
		mapped.all.insert(t.class_name.clone(), t);
	}
	!cyclic(&mapped)
}

/// the request-side domain of `oracle-undo-apply` (mirrors `wfMappings && undoApplyDomain` of Driver/C14.lean): entries stored under
/// their keys, the names the set uses can stand in a descriptor, the table is acyclic, the nested names it produces can be written
/// into a descriptor and the translation is injective on the names the set uses: all of it evaluated on the names the PROPERTY
/// states (`spec_name`), not on what the code produced
fn spec_undo_apply_domain(m: &MM, ns: &NA) -> bool {
	if !wf_mappings(m) { return false; }
	let used = used_names(m);
	if !used.iter().all(|n| clean(n)) { return false; }
	if cyclic(ns) { return false; }
	let keys: Vec<JavaString> = ns.all.keys().map(|k| k.as_inner().to_owned()).collect();
	let tr_keys: Vec<JavaString> = keys.iter().map(|k| spec_name(ns, k)).collect();
	if !tr_keys.iter().all(|t| clean(t)) { return false; }
	for c in &used {
		let tc = spec_name(ns, c);
		for (k, tk) in keys.iter().zip(&tr_keys) {
			if &tc == tk && c != k { return false; }
		}
	}
	true
}

// ------------------------------------------------------------------------------------------------ exec

fn exec(op: &str, args: &[Sexp]) -> Ans {
	macro_rules! tr { ($e:expr) => { match $e { Ok(x) => x, Err(e) => return Ans::BadOp(e.to_string()) } } }
	match (op, args) {
		("nests-read", [t]) => {
			let text = tr!(t.as_string());
			match NA::read(&text.into_bytes()) { Ok(ns) => Ans::Ok(nests_to(&ns)), Err(_) => Ans::err() }
		}
		("nest-jar", [r, ns, jar]) => {
			let r = tr!(r.as_bool()); let ns = tr!(nests_from(ns)); let jar = tr!(jar_from(jar));
			match dukenest::nest_jar(r, &jar, ns) { Ok(out) => Ans::Ok(tr!(jar_to(&out))), Err(_) => Ans::err() }
		}
		("nest-name-jar", [ns, jar, c]) => {
			let ns = tr!(nests_from(ns)); let jar = tr!(jar_from(jar)); let c = tr!(c.as_jstring());
			if jar_classes(&jar).is_empty() {
				return match dukenest::nest_jar(true, &jar, ns) { Ok(_) => Ans::fail("no_classes_accepted"), Err(_) => Ans::err() };
			}
			match jar_names_via(&jar, &ns, &[c]) { Some(v) => Ans::Ok(Sexp::jstr(&v[0])), None => Ans::err() }
		}
		("nest-name-map", [ns, c]) => {
			let ns = tr!(nests_from(ns)); let c = tr!(c.as_jstring());
			// a cyclic table (decided on the request) is an error; building the remapper is all `undo` does with an empty mapping set
			if cyclic(&ns) {
				return match safe_undo(empty_mappings(), &ns) { Applied::Ok(_) => Ans::ok_tag("cyclic_table_accepted"), Applied::Err => Ans::err(), Applied::Panic => Ans::Err("panic".into()) };
			}
			// the name is read through a probe class; whether that works is decided on the request (both sides skip the same lines)
			if !spec_observable(&ns) { return Ans::Skip("unobservable".into()); }
			match map_names_via(empty_mappings(), &ns, &[c]) { Ok((v, _)) => Ans::Ok(Sexp::jstr(&v[0])), Err(Applied::Panic) => Ans::Err("panic".into()), Err(_) => Ans::err() }
		}
		// kept for the replay of the fixed finding 0532d54 (a cyclic table used to overflow the stack here)
		("nest-name-map-unguarded", [ns, c]) => {
			let ns = tr!(nests_from(ns)); let c = tr!(c.as_jstring());
			let mut m = empty_mappings();
			let (k, pc) = probe_class(&[c]);
			m.classes.insert(k, pc);
			match dukenest::undo_nests_to_mappings(m, &ns) { Ok(_) => Ans::ok_tag("terminated"), Err(_) => Ans::err() }
		}
		("map-nests", [ns, m]) => {
			let ns = tr!(nests_from(ns)); let m: MM = tr!(from_sexp(m));
			match dukenest::remap_nests(&ns, &m) { Ok(r) => Ans::Ok(nests_to(&r)), Err(_) => Ans::err() }
		}
		("apply-nests", [m, ns]) => {
			let ns = tr!(nests_from(ns)); let m: MM = tr!(from_sexp(m));
			applied_ans(safe_apply(m, &ns))
		}
		("undo-nests", [m, ns]) => {
			let ns = tr!(nests_from(ns)); let m: MM = tr!(from_sexp(m));
			applied_ans(safe_undo(m, &ns))
		}
		("oracle-names-agree", [ns, jar]) => {
			let ns = tr!(nests_from(ns)); let jar = tr!(jar_from(jar));
			let classes = jar_classes(&jar);
			if cyclic(&ns) || classes.is_empty() { return Ans::out_of_domain(); }
			// every entry applies: decided by the state-free specification of the filter, not by running `nest_jar`
			if spec_filter(&classes, &ns).0.len() != ns.all.len() { return Ans::out_of_domain(); }
			let mut names: Vec<JavaString> = Vec::new();
			for n in ns.all.values() { names.push(n.class_name.as_inner().to_owned()); names.push(n.encl_class_name.as_inner().to_owned()); }
			for c in &classes { names.push(c.name.as_inner().to_owned()); }
			let names = dedup(names);
			if !names.iter().all(|n| clean(n)) { return Ans::out_of_domain(); }
			if !spec_observable(&ns) { return Ans::out_of_domain(); }
			let Ok((map_side, _)) = map_names_via(empty_mappings(), &ns, &names) else { return Ans::fail("map_side_unobservable") };
			let Some(jar_side) = jar_names_via(&jar, &ns, &names) else { return Ans::fail("jar_side_unobservable") };
			if map_side != jar_side { return Ans::fail("names_differ") }
			// and both are the name the property states (`mapName_spec`)
			if names.iter().zip(&map_side).all(|(n, got)| &spec_name(&ns, n) == got) { Ans::pass() } else { Ans::fail("not_enclosing_dollar_inner") }
		}
		("oracle-undo-apply", [m, ns]) => {
			let ns = tr!(nests_from(ns)); let m: MM = tr!(from_sexp(m));
			if !spec_undo_apply_domain(&m, &ns) { return Ans::out_of_domain(); }
			let view = src_view(&m);
			// sets that cannot be nested at all (no second name, malformed descriptors, untranslatable table) are outside; but where
			// the request alone shows that nesting must succeed, an error is a failure
			let must = spec_apply_must_succeed(&m, &ns);
			let Applied::Ok(applied) = safe_apply(m, &ns) else { return if must { Ans::fail("apply_err") } else { Ans::out_of_domain() } };
			match safe_undo(applied, &ns) {
				Applied::Ok(back) => if src_view(&back) == view { Ans::pass() } else { Ans::fail("differs") },
				_ => Ans::fail("undo_err"),
			}
		}
		("oracle-nest-jar-spec", [ns, jar]) => {
			let ns = tr!(nests_from(ns)); let jar = tr!(jar_from(jar));
			let classes = jar_classes(&jar);
			if classes.is_empty() { return Ans::out_of_domain(); }
			let version = classes.iter().map(|c| c.version).min().expect("classes");
			let (kept, created) = spec_filter(&classes, &ns);
			if cyclic(&table_of(&kept)) {
				// the applied nests form a cycle: an error is the specified answer
				return if dukenest::nest_jar(false, &jar, clone_nests(&ns)).is_err() { Ans::pass() } else { Ans::fail("cyclic_table_accepted") };
			}
			let Ok(out) = dukenest::nest_jar(false, &jar, clone_nests(&ns)) else { return Ans::fail("nest_jar_err") };
			// every source entry under its name: classes with the attributes, the rest untouched
			for (k, e) in &jar.entries {
				let Some(o) = out.entries.get(k) else { return Ans::fail("entry_lost") };
				match (&e.content, &o.content) {
					(JarEntryEnum::Dir, JarEntryEnum::Dir) => {}
					(JarEntryEnum::Other(a), JarEntryEnum::Other(b)) => if a != b { return Ans::fail("resource_changed") },
					(JarEntryEnum::Class(a), JarEntryEnum::Class(b)) => {
						let want = spec_add_attrs(&kept, tr!(a.read()));
						if class_to(&want) != class_to(&tr!(b.read())) { return Ans::fail("class_attrs") }
					}
					_ => return Ans::fail("entry_kind"),
				}
			}
			// every missing enclosing class is created
			for name in &created {
				let key = match name.clone().into_string() { Ok(s) => format!("{s}.class"), Err(_) => return Ans::out_of_domain() };
				if jar.entries.contains_key(&key) { continue; }
				let Some(o) = out.entries.get(&key) else { return Ans::fail("enclosing_not_created") };
				let JarEntryEnum::Class(b) = &o.content else { return Ans::fail("created_kind") };
				let fresh = ClassFile::new(version, ClassAccess { is_public: true, ..ClassAccess::default() }, cn(name.clone()), Some(cn(js("java/lang/Object"))), vec![]);
				if class_to(&spec_add_attrs(&kept, fresh)) != class_to(&tr!(b.read())) { return Ans::fail("created_class") }
			}
			// nothing else
			for k in out.entries.keys() {
				if !jar.entries.contains_key(k) && !created.iter().any(|n| n.as_str().is_ok_and(|n| format!("{n}.class") == *k)) { return Ans::fail("extra_entry") }
			}
			Ans::pass()
		}
		("oracle-remap-names", [ns, jar]) => {
			let ns = tr!(nests_from(ns)); let jar = tr!(jar_from(jar));
			let classes = jar_classes(&jar);
			if classes.is_empty() { return Ans::out_of_domain(); }
			let (kept, created) = spec_filter(&classes, &ns);
			let kept_table = table_of(&kept);
			if cyclic(&kept_table) {
				return if dukenest::nest_jar(true, &jar, clone_nests(&ns)).is_err() { Ans::pass() } else { Ans::fail("cyclic_table_accepted") };
			}
			// expected (entry name, class name) in order: synthesised classes first, then the source entries
			let mut want: Vec<(JavaString, Option<JavaString>)> = Vec::new();
			for name in &created {
				let new = spec_name(&kept_table, name);
				let mut key = new.clone(); key.push_str(".class");
				want.push((key, Some(new)));
			}
			for (k, e) in &jar.entries {
				let kj = js(k);
				match &e.content {
					JarEntryEnum::Class(c) => {
						let key = match kj.strip_suffix(".class") { Some(b) => { let mut x = spec_name(&kept_table, b); x.push_str(".class"); x } None => kj.clone() };
						want.push((key, Some(spec_name(&kept_table, tr!(c.read()).name.as_inner()))));
					}
					_ => want.push((kj, None)),
				}
			}
			for (i, (k, _)) in want.iter().enumerate() { if want[..i].iter().any(|(k2, _)| k2 == k) { return Ans::out_of_domain(); } }
			let Ok(out) = dukenest::nest_jar(true, &jar, clone_nests(&ns)) else { return Ans::fail("nest_jar_err") };
			let got: Vec<(JavaString, Option<JavaString>)> = out.entries.iter().map(|(k, e)| (js(k), match &e.content {
				JarEntryEnum::Class(c) => c.read().ok().map(|c| c.name.as_inner().to_owned()), _ => None })).collect();
			if got.len() != want.len() { return Ans::fail("entry_count") }
			for ((gk, gc), (wk, wc)) in got.iter().zip(want.iter()) {
				if gk != wk { return Ans::fail(if created.iter().any(|c| gk == c) { "created_entry_name" } else { "entry_name" }) }
				if gc != wc { return Ans::fail("class_name") }
			}
			Ans::pass()
		}
		("oracle-remap-attrs", [ns, jar]) => {
			let ns = tr!(nests_from(ns)); let jar = tr!(jar_from(jar));
			let classes = jar_classes(&jar);
			if classes.is_empty() { return Ans::out_of_domain(); }
			let (kept, created) = spec_filter(&classes, &ns);
			let kept_table = table_of(&kept);
			if cyclic(&kept_table) { return Ans::out_of_domain(); }
			// same domain as remap-names: the expected entry names are pairwise different; no array names in the table
			let mut keys: Vec<JavaString> = Vec::new();
			for name in &created { let mut k = spec_name(&kept_table, name); k.push_str(".class"); keys.push(k); }
			for (k, e) in &jar.entries {
				let kj = js(k);
				keys.push(match (&e.content, kj.strip_suffix(".class")) {
					(JarEntryEnum::Class(_), Some(b)) => { let mut x = spec_name(&kept_table, b); x.push_str(".class"); x }
					_ => kj.clone(),
				});
			}
			for (i, k) in keys.iter().enumerate() { if keys[..i].contains(k) { return Ans::out_of_domain(); } }
			if kept.iter().any(|n| n.class_name.as_inner().starts_with('[') || n.encl_class_name.as_inner().starts_with('[')) { return Ans::out_of_domain(); }
			let Ok(out) = dukenest::nest_jar(true, &jar, clone_nests(&ns)) else { return Ans::fail("nest_jar_err") };
			let out_classes = jar_classes(&out);
			for n in &kept {
				let new_name = spec_name(&kept_table, n.class_name.as_inner());
				let new_encl = spec_name(&kept_table, n.encl_class_name.as_inner());
				let (inner, local, anon) = (matches!(n.nest_type, NestType::Inner), matches!(n.nest_type, NestType::Local), matches!(n.nest_type, NestType::Anonymous));
				let mut found = false;
				for c in out_classes.iter().filter(|c| c.name.as_inner() == &new_name) {
					found = true;
					let Some(ic) = c.inner_classes.as_ref().and_then(|v| v.last()) else { return Ans::fail("inner_classes_entry_missing") };
					if ic.inner_class.as_inner() != &new_name { return Ans::fail("inner_classes_inner_name") }
					match (&ic.outer_class, inner) {
						(Some(o), true) => if o.as_inner() != &new_encl { return Ans::fail("inner_classes_outer_name") },
						(None, false) => {}
						_ => return Ans::fail("inner_classes_outer_presence"),
					}
					let want_simple = if inner || local { Some(strip_digits(n.inner_name.as_inner()).to_owned()) } else { None };
					if ic.inner_name != want_simple || ic.flags != n.inner_access { return Ans::fail("inner_classes_simple_name_or_flags") }
					if anon || local {
						let Some(em) = &c.enclosing_method else { return Ans::fail("enclosing_method_missing") };
						if em.class.as_inner() != &new_encl { return Ans::fail("enclosing_method_class_not_renamed") }
						match (&em.method, &n.encl_method) {
							(None, None) => {}
							(Some(a), Some(b)) => {
								if a.name != b.name { return Ans::fail("enclosing_method_name") }
								if spec_desc(&kept_table, b.desc.as_inner()).as_deref() != Some(a.desc.as_inner()) { return Ans::fail("enclosing_method_desc_not_renamed") }
							}
							_ => return Ans::fail("enclosing_method_method_presence"),
						}
					}
				}
				if !found { return Ans::fail("nested_class_missing") }
			}
			Ans::pass()
		}
		("oracle-cyclic-err", [ns]) => {
			let ns = tr!(nests_from(ns));
			let apply_err = !matches!(safe_apply(empty_mappings(), &ns), Applied::Ok(_));
			let undo_err = !matches!(safe_undo(empty_mappings(), &ns), Applied::Ok(_));
			if cyclic(&ns) {
				if apply_err && undo_err { Ans::pass() } else { Ans::fail("cyclic_table_accepted") }
			} else if undo_err { Ans::fail("acyclic_table_rejected") } else { Ans::pass() }
		}
		("oracle-read-spec", [t]) => {
			let text = tr!(t.as_string());
			let Ok(ns) = NA::read(&text.clone().into_bytes()) else { return Ans::out_of_domain() };
			// the table is the lines in order, a later line for the same class replacing the earlier one in place
			let mut want: IndexMap<String, Vec<String>> = IndexMap::new();
			for line in text.lines() {
				let f: Vec<String> = line.split('\t').map(|x| x.to_owned()).collect();
				if f.len() != 6 { return Ans::fail("accepted_line_without_six_fields") }
				want.insert(f[0].clone(), f);
			}
			if want.len() != ns.all.len() { return Ans::fail("entry_count") }
			for ((k, f), n) in want.iter().zip(ns.all.values()) {
				if n.class_name.as_inner() != &js(k) || n.encl_class_name.as_inner() != &js(&f[1]) || n.inner_name.as_inner() != &js(&f[4]) { return Ans::fail("names") }
				if f[0].is_empty() || f[1].is_empty() || f[4].is_empty() { return Ans::fail("empty_name_accepted") }
				let kind = if f[4].chars().all(|c| c.is_ascii_digit()) { 'a' } else if f[4].starts_with(|c: char| c.is_ascii_digit()) { 'l' } else { 'i' };
				let got = match n.nest_type { NestType::Anonymous => 'a', NestType::Inner => 'i', NestType::Local => 'l' };
				if kind != got { return Ans::fail("kind") }
				match &n.encl_method {
					None => if !(f[2].is_empty() || f[3].is_empty()) { return Ans::fail("method_dropped") },
					Some(m) => if m.name.as_inner() != &js(&f[2]) || m.desc.as_inner() != &js(&f[3]) { return Ans::fail("method") },
				}
				let acc = if let Some(h) = f[5].strip_prefix("0x") { u16::from_str_radix(h, 16).ok() } else if let Some(b) = f[5].strip_prefix("0b") { u16::from_str_radix(b, 2).ok() } else { f[5].parse::<u16>().ok() };
				match acc { Some(a) => if u16::from(n.inner_access) != a & 0x761F { return Ans::fail("access") }, None => return Ans::fail("access_accepted") }
			}
			Ans::pass()
		}
		("oracle-apply-spec", [m, ns]) => {
			let ns = tr!(nests_from(ns)); let m: MM = tr!(from_sexp(m));
			let before = m.clone();
			// an error is "outside the domain" only where the request does not show that nesting must succeed: inside the request-side
			// domain of the round trip (well-formed set, acyclic table, injective translation: no two keys can collide) and under the
			// sufficient condition `spec_apply_must_succeed`, an error or a panic of the implementation is a failure (the model never
			// errs there, so Driver/C14.lean keeps answering from the model)
			let must = spec_undo_apply_domain(&m, &ns) && spec_apply_must_succeed(&m, &ns);
			let Applied::Ok(after) = safe_apply(m, &ns) else { return if must { Ans::fail("apply_err") } else { Ans::out_of_domain() } };
			if after.classes.len() != before.classes.len() { return Ans::fail("class_count") }
			for ((k, c), (k2, c2)) in before.classes.iter().zip(after.classes.iter()) {
				if k2.as_inner() != &spec_name(&ns, k.as_inner()) { return Ans::fail("class_key") }
				let names2: &[Option<ObjClassName>; 2] = (&c2.info.names).into();
				if names2[0].as_ref() != Some(k2) { return Ans::fail("first_name") }
				if c2.javadoc != c.javadoc { return Ans::fail("class_doc") }
				if c2.fields.len() != c.fields.len() || c2.methods.len() != c.methods.len() { return Ans::fail("member_count") }
				// parameters (compared through the codec: the tree types have no `PartialEq`)
				let (sb, sa) = (class_to_sexp(k, c), class_to_sexp(k2, c2));
				let params = |x: &Sexp| -> Vec<Sexp> { x.as_list().ok().and_then(|l| l.get(4).cloned()).and_then(|ms| ms.as_list().ok().map(|ms| ms.iter().filter_map(|m| m.as_list().ok().and_then(|m| m.get(5).cloned())).collect())).unwrap_or_default() };
				if params(&sb) != params(&sa) { return Ans::fail("method_params") }
				for ((_, f), (fk2, f2)) in c.fields.iter().zip(c2.fields.iter()) {
					let n: &[Option<FieldName>; 2] = (&f.info.names).into();
					if spec_desc(&ns, f.info.desc.as_inner()).as_deref() != Some(f2.info.desc.as_inner()) { return Ans::fail("field_desc") }
					if Some(&fk2.name) != n[0].as_ref() || fk2.desc != f2.info.desc { return Ans::fail("field_key") }
					if f2.info.names != f.info.names || f2.javadoc != f.javadoc { return Ans::fail("field_rest") }
				}
				for ((_, f), (fk2, f2)) in c.methods.iter().zip(c2.methods.iter()) {
					let n: &[Option<duke::tree::method::MethodName>; 2] = (&f.info.names).into();
					if spec_desc(&ns, f.info.desc.as_inner()).as_deref() != Some(f2.info.desc.as_inner()) { return Ans::fail("method_desc") }
					if Some(&fk2.name) != n[0].as_ref() || fk2.desc != f2.info.desc { return Ans::fail("method_key") }
					if f2.info.names != f.info.names || f2.javadoc != f.javadoc { return Ans::fail("method_rest") }
				}
			}
			Ans::pass()
		}
		("oracle-map-nests-spec", [ns, m]) => {
			let ns = tr!(nests_from(ns)); let m: MM = tr!(from_sexp(m));
			// request-side sufficient condition for `map_nests` to succeed: the entries are stored under their first names, every class
			// has a second name, every descriptor (members, enclosing methods) is well formed and no translated nest name takes one of the
			// special paths that can fail (`__` split, non-numeric `C_…` target of an anonymous class); every other name is resolved by
			// the identity fallback. There an error or a panic is a failure, not "outside the domain"
			let must = wf_mappings(&m) && spec_apply_must_succeed(&m, &ns);
			let out = match catch_unwind(AssertUnwindSafe(|| dukenest::remap_nests(&ns, &m))) {
				Ok(Ok(out)) => out,
				_ => return if must { Ans::fail("map_nests_err") } else { Ans::out_of_domain() },
			};
			let Ok(rem) = m.remapper_b_first_to_second(NoSuperClassProvider::new()) else { return Ans::fail("remapper") };
			let mut wanted: IndexMap<ObjClassName, Nest> = IndexMap::new();
			for n in ns.all.values() {
				let Ok(mapped) = rem.map_class(&n.class_name) else { return Ans::fail("map_class") };
				let (encl, inner) = match mapped.as_inner().rsplit_once("__") {
					Some((e, i)) => {
						// `q/__In` / `q/Out__/In`: neither half is a class name, such a nest cannot be translated
						if e.ends_with('/') || i.starts_with('/') { return Ans::fail("invalid_split_accepted") }
						(cn(e.to_owned()), cn(i.to_owned()))
					}
					None => {
						let Ok(e) = rem.map_class(&n.encl_class_name) else { return Ans::fail("map_encl") };
						let Some(i) = spec_inner_name(n.class_name.as_inner(), n.inner_name.as_inner(), mapped.as_inner()) else { return Ans::fail("inner_name_but_ok") };
						(e, cn(i))
					}
				};
				let encl_method = match &n.encl_method {
					None => None,
					Some(md) => match rem.map_method_name_and_desc(&n.encl_class_name, md) { Ok(x) => Some(x), Err(_) => return Ans::fail("map_method") },
				};
				wanted.insert(mapped.clone(), Nest { nest_type: n.nest_type, class_name: mapped, encl_class_name: encl, encl_method, inner_name: inner, inner_access: n.inner_access });
			}
			// every nest is kept under its translated name, nothing else is there
			if nests_to(&Nests::<NsB> { phantom: std::marker::PhantomData, all: wanted }) == nests_to(&out) { Ans::pass() } else { Ans::fail("translated_table") }
		}
		_ => Ans::BadOp("unknown op".into()),
	}
}

// ------------------------------------------------------------------------------------------------ generators

#[derive(Clone, Debug)]
struct GNest { kind: char, class: String, encl: String, method: Option<(String, String)>, inner: String, access: usize }

impl GNest {
	fn to_sexp(&self) -> Sexp {
		Sexp::list(vec![Sexp::tag(&self.kind.to_string()), Sexp::str(&self.class), Sexp::str(&self.encl),
			Sexp::opt(self.method.as_ref(), |(n, d)| Sexp::list(vec![Sexp::str(n), Sexp::str(d)])), Sexp::str(&self.inner), Sexp::nat(self.access)])
	}
	fn to_line(&self) -> String {
		let (mn, md) = self.method.clone().unwrap_or_default();
		format!("{}\t{}\t{}\t{}\t{}\t{}", self.class, self.encl, mn, md, self.inner, self.access)
	}
}

#[derive(Clone, Debug)]
struct GClass { name: String, version: usize, public: bool, sup: Option<String>, ifaces: Vec<String>, methods: Vec<(String, String)>,
	ics: Option<Vec<(String, Option<String>, Option<String>, usize)>>, em: Option<(String, Option<(String, String)>)> }

impl GClass {
	fn new(name: &str, version: usize) -> GClass {
		GClass { name: name.to_owned(), version, public: false, sup: Some("java/lang/Object".into()), ifaces: vec![], methods: vec![], ics: None, em: None }
	}
	fn to_sexp(&self) -> Sexp {
		let pair = |(n, d): &(String, String)| Sexp::list(vec![Sexp::str(n), Sexp::str(d)]);
		Sexp::list(vec![Sexp::str(&self.name), Sexp::nat(self.version), Sexp::bool(self.public), Sexp::opt(self.sup.as_ref(), |s| Sexp::str(s)),
			Sexp::list(self.ifaces.iter().map(|s| Sexp::str(s)).collect()), Sexp::list(self.methods.iter().map(pair).collect()),
			Sexp::opt(self.ics.as_ref(), |v| Sexp::list(v.iter().map(|(i, o, n, f)| Sexp::list(vec![Sexp::str(i),
				Sexp::opt(o.as_ref(), |s| Sexp::str(s)), Sexp::opt(n.as_ref(), |s| Sexp::str(s)), Sexp::nat(*f)])).collect())),
			Sexp::opt(self.em.as_ref(), |(c, m)| Sexp::list(vec![Sexp::str(c), Sexp::opt(m.as_ref(), pair)]))])
	}
}

enum GEntry { Dir(String), Other(String), Class(String, GClass) }
fn jar_sexp(es: &[GEntry]) -> Sexp {
	Sexp::list(es.iter().map(|e| match e {
		GEntry::Dir(n) => Sexp::list(vec![Sexp::str(n), Sexp::tag("d")]),
		GEntry::Other(n) => Sexp::list(vec![Sexp::str(n), Sexp::tag("o")]),
		GEntry::Class(n, c) => Sexp::list(vec![Sexp::str(n), Sexp::tag("c"), c.to_sexp()]),
	}).collect())
}

const PKGS: &[&str] = &["", "", "p/", "net/mc/"];
const SIMPLE: &[&str] = &["A", "B", "C", "Foo", "Bar", "x", "C_1", "C_22", "C_x", "Q9", "é", "\u{1f600}z"];
const INNER: &[&str] = &["In", "Foo", "Bar", "x", "B", "C_1", "Builder"];
const ACCESS: &[usize] = &[0, 1, 8, 9, 0x1a, 0x4019, 0x1000, 0x761f];

struct Scene { nests: Vec<GNest>, jar: Vec<GEntry>, tops: Vec<String>, all_classes: Vec<String> }

struct SceneCfg { max_tops: usize, max_nests: usize, weird: bool, all_apply: bool, underscores: bool }

/// a nests table with a matching jar. `all_apply`: every nest passes the filter (the domain of `names_agree`).
fn gen_scene(r: &mut Rng, cfg: &SceneCfg, out: &mut Out) -> Scene {
	let mut tops: Vec<String> = Vec::new();
	for _ in 0..r.range(1, cfg.max_tops) {
		let mut n = format!("{}{}", r.pick(PKGS), r.pick(SIMPLE));
		if cfg.underscores && r.chance(1, 4) { n = format!("{n}__{}", r.pick(INNER)); }
		if !tops.contains(&n) { tops.push(n); }
	}
	let mut classes = tops.clone(); // candidates for enclosing classes
	let mut nests: Vec<GNest> = Vec::new();
	let mut depth: IndexMap<String, usize> = IndexMap::new();
	let wanted = if cfg.max_nests == 0 || r.chance(1, 10) { 0 } else { r.range(1, cfg.max_nests) };
	for i in 0..wanted * 2 {
		if nests.len() >= wanted { break; }
		// extend the most recent chain half of the time, so that depths 3 and 4 are common
		let encl = if cfg.weird && r.chance(1, 12) { format!("{}Gone{}", r.pick(PKGS), r.below(3)) }
			else if r.chance(1, 2) { classes[classes.len() - 1].clone() } else { r.pick(&classes).clone() };
		let d = depth.get(&encl).copied().unwrap_or(0) + 1;
		if d > 4 { continue; }
		let kind = *r.pick(&['a', 'i', 'i', 'l']);
		let simple = (*r.pick(INNER)).to_owned();
		let mut inner = match kind {
			'a' => if cfg.weird && r.chance(1, 6) { (*r.pick(&["0", "00", "007", "2147483647", "2147483648", "99999999999", "+5", "-3"])).to_owned() } else { r.range(1, 12).to_string() },
			'l' => format!("{}{}", r.range(1, 3), simple),
			_ => simple.clone(),
		};
		// derived name (class name ends with the inner name) or custom / obfuscated
		let class = match r.below(4) {
			0 => format!("{encl}${inner}"),
			1 => format!("{encl}${simple}"),
			2 => format!("{}C_{}", r.pick(PKGS), 100 + i),
			_ => format!("{}{}{}", r.pick(PKGS), r.pick(SIMPLE), i),
		};
		let class = if cfg.underscores && r.chance(1, 5) { format!("{class}__{}", r.pick(INNER)) } else { class };
		if classes.contains(&class) || class == encl { continue; }
		let mut kind = kind;
		if cfg.weird && r.chance(1, 10) { kind = *r.pick(&['a', 'i', 'l']); out.stats.hit("nest:kind-mismatch"); }
		if cfg.weird && r.chance(1, 25) { inner = (*r.pick(&["1x/y", "In/ner", "12"])).to_owned(); }
		let method = if r.chance(1, 2) || kind == 'l' {
			let all: Vec<String> = classes.clone();
			Some(((*r.pick(&["m", "run", "<init>", "lambda$0"])).to_owned(), method_desc(r, &all)))
		} else { None };
		out.stats.hit(&format!("nest:kind-{kind}"));
		out.stats.hit(&format!("nest:depth-{d}"));
		depth.insert(class.clone(), d);
		classes.push(class.clone());
		nests.push(GNest { kind, class, encl, method, inner, access: *r.pick(ACCESS) });
	}
	// the jar
	let mut jar_classes: Vec<GClass> = Vec::new();
	let present = |r: &mut Rng, weird: bool, pct: usize| !weird || r.chance(pct, 100);
	for t in &tops {
		if cfg.all_apply || present(r, cfg.weird, 80) { jar_classes.push(GClass::new(t, r.range(4, 12))); } else { out.stats.hit("jar:encl-missing"); }
	}
	for n in &nests {
		if cfg.all_apply || present(r, cfg.weird, 85) { jar_classes.push(GClass::new(&n.class, r.range(4, 12))); } else { out.stats.hit("jar:nest-class-missing"); }
	}
	if r.chance(1, 3) { jar_classes.push(GClass::new("zz/Extra", r.range(0, 22))); }
	// enclosing methods: present for locals, absent for inners (when all must apply), random otherwise
	for n in &nests {
		let Some(m) = &n.method else { continue };
		let want = match (cfg.all_apply, n.kind) { (true, 'l') => true, (true, 'i') => false, _ => r.chance(1, 2) };
		if want {
			if let Some(c) = jar_classes.iter_mut().find(|c| c.name == n.encl) {
				if !c.methods.contains(m) { c.methods.push(m.clone()); }
			}
		}
	}
	// references to nested classes so that renames are visible; occasional pre-existing attributes
	let names: Vec<String> = classes.clone();
	for c in jar_classes.iter_mut() {
		if r.chance(1, 3) { c.sup = Some(r.pick(&names).clone()); }
		for _ in 0..r.below(3) { c.ifaces.push(r.pick(&names).clone()); }
		if r.chance(1, 4) { c.methods.push(("ref".into(), method_desc(r, &names))); }
		c.public = r.chance(1, 2);
		if cfg.weird && r.chance(1, 10) {
			c.ics = Some(vec![(r.pick(&names).clone(), if r.chance(1, 2) { Some(r.pick(&names).clone()) } else { None }, Some("Old".into()), 8)]);
			out.stats.hit("jar:preexisting-innerclasses");
		}
		if cfg.weird && r.chance(1, 15) { c.em = Some((r.pick(&names).clone(), if r.chance(1, 2) { Some(("m".into(), method_desc(r, &names))) } else { None })); }
	}
	if cfg.all_apply {
		// anonymous nests need a positive number, local nests need their method, inner nests must not have it: repair
		for n in nests.iter_mut() {
			if n.kind == 'a' && n.inner.parse::<i32>().map_or(true, |x| x < 1) { n.inner = "1".into(); }
		}
	}
	r.shuffle(&mut jar_classes);
	let mut jar: Vec<GEntry> = jar_classes.into_iter().map(|c| GEntry::Class(format!("{}.class", c.name), c)).collect();
	if r.chance(1, 3) { jar.insert(r.below(jar.len() + 1), GEntry::Other("META-INF/MANIFEST.MF".into())); }
	if r.chance(1, 4) { jar.insert(r.below(jar.len() + 1), GEntry::Dir("p/".into())); }
	if cfg.weird && r.chance(1, 10) { jar.insert(r.below(jar.len() + 1), GEntry::Other("p/A$In.class".into())); }
	// table order matters for the side effects of the filter
	match r.below(3) { 0 => {}, 1 => nests.reverse(), _ => r.shuffle(&mut nests) }
	if cfg.weird && r.chance(1, 12) && nests.len() >= 2 {
		let a = nests[0].class.clone(); let b = nests[1].class.clone();
		nests[0].encl = b; nests[1].encl = a;
		out.stats.hit("nest:cycle");
	}
	out.stats.hit(&format!("nests:{}", nests.len().min(6)));
	Scene { nests, jar, tops, all_classes: classes }
}

fn nests_sexp(ns: &[GNest]) -> Sexp { Sexp::list(ns.iter().map(|n| n.to_sexp()).collect()) }

/// two-namespace mappings over the classes of a scene
fn gen_scene_mappings(r: &mut Rng, sc: &Scene, absent_dst: bool, out: &mut Out) -> Sexp {
	let mut classes: Vec<String> = sc.all_classes.iter().filter(|_| r.chance(3, 4)).cloned().collect();
	if r.chance(1, 3) { classes.push("un/related".into()); }
	r.shuffle(&mut classes);
	let mut used_dst: Vec<String> = Vec::new();
	let mut items = Vec::new();
	for (i, c) in classes.iter().enumerate() {
		let style = r.below(6);
		let dst = match style {
			0 => format!("net/minecraft/unmapped/C_{}", 1000 + i),
			1 => format!("q/M{i}"),
			2 => format!("q/Out{}__In{}", r.below(3), i),
			3 => format!("M{i}__{}", r.range(1, 9)),
			4 => format!("net/minecraft/unmapped/C_{}x", i),
			_ => format!("{}N{i}", r.pick(PKGS)),
		};
		out.stats.hit(&format!("map:dst-style-{style}"));
		let dst = if used_dst.contains(&dst) { format!("{dst}_{i}") } else { dst };
		used_dst.push(dst.clone());
		let dst_s = if absent_dst && r.chance(1, 12) { out.stats.hit("map:dst-absent"); Sexp::list(vec![]) } else { Sexp::list(vec![Sexp::str(&dst)]) };
		let mut fields = Vec::new();
		for j in 0..r.below(3) {
			let d = field_desc(r, &sc.all_classes, 0);
			fields.push(Sexp::list(vec![Sexp::str(&format!("f{j}")), Sexp::str(&d), Sexp::str(&d),
				Sexp::list(vec![Sexp::list(vec![Sexp::str(&format!("f{j}"))]), Sexp::list(vec![Sexp::str(&format!("fld{j}"))])]), Sexp::list(vec![])]));
		}
		let mut methods: Vec<(String, String)> = Vec::new();
		for n in &sc.nests {
			if n.encl == *c { if let Some(m) = &n.method { if r.chance(2, 3) && !methods.contains(m) { methods.push(m.clone()); } } }
		}
		if r.chance(1, 3) { let m = ("other".to_owned(), method_desc(r, &sc.all_classes)); if !methods.contains(&m) { methods.push(m); } }
		let methods: Vec<Sexp> = methods.iter().enumerate().map(|(j, (n, d))| Sexp::list(vec![Sexp::str(n), Sexp::str(d), Sexp::str(d),
			Sexp::list(vec![Sexp::list(vec![Sexp::str(n)]), if r.chance(1, 6) { Sexp::list(vec![]) } else { Sexp::list(vec![Sexp::str(&format!("mapped{j}"))]) }]),
			Sexp::list(vec![]), Sexp::list(vec![])])).collect();
		items.push(Sexp::list(vec![Sexp::str(c), Sexp::list(vec![Sexp::list(vec![Sexp::str(c)]), dst_s]), Sexp::list(vec![]), Sexp::list(fields), Sexp::list(methods)]));
	}
	Sexp::list(vec![Sexp::list(vec![Sexp::str("official"), Sexp::str("named")]), Sexp::list(vec![]), Sexp::list(items)])
}

/// the generator's own idea of the nested name (used only to build inputs for `undo-nests`)
fn gen_translate(ns: &[GNest], c: &str, fuel: usize) -> String {
	if fuel == 0 { return c.to_owned(); }
	match ns.iter().find(|n| n.class == c) {
		Some(n) => format!("{}${}", gen_translate(ns, &n.encl, fuel - 1), n.inner),
		None => c.to_owned(),
	}
}

fn gen_text(r: &mut Rng, out: &mut Out) -> String {
	let cfg = SceneCfg { max_tops: 2, max_nests: 4, weird: false, all_apply: false, underscores: false };
	let sc = gen_scene(r, &cfg, out);
	let mut lines: Vec<String> = sc.nests.iter().map(|n| n.to_line()).collect();
	if lines.is_empty() || r.chance(1, 3) { lines.push("a\tb\t\t\t1\t0".into()); }
	let good_access = ["0", "8", "0x1a", "0b1010", "0x761F", "65535", "+9", "0x+1f", "0b+11", "007"];
	let bad_access = ["", "0x", "0b", "0xZZ", "65536", "-1", "+", "0b102", "0x10000", "1 ", " 1", "0X1a", "1_0"];
	let mut broken = false;
	for _ in 0..*r.pick(&[0usize, 0, 0, 1, 1, 2]) {
		let i = r.below(lines.len());
		let mut f: Vec<String> = lines[i].split('\t').map(|x| x.to_owned()).collect();
		let m = r.below(14);
		out.stats.hit(&format!("text:mutation-{m}"));
		let set = |f: &mut Vec<String>, k: usize, v: String| { if let Some(x) = f.get_mut(k) { *x = v; } };
		match m {
			0 => { f.pop(); broken = true; }
			1 => { f.push("x".into()); broken = true; }
			2 => { set(&mut f, 0, String::new()); broken = true; }
			3 => { set(&mut f, 1, String::new()); broken = true; }
			4 => { set(&mut f, 4, String::new()); broken = true; }
			5 => { set(&mut f, 0, (*r.pick(&["a//b", "[x", "a.b", "a;b", "/a", "a/"])).to_owned()); broken = true; }
			6 => { set(&mut f, 1, (*r.pick(&["a//b", "[x", "a.b"])).to_owned()); broken = true; }
			7 => { set(&mut f, 2, (*r.pick(&["<x>", "a.b", "a/b", "<init>", "<clinit>", "ok"])).to_owned()); if f.get(3).is_some_and(|x| x.is_empty()) { set(&mut f, 3, "()V".into()); } }
			8 => { set(&mut f, 3, String::new()); }
			9 => { set(&mut f, 2, String::new()); }
			10 => { set(&mut f, 5, (*r.pick(&good_access)).to_owned()); }
			11 => { set(&mut f, 5, (*r.pick(&bad_access)).to_owned()); broken = true; }
			12 => { set(&mut f, 4, (*r.pick(&["12", "0", "1a", "a1", "1/2", "a/b", "1.", "[1"])).to_owned()); }
			_ => { let dup = lines[r.below(lines.len())].clone(); lines.push(dup); }
		}
		lines[i] = f.join("\t");
	}
	out.stats.hit(if broken { "text:malformed" } else { "text:wellformed-or-subtle" });
	let eol = *r.pick(&["\n", "\n", "\r\n"]);
	let mut text = lines.join(eol);
	match r.below(12) { 0 | 1 => {}, 2 => text.push_str("\r"), 3 => { text.push_str(eol); text.push_str(eol); } _ => text.push_str(eol) }
	if r.chance(1, 25) { text = format!("\n{text}"); }
	text
}

fn gen(r: &mut Rng, tier: Tier, out: &mut Out) {
	let rounds = if tier == Tier::Thorough { 20000 } else { 1000 };
	for i in 0..rounds {
		// 1. jar side on arbitrary scenes
		let cfg = SceneCfg { max_tops: r.range(1, 3), max_nests: r.range(0, 6), weird: true, all_apply: false, underscores: r.chance(1, 6) };
		let sc = gen_scene(r, &cfg, out);
		let ns = nests_sexp(&sc.nests);
		let jar = jar_sexp(&sc.jar);
		out.op("nest-jar", &[Sexp::bool(i % 4 != 0), ns.clone(), jar.clone()]);
		if !sc.all_classes.is_empty() {
			let c = r.pick(&sc.all_classes).clone();
			out.op("nest-name-jar", &[ns.clone(), jar.clone(), Sexp::str(&c)]);
			out.op("nest-name-map", &[ns.clone(), Sexp::str(&c)]);
		}
		out.op("oracle-names-agree", &[ns.clone(), jar.clone()]);
		out.op("oracle-nest-jar-spec", &[ns.clone(), jar.clone()]);
		out.op("oracle-remap-names", &[ns.clone(), jar.clone()]);
		out.op("oracle-remap-attrs", &[ns.clone(), jar.clone()]);
		out.op("oracle-cyclic-err", &[ns.clone()]);
		// 2. scenes in which every nest applies: the domain of names_agree
		let cfg2 = SceneCfg { max_tops: r.range(1, 3), max_nests: r.range(1, 6), weird: false, all_apply: true, underscores: false };
		let sc2 = gen_scene(r, &cfg2, out);
		let ns2 = nests_sexp(&sc2.nests);
		out.op("oracle-names-agree", &[ns2.clone(), jar_sexp(&sc2.jar)]);
		if i % 3 == 0 { out.op("nest-jar", &[Sexp::bool(true), ns2.clone(), jar_sexp(&sc2.jar)]); }
		if i % 3 == 1 { out.op("oracle-nest-jar-spec", &[ns2.clone(), jar_sexp(&sc2.jar)]); }
		out.op("oracle-remap-names", &[ns2.clone(), jar_sexp(&sc2.jar)]);
		out.op("oracle-remap-attrs", &[ns2.clone(), jar_sexp(&sc2.jar)]);
		// 3. mappings side
		let cfg3 = SceneCfg { max_tops: r.range(1, 3), max_nests: r.range(0, 5), weird: r.chance(1, 4), all_apply: false, underscores: r.chance(1, 5) };
		let sc3 = gen_scene(r, &cfg3, out);
		let ns3 = nests_sexp(&sc3.nests);
		let absent_dst = r.chance(1, 4);
		let m3 = gen_scene_mappings(r, &sc3, absent_dst, out);
		out.op("map-nests", &[ns3.clone(), m3.clone()]);
		out.op("apply-nests", &[m3.clone(), ns3.clone()]);
		out.op("oracle-undo-apply", &[m3.clone(), ns3.clone()]);
		out.op("oracle-apply-spec", &[m3.clone(), ns3.clone()]);
		out.op("oracle-map-nests-spec", &[ns3.clone(), m3.clone()]);
		out.op("oracle-cyclic-err", &[ns3.clone()]);
		// undo on a set whose keys are already nested names (built with the generator's own translation), and on raw sets
		let fuel = sc3.nests.len() + 1;
		let mut nested = Scene { nests: sc3.nests.clone(), jar: vec![], tops: sc3.tops.clone(),
			all_classes: sc3.all_classes.iter().map(|c| gen_translate(&sc3.nests, c, fuel)).collect() };
		nested.all_classes.dedup();
		let mut seen: Vec<String> = Vec::new();
		nested.all_classes.retain(|c| if seen.contains(c) { false } else { seen.push(c.clone()); true });
		let m4 = gen_scene_mappings(r, &nested, false, out);
		out.op("undo-nests", &[m4, ns3.clone()]);
		if i % 4 == 0 { out.op("undo-nests", &[m3, ns3]); }
		// 4. text format
		let t = gen_text(r, out);
		out.op("nests-read", &[Sexp::str(&t)]);
		out.op("oracle-read-spec", &[Sexp::str(&t)]);
	}
	// exhaustive small scope 1: the truth table of the filter for one nest
	for kind in ['a', 'i', 'l'] {
		for inner in ["In", "1In", "7", "0", "-1", "2147483648"] {
			for bits in 0..16u32 {
				let (class_in, encl_in, method_given, method_there) = (bits & 1 != 0, bits & 2 != 0, bits & 4 != 0, bits & 8 != 0);
				let m = ("m".to_owned(), "(I)V".to_owned());
				let nest = GNest { kind, class: "X".into(), encl: "p/Out".into(), method: if method_given { Some(m.clone()) } else { None }, inner: inner.into(), access: 9 };
				let mut jar = vec![GEntry::Class("zz/Other.class".into(), GClass::new("zz/Other", 9))];
				if class_in { jar.push(GEntry::Class("X.class".into(), GClass::new("X", 7))); }
				if encl_in { let mut c = GClass::new("p/Out", 8); if method_there { c.methods.push(m.clone()); } else { c.methods.push(("m".into(), "()V".into())); } jar.insert(0, GEntry::Class("p/Out.class".into(), c)); }
				out.stats.hit("exhaustive:filter-one-nest");
				out.op("nest-jar", &[Sexp::bool(bits & 1 == 0), nests_sexp(&[nest.clone()]), jar_sexp(&jar)]);
				out.op("oracle-remap-names", &[nests_sexp(&[nest.clone()]), jar_sexp(&jar)]);
				out.op("oracle-remap-attrs", &[nests_sexp(&[nest.clone()]), jar_sexp(&jar)]);
				out.op("oracle-nest-jar-spec", &[nests_sexp(&[nest]), jar_sexp(&jar)]);
			}
		}
	}
	// exhaustive small scope 2: two nests X in Y, Y in Z; which of X, Y, Z are in the jar; both table orders
	for (kx, ix) in [('i', "In"), ('a', "1"), ('l', "1Loc")] {
		for (ky, iy) in [('i', "Mid"), ('a', "2")] {
			for present in 0..8u32 {
				for order in 0..2 {
					let m = ("run".to_owned(), "()V".to_owned());
					let nx = GNest { kind: kx, class: "X".into(), encl: "Y".into(), method: if kx == 'l' { Some(m.clone()) } else { None }, inner: ix.into(), access: 0 };
					let ny = GNest { kind: ky, class: "Y".into(), encl: "Z".into(), method: None, inner: iy.into(), access: 8 };
					let mut jar = vec![GEntry::Class("q/Keep.class".into(), GClass::new("q/Keep", 11))];
					for (bit, name) in [(1, "X"), (2, "Y"), (4, "Z")] {
						if present & bit != 0 { let mut c = GClass::new(name, 8); if name == "Y" { c.methods.push(m.clone()); } jar.push(GEntry::Class(format!("{name}.class"), c)); }
					}
					let ns = if order == 0 { vec![nx, ny] } else { vec![ny, nx] };
					out.stats.hit("exhaustive:filter-two-nests");
					out.op("nest-jar", &[Sexp::bool(order == 0), nests_sexp(&ns), jar_sexp(&jar)]);
					out.op("oracle-nest-jar-spec", &[nests_sexp(&ns), jar_sexp(&jar)]);
					out.op("oracle-names-agree", &[nests_sexp(&ns), jar_sexp(&jar)]);
					out.op("oracle-remap-names", &[nests_sexp(&ns), jar_sexp(&jar)]);
					out.op("oracle-remap-attrs", &[nests_sexp(&ns), jar_sexp(&jar)]);
				}
			}
		}
	}
	// exhaustive small scope 2b: a leaf whose enclosing class is itself nested (depth 2 and 3), every kind of leaf with and
	// without an enclosing method, renamed (remap = true): the synthesised attributes must carry the NEW names
	for (kl, il) in [('a', "1"), ('l', "1Loc"), ('i', "Leaf")] {
		for with_method in [false, true] {
			for (km, im) in [('i', "Mid"), ('a', "3")] {
				for depth3 in [false, true] {
					let m = ("run".to_owned(), "(LA;)LB;".to_owned());
					if kl == 'l' && !with_method { continue; }
					let mut ns = vec![
						GNest { kind: km, class: "A".into(), encl: "p/Top".into(), method: None, inner: im.into(), access: 8 },
						GNest { kind: kl, class: "B".into(), encl: "A".into(), method: if with_method && kl != 'i' { Some(m.clone()) } else { None }, inner: il.into(), access: 0 },
					];
					let mut jar = vec![GEntry::Class("p/Top.class".into(), GClass::new("p/Top", 9))];
					let mut a = GClass::new("A", 8); if kl == 'l' { a.methods.push(m.clone()); }
					jar.push(GEntry::Class("A.class".into(), a));
					jar.push(GEntry::Class("B.class".into(), GClass::new("B", 8)));
					if depth3 {
						ns.push(GNest { kind: 'a', class: "C".into(), encl: "B".into(), method: None, inner: "2".into(), access: 0 });
						jar.push(GEntry::Class("C.class".into(), GClass::new("C", 8)));
					}
					out.stats.hit("exhaustive:nested-enclosing-remap");
					out.op("nest-jar", &[Sexp::bool(true), nests_sexp(&ns), jar_sexp(&jar)]);
					out.op("oracle-remap-attrs", &[nests_sexp(&ns), jar_sexp(&jar)]);
					out.op("oracle-remap-names", &[nests_sexp(&ns), jar_sexp(&jar)]);
				}
			}
		}
	}
	// exhaustive small scope 3: every table of two nests over the classes A, B, C (self-replacing keys and cycles included)
	// against one mapping set that mentions all three
	{
		let uni = ["A", "B", "C"];
		let fld = |j: usize, d: &str| Sexp::list(vec![Sexp::str(&format!("f{j}")), Sexp::str(d), Sexp::str(d),
			Sexp::list(vec![Sexp::list(vec![Sexp::str(&format!("f{j}"))]), Sexp::list(vec![])]), Sexp::list(vec![])]);
		let items: Vec<Sexp> = uni.iter().enumerate().map(|(i, c)| Sexp::list(vec![Sexp::str(c),
			Sexp::list(vec![Sexp::list(vec![Sexp::str(c)]), Sexp::list(vec![Sexp::str(&format!("t/T{i}"))])]), Sexp::list(vec![]),
			Sexp::list(vec![fld(0, &format!("L{};", uni[(i + 1) % 3])), fld(1, &format!("[[L{};", uni[(i + 2) % 3]))]), Sexp::list(vec![])])).collect();
		let m = Sexp::list(vec![Sexp::list(vec![Sexp::str("official"), Sexp::str("named")]), Sexp::list(vec![]), Sexp::list(items)]);
		for c1 in uni { for e1 in uni { for c2 in uni { for e2 in uni {
			if c1 == e1 || c2 == e2 { continue; }
			for kinds in [('i', "In", 'i', "Jn"), ('a', "1", 'i', "Jn"), ('i', "In", 'a', "2")] {
				let ns = vec![
					GNest { kind: kinds.0, class: c1.into(), encl: e1.into(), method: None, inner: kinds.1.into(), access: 1 },
					GNest { kind: kinds.2, class: c2.into(), encl: e2.into(), method: None, inner: kinds.3.into(), access: 8 },
				];
				let nss = nests_sexp(&ns);
				out.stats.hit("exhaustive:two-nests-three-classes");
				out.op("apply-nests", &[m.clone(), nss.clone()]);
				out.op("oracle-apply-spec", &[m.clone(), nss.clone()]);
				out.op("oracle-undo-apply", &[m.clone(), nss.clone()]);
				out.op("nest-name-map", &[nss.clone(), Sexp::str(c1)]);
				out.op("map-nests", &[nss.clone(), m.clone()]);
				out.op("undo-nests", &[m.clone(), nss.clone()]);
				out.op("oracle-cyclic-err", &[nss.clone()]);
			}
		} } } }
	}
	// exhaustive small scope 4: the table is ONE chain that uses every row (length 1..6: the deepest recursion a table of that
	// size allows, one level below the cycle guard), in three table orders, every nest applicable
	for len in 1..=6usize {
		for order in 0..3 {
			for anon_leaf in [false, true] {
				let name = |i: usize| if i == len { "p/Top".to_owned() } else { format!("c/K{i}") };
				let mut ns: Vec<GNest> = (0..len).map(|i| GNest { kind: if i == 0 && anon_leaf { 'a' } else { 'i' }, class: name(i), encl: name(i + 1), method: None,
					inner: if i == 0 && anon_leaf { "1".into() } else { format!("I{i}") }, access: 8 }).collect();
				match order { 0 => {}, 1 => ns.reverse(), _ => ns.rotate_left(len / 2) }
				let jar: Vec<GEntry> = (0..=len).map(|i| GEntry::Class(format!("{}.class", name(i)), GClass::new(&name(i), 8))).collect();
				let fld = |j: usize, d: &str| Sexp::list(vec![Sexp::str(&format!("f{j}")), Sexp::str(d), Sexp::str(d),
					Sexp::list(vec![Sexp::list(vec![Sexp::str(&format!("f{j}"))]), Sexp::list(vec![])]), Sexp::list(vec![])]);
				let items: Vec<Sexp> = (0..=len).map(|i| Sexp::list(vec![Sexp::str(&name(i)),
					Sexp::list(vec![Sexp::list(vec![Sexp::str(&name(i))]), Sexp::list(vec![Sexp::str(&format!("t/T{i}"))])]), Sexp::list(vec![]),
					Sexp::list(vec![fld(0, &format!("L{};", name(0))), fld(1, &format!("[L{};", name(len / 2)))]), Sexp::list(vec![])])).collect();
				let m = Sexp::list(vec![Sexp::list(vec![Sexp::str("official"), Sexp::str("named")]), Sexp::list(vec![]), Sexp::list(items)]);
				let (nss, js) = (nests_sexp(&ns), jar_sexp(&jar));
				out.stats.hit("exhaustive:whole-table-chain");
				for i in [0, len / 2, len] {
					out.op("nest-name-map", &[nss.clone(), Sexp::str(&name(i))]);
					out.op("nest-name-jar", &[nss.clone(), js.clone(), Sexp::str(&name(i))]);
				}
				out.op("oracle-names-agree", &[nss.clone(), js.clone()]);
				out.op("oracle-cyclic-err", &[nss.clone()]);
				out.op("nest-jar", &[Sexp::bool(true), nss.clone(), js.clone()]);
				out.op("oracle-remap-names", &[nss.clone(), js.clone()]);
				out.op("oracle-remap-attrs", &[nss.clone(), js.clone()]);
				out.op("apply-nests", &[m.clone(), nss.clone()]);
				out.op("oracle-apply-spec", &[m.clone(), nss.clone()]);
				out.op("oracle-undo-apply", &[m.clone(), nss.clone()]);
				out.op("map-nests", &[nss.clone(), m.clone()]);
				out.op("oracle-map-nests-spec", &[nss.clone(), m.clone()]);
			}
		}
	}
	// exhaustive small scope 5: where the last `__` of a translated (or listed) class name falls: plain split, an inner half that
	// starts with `/`, an enclosing half that ends with `/`, empty halves, several `__`
	for target in ["q/Out__In", "q/Out__/In", "q/__In", "q/a__b__/c", "q/a__/b__c", "Out__p/In", "q/Out__", "__In", "q/Out___In", "q/Out_In"] {
		for (kind, inner) in [('i', "In"), ('a', "3"), ('l', "1In")] {
			for two in [false, true] {
				let mut ns = vec![GNest { kind, class: "A".into(), encl: "B".into(), method: if kind == 'l' { Some(("m".into(), "()V".into())) } else { None }, inner: inner.into(), access: 1 }];
				if two { ns.push(GNest { kind: 'i', class: "B".into(), encl: "C".into(), method: None, inner: "Mid".into(), access: 0 }); }
				let item = |c: &str, d: &str| Sexp::list(vec![Sexp::str(c), Sexp::list(vec![Sexp::list(vec![Sexp::str(c)]), Sexp::list(vec![Sexp::str(d)])]),
					Sexp::list(vec![]), Sexp::list(vec![]), Sexp::list(vec![])]);
				let m = Sexp::list(vec![Sexp::list(vec![Sexp::str("official"), Sexp::str("named")]), Sexp::list(vec![]),
					Sexp::list(vec![item("A", target), item("B", "q/B"), item("C", "q/C")])]);
				let nss = nests_sexp(&ns);
				out.stats.hit("exhaustive:last-double-underscore");
				out.op("map-nests", &[nss.clone(), m.clone()]);
				out.op("oracle-map-nests-spec", &[nss.clone(), m.clone()]);
				out.op("apply-nests", &[m.clone(), nss.clone()]);
				out.op("oracle-apply-spec", &[m.clone(), nss.clone()]);
				out.op("oracle-undo-apply", &[m.clone(), nss.clone()]);
				// the same name as the listed class itself: translated through a set that does not mention it
				let mut ns2 = ns.clone(); ns2[0].class = target.into();
				let nss2 = nests_sexp(&ns2);
				out.op("nest-name-map", &[nss2.clone(), Sexp::str(target)]);
				out.op("map-nests", &[nss2.clone(), m.clone()]);
				out.op("oracle-map-nests-spec", &[nss2.clone(), m.clone()]);
				let jar = vec![GEntry::Class(format!("{target}.class"), GClass::new(target, 8)), { let mut b = GClass::new("B", 8); b.methods.push(("m".into(), "()V".into())); GEntry::Class("B.class".into(), b) },
					GEntry::Class("C.class".into(), GClass::new("C", 8))];
				out.op("oracle-names-agree", &[nss2, jar_sexp(&jar)]);
			}
		}
	}
	// fixed edge cases
	for t in ["", "\n", "a\tb\t\t\t1\t0", "a\tb\t\t\t1\t0\r", "a\tb\t\t\t1\t0\r\n", "a\tb\t\t\t1\t0\n\n", "a\tb\tm\t()V\t1Foo\t0x1a\na\tc\t\t\tFoo\t1\n",
		"a\tb\tm\t\tFoo\t1\n", "a\tb\t\t()V\tFoo\t1\n", "a\tb\t<init>\t(\tFoo\t1\n", "a\tb\t\t\t١\t1\n"] {
		out.op("nests-read", &[Sexp::str(t)]);
		out.op("oracle-read-spec", &[Sexp::str(t)]);
	}
}

fn main() { main_for(&gen, &exec) }
